#!/usr/bin/env python3
"""seeded_regression.py [jobs] [ids...]: re-run every kept change in /verif/seeded against the check named in its
meta.json (found_by / our_checks.detected_by, else its property) in scratch worktrees; one line per change in
wip/seeded-regression.log. Changes of the same check run one after the other (they share an evidence file)."""
import json, os, re, subprocess, sys
from concurrent.futures import ThreadPoolExecutor
jobs = int(sys.argv[1]) if len(sys.argv) > 1 else 3
only = set(sys.argv[2:])
root = '/verif/seeded'
groups = {}
for d in sorted(os.listdir(root)):
    mp = os.path.join(root, d, 'meta.json')
    if not os.path.exists(mp) or not os.path.exists(os.path.join(root, d, 'patch.diff')):
        continue
    m = json.load(open(mp))
    fb = m.get('found_by') or (m.get('our_checks') or {}).get('detected_by') or ''
    mm = re.match(r'\s*(?:\./check\s+)?(C\d\d)\b', fb)
    cid = mm.group(1) if mm else (m.get('property') or m.get('breaks_property') or d[:3])
    if only and cid not in only and d[:3] not in only:
        continue
    groups.setdefault(cid, []).append(d)
def run_group(item):
    cid, ds = item
    out = []
    for d in ds:
        r = subprocess.run(['/verif/wip/runmutant.sh', cid, os.path.join(root, d, 'patch.diff'), 'quick'], capture_output=True, text=True)
        lines = r.stdout.splitlines()
        head = next((l for l in lines if l.startswith('==')), '== ?')
        rc = re.search(r'rc=(\d+)', head)
        viol = next((l.strip() for l in lines if 'VERIF-VIOLATION' in l), '')
        key = re.search(r'key=(\S+)', viol)
        verdict = 'CAUGHT' if rc and rc.group(1) == '1' else ('MISSED' if rc and rc.group(1) == '0' else 'INCONCLUSIVE')
        line = '%s by=%s %s %s' % (d, cid, verdict, key.group(1) if key else '')
        out.append(line)
        with open('/verif/wip/seeded-regression.log', 'a') as f:
            f.write(line + '\n')
    return out
with ThreadPoolExecutor(max_workers=jobs) as ex:
    for res in ex.map(run_group, sorted(groups.items())):
        for l in res:
            print(l, flush=True)
