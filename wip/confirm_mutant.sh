#!/bin/bash
# usage: confirm_mutant.sh <ID> <n: "" or 2>
# Confirms an independent change: applies to /repo HEAD, builds, baseline green, demo FAILS with it and PASSES without it.
ID=$1; N=$2; SRC=${MUTROOT:-/tmp/mut}/$ID
WT=/tmp/confirm/$ID$N-$$; mkdir -p /tmp/confirm
git -C /repo worktree add --detach $WT HEAD -q || exit 3
DEMO=$SRC/demo${N}_test.go
LINE=$(grep -h "gotest.sh" $SRC/RUN*.txt | grep "demo${N}_test.go" | head -1)
PKG=$(echo "$LINE" | grep -o "0chain.net/[A-Za-z0-9_/]*" | head -1)
RUN=$(grep -o "^func Test[A-Za-z0-9_]*" $DEMO | sed 's/func //' | paste -sd'|')
res="$ID$N pkg=$PKG"
TEST_TIMEOUT=900s /tmp/kit/gotest.sh $WT $PKG "^($RUN)\$" $DEMO > /tmp/confirm/$ID$N.clean.out 2>&1 && res="$res demo-on-unchanged=PASS" || res="$res demo-on-unchanged=FAIL"
if git -C $WT apply $SRC/patch$N.diff; then res="$res applies"; else res="$res DOES-NOT-APPLY"; fi
/tmp/kit/build.sh $WT > /tmp/confirm/$ID$N.build.out 2>&1 && res="$res build=OK" || res="$res build=FAILED"
/tmp/kit/baseline.sh $WT > /tmp/confirm/$ID$N.base.out 2>&1; grep -q "BASELINE-OK" /tmp/confirm/$ID$N.base.out && res="$res baseline=OK" || res="$res baseline=BROKEN"
TEST_TIMEOUT=900s /tmp/kit/gotest.sh $WT $PKG "^($RUN)\$" $DEMO > /tmp/confirm/$ID$N.mut.out 2>&1 && res="$res demo-with-change=PASS(!)" || res="$res demo-with-change=FAIL"
git -C /repo worktree remove --force $WT; git -C /repo worktree prune
echo "$res" | tee -a /verif/wip/mutant-confirm.log
