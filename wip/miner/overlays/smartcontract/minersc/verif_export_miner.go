package minersc

// Read-only helpers for the verification harness (simminer). They run the
// package's own getters on a minimal read-only state context backed by an
// uncached view of a block's state; nothing here writes or changes behaviour.

import (
	"errors"

	"0chain.net/chaincore/block"
	cstate "0chain.net/chaincore/chain/state"
	"0chain.net/core/datastore"
	"github.com/0chain/common/core/util"
)

// VerifReader is what the harness' sim.View offers: read one contract node by key.
type VerifReader interface {
	Node(key string, out util.MPTSerializable) error
}

// verifReadCtx adapts a VerifReader to cstate.CommonStateContextI (reads only).
type verifReadCtx struct {
	r VerifReader
	b *block.Block
}

var errVerifReadOnly = errors.New("verif: read-only state context")

func (c verifReadCtx) GetTrieNode(key datastore.Key, v util.MPTSerializable) error {
	return c.r.Node(key, v)
}

func (c verifReadCtx) InsertTrieNode(datastore.Key, util.MPTSerializable) (datastore.Key, error) {
	return "", errVerifReadOnly
}

func (c verifReadCtx) GetBlock() *block.Block                { return c.b }
func (c verifReadCtx) GetLatestFinalizedBlock() *block.Block { return c.b }

var _ cstate.CommonStateContextI = verifReadCtx{}

// VerifGlobalNode reads the contract's global node.
func VerifGlobalNode(r VerifReader, b *block.Block) (*GlobalNode, error) {
	return getGlobalNode(verifReadCtx{r, b})
}

// VerifMinerNode reads a registered miner (util.ErrValueNotPresent when absent).
func VerifMinerNode(r VerifReader, b *block.Block, id string) (*MinerNode, error) {
	return getMinerNode(id, verifReadCtx{r, b})
}

// VerifSharderNode reads a registered sharder (util.ErrValueNotPresent when absent).
func VerifSharderNode(r VerifReader, b *block.Block, id string) (*MinerNode, error) {
	return getSharderNode(id, verifReadCtx{r, b})
}

// VerifAllMiners is the contract's list of all registered miners, in list order.
func VerifAllMiners(r VerifReader, b *block.Block) ([]*MinerNode, error) {
	l, err := getMinersList(verifReadCtx{r, b})
	if err != nil {
		return nil, err
	}
	return l.Nodes, nil
}

// VerifAllSharders is the contract's list of all registered sharders, in list order
// (same lookup as getAllShardersList, which only needs the common context).
func VerifAllSharders(r VerifReader, b *block.Block) ([]*MinerNode, error) {
	l, err := getNodesList(getSharderNode, verifReadCtx{r, b}, AllShardersKey)
	if err != nil {
		if err != util.ErrValueNotPresent {
			return nil, err
		}
		return nil, nil
	}
	return l.Nodes, nil
}

// VerifNodeIDs reads one of the id lists (AllMinersKey, AllShardersKey, DeleteMinersKey, ...).
func VerifNodeIDs(r VerifReader, b *block.Block, key string) ([]string, error) {
	ids, err := getNodeIDs(verifReadCtx{r, b}, key)
	return []string(ids), err
}

// VerifPhaseNode reads the view-change phase node; stored=false when the node was never
// written (GetPhaseNode then fabricates a Start phase at the block's round).
func VerifPhaseNode(r VerifReader, b *block.Block) (pn *PhaseNode, stored bool, err error) {
	probe := &PhaseNode{}
	switch e := r.Node(probe.GetKey(), probe); e {
	case nil:
		stored = true
	case util.ErrValueNotPresent:
	default:
		return nil, false, e
	}
	pn, err = GetPhaseNode(verifReadCtx{r, b})
	return pn, stored, err
}

// VerifHardForkRound is the activation round recorded for a hard fork name (ok=false when none).
func VerifHardForkRound(r VerifReader, b *block.Block, name string) (round int64, ok bool, err error) {
	round, err = cstate.GetRoundByName(verifReadCtx{r, b}, name)
	switch err {
	case nil:
		return round, true, nil
	case util.ErrValueNotPresent:
		return 0, false, nil
	default:
		return 0, false, err
	}
}
