#!/bin/bash
# usage: runmutant.sh <check ID> <patch file> [tier] [extra env assignments...]
# Applies the patch to a scratch worktree of /repo, runs the check against it, restores the evidence file, removes the worktree.
ID=$1; PATCH=$(realpath "$2"); TIER=${3:-quick}; if [ $# -ge 3 ]; then shift 3; else shift $#; fi
WT=/tmp/probe/$ID-$$
mkdir -p /tmp/probe
git -C /repo worktree add --detach "$WT" HEAD -q || exit 3
if ! git -C "$WT" apply "$PATCH"; then echo "PATCH DOES NOT APPLY"; git -C /repo worktree remove --force "$WT"; exit 3; fi
cp /verif/evidence/$ID.json /tmp/probe/$ID-$$.evidence 2>/dev/null
cd /verif && env VERIF_REPO="$WT" VERIF_TMP=/tmp/probe "$@" ./check "$ID" "$TIER" > /tmp/probe/$ID-$$.out 2>&1
rc=$?
[ -f /tmp/probe/$ID-$$.evidence ] && mv /tmp/probe/$ID-$$.evidence /verif/evidence/$ID.json
git -C /repo worktree remove --force "$WT"; git -C /repo worktree prune
echo "== $ID $(basename $(dirname $PATCH))/$(basename $PATCH) tier=$TIER rc=$rc"
grep -E "VIOLATION|INCONCLUSIVE|^OK|KNOWN" /tmp/probe/$ID-$$.out | cut -c1-700 | head -8
