#!/usr/bin/env python3
"""keepmutant.py <seeded-name> <srcdir> <n: '' or '2'> <found_by text>  -- copies an independent agent's change into /verif/seeded/<name>/"""
import json, os, shutil, sys
name, src, n, found = sys.argv[1], sys.argv[2], sys.argv[3], sys.argv[4]
dst = os.path.join('/verif/seeded', name)
os.makedirs(dst, exist_ok=True)
shutil.copy(os.path.join(src, 'patch%s.diff' % n), os.path.join(dst, 'patch.diff'))
shutil.copy(os.path.join(src, 'demo%s_test.go' % n), os.path.join(dst, 'demo_test.go.txt'))
meta = json.load(open(os.path.join(src, 'meta%s.json' % n)))
meta['origin'] = 'written by an independent sub-agent that saw only the property text and a scratch worktree (nothing of /verif)'
meta['confirmed'] = 'patch applies to /repo, builds (go build 0chain.net/...), the pinned suite stays green, the demonstration fails with the change and passes without it (RUN.txt of the sub-agent, re-checked by applying the patch in a scratch worktree and running the check named in found_by)'
meta['found_by'] = found
json.dump(meta, open(os.path.join(dst, 'meta.json'), 'w'), indent=1)
run = os.path.join(src, 'RUN.txt')
if os.path.exists(run):
    shutil.copy(run, os.path.join(dst, 'RUN.txt'))
print('kept', dst)
