package minersc

// Read-only exports for the verification harness (check C38, view-change phase machine).
// They only call the package's own getters on the read-only context of verif_export_miner.go.

import (
	"sort"

	"0chain.net/chaincore/block"
	"github.com/0chain/common/core/util"
)

// VerifVCState is what the view-change part of the contract has stored.
type VerifVCState struct {
	// DKG miners list
	DKGStored       bool
	DKGMiners       []string // sorted ids
	T, K, N         int
	DKGMinN, DKGMaxN int
	Waited          []string // sorted ids with Waited == true
	Revealed        map[string]int
	// contributed public keys: id -> number of coefficients
	MPKStored bool
	MPKs      map[string]int
	// published shares: id -> number of entries
	GSoSStored bool
	Shares     map[string]int
	// sharders keep list, in list order
	Keep []string
	// the magic block stored by the contract (nil when none)
	MagicBlock *block.MagicBlock
}

// VerifVC reads the view-change nodes of a block's state.
func VerifVC(r VerifReader, b *block.Block) (*VerifVCState, error) {
	ctx := verifReadCtx{r, b}
	out := &VerifVCState{MPKs: map[string]int{}, Shares: map[string]int{}, Revealed: map[string]int{}}

	probe := NewDKGMinerNodes()
	switch err := r.Node(DKGMinersKey, probe); err {
	case nil:
		out.DKGStored = true
	case util.ErrValueNotPresent:
	default:
		return nil, err
	}
	dmn, err := getDKGMinersList(ctx)
	if err != nil {
		return nil, err
	}
	for id := range dmn.SimpleNodes {
		out.DKGMiners = append(out.DKGMiners, id)
	}
	sort.Strings(out.DKGMiners)
	out.T, out.K, out.N, out.DKGMinN, out.DKGMaxN = dmn.T, dmn.K, dmn.N, dmn.MinN, dmn.MaxN
	for id, w := range dmn.Waited {
		if w {
			out.Waited = append(out.Waited, id)
		}
	}
	sort.Strings(out.Waited)
	for id, n := range dmn.RevealedShares {
		out.Revealed[id] = n
	}

	switch mpks, err := getMinersMPKs(ctx); err {
	case nil:
		out.MPKStored = true
		for id, m := range mpks.Mpks {
			n := 0
			if m != nil {
				n = len(m.Mpk)
			}
			out.MPKs[id] = n
		}
	case util.ErrValueNotPresent:
	default:
		return nil, err
	}

	switch gsos, err := getGroupShareOrSigns(ctx); err {
	case nil:
		out.GSoSStored = true
		for id, s := range gsos.Shares {
			n := 0
			if s != nil {
				n = len(s.ShareOrSigns)
			}
			out.Shares[id] = n
		}
	case util.ErrValueNotPresent:
	default:
		return nil, err
	}

	switch ids, err := getNodeIDs(ctx, ShardersKeepKey); err {
	case nil:
		out.Keep = append(out.Keep, ids...)
	case util.ErrValueNotPresent:
	default:
		return nil, err
	}

	switch mb, err := getMagicBlock(ctx); err {
	case nil:
		out.MagicBlock = mb
	case util.ErrValueNotPresent:
	default:
		return nil, err
	}
	return out, nil
}
