package minersc

import (
	"fmt"
	"math"
	"sort"
	"testing"

	"0chain.net/chaincore/block"
	cstate "0chain.net/chaincore/chain/state"
	"0chain.net/chaincore/node"
	"github.com/0chain/common/core/currency"
	"pgregory.net/rapid"
	"verifharness/vkit"
)

// C39: selecting the next set of miners or sharders returns exactly
// min(limit, candidates); it includes the required number of previous-set
// members with the highest stakes and otherwise prefers higher stake; among
// candidates tied at the cut-off stake the choice depends only on the seed,
// never on their ids, and is identical for identical inputs.

type c39pool map[string]bool

func (p c39pool) HasNode(id string) bool { return p[id] }

type c39cand struct {
	id    string
	stake currency.Coin
	prev  bool
}

func c39build(cands []c39cand, order []int) (SimpleNodes, c39pool) {
	sns := NewSimpleNodes()
	pool := c39pool{}
	for _, i := range order {
		c := cands[i]
		sn := &SimpleNode{}
		sn.ID = c.id
		sn.TotalStaked = c.stake
		sns[c.id] = sn
		if c.prev {
			pool[c.id] = true
		}
	}
	return sns, pool
}

func c39ids(sns SimpleNodes) []string {
	var out []string
	for k := range sns {
		out = append(out, k)
	}
	sort.Strings(out)
	return out
}

func c39gen(t *rapid.T) []c39cand {
	n := rapid.IntRange(0, 20).Draw(t, "candidates")
	narrow := rapid.Bool().Draw(t, "narrowStakes")
	used := map[string]bool{}
	var cands []c39cand
	for i := 0; i < n; i++ {
		id := fmt.Sprintf("%016x", rapid.Uint64().Draw(t, "id"))
		if used[id] {
			continue
		}
		used[id] = true
		var stake uint64
		if narrow {
			stake = rapid.SampledFrom([]uint64{0, 10, 10, 20, 30}).Draw(t, "stake")
		} else {
			stake = rapid.Uint64Range(0, 1<<40).Draw(t, "stake")
		}
		cands = append(cands, c39cand{id: id, stake: currency.Coin(stake), prev: rapid.IntRange(0, 2).Draw(t, "prev") == 0})
	}
	return cands
}

func c39check(t *rapid.T, cands []c39cand, limit int, xp float64, selected []string, maxNodes int) {
	n := len(cands)
	want := limit
	if n < want {
		want = n
	}
	if want < 0 {
		want = 0
	}
	if len(selected) != want || maxNodes != want {
		t.Fatalf("%s", vkit.Violation("C39", "wrong-size", "selected %d (reported %d), want min(limit=%d, candidates=%d)", len(selected), maxNodes, limit, n))
	}
	byID := map[string]c39cand{}
	var prevStakes []currency.Coin
	for _, c := range cands {
		byID[c.id] = c
		if c.prev {
			prevStakes = append(prevStakes, c.stake)
		}
	}
	sort.Slice(prevStakes, func(i, j int) bool { return prevStakes[i] > prevStakes[j] })
	sel := map[string]bool{}
	for _, id := range selected {
		if _, ok := byID[id]; !ok {
			t.Fatalf("%s", vkit.Violation("C39", "foreign-node", "selected id %s is not a candidate", id))
		}
		if sel[id] {
			t.Fatalf("%s", vkit.Violation("C39", "duplicate", "id %s selected twice", id))
		}
		sel[id] = true
	}
	x := int(math.Ceil(xp * float64(want)))
	if x > len(prevStakes) {
		x = len(prevStakes)
	}
	// (1) at least x previous members are in, and every previous member strictly
	// above the x-th highest previous stake is in
	cnt := 0
	for id := range sel {
		if byID[id].prev {
			cnt++
		}
	}
	if cnt < x {
		t.Fatalf("%s", vkit.Violation("C39", "too-few-previous-members", "%d previous-set members selected, %d required (limit %d, x_percent %v, %d previous candidates)", cnt, x, limit, xp, len(prevStakes)))
	}
	if x > 0 {
		cut := prevStakes[x-1]
		for _, c := range cands {
			if c.prev && c.stake > cut && !sel[c.id] {
				t.Fatalf("%s", vkit.Violation("C39", "previous-member-not-by-stake", "previous member %s with stake %d left out although the reserved-seat cut-off stake is %d", c.id, c.stake, cut))
			}
		}
	}
	// (2) a selected candidate with less stake than an unselected one must hold a reserved seat
	for _, u := range cands {
		if sel[u.id] {
			continue
		}
		for id := range sel {
			s := byID[id]
			if s.stake >= u.stake {
				continue
			}
			higherPrev := 0
			for _, ps := range prevStakes {
				if ps > s.stake {
					higherPrev++
				}
			}
			if !s.prev || higherPrev >= x {
				t.Fatalf("%s", vkit.Violation("C39", "lower-stake-preferred", "candidate %s (stake %d, prev=%v) selected while %s (stake %d) is not, and it holds no reserved seat (x=%d)", s.id, s.stake, s.prev, u.id, u.stake, x))
			}
		}
	}
}

func TestC39_Reduce(t *testing.T) {
	st := vkit.For("C39").SetRule("SimpleNodes.reduce and reduceShardersList on generated candidate sets (0..20 candidates, stakes from a 4-value set or wide, previous-set mask, limit 0..25, x_percent in [0,1], seed); oracles: size, reserved previous members by stake, stake preference, same result for same input and for another map insertion order; fairness scenario: m candidates tied at the cut-off competing for k<m seats must each be selected for some seed and rejected for some seed over 256 seeds; non-trivial = a stake tie straddles the cut-off (more candidates at the cut-off stake than seats left); distinct by (candidates, limit, x, seed)")
	rapid.Check(t, func(t *rapid.T) {
		cands := c39gen(t)
		limit := rapid.IntRange(0, 25).Draw(t, "limit")
		xp := rapid.SampledFrom([]float64{0, 0.1, 0.25, 0.5, 0.7, 1}).Draw(t, "xPercent")
		seed := rapid.Int64().Draw(t, "seed")
		order1 := seqC39(len(cands))
		order2 := rapid.Permutation(seqC39(len(cands))).Draw(t, "order2")
		sns1, pool1 := c39build(cands, order1)
		sns2, pool2 := c39build(cands, order2)
		m1 := sns1.reduce(limit, xp, seed, pool1)
		m2 := sns2.reduce(limit, xp, seed, pool2)
		s1, s2 := c39ids(sns1), c39ids(sns2)
		if fmt.Sprint(s1) != fmt.Sprint(s2) || m1 != m2 {
			t.Fatalf("%s", vkit.Violation("C39", "not-deterministic", "same candidates, same seed, different selection: %v vs %v", s1, s2))
		}
		c39check(t, cands, limit, xp, s1, m1)
		// the same through the sharder path of the contract (previous sharders come from the latest finalized magic block)
		// (the contract path adds a previous sharder back when none was selected and
		// panics by design when there is none at all: only selections that already
		// contain a previous member are compared)
		hasPrev := false
		for _, c := range cands {
			if _, ok := sns1[c.id]; ok && c.prev {
				hasPrev = true
			}
		}
		if len(cands) > 0 && limit > 0 && hasPrev {
			st.Class("sharder_contract_path")
			keep, all := &MinerNodes{}, &MinerNodes{}
			for _, c := range cands {
				mn := NewMinerNode()
				mn.ID = c.id
				mn.TotalStaked = c.stake
				all.Nodes = append(all.Nodes, mn)
				keep.Nodes = append(keep.Nodes, mn)
			}
			mb := block.NewMagicBlock()
			mb.Miners = node.NewPool(node.NodeTypeMiner)
			mb.Sharders = node.NewPool(node.NodeTypeSharder)
			for _, c := range cands {
				if c.prev {
					mb.Sharders.NodesMap[c.id] = &node.Node{}
				} else if rapid.Bool().Draw(t, "alsoAMiner") {
					mb.Miners.NodesMap[c.id] = &node.Node{} // ids of the previous *miner* set must not matter for sharders
				}
			}
			pmb := &block.Block{}
			pmb.MagicBlock = mb
			pmb.RoundRandomSeed = seed
			balances := cstate.NewStateContext(nil, nil, nil, nil, func() *block.Block { return pmb }, nil, nil, nil, nil)
			gn := &GlobalNode{}
			gn.MaxS, gn.MinS, gn.XPercent = limit, 0, xp
			msc := &MinerSmartContract{}
			nodes, err := msc.reduceShardersList(keep, all, gn, balances)
			if err != nil {
				t.Fatalf("%s", vkit.Violation("C39", "sharder-path-error", "reduceShardersList failed: %v", err))
			}
			var got []string
			for _, nd := range nodes {
				got = append(got, nd.ID)
			}
			sort.Strings(got)
			if fmt.Sprint(got) != fmt.Sprint(s1) {
				t.Fatalf("%s", vkit.Violation("C39", "sharder-path-differs", "reduceShardersList selected %v, the selection rule gives %v", got, s1))
			}
		}
		st.Case()
		// non-trivial: tie straddling the cut-off
		nt := false
		if len(s1) > 0 && len(s1) < len(cands) {
			sel := map[string]bool{}
			for _, id := range s1 {
				sel[id] = true
			}
			minSel := currency.Coin(math.MaxUint64)
			for _, c := range cands {
				if sel[c.id] && c.stake < minSel {
					minSel = c.stake
				}
			}
			for _, c := range cands {
				if !sel[c.id] && c.stake == minSel {
					nt = true
				}
			}
		}
		if nt {
			st.Class("tie_straddles_cutoff")
			st.NonTrivial(fmt.Sprint(cands), limit, xp, seed)
		}
		if len(cands) == 0 || limit == 0 {
			st.Class("empty_selection")
		}
		if st.WantSample(nt) {
			st.Sample(nt, map[string]interface{}{"candidates": fmt.Sprint(cands), "limit": limit, "x_percent": xp, "seed": seed, "selected": s1})
		}
	})
}

func seqC39(n int) []int {
	s := make([]int, n)
	for i := range s {
		s[i] = i
	}
	return s
}

// Fairness at the cut-off: h higher-staked candidates (some of them previous
// members, so the reserved seats are theirs), m candidates tied at one stake,
// l lower ones; limit = h + k with 0 < k < m.
func TestC39_TieFairness(t *testing.T) {
	st := vkit.For("C39")
	rapid.Check(t, func(t *rapid.T) {
		h := rapid.IntRange(0, 4).Draw(t, "higher")
		m := rapid.IntRange(2, 8).Draw(t, "tied")
		l := rapid.IntRange(0, 3).Draw(t, "lower")
		k := rapid.IntRange(1, m-1).Draw(t, "seats")
		xp := rapid.SampledFrom([]float64{0, 0.25, 0.5}).Draw(t, "xPercent")
		var cands []c39cand
		used := map[string]bool{}
		newID := func() string {
			for {
				id := fmt.Sprintf("%016x", rapid.Uint64().Draw(t, "id"))
				if !used[id] {
					used[id] = true
					return id
				}
			}
		}
		for i := 0; i < h; i++ {
			cands = append(cands, c39cand{id: newID(), stake: currency.Coin(1000 + i), prev: true})
		}
		var tied []string
		for i := 0; i < m; i++ {
			id := newID()
			tied = append(tied, id)
			cands = append(cands, c39cand{id: id, stake: 500})
		}
		for i := 0; i < l; i++ {
			cands = append(cands, c39cand{id: newID(), stake: currency.Coin(10 + i)})
		}
		limit := h + k
		// reserved seats ceil(xp*limit) must not exceed h, otherwise nothing is reserved beyond the higher ones anyway (only prev members are the h higher ones)
		chosen, rejected := map[string]int{}, map[string]int{}
		const seeds = 256
		for s := int64(1); s <= seeds; s++ {
			sns, pool := c39build(cands, seqC39(len(cands)))
			sns.reduce(limit, xp, s*7919, pool)
			if len(sns) != limit {
				t.Fatalf("%s", vkit.Violation("C39", "wrong-size", "selected %d, want %d", len(sns), limit))
			}
			for _, id := range tied {
				if _, ok := sns[id]; ok {
					chosen[id]++
				} else {
					rejected[id]++
				}
			}
		}
		for _, id := range tied {
			if chosen[id] == 0 || rejected[id] == 0 {
				key := "tie-decided-by-id"
				if st.Known(key) {
					continue
				}
				sorted := append([]string{}, tied...)
				sort.Strings(sorted)
				pos := sort.SearchStrings(sorted, id)
				t.Fatalf("%s", vkit.Violation("C39", key, "%d candidates tied at the cut-off stake compete for %d seats (higher=%d lower=%d x_percent=%v): candidate %s (position %d by id among the tied) was selected for %d and rejected for %d of %d seeds", m, k, h, l, xp, id, pos, chosen[id], rejected[id], seeds))
			}
		}
		st.Case()
		st.Class("fairness_scenario")
		st.NonTrivial("fair", h, m, l, k, xp, fmt.Sprint(tied))
		if st.WantSample(true) {
			st.Sample(true, map[string]interface{}{"kind": "fairness", "higher": h, "tied": m, "lower": l, "seats": k, "x_percent": xp, "seeds": seeds})
		}
	})
}
