package minersc

import cstate "0chain.net/chaincore/chain/state"

// VerifValidateStoredConfig runs the contract's own validate() on the stored global node (read-only).
func VerifValidateStoredConfig(balances cstate.CommonStateContextI) error {
	gn, err := getGlobalNode(balances)
	if err != nil {
		return err
	}
	return gn.validate()
}
