package minersc

// Read-only exports for the verification harness (library "misc").
// Nothing here changes behaviour.

import (
	cstate "0chain.net/chaincore/chain/state"
	"github.com/0chain/common/core/util"
)

// VerifMiscConfigMap renders the miner contract settings with the contract's own getGlobalNode + getConfigMap
// (what the /configs REST endpoint serves).
func VerifMiscConfigMap(balances cstate.CommonStateContextI) (map[string]string, error) {
	gn, err := getGlobalNode(balances)
	if err != nil {
		return nil, err
	}
	sm, err := gn.getConfigMap()
	if err != nil {
		return nil, err
	}
	return sm.Fields, nil
}

// VerifMiscGlobals returns the chain-wide global settings as stored by update_globals (what /globalSettings serves):
// stored=false when no node exists yet and the values come from the node's local configuration.
func VerifMiscGlobals(balances cstate.CommonStateContextI) (fields map[string]string, version int64, stored bool, err error) {
	gl, err := getGlobalSettings(balances)
	if err != nil {
		if err != util.ErrValueNotPresent {
			return nil, 0, false, err
		}
		return getStringMapFromViper(), 0, false, nil
	}
	out := make(map[string]string, len(gl.Fields))
	for k, v := range gl.Fields {
		out[k] = v
	}
	return out, gl.Version, true, nil
}

// VerifMiscSettingKinds maps every update_settings name to the name of its value type (core/config.ConfigTypeName).
func VerifMiscSettingKinds() map[string]int {
	out := make(map[string]int, len(Settings))
	for k, v := range Settings {
		out[k] = int(v.ConfigType)
	}
	return out
}
