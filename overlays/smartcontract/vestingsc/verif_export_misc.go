package vestingsc

// Read-only exports for the verification harness (library "misc").
// Nothing here changes behaviour: every function only calls the package's own
// getters on a state context and copies the result into exported plain types.

import (
	chainstate "0chain.net/chaincore/chain/state"
	"0chain.net/core/common"
)

// VerifMiscDest is one destination of a vesting pool.
type VerifMiscDest struct {
	ID     string
	Amount uint64 // wanted for the whole period
	Vested uint64 // already transferred
	Earned uint64 // what an unlock/trigger at the `now` of the view would transfer
	Last   int64  // last unlock / trigger time
	Move   int64  // last time tokens really moved
}

// VerifMiscPool is a vesting pool as stored.
type VerifMiscPool struct {
	ID           string
	ClientID     string // the pool owner
	Description  string
	Balance      uint64
	StartTime    int64
	ExpireAt     int64
	Excess       uint64 // what the owner can unlock: balance - sum(amount - vested); wraps like the contract's own excess()
	Destinations []VerifMiscDest
	InfoErr      string // error text of the contract's info() when it could not compute Earned/Excess ("" normally)
}

// VerifMiscConfig is the contract configuration.
type VerifMiscConfig struct {
	MinLock              uint64
	MinDurationNS        int64
	MaxDurationNS        int64
	MaxDestinations      int
	MaxDescriptionLength int
	OwnerID              string
	Cost                 map[string]int
}

// VerifMiscPoolKey is the state key (== pool id) of the pool created by the add transaction with the given hash.
func VerifMiscPoolKey(addTxnHash string) string { return poolKey(ADDRESS, addTxnHash) }

// VerifMiscClientPoolsKey is the state key of a client's pool list.
func VerifMiscClientPoolsKey(clientID string) string { return clientPoolsKey(ADDRESS, clientID) }

// VerifMiscConfigKey is the state key of the configuration node.
func VerifMiscConfigKey() string { return scConfigKey(ADDRESS) }

// VerifMiscGetPool reads a pool with the contract's getPool; `now` is used for the Earned column exactly as info() does.
func VerifMiscGetPool(balances chainstate.CommonStateContextI, poolID string, now common.Timestamp) (*VerifMiscPool, error) {
	vp, err := getPool(poolID, balances)
	if err != nil {
		return nil, err
	}
	inf, ierr := vp.info(now)
	out := &VerifMiscPool{
		ID:          vp.ID,
		ClientID:    vp.ClientID,
		Description: vp.Description,
		Balance:     uint64(vp.Balance),
		StartTime:   int64(vp.StartTime),
		ExpireAt:    int64(vp.ExpireAt),
	}
	if ierr != nil {
		out.InfoErr = ierr.Error()
	} else {
		out.Excess = uint64(inf.Left)
	}
	for i, d := range vp.Destinations {
		vd := VerifMiscDest{
			ID:     d.ID,
			Amount: uint64(d.Amount),
			Vested: uint64(d.Vested),
			Last:   int64(d.Last),
			Move:   int64(d.Move),
		}
		if ierr == nil {
			vd.Earned = uint64(inf.Destinations[i].Earned)
		}
		out.Destinations = append(out.Destinations, vd)
	}
	return out, nil
}

// VerifMiscClientPools returns the pool ids recorded for a client (empty when the list node is absent).
func VerifMiscClientPools(balances chainstate.CommonStateContextI, clientID string) ([]string, error) {
	cp, err := getOrCreateClientPools(clientID, balances)
	if err != nil {
		return nil, err
	}
	return append([]string{}, cp.Pools...), nil
}

func verifMiscConf(balances chainstate.CommonStateContextI) (*config, error) {
	conf := new(config)
	if err := balances.GetTrieNode(scConfigKey(ADDRESS), conf); err != nil {
		return nil, err
	}
	return conf, nil
}

// VerifMiscGetConfig reads the stored configuration node (the same read as VestingSmartContract.getConfig).
func VerifMiscGetConfig(balances chainstate.CommonStateContextI) (*VerifMiscConfig, error) {
	conf, err := verifMiscConf(balances)
	if err != nil {
		return nil, err
	}
	cost := make(map[string]int, len(conf.Cost))
	for k, v := range conf.Cost {
		cost[k] = v
	}
	return &VerifMiscConfig{
		MinLock:              uint64(conf.MinLock),
		MinDurationNS:        int64(conf.MinDuration),
		MaxDurationNS:        int64(conf.MaxDuration),
		MaxDestinations:      conf.MaxDestinations,
		MaxDescriptionLength: conf.MaxDescriptionLength,
		OwnerID:              conf.OwnerId,
		Cost:                 cost,
	}, nil
}

// VerifMiscConfigMap is the configuration rendered by the contract's own getConfigMap (what the REST endpoint serves).
func VerifMiscConfigMap(balances chainstate.CommonStateContextI) (map[string]string, error) {
	conf, err := verifMiscConf(balances)
	if err != nil {
		return nil, err
	}
	return conf.getConfigMap().Fields, nil
}

// VerifMiscSettingNames are the non-cost setting names and the functions that have a cost.<fn> setting.
func VerifMiscSettingNames() (settings []string, costFns []string) {
	return append([]string{}, Settings...), append([]string{}, costFunctions...)
}
