package vestingsc

import chainstate "0chain.net/chaincore/chain/state"

// VerifValidateStoredConfig runs the contract's own validate() on the configuration in force (read-only).
func VerifValidateStoredConfig(balances chainstate.CommonStateContextI) error {
	conf, err := getConfigReadOnly(balances)
	if err != nil {
		return err
	}
	return conf.validate()
}
