package faucetsc

import "0chain.net/chaincore/chain/state"

// VerifValidateStoredConfig runs the contract's own validate() on the stored global node (read-only).
func VerifValidateStoredConfig(balances state.CommonStateContextI) error {
	gn := &GlobalNode{ID: ADDRESS}
	if err := balances.GetTrieNode(globalNodeKey, gn); err != nil {
		return err
	}
	return gn.validate()
}
