package faucetsc

// Read-only exports for the verification harness (library "misc").
// Nothing here changes behaviour.

import (
	"encoding/json"
	"fmt"
	"net/http/httptest"

	"0chain.net/chaincore/chain/state"
	"0chain.net/core/config"
	"0chain.net/smartcontract/rest"
	"github.com/0chain/common/core/util"
)

// VerifMiscGlobal is the stored global node of the faucet.
type VerifMiscGlobal struct {
	ID                string
	PourAmount        uint64
	MaxPourAmount     uint64
	PeriodicLimit     uint64
	GlobalLimit       uint64
	IndividualResetNS int64
	GlobalResetNS     int64
	OwnerID           string
	Cost              map[string]int
	Used              uint64
	StartTime         int64 // unix seconds; negative for the zero time
}

// VerifMiscUser is the stored node of one faucet user.
type VerifMiscUser struct {
	ID        string
	Used      uint64
	StartTime int64 // unix seconds
}

// VerifMiscGlobalKey is the state key of the global node.
func VerifMiscGlobalKey() string { return globalNodeKey }

// VerifMiscUserKey is the state key of a user's node.
func VerifMiscUserKey(clientID string) string { return (&UserNode{ID: clientID}).GetKey(ADDRESS) }

// VerifMiscGetGlobal reads the STORED global node (without the reset-on-read that Execute applies to its in-memory copy).
func VerifMiscGetGlobal(balances state.CommonStateContextI) (*VerifMiscGlobal, error) {
	gn := &GlobalNode{ID: ADDRESS}
	if err := balances.GetTrieNode(globalNodeKey, gn); err != nil {
		return nil, err
	}
	if gn.FaucetConfig == nil {
		return nil, fmt.Errorf("faucet global node without config")
	}
	cost := make(map[string]int, len(gn.Cost))
	for k, v := range gn.Cost {
		cost[k] = v
	}
	return &VerifMiscGlobal{
		ID:                gn.ID,
		PourAmount:        uint64(gn.PourAmount),
		MaxPourAmount:     uint64(gn.MaxPourAmount),
		PeriodicLimit:     uint64(gn.PeriodicLimit),
		GlobalLimit:       uint64(gn.GlobalLimit),
		IndividualResetNS: int64(gn.IndividualReset),
		GlobalResetNS:     int64(gn.GlobalReset),
		OwnerID:           gn.OwnerId,
		Cost:              cost,
		Used:              uint64(gn.Used),
		StartTime:         gn.StartTime.Unix(),
	}, nil
}

// VerifMiscGetUser reads the stored node of a user; ok=false when the user never poured.
func VerifMiscGetUser(balances state.CommonStateContextI, clientID string) (u *VerifMiscUser, ok bool, err error) {
	un := &UserNode{ID: clientID}
	err = balances.GetTrieNode(un.GetKey(ADDRESS), un)
	if err == util.ErrValueNotPresent {
		return nil, false, nil
	}
	if err != nil {
		return nil, false, err
	}
	return &VerifMiscUser{ID: un.ID, Used: uint64(un.Used), StartTime: un.StartTime.Unix()}, true, nil
}

// VerifMiscConfigMap renders the settings through the contract's own REST handler (/faucet-config).
func VerifMiscConfigMap(sctx state.TimedQueryStateContextI) (map[string]string, error) {
	qc := &rest.TestQueryChainer{}
	qc.SetQueryStateContext(sctx)
	frh := NewFaucetscRestHandler(rest.NewRestHandler(qc))
	w := httptest.NewRecorder()
	r := httptest.NewRequest("GET", "/v1/screst/"+ADDRESS+"/faucet-config", nil)
	frh.getConfig(w, r)
	if w.Code != 200 {
		return nil, fmt.Errorf("faucet-config: status %d: %s", w.Code, w.Body.String())
	}
	var sm config.StringMap
	if err := json.Unmarshal(w.Body.Bytes(), &sm); err != nil {
		return nil, err
	}
	return sm.Fields, nil
}

// VerifMiscSettingNames are the non-cost setting names and the functions that have a cost.<fn> setting.
func VerifMiscSettingNames() (settings []string, costFns []string) {
	return append([]string{}, Settings...), append([]string{}, costFunctions...)
}
