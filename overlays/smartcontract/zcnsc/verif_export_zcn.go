package zcnsc

// Read-only helpers for the verification harness (compiled in through a Go overlay).
// Nothing here changes the behaviour of the contract: every function only calls the
// package's own getters on a state context.

import (
	"strconv"

	cstate "0chain.net/chaincore/chain/state"
	"0chain.net/smartcontract/partitions"
	"github.com/0chain/common/core/util"
)

// VerifGlobalNode returns the global (config) node as the contract itself reads it.
func VerifGlobalNode(ctx cstate.StateContextI) (*GlobalNode, error) {
	return GetGlobalNode(ctx)
}

// VerifAuthorizerCount returns the stored number of registered authorizers.
func VerifAuthorizerCount(ctx cstate.StateContextI) (int, error) {
	return getAuthorizerCount(ctx)
}

// VerifAuthorizer returns the authorizer node (ok=false when it is not registered).
func VerifAuthorizer(ctx cstate.StateContextI, id string) (node *AuthorizerNode, ok bool, err error) {
	node, err = GetAuthorizerNode(id, ctx)
	if err == util.ErrValueNotPresent {
		return nil, false, nil
	}
	if err != nil {
		return nil, false, err
	}
	return node, true, nil
}

// VerifStakePool returns the stake pool of an authorizer (ok=false when absent).
func VerifStakePool(ctx cstate.StateContextI, authorizerID string) (sp *StakePool, ok bool, err error) {
	var zcn ZCNSmartContract
	sp, err = zcn.getStakePool(authorizerID, ctx)
	if err == util.ErrValueNotPresent {
		return nil, false, nil
	}
	if err != nil {
		return nil, false, err
	}
	return sp, true, nil
}

// VerifUserNode returns the user node stored for an ethereum address (burn nonce 0 when absent).
func VerifUserNode(ctx cstate.StateContextI, ethereumAddress string) (*UserNode, error) {
	return GetUserNode(ethereumAddress, ctx)
}

// VerifMintNonceRecorded tells whether a mint nonce is recorded in the minted-nonce partitions.
// It never creates the partitions.
func VerifMintNonceRecorded(ctx cstate.StateContextI, nonce int64) (bool, error) {
	p, err := partitions.GetPartitions(ctx, wzcnMintedNoncePartitionName)
	if err == util.ErrValueNotPresent {
		return false, nil
	}
	if err != nil {
		return false, err
	}
	return p.Exist(ctx, strconv.FormatInt(nonce, 10))
}

// VerifMintNonceCount is the number of recorded mint nonces.
func VerifMintNonceCount(ctx cstate.StateContextI) (int, error) {
	p, err := partitions.GetPartitions(ctx, wzcnMintedNoncePartitionName)
	if err == util.ErrValueNotPresent {
		return 0, nil
	}
	if err != nil {
		return 0, err
	}
	return p.Size(ctx)
}

// VerifMintStringToSign is the exact hex hash an authorizer signs for a mint payload.
func VerifMintStringToSign(mp *MintPayload) string { return mp.GetStringToSign() }
