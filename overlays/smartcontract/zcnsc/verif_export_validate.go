package zcnsc

import "0chain.net/chaincore/chain/state"

// VerifValidateStoredConfig runs the contract's own Validate() on the stored global node (read-only).
func VerifValidateStoredConfig(balances state.CommonStateContextI) error {
	gn, err := GetGlobalNode(balances)
	if err != nil {
		return err
	}
	return gn.Validate()
}
