package storagesc

// Read-only test shim for the C07 check (injected with go test -overlay): the destination object the contract itself
// uses when it reads its configuration (getConfig: conf = newConfig()).
func VerifC07NewConfig() *Config { return newConfig() }

// VerifC07ConfigKey is the state key of the storage configuration (scConfigKey(ADDRESS)).
func VerifC07ConfigKey() string { return scConfigKey(ADDRESS) }
