package storagesc

import cstate "0chain.net/chaincore/chain/state"

// VerifValidateStoredConfig runs the contract's own validate() on the configuration in force (read-only).
func VerifValidateStoredConfig(balances cstate.CommonStateContextI) error {
	conf, err := getConfig(balances)
	if err != nil {
		return err
	}
	return conf.validate()
}
