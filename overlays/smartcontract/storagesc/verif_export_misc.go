package storagesc

// Read-only exports for the verification harness (library "misc").
// Nothing here changes behaviour.

import (
	cstate "0chain.net/chaincore/chain/state"
)

// VerifMiscConfigMap renders the ACTIVE storage contract settings with the contract's own getConfig + getConfigMap
// (what the /storage-config REST endpoint serves).
func VerifMiscConfigMap(balances cstate.CommonStateContextI) (map[string]string, error) {
	conf, err := getConfig(balances)
	if err != nil {
		return nil, err
	}
	sm, err := conf.getConfigMap()
	if err != nil {
		return nil, err
	}
	return sm.Fields, nil
}

// VerifMiscStagedChanges returns the changes recorded by update_settings that commit_settings_changes will (re)apply.
func VerifMiscStagedChanges(balances cstate.StateContextI) (map[string]string, error) {
	sm, err := getSettingChanges(balances)
	if err != nil {
		return nil, err
	}
	out := make(map[string]string, len(sm.Fields))
	for k, v := range sm.Fields {
		out[k] = v
	}
	return out, nil
}

// VerifMiscSettingKinds maps every update_settings name to its value type (index into core/config.ConfigTypeName).
func VerifMiscSettingKinds() map[string]int {
	out := make(map[string]int, len(Settings))
	for k, v := range Settings {
		out[k] = int(v.configType)
	}
	return out
}
