package storagesc

// Read-only export shim of the verification harness (library "storage").
//
// Everything here decodes nodes of the storage contract from a state reader and
// copies them into plain exported structs. Nothing writes to state and nothing
// changes the behaviour of the contract.

import (
	"errors"
	"sort"

	"0chain.net/core/config"
	"0chain.net/smartcontract/stakepool/spenum"
	"github.com/0chain/common/core/util"
)

// VerifReader reads the node stored under a contract key (the un-hashed key a
// state context would be asked for). sim.View satisfies it.
type VerifReader interface {
	Node(key string, out util.MPTSerializable) error
}

func verifAbsent(err error) bool {
	return errors.Is(err, util.ErrValueNotPresent)
}

// VerifTerms of a blobber or of a blobber inside an allocation.
type VerifTerms struct {
	ReadPrice  uint64
	WritePrice uint64
}

// VerifStats are the counters kept per allocation and per blobber-allocation.
type VerifStats struct {
	UsedSize          int64
	NumWrites         int64
	NumReads          int64
	TotalChallenges   int64
	OpenChallenges    int64
	SuccessChallenges int64
	FailedChallenges  int64
}

func verifStats(s *StorageAllocationStats) VerifStats {
	if s == nil {
		return VerifStats{}
	}
	return VerifStats{
		UsedSize: s.UsedSize, NumWrites: s.NumWrites, NumReads: s.NumReads,
		TotalChallenges: s.TotalChallenges, OpenChallenges: s.OpenChallenges,
		SuccessChallenges: s.SuccessChallenges, FailedChallenges: s.FailedChallenges,
	}
}

// VerifBlobberAlloc is the part of an allocation that belongs to one blobber.
type VerifBlobberAlloc struct {
	BlobberID                      string
	Size                           int64
	AllocationRoot                 string
	HasWriteMarker                 bool
	LastWMTimestamp                int64
	LastWMSize                     int64
	LastWMPrevRoot                 string
	LastWMVersion                  string // "v1" or "v2"
	LastWMChainHash                string // v2 markers only
	LastWMChainSize                int64  // v2 markers only
	Terms                          VerifTerms
	Offer                          uint64 // BlobberAllocation.Offer(): sizeInGB(Size) * write price
	ChallengePoolIntegralValue     uint64
	Penalty                        uint64
	ReadReward                     uint64
	Returned                       uint64
	ChallengeReward                uint64
	LatestSuccessfulChallCreatedAt int64
	LatestFinalizedChallCreatedAt  int64
	Stats                          VerifStats
}

// VerifAllocation is an allocation node.
type VerifAllocation struct {
	ID                   string
	Tx                   string
	Version              string
	Owner                string
	OwnerPublicKey       string
	DataShards           int
	ParityShards         int
	Size                 int64
	Expiration           int64
	StartTime            int64
	Finalized            bool
	Canceled             bool
	ThirdPartyExtendable bool
	FileOptions          uint16
	WritePool            uint64
	MovedToChallenge     uint64
	MovedBack            uint64
	MovedToValidators    uint64
	TimeUnitNanos        int64
	Stats                VerifStats
	Blobbers             []VerifBlobberAlloc
}

// VerifGetAllocation reads an allocation; ok=false when there is no such node
// (note that cancel_allocation and finalize_allocation delete the node).
func VerifGetAllocation(r VerifReader, id string) (out VerifAllocation, ok bool, err error) {
	sa := new(StorageAllocation)
	if err = r.Node(GetAllocKey(ADDRESS, id), sa); err != nil {
		if verifAbsent(err) {
			return out, false, nil
		}
		return out, false, err
	}
	a := sa.mustBase()
	out = VerifAllocation{
		ID: a.ID, Tx: a.Tx, Version: sa.Entity().GetVersion(), Owner: a.Owner, OwnerPublicKey: a.OwnerPublicKey,
		DataShards: a.DataShards, ParityShards: a.ParityShards, Size: a.Size,
		Expiration: int64(a.Expiration), StartTime: int64(a.StartTime),
		Finalized: a.Finalized, Canceled: a.Canceled, ThirdPartyExtendable: a.ThirdPartyExtendable,
		FileOptions: a.FileOptions, WritePool: uint64(a.WritePool),
		MovedToChallenge: uint64(a.MovedToChallenge), MovedBack: uint64(a.MovedBack),
		MovedToValidators: uint64(a.MovedToValidators), TimeUnitNanos: int64(a.TimeUnit),
		Stats: verifStats(a.Stats),
	}
	for _, d := range a.BlobberAllocs {
		b := VerifBlobberAlloc{
			BlobberID: d.BlobberID, Size: d.Size, AllocationRoot: d.AllocationRoot,
			Terms:                          VerifTerms{uint64(d.Terms.ReadPrice), uint64(d.Terms.WritePrice)},
			Offer:                          uint64(d.Offer()),
			ChallengePoolIntegralValue:     uint64(d.ChallengePoolIntegralValue),
			Penalty:                        uint64(d.Penalty),
			ReadReward:                     uint64(d.ReadReward),
			Returned:                       uint64(d.Returned),
			ChallengeReward:                uint64(d.ChallengeReward),
			LatestSuccessfulChallCreatedAt: int64(d.LatestSuccessfulChallCreatedAt),
			LatestFinalizedChallCreatedAt:  int64(d.LatestFinalizedChallCreatedAt),
			Stats:                          verifStats(d.Stats),
		}
		if d.LastWriteMarker != nil && d.LastWriteMarker.Entity() != nil {
			wm := d.LastWriteMarker.mustBase()
			b.HasWriteMarker = true
			b.LastWMTimestamp = int64(wm.Timestamp)
			b.LastWMSize = wm.Size
			b.LastWMPrevRoot = wm.PreviousAllocationRoot
			b.LastWMVersion = d.LastWriteMarker.GetVersion()
			if wm2, isV2 := d.LastWriteMarker.Entity().(*writeMarkerV2); isV2 {
				b.LastWMChainHash, b.LastWMChainSize = wm2.ChainHash, wm2.ChainSize
			}
		}
		out.Blobbers = append(out.Blobbers, b)
	}
	return out, true, nil
}

// VerifGetChallengePool returns the balance of the challenge pool of an allocation.
func VerifGetChallengePool(r VerifReader, allocID string) (balance uint64, ok bool, err error) {
	cp := newChallengePool()
	if err = r.Node(challengePoolKey(ADDRESS, allocID), cp); err != nil {
		if verifAbsent(err) {
			return 0, false, nil
		}
		return 0, false, err
	}
	return uint64(cp.Balance), true, nil
}

// VerifBlobber is a blobber node.
type VerifBlobber struct {
	ID                string
	Version           string
	BaseURL           string
	Terms             VerifTerms
	Capacity          int64
	Allocated         int64
	SavedData         int64
	LastHealthCheck   int64
	Killed            bool
	ShutDown          bool
	NotAvailable      bool
	DelegateWallet    string
	NumDelegates      int
	ServiceCharge     float64
	RewardRoundStart  int64
	RewardRoundTime   int64
	DataReadLastRound float64
}

// VerifGetBlobber reads a blobber node.
func VerifGetBlobber(r VerifReader, id string) (out VerifBlobber, ok bool, err error) {
	sn := &StorageNode{}
	if err = r.Node(blobberKey(id), sn); err != nil {
		if verifAbsent(err) {
			return out, false, nil
		}
		return out, false, err
	}
	b := sn.mustBase()
	if b.ProviderType != spenum.Blobber {
		return out, false, nil
	}
	return VerifBlobber{
		ID: b.ID, Version: sn.Entity().GetVersion(), BaseURL: b.BaseURL,
		Terms:    VerifTerms{uint64(b.Terms.ReadPrice), uint64(b.Terms.WritePrice)},
		Capacity: b.Capacity, Allocated: b.Allocated, SavedData: b.SavedData,
		LastHealthCheck: int64(b.LastHealthCheck), Killed: b.IsKilled(), ShutDown: b.IsShutDown(),
		NotAvailable: b.NotAvailable, DelegateWallet: b.StakePoolSettings.DelegateWallet,
		NumDelegates: b.StakePoolSettings.MaxNumDelegates, ServiceCharge: b.StakePoolSettings.ServiceChargeRatio,
		RewardRoundStart: b.RewardRound.StartRound, RewardRoundTime: int64(b.RewardRound.Timestamp),
		DataReadLastRound: b.DataReadLastRewardRound,
	}, true, nil
}

// VerifValidator is a validator node.
type VerifValidator struct {
	ID              string
	BaseURL         string
	LastHealthCheck int64
	Killed          bool
	ShutDown        bool
	DelegateWallet  string
}

// VerifGetValidator reads a validator node.
func VerifGetValidator(r VerifReader, id string) (out VerifValidator, ok bool, err error) {
	v := newValidator(id)
	if err = r.Node(v.GetKey(), v); err != nil {
		if verifAbsent(err) {
			return out, false, nil
		}
		return out, false, err
	}
	if v.ProviderType != spenum.Validator {
		return out, false, nil
	}
	return VerifValidator{
		ID: v.ID, BaseURL: v.BaseURL, LastHealthCheck: int64(v.LastHealthCheck),
		Killed: v.IsKilled(), ShutDown: v.IsShutDown(), DelegateWallet: v.StakePoolSettings.DelegateWallet,
	}, true, nil
}

// VerifDelegatePool is one delegate pool of a stake pool.
type VerifDelegatePool struct {
	ID           string // key in the pool map (the delegate's client id)
	DelegateID   string
	Balance      uint64
	Reward       uint64
	Status       int // spenum.PoolStatus: 0 active, 1 pending, 2 deleted
	RoundCreated int64
	StakedAt     int64
}

// VerifStakePool is the stake pool of a provider.
type VerifStakePool struct {
	Pools          []VerifDelegatePool // sorted by ID
	Reward         uint64              // service-charge reward of the provider itself
	TotalOffers    uint64
	TotalStake     uint64 // sum of delegate balances (stakePool.stake())
	Killed         bool
	DelegateWallet string
	NumDelegates   int
	MinStake       uint64
	ServiceCharge  float64
}

// VerifGetStakePool reads the stake pool of a provider; providerType is
// spenum.Blobber (3) or spenum.Validator (4).
func VerifGetStakePool(r VerifReader, providerType int, id string) (out VerifStakePool, ok bool, err error) {
	sp := newStakePool()
	if err = r.Node(stakePoolKey(spenum.Provider(providerType), id), sp); err != nil {
		if verifAbsent(err) {
			return out, false, nil
		}
		return out, false, err
	}
	out = VerifStakePool{
		Reward: uint64(sp.Reward), TotalOffers: uint64(sp.TotalOffers), Killed: sp.HasBeenKilled,
		DelegateWallet: sp.Settings.DelegateWallet, NumDelegates: sp.Settings.MaxNumDelegates,
		MinStake: uint64(sp.Settings.MinStake), ServiceCharge: sp.Settings.ServiceChargeRatio,
	}
	ids := make([]string, 0, len(sp.Pools))
	for k := range sp.Pools {
		ids = append(ids, k)
	}
	sort.Strings(ids)
	for _, k := range ids {
		dp := sp.Pools[k]
		out.Pools = append(out.Pools, VerifDelegatePool{
			ID: k, DelegateID: dp.DelegateID, Balance: uint64(dp.Balance), Reward: uint64(dp.Reward),
			Status: int(dp.Status), RoundCreated: dp.RoundCreated, StakedAt: int64(dp.StakedAt),
		})
		out.TotalStake += uint64(dp.Balance)
	}
	return out, true, nil
}

// VerifGetReadPool returns the read pool balance of a client.
func VerifGetReadPool(r VerifReader, clientID string) (balance uint64, ok bool, err error) {
	rp := new(readPool)
	if err = r.Node(readPoolKey(ADDRESS, clientID), rp); err != nil {
		if verifAbsent(err) {
			return 0, false, nil
		}
		return 0, false, err
	}
	return uint64(rp.Balance), true, nil
}

// VerifChallenge is an open challenge, joined from the allocation's list and the challenge node.
type VerifChallenge struct {
	ID              string
	AllocationID    string
	BlobberID       string
	Created         int64
	RoundCreatedAt  int64
	HasNode         bool // the storage_challenge node exists
	TotalValidators int
	ValidatorIDs    []string
	Responded       int64
}

// VerifGetChallenge reads a single storage challenge node.
func VerifGetChallenge(r VerifReader, id string) (out VerifChallenge, ok bool, err error) {
	ch := new(StorageChallenge)
	ch.ID = id
	if err = r.Node(storageChallengeKey(ADDRESS, id), ch); err != nil {
		if verifAbsent(err) {
			return out, false, nil
		}
		return out, false, err
	}
	return VerifChallenge{
		ID: ch.ID, AllocationID: ch.AllocationID, BlobberID: ch.BlobberID, Created: int64(ch.Created),
		RoundCreatedAt: ch.RoundCreatedAt, HasNode: true, TotalValidators: ch.TotalValidators,
		ValidatorIDs: append([]string{}, ch.ValidatorIDs...), Responded: ch.Responded,
	}, true, nil
}

// VerifOpenChallenges lists the open challenges of an allocation in the
// contract's order (oldest first); ok=false when the allocation has no
// allocation_challenges node.
func VerifOpenChallenges(r VerifReader, allocID string) (out []VerifChallenge, ok bool, err error) {
	ac := new(AllocationChallenges)
	ac.AllocationID = allocID
	if err = r.Node(ac.GetKey(ADDRESS), ac); err != nil {
		if verifAbsent(err) {
			return nil, false, nil
		}
		return nil, false, err
	}
	for _, oc := range ac.OpenChallenges {
		c := VerifChallenge{ID: oc.ID, AllocationID: allocID, BlobberID: oc.BlobberID,
			Created: int64(oc.CreatedAt), RoundCreatedAt: oc.RoundCreatedAt}
		full, has, e := VerifGetChallenge(r, oc.ID)
		if e != nil {
			return nil, true, e
		}
		if has {
			c.HasNode, c.TotalValidators, c.ValidatorIDs, c.Responded = true, full.TotalValidators, full.ValidatorIDs, full.Responded
		}
		out = append(out, c)
	}
	return out, true, nil
}

// VerifAssigner is a free-storage assigner record.
type VerifAssigner struct {
	ClientID        string
	PublicKey       string
	IndividualLimit uint64
	TotalLimit      uint64
	CurrentRedeemed uint64
	RedeemedNonces  []int64
}

// VerifGetAssigner reads the free-storage assigner registered under a name.
func VerifGetAssigner(r VerifReader, name string) (out VerifAssigner, ok bool, err error) {
	fsa := new(freeStorageAssigner)
	if err = r.Node(freeStorageAssignerKey(ADDRESS, name), fsa); err != nil {
		if verifAbsent(err) {
			return out, false, nil
		}
		return out, false, err
	}
	return VerifAssigner{
		ClientID: fsa.ClientId, PublicKey: fsa.PublicKey, IndividualLimit: uint64(fsa.IndividualLimit),
		TotalLimit: uint64(fsa.TotalLimit), CurrentRedeemed: uint64(fsa.CurrentRedeemed),
		RedeemedNonces: append([]int64{}, fsa.RedeemedNonces...),
	}, true, nil
}

// VerifReadMarker is the last redeemed read marker of (blobber, client, allocation).
type VerifReadMarker struct {
	Counter   int64
	Timestamp int64
	ReadSize  float64
}

// VerifGetReadMarker reads the last committed read marker.
func VerifGetReadMarker(r VerifReader, blobberID, clientID, allocID string) (out VerifReadMarker, ok bool, err error) {
	rc := &ReadConnection{ReadMarker: &ReadMarker{BlobberID: blobberID, ClientID: clientID, AllocationID: allocID}}
	key := rc.GetKey(ADDRESS)
	got := &ReadConnection{}
	if err = r.Node(key, got); err != nil {
		if verifAbsent(err) {
			return out, false, nil
		}
		return out, false, err
	}
	if got.ReadMarker == nil {
		return out, false, nil
	}
	return VerifReadMarker{Counter: got.ReadMarker.ReadCounter, Timestamp: int64(got.ReadMarker.Timestamp), ReadSize: got.ReadMarker.ReadSize}, true, nil
}

// VerifConfig is the part of the contract configuration that property tests use,
// plus the full key -> value map the contract itself renders.
type VerifConfig struct {
	OwnerID                      string
	TimeUnitNanos                int64
	MinAllocSize                 int64
	MaxChallengeCompletionRounds int64
	MinBlobberCapacity           int64
	HealthCheckPeriodNanos       int64
	MinStake                     uint64
	MaxStake                     uint64
	MinStakePerDelegate          uint64
	MaxDelegates                 int
	MaxCharge                    float64
	MaxReadPrice                 uint64
	MaxWritePrice                uint64
	MinWritePrice                uint64
	ReadPoolMinLock              uint64
	WritePoolMinLock             uint64
	KillSlash                    float64
	ValidatorReward              float64
	BlobberSlash                 float64
	CancellationCharge           float64
	MaxBlobbersPerAllocation     int
	ChallengeEnabled             bool
	ValidatorsPerChallenge       int
	NumValidatorsRewarded        int
	MaxTotalFreeAllocation       uint64
	MaxIndividualFreeAllocation  uint64
	FreeDataShards               int
	FreeParityShards             int
	FreeSize                     int64
	FreeReadPriceMin             uint64
	FreeReadPriceMax             uint64
	FreeWritePriceMin            uint64
	FreeWritePriceMax            uint64
	FreeReadPoolFraction         float64
	BlockReward                  uint64
	BlockRewardTriggerPeriod     int64
	Minted                       uint64
	Fields                       map[string]string
}

// VerifGetConfig reads the stored configuration of the contract.
func VerifGetConfig(r VerifReader) (out VerifConfig, ok bool, err error) {
	c := newConfig()
	if err = r.Node(scConfigKey(ADDRESS), c); err != nil {
		if verifAbsent(err) {
			return out, false, nil
		}
		return out, false, err
	}
	out = VerifConfig{
		OwnerID: c.OwnerId, TimeUnitNanos: int64(c.TimeUnit), MinAllocSize: c.MinAllocSize,
		MaxChallengeCompletionRounds: c.MaxChallengeCompletionRounds, MinBlobberCapacity: c.MinBlobberCapacity,
		HealthCheckPeriodNanos: int64(c.HealthCheckPeriod),
		MinStake:               uint64(c.MinStake), MaxStake: uint64(c.MaxStake), MinStakePerDelegate: uint64(c.MinStakePerDelegate),
		MaxDelegates: c.MaxDelegates, MaxCharge: c.MaxCharge,
		MaxReadPrice: uint64(c.MaxReadPrice), MaxWritePrice: uint64(c.MaxWritePrice), MinWritePrice: uint64(c.MinWritePrice),
		ValidatorReward: c.ValidatorReward, BlobberSlash: c.BlobberSlash, CancellationCharge: c.CancellationCharge,
		MaxBlobbersPerAllocation: c.MaxBlobbersPerAllocation, ChallengeEnabled: c.ChallengeEnabled,
		ValidatorsPerChallenge: c.ValidatorsPerChallenge, NumValidatorsRewarded: c.NumValidatorsRewarded,
		MaxTotalFreeAllocation: uint64(c.MaxTotalFreeAllocation), MaxIndividualFreeAllocation: uint64(c.MaxIndividualFreeAllocation),
		FreeDataShards: c.FreeAllocationSettings.DataShards, FreeParityShards: c.FreeAllocationSettings.ParityShards,
		FreeSize:         c.FreeAllocationSettings.Size,
		FreeReadPriceMin: uint64(c.FreeAllocationSettings.ReadPriceRange.Min), FreeReadPriceMax: uint64(c.FreeAllocationSettings.ReadPriceRange.Max),
		FreeWritePriceMin: uint64(c.FreeAllocationSettings.WritePriceRange.Min), FreeWritePriceMax: uint64(c.FreeAllocationSettings.WritePriceRange.Max),
		FreeReadPoolFraction: c.FreeAllocationSettings.ReadPoolFraction,
		Minted:               uint64(c.Minted),
	}
	if c.ReadPool != nil {
		out.ReadPoolMinLock = uint64(c.ReadPool.MinLock)
	}
	if c.WritePool != nil {
		out.WritePoolMinLock = uint64(c.WritePool.MinLock)
	}
	if c.StakePool != nil {
		out.KillSlash = c.StakePool.KillSlash
	}
	if c.BlockReward != nil {
		out.BlockReward = uint64(c.BlockReward.BlockReward)
		out.BlockRewardTriggerPeriod = c.BlockReward.TriggerPeriod
	}
	if m, e := c.getConfigMap(); e == nil {
		out.Fields = m.Fields
	}
	return out, true, nil
}

// VerifPendingSettings returns the not yet committed update_settings changes.
func VerifPendingSettings(r VerifReader) (map[string]string, error) {
	changes := new(config.StringMap)
	if err := r.Node(settingChangesKey, changes); err != nil {
		if verifAbsent(err) {
			return map[string]string{}, nil
		}
		return nil, err
	}
	if changes.Fields == nil {
		return map[string]string{}, nil
	}
	return changes.Fields, nil
}

// Blobber returns the allocation's part of a blobber.
func (a VerifAllocation) Blobber(id string) (VerifBlobberAlloc, bool) {
	for _, b := range a.Blobbers {
		if b.BlobberID == id {
			return b, true
		}
	}
	return VerifBlobberAlloc{}, false
}

// SumChallengePoolIntegral adds the ChallengePoolIntegralValue of all blobbers.
func (a VerifAllocation) SumChallengePoolIntegral() uint64 {
	var s uint64
	for _, b := range a.Blobbers {
		s += b.ChallengePoolIntegralValue
	}
	return s
}

// Pool returns the delegate pool of a client.
func (sp VerifStakePool) Pool(clientID string) (VerifDelegatePool, bool) {
	for _, p := range sp.Pools {
		if p.ID == clientID {
			return p, true
		}
	}
	return VerifDelegatePool{}, false
}
