package multisigsc

// Read-only helpers for the verification harness (compiled in through a Go overlay).

import (
	c_state "0chain.net/chaincore/chain/state"
	"0chain.net/chaincore/state"
	"0chain.net/core/common"
	"github.com/0chain/common/core/util"
)

// VerifProposal is an exported copy of a stored proposal.
type VerifProposal struct {
	ProposalID         string
	ExpirationDate     common.Timestamp
	NextClientID       string
	NextProposalID     string
	PrevClientID       string
	PrevProposalID     string
	Transfer           state.Transfer
	SignerThresholdIDs []string
	SignerSignatures   []string
	ClientSignature    string
	ExecutedInTxnHash  string
}

// VerifWallet returns the registered multi-sig wallet of a client (ok=false when absent).
func VerifWallet(ctx c_state.StateContextI, clientID string) (w Wallet, ok bool, err error) {
	w, err = MultiSigSmartContract{}.getWallet(clientID, ctx)
	if err == util.ErrValueNotPresent {
		return Wallet{}, false, nil
	}
	if err != nil {
		return Wallet{}, false, err
	}
	return w, !w.isEmpty(), nil
}

// VerifGetProposal returns a stored proposal (ok=false when absent or pruned).
func VerifGetProposal(ctx c_state.StateContextI, walletID, proposalID string) (VerifProposal, bool, error) {
	p, err := MultiSigSmartContract{}.getProposal(proposalRef{ClientID: walletID, ProposalID: proposalID}, ctx)
	if err != nil {
		return VerifProposal{}, false, err
	}
	if p.isEmpty() {
		return VerifProposal{}, false, nil
	}
	return VerifProposal{
		ProposalID:         p.ProposalID,
		ExpirationDate:     p.ExpirationDate,
		NextClientID:       p.Next.ClientID,
		NextProposalID:     p.Next.ProposalID,
		PrevClientID:       p.Prev.ClientID,
		PrevProposalID:     p.Prev.ProposalID,
		Transfer:           p.Transfer,
		SignerThresholdIDs: append([]string{}, p.SignerThresholdIDs...),
		SignerSignatures:   append([]string{}, p.SignerSignatures...),
		ClientSignature:    p.ClientSignature,
		ExecutedInTxnHash:  p.ExecutedInTxnHash,
	}, true, nil
}

// VerifExpirationQueue returns head and tail (wallet id, proposal id) of the expiration queue.
func VerifExpirationQueue(ctx c_state.StateContextI) (headWallet, headProposal, tailWallet, tailProposal string, err error) {
	q, err := MultiSigSmartContract{}.getOrCreateExpirationQueue(ctx)
	if err != nil {
		return "", "", "", "", err
	}
	return q.Head.ClientID, q.Head.ProposalID, q.Tail.ClientID, q.Tail.ProposalID, nil
}

// VerifExpirationTime is the lifetime of a proposal in seconds.
const VerifExpirationTime = ExpirationTime
