package partitions

import (
	"fmt"
	"math/rand"
	"sort"
	"testing"

	"github.com/tinylib/msgp/msgp"
	"pgregory.net/rapid"
	"verifharness/vkit"
	"verifharness/vstate"
)

// C25: a named partitioned list behaves like a set of items keyed by id under any
// sequence of adds, updates, removes, saves and reloads; all partitions except
// the last are full, the size is exact, random sampling returns distinct members.

type c25item struct {
	ID string
	V  int64
}

func (i *c25item) GetID() string { return i.ID }
func (i *c25item) MarshalMsg(b []byte) ([]byte, error) {
	b = msgp.AppendString(b, i.ID)
	return msgp.AppendInt64(b, i.V), nil
}
func (i *c25item) UnmarshalMsg(b []byte) ([]byte, error) {
	var err error
	if i.ID, b, err = msgp.ReadStringBytes(b); err != nil {
		return b, err
	}
	i.V, b, err = msgp.ReadInt64Bytes(b)
	return b, err
}
func (i *c25item) Msgsize() int { return msgp.StringPrefixSize + len(i.ID) + msgp.Int64Size }

func TestC25_PartitionsAsSet(t *testing.T) {
	st := vkit.For("C25").SetRule("rapid state machine over one named Partitions on a real state context / real MPT: partition size 1..6, 12 ids, ops Add/AddX/Get/UpdateItem/Update/Remove/RemoveX/Exist/Size/ForEach/ForEachPart/GetRandomItems/Save+reload (same txn, committed new txn, discarded txn) against a reference map; non-trivial = history with a removal from a non-last partition that empties the last partition, followed by an add and a reload; distinct by history fingerprint")
	rapid.Check(t, func(t *rapid.T) {
		size := rapid.IntRange(1, 6).Draw(t, "partitionSize")
		name := "verif:parts"
		w := vstate.NewWorld()
		x := w.Begin()
		p, err := CreateIfNotExists(x.Ctx, name, size)
		if err != nil {
			t.Fatalf("VERIF-HARNESS-ERROR create: %v", err)
		}
		model := map[string]int64{}
		committed := map[string]int64{}
		var hist []string
		ids := make([]string, 12)
		for i := range ids {
			ids[i] = fmt.Sprintf("k%02d", i)
		}
		val := int64(0)
		emptiedLast, addAfter, reloadAfter := false, false, false
		fail := func(key, f string, a ...interface{}) {
			t.Fatalf("%s", vkit.Violation("C25", key, "%s; size %d; history %v", fmt.Sprintf(f, a...), size, hist))
		}
		nonLastLen := func() (lastLoc int, lastLen int) { return p.Last.Loc, p.Last.length() }
		fullCheck := func() {
			// size
			n, err := p.Size(x.Ctx)
			if err != nil {
				fail("size-error", "Size failed: %v", err)
			}
			if n != len(model) {
				fail("size", "Size()=%d, reference %d", n, len(model))
			}
			// iteration == model as a multiset, no duplicates, non-last partitions full
			seen := map[string]int64{}
			perPart := map[int]int{}
			maxPart := -1
			err = p.ForEach(x.Ctx, func(part int, id string, data []byte) bool {
				var it c25item
				if _, e := it.UnmarshalMsg(data); e != nil {
					fail("iteration-decode", "item %s does not decode: %v", id, e)
				}
				if _, dup := seen[id]; dup {
					fail("duplicate-in-iteration", "id %s appears twice in ForEach", id)
				}
				seen[id] = it.V
				perPart[part]++
				if part > maxPart {
					maxPart = part
				}
				return false
			})
			if err != nil {
				fail("iteration-error", "ForEach failed: %v", err)
			}
			if len(seen) != len(model) {
				fail("iteration-differs", "ForEach yields %d items, reference %d (%v vs %v)", len(seen), len(model), seen, model)
			}
			for k, v := range model {
				if sv, ok := seen[k]; !ok || sv != v {
					fail("iteration-differs", "ForEach has %s=%v(%v), reference %v", k, sv, ok, v)
				}
			}
			for part, c := range perPart {
				if part < maxPart && c != size {
					fail("non-last-partition-not-full", "partition %d holds %d items, partition size %d, last is %d", part, c, size, maxPart)
				}
				if c > size {
					fail("partition-overfull", "partition %d holds %d items > %d", part, c, size)
				}
			}
			// membership and lookup for every id
			for _, id := range ids {
				ex, err := p.Exist(x.Ctx, id)
				if err != nil {
					fail("exist-error", "Exist(%s) failed: %v", id, err)
				}
				_, in := model[id]
				if ex != in {
					fail("exist", "Exist(%s)=%v, reference %v", id, ex, in)
				}
				var it c25item
				_, err = p.Get(x.Ctx, id, &it)
				if in {
					if err != nil {
						fail("get-present", "Get(%s) of a member failed: %v", id, err)
					}
					if it.V != model[id] || it.ID != id {
						fail("get-value", "Get(%s)=%+v, reference value %d", id, it, model[id])
					}
				} else if !ErrItemNotFound(err) {
					fail("get-absent", "Get(%s) of a non-member returned %v instead of item-not-found", id, err)
				}
			}
		}
		reload := func(how string) {
			var err error
			p, err = GetPartitions(x.Ctx, name)
			if err != nil {
				fail("reload-error", "reload (%s) failed: %v", how, err)
			}
			if emptiedLast && addAfter {
				reloadAfter = true
			}
		}
		t.Repeat(map[string]func(*rapid.T){
			"add": func(t *rapid.T) {
				id := rapid.SampledFrom(ids).Draw(t, "id")
				val++
				useX := rapid.Bool().Draw(t, "addX")
				var err error
				if useX {
					_, err = p.AddX(x.Ctx, &c25item{ID: id, V: val})
				} else {
					err = p.Add(x.Ctx, &c25item{ID: id, V: val})
				}
				hist = append(hist, fmt.Sprintf("add %s", id))
				if _, in := model[id]; in {
					if !ErrItemExist(err) {
						fail("add-existing", "Add(%s) of a member returned %v instead of item-already-exist", id, err)
					}
				} else {
					if err != nil {
						fail("add-new", "Add(%s) of a non-member failed: %v", id, err)
					}
					model[id] = val
					if emptiedLast {
						addAfter = true
					}
				}
				fullCheck()
			},
			"update": func(t *rapid.T) {
				id := rapid.SampledFrom(ids).Draw(t, "id")
				val++
				var err error
				if rapid.Bool().Draw(t, "viaFunc") {
					nv := val
					_, err = p.Update(x.Ctx, id, func(data []byte) ([]byte, error) {
						var it c25item
						if _, e := it.UnmarshalMsg(data); e != nil {
							return nil, e
						}
						it.V = nv
						return it.MarshalMsg(nil)
					})
				} else {
					err = p.UpdateItem(x.Ctx, &c25item{ID: id, V: val})
				}
				hist = append(hist, fmt.Sprintf("update %s", id))
				if _, in := model[id]; in {
					if err != nil {
						fail("update-present", "update of member %s failed: %v", id, err)
					}
					model[id] = val
				} else if !ErrItemNotFound(err) {
					fail("update-absent", "update of non-member %s returned %v instead of item-not-found", id, err)
				}
				fullCheck()
			},
			"remove": func(t *rapid.T) {
				id := rapid.SampledFrom(ids).Draw(t, "id")
				if len(model) > 0 && rapid.IntRange(0, 2).Draw(t, "preferMember") > 0 {
					keys := make([]string, 0, len(model))
					for k := range model {
						keys = append(keys, k)
					}
					sort.Strings(keys)
					id = rapid.SampledFrom(keys).Draw(t, "member")
				}
				lastLoc, lastLen := nonLastLen()
				_, _, inLast := p.Last.find(id)
				var err error
				if rapid.Bool().Draw(t, "removeX") {
					_, err = p.RemoveX(x.Ctx, id)
				} else {
					err = p.Remove(x.Ctx, id)
				}
				hist = append(hist, fmt.Sprintf("remove %s", id))
				if _, in := model[id]; in {
					if err != nil {
						fail("remove-present", "Remove(%s) of a member failed: %v", id, err)
					}
					delete(model, id)
					if !inLast && lastLoc > 0 && lastLen == 1 {
						emptiedLast = true
					}
				} else if !ErrItemNotFound(err) {
					fail("remove-absent", "Remove(%s) of a non-member returned %v instead of item-not-found", id, err)
				}
				fullCheck()
			},
			"random": func(t *rapid.T) {
				if len(model) == 0 {
					t.Skip("empty")
				}
				seed := rapid.Int64().Draw(t, "seed")
				var out []c25item
				if err := p.GetRandomItems(x.Ctx, rand.New(rand.NewSource(seed)), &out); err != nil {
					fail("random-error", "GetRandomItems failed: %v", err)
				}
				hist = append(hist, "random")
				want := size
				if len(model) < want {
					want = len(model)
				}
				if len(out) != want {
					fail("random-count", "GetRandomItems returned %d items, want min(size,members)=%d", len(out), want)
				}
				seen := map[string]bool{}
				for _, it := range out {
					if seen[it.ID] {
						fail("random-duplicate", "GetRandomItems returned %s twice", it.ID)
					}
					seen[it.ID] = true
					if v, in := model[it.ID]; !in || v != it.V {
						fail("random-non-member", "GetRandomItems returned %+v which is not a current member", it)
					}
				}
			},
			"saveReload": func(t *rapid.T) {
				if err := p.Save(x.Ctx); err != nil {
					fail("save-error", "Save failed: %v", err)
				}
				hist = append(hist, "save+reload")
				reload("same txn")
				fullCheck()
			},
			"commitReload": func(t *rapid.T) {
				if err := p.Save(x.Ctx); err != nil {
					fail("save-error", "Save failed: %v", err)
				}
				if err := x.Commit(); err != nil {
					t.Fatalf("VERIF-HARNESS-ERROR commit: %v", err)
				}
				w.Round++
				committed = map[string]int64{}
				for k, v := range model {
					committed[k] = v
				}
				x = w.Begin()
				hist = append(hist, "save+commit+new-txn")
				reload("new txn")
				fullCheck()
			},
			"discardReload": func(t *rapid.T) {
				// a failed transaction: whatever it did (saved or not) is dropped
				if rapid.Bool().Draw(t, "saveFirst") {
					if err := p.Save(x.Ctx); err != nil {
						fail("save-error", "Save failed: %v", err)
					}
				}
				x = w.Begin()
				model = map[string]int64{}
				for k, v := range committed {
					model[k] = v
				}
				hist = append(hist, "discard-txn")
				var err error
				p, err = CreateIfNotExists(x.Ctx, name, size)
				if err != nil {
					fail("reload-error", "reload after discard failed: %v", err)
				}
				fullCheck()
			},
		})
		st.Case()
		nt := emptiedLast && addAfter && reloadAfter
		if emptiedLast {
			st.Class("removal_from_non_last_emptied_last")
		}
		if len(model) > size {
			st.Class("more_than_one_partition_at_end")
		}
		if nt {
			st.NonTrivial(size, fmt.Sprint(hist))
		}
		if st.WantSample(nt) && len(hist) > 0 {
			st.Sample(nt, map[string]interface{}{"partition_size": size, "ops": hist})
		}
	})
}
