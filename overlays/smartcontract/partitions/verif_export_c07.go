package partitions

import (
	"github.com/0chain/common/core/statecache"
	"github.com/0chain/common/core/util"
)

// Read-only test shims for the C07 check (injected with go test -overlay, never part of a build of the node):
// constructors for the two unexported cacheable entity types, built exactly the way the package builds the
// destination objects of its own reads (getPartition: &partition{}; getItemPartIndex: var pl location).

type VerifC07Entity interface {
	util.MPTSerializable
	statecache.Value
}

func VerifC07NewPartition() VerifC07Entity { return &partition{} }

func VerifC07NewLocation() VerifC07Entity { return &location{} }

// VerifC07NewPartitions is the destination of GetPartitions / CreateIfNotExists.
func VerifC07NewPartitions() *Partitions { return &Partitions{} }
