package event

import (
	"context"
	"database/sql/driver"
	"fmt"
	"reflect"
	"regexp"
	"sort"
	"strconv"
	"strings"
	"sync"
	"testing"
	"time"

	"0chain.net/chaincore/state"
	"0chain.net/core/common"
	"0chain.net/core/config"
	"0chain.net/core/encryption"
	"0chain.net/smartcontract/dbs"
	"0chain.net/smartcontract/stakepool/spenum"
	"github.com/0chain/common/core/currency"
	"github.com/lib/pq"
	"gorm.io/gorm"
	"pgregory.net/rapid"
	"verifharness/vkit"
)

// C20: after a block is finalized the query database holds one burn ticket for
// every burn in that block (address, amount, nonce) and counts every mint and
// burn toward the authorizers' totals; merging a block's events before storage
// never drops an event whose effect is additive or append-only.
//
// Engine E6: block event lists exactly as the contracts emit them are given to
// the real mergeEvents (the real merger list) and the merged events are then
// processed by the real per-block worker path (EventDb.WorkEvents -> addEvents
// -> processEvent -> addStat) inside a transaction of the in-memory sqlite
// event DB. Postgres-only bulk updates (UPDATE .. FROM unnest(..)) cannot run
// on sqlite: a gorm callback records their table, columns and argument arrays
// and replaces the statement with a no-op, so that the handler goes on; the
// authorizer-total clauses are decided on the recorded arguments.

// ---------------------------------------------------------------------------
// world

var c20w struct {
	once sync.Once
	edb  *EventDb
	err  error
	mu   sync.Mutex
	cap  []c20stmt
}

// c20stmt is one recorded bulk update: rows[i][column] = value (as text).
type c20stmt struct {
	table string
	cols  []string
	rows  []map[string]string
}

var c20unnest = regexp.MustCompile(`unnest\([^)]*\)?::\w+\[\]\) AS (\w+)`)
var c20update = regexp.MustCompile(`^UPDATE (\w+) SET`)

func c20column(v interface{}) ([]string, error) {
	if g, ok := v.(pq.GenericArray); ok {
		v = g.A
	}
	rv := reflect.ValueOf(v)
	for rv.Kind() == reflect.Ptr {
		rv = rv.Elem()
	}
	if rv.Kind() != reflect.Slice {
		if val, ok := v.(driver.Valuer); ok {
			x, err := val.Value()
			return nil, fmt.Errorf("unsupported bulk-update argument %T (%v, %v)", v, x, err)
		}
		return nil, fmt.Errorf("unsupported bulk-update argument %T", v)
	}
	out := make([]string, rv.Len())
	for i := range out {
		out[i] = fmt.Sprint(rv.Index(i).Interface())
	}
	return out, nil
}

func c20world() (*EventDb, error) {
	c20w.once.Do(func() {
		if common.GetRootContext() == nil {
			common.SetupRootContext(context.Background())
		}
		// partition periods larger than any generated round: partition management is Postgres DDL
		edb, err := NewInMemoryEventDb(config.DbAccess{}, config.DbSettings{
			PartitionChangePeriod: 1 << 40, PermanentPartitionChangePeriod: 1 << 40, AggregatePeriod: 10, PageLimit: 50})
		if err != nil {
			c20w.err = err
			return
		}
		err = edb.Store.Get().Callback().Raw().Before("gorm:raw").Register("verif:c20-capture", func(db *gorm.DB) {
			q := db.Statement.SQL.String()
			if !strings.Contains(q, "unnest(") {
				return
			}
			st := c20stmt{}
			if m := c20update.FindStringSubmatch(q); m != nil {
				st.table = m[1]
			}
			for _, m := range c20unnest.FindAllStringSubmatch(q, -1) {
				st.cols = append(st.cols, m[1])
			}
			vars := db.Statement.Vars
			if st.table == "" || len(st.cols) == 0 || len(st.cols) != len(vars) {
				st.table = "?unparsed: " + q
			} else {
				for ci, v := range vars {
					vals, err := c20column(v)
					if err != nil {
						st.table = "?unparsed: " + err.Error()
						break
					}
					for ri, s := range vals {
						for len(st.rows) <= ri {
							st.rows = append(st.rows, map[string]string{})
						}
						st.rows[ri][st.cols[ci]] = s
					}
				}
			}
			c20w.mu.Lock()
			c20w.cap = append(c20w.cap, st)
			c20w.mu.Unlock()
			// sqlite cannot parse the statement; the recorded arguments are what the oracle reads
			db.Statement.SQL.Reset()
			db.Statement.SQL.WriteString("SELECT 1")
			db.Statement.Vars = nil
		})
		if err != nil {
			c20w.err = err
			return
		}
		c20w.edb = edb
	})
	return c20w.edb, c20w.err
}

func c20takeCaptured() []c20stmt {
	c20w.mu.Lock()
	defer c20w.mu.Unlock()
	out := c20w.cap
	c20w.cap = nil
	return out
}

// ---------------------------------------------------------------------------
// generated transactions and the events the contracts emit for them

type c20txn struct {
	Kind      string           `json:"kind"`
	Client    string           `json:"client,omitempty"`
	Addr      string           `json:"eth,omitempty"`
	Provider  string           `json:"provider,omitempty"`
	PType     spenum.Provider  `json:"-"`
	RType     spenum.Reward    `json:"-"`
	Alloc     string           `json:"alloc,omitempty"`
	Amount    int64            `json:"amount,omitempty"`
	Reward    int64            `json:"reward,omitempty"`
	Nonce     int64            `json:"nonce,omitempty"`
	Signers   []string         `json:"signers,omitempty"`
	Delegates map[string]int64 `json:"delegates,omitempty"`
	Fee       int64            `json:"fee"`
	Hash      string           `json:"-"`
}

const c20ssc = "6dba10422e368813802877a85039d3985d96760ed844092319743fb3a76712d7"

func c20id(role string, i int) string { return encryption.Hash(fmt.Sprintf("c20-%s-%d", role, i)) }
func c20eth(i int) string             { return "0x" + encryption.Hash(fmt.Sprintf("c20-eth-%d", i))[:40] }
func c20short(s string) string {
	if len(s) > 10 {
		return s[:10]
	}
	return s
}

var c20hexRun = regexp.MustCompile(`(0x)?[0-9a-f]{40,}`)

// c20abbr shortens ids / hashes / addresses in a message.
func c20abbr(s string) string {
	return c20hexRun.ReplaceAllStringFunc(s, func(h string) string { return h[:10] })
}

func c20coins(m map[string]int64) map[string]currency.Coin {
	out := make(map[string]currency.Coin, len(m)) // never nil: stakepool.NewStakePoolReward allocates both maps
	for k, v := range m {
		out[k] = currency.Coin(v)
	}
	return out
}

// events returns what the block carries for this transaction: the two events
// block.ComputeState adds per transaction and the contract's own events, with
// the Index, data type (value / pointer) and order used at the emission sites
// (zcnsc/burn.go, zcnsc/mint.go, stakepool/edb_stakepool.go, stakepool/lock.go,
// stakepool/unlock.go, stakepool/stakepool.go MintRewards, storagesc/readpool.go,
// storagesc/writepool.go, storagesc/models.go).
func (x *c20txn) events(round int64, blockHash string) []Event {
	ev := func(tag EventTag, index string, data interface{}) Event {
		return Event{BlockNumber: round, TxHash: x.Hash, Type: TypeStats, Tag: tag, Index: index, Data: data, Version: Version1}
	}
	out := []Event{
		{BlockNumber: round, TxHash: x.Hash, Type: TypeStats, Tag: TagAddTransactions, Index: x.Hash,
			Data: Transaction{Hash: x.Hash, BlockHash: blockHash, Round: round, ClientId: x.Client, Fee: currency.Coin(x.Fee), Status: 1}},
		{Type: TypeStats, Tag: TagUpdateUserPayedFees, Index: x.Client, Data: UserAggregate{UserID: x.Client, PayedFees: x.Fee}},
	}
	mintReward := func() {
		if x.Reward > 0 {
			out = append(out, ev(TagMintReward, x.Client, RewardMint{Amount: x.Reward, BlockNumber: round, ClientID: x.Client,
				ProviderType: x.PType.String(), ProviderID: x.Provider}))
			out = append(out, ev(TagUpdateUserCollectedRewards, x.Client, UserAggregate{CollectedReward: x.Reward, UserID: x.Client}))
		}
	}
	switch x.Kind {
	case "burn":
		out = append(out, ev(TagAuthorizerBurn, x.Client, state.Burn{Burner: x.Client, Amount: currency.Coin(x.Amount)}))
		out = append(out, ev(TagAddBurnTicket, x.Addr, &BurnTicket{EthereumAddress: x.Addr, Hash: x.Hash, Amount: currency.Coin(x.Amount), Nonce: x.Nonce}))
	case "mint":
		out = append(out, ev(TagAddBridgeMint, x.Client, &BridgeMint{UserID: x.Client, MintNonce: x.Nonce, Amount: currency.Coin(x.Amount),
			Signers: append([]string{}, x.Signers...)}))
		// the fee share goes to one signer's stake pool (DistributeRewards)
		out = append(out, ev(TagStakePoolReward, x.RType.String()+x.Provider, &dbs.StakePoolReward{
			ProviderID: dbs.ProviderID{ID: x.Provider, Type: x.PType}, Reward: currency.Coin(x.Reward), RewardType: x.RType,
			DelegateRewards: c20coins(x.Delegates), DelegatePenalties: c20coins(nil), DelegateWallet: c20id("wallet", 0)}))
	case "reward":
		out = append(out, ev(TagStakePoolReward, x.RType.String()+x.Provider, &dbs.StakePoolReward{
			ProviderID: dbs.ProviderID{ID: x.Provider, Type: x.PType}, Reward: currency.Coin(x.Reward), RewardType: x.RType,
			DelegateRewards: c20coins(x.Delegates), DelegatePenalties: c20coins(nil), AllocationID: x.Alloc, DelegateWallet: c20id("wallet", 0)}))
	case "penalty":
		out = append(out, ev(TagStakePoolPenalty, x.RType.String()+x.Provider, &dbs.StakePoolReward{
			ProviderID: dbs.ProviderID{ID: x.Provider, Type: x.PType}, RewardType: x.RType,
			DelegateRewards: c20coins(nil), DelegatePenalties: c20coins(x.Delegates), AllocationID: x.Alloc, DelegateWallet: c20id("wallet", 0)}))
	case "stake":
		out = append(out, ev(TagLockStakePool, x.Client, DelegatePoolLock{Client: x.Client, ProviderId: x.Provider, ProviderType: x.PType,
			Amount: x.Amount, Total: x.Amount}))
	case "unstake":
		mintReward()
		out = append(out, ev(TagUnlockStakePool, x.Client, DelegatePoolLock{Client: x.Client, ProviderId: x.Provider, ProviderType: x.PType,
			Amount: x.Amount, Reward: currency.Coin(x.Reward), Total: x.Amount + x.Reward}))
	case "collect":
		mintReward()
	case "rplock":
		out = append(out, ev(TagLockReadPool, x.Client, ReadPoolLock{Client: x.Client, PoolId: x.Client, Amount: x.Amount}))
	case "rpunlock":
		key := c20ssc + ":readpool:" + x.Client
		out = append(out, ev(TagUnlockReadPool, key, ReadPoolLock{Client: x.Client, PoolId: key, Amount: x.Amount}))
	case "wplock":
		out = append(out, ev(TagLockWritePool, x.Alloc, WritePoolLock{Client: x.Client, AllocationId: x.Alloc, Amount: x.Amount}))
	case "wpunlock":
		out = append(out, ev(TagUnlockWritePool, x.Alloc, WritePoolLock{Client: x.Client, AllocationId: x.Alloc, Amount: x.Amount}))
	}
	return out
}

// ---------------------------------------------------------------------------
// the view both sides are reduced to

type c20view struct {
	tickets   map[string]int   // addr|hash|amount|nonce -> count
	burnBy    map[string]int64 // burner -> sum
	mints     map[string]int   // user|nonce|amount|signers -> count
	mintBy    map[string]int64 // signer -> sum of the amounts it signed
	rewards   map[string]int64 // provider|type[|delegate] -> sum
	penalties map[string]int64 // provider|delegate -> sum
	locks     map[string]int64 // tag|index -> sum of amounts
	lockUser  map[string]int64 // tag|client -> sum of amounts
	userAgg   map[string]int64 // tag|user -> sum
	other     map[string]int   // pass-through events: tag|index|data -> count
	nTicketEv int              // number of tickets carried by the merged burn-ticket event
}

func c20newView() *c20view {
	return &c20view{tickets: map[string]int{}, burnBy: map[string]int64{}, mints: map[string]int{}, mintBy: map[string]int64{},
		rewards: map[string]int64{}, penalties: map[string]int64{}, locks: map[string]int64{}, lockUser: map[string]int64{},
		userAgg: map[string]int64{}, other: map[string]int{}}
}

func c20ticketKey(addr, hash string, amount currency.Coin, nonce int64) string {
	return fmt.Sprintf("%s|%s|%d|%d", addr, hash, amount, nonce)
}

func c20each[T any](data interface{}) ([]T, bool) {
	switch d := data.(type) {
	case []T:
		return d, true
	case *[]T:
		return *d, true
	case T:
		return []T{d}, true
	case *T:
		return []T{*d}, true
	}
	return nil, false
}

// add folds one event (raw or merged) into the view.
func (v *c20view) add(e Event) error {
	bad := func() error { return fmt.Errorf("event %v carries unexpected data %T", e.Tag, e.Data) }
	switch e.Tag {
	case TagAddBurnTicket:
		ts, ok := c20each[BurnTicket](e.Data)
		if !ok {
			return bad()
		}
		for _, t := range ts {
			v.tickets[c20ticketKey(t.EthereumAddress, t.Hash, t.Amount, t.Nonce)]++
		}
		v.nTicketEv += len(ts)
	case TagAuthorizerBurn:
		bs, ok := c20each[state.Burn](e.Data)
		if !ok {
			return bad()
		}
		for _, b := range bs {
			v.burnBy[b.Burner] += int64(b.Amount)
		}
	case TagAddBridgeMint:
		ms, ok := c20each[BridgeMint](e.Data)
		if !ok {
			return bad()
		}
		for _, m := range ms {
			v.mints[fmt.Sprintf("%s|%d|%d|%v", m.UserID, m.MintNonce, m.Amount, m.Signers)]++
			for _, s := range m.Signers {
				v.mintBy[s] += int64(m.Amount)
			}
		}
	case TagStakePoolReward, TagStakePoolPenalty:
		rs, ok := c20each[dbs.StakePoolReward](e.Data)
		if !ok {
			return bad()
		}
		for _, r := range rs {
			if e.Tag == TagStakePoolReward {
				k := r.ID + "|" + strconv.Itoa(int(r.RewardType))
				v.rewards[k] += int64(r.Reward)
				for d, a := range r.DelegateRewards {
					v.rewards[k+"|"+d] += int64(a)
				}
			} else {
				for d, a := range r.DelegatePenalties {
					v.penalties[r.ID+"|"+d] += int64(a)
				}
			}
		}
	case TagLockStakePool, TagUnlockStakePool:
		ls, ok := c20each[DelegatePoolLock](e.Data)
		if !ok {
			return bad()
		}
		for _, l := range ls {
			// after the merge the event index is the block hash; the merge key of these tags is the client
			v.locks[e.Tag.String()+"|"+l.Client] += l.Amount
			v.lockUser[e.Tag.String()+"|"+l.Client] += l.Amount
		}
	case TagLockReadPool, TagUnlockReadPool:
		ls, ok := c20each[ReadPoolLock](e.Data)
		if !ok {
			return bad()
		}
		for _, l := range ls {
			v.locks[e.Tag.String()+"|"+l.Client] += l.Amount
			v.lockUser[e.Tag.String()+"|"+l.Client] += l.Amount
		}
	case TagLockWritePool, TagUnlockWritePool:
		ls, ok := c20each[WritePoolLock](e.Data)
		if !ok {
			return bad()
		}
		for _, l := range ls {
			v.locks[e.Tag.String()+"|"+l.AllocationId] += l.Amount
			v.lockUser[e.Tag.String()+"|"+l.Client] += l.Amount
		}
	case TagUpdateUserCollectedRewards, TagUpdateUserPayedFees:
		us, ok := c20each[UserAggregate](e.Data)
		if !ok {
			return bad()
		}
		for _, u := range us {
			v.userAgg[e.Tag.String()+"|"+u.UserID] += u.CollectedReward + u.PayedFees
		}
	case TagAddTransactions:
		ts, ok := c20each[Transaction](e.Data)
		if !ok {
			return bad()
		}
		for _, t := range ts {
			v.other[fmt.Sprintf("txn|%s|%d", t.Hash, t.Fee)]++
		}
	case TagMintReward:
		rs, ok := c20each[RewardMint](e.Data)
		if !ok {
			return bad()
		}
		for _, r := range rs {
			v.other[fmt.Sprintf("mintreward|%s|%d|%s", r.ClientID, r.Amount, r.ProviderID)]++
		}
	default:
		return fmt.Errorf("unexpected tag %v in the block", e.Tag)
	}
	return nil
}

func c20shorts(a []string) []string {
	out := make([]string, len(a))
	for i, s := range a {
		out[i] = c20short(s)
	}
	return out
}

func c20diffInt(want, got map[string]int) (lost, extra []string) {
	for k, w := range want {
		if g := got[k]; g < w {
			lost = append(lost, fmt.Sprintf("%s x%d", k, w-g))
		}
	}
	for k, g := range got {
		if w := want[k]; g > w {
			extra = append(extra, fmt.Sprintf("%s x%d", k, g-w))
		}
	}
	sort.Strings(lost)
	sort.Strings(extra)
	return
}

func c20diffSum(want, got map[string]int64) []string {
	var out []string
	for k, w := range want {
		if g := got[k]; g != w {
			out = append(out, fmt.Sprintf("%s: want %d got %d", k, w, g))
		}
	}
	for k, g := range got {
		if _, ok := want[k]; !ok && g != 0 {
			out = append(out, fmt.Sprintf("%s: want 0 got %d", k, g))
		}
	}
	sort.Strings(out)
	return out
}

func c20eqSum(a, b map[string]int64) bool { return len(c20diffSum(a, b)) == 0 }

// ---------------------------------------------------------------------------
// finding keys (each names one clause and, where the failing inputs have a
// recognisable shape, that shape)

const (
	c20kTicketsSameAddr = "merge-burn-tickets-same-address-overwritten"
	c20kTickets         = "merge-burn-tickets"
	c20kBurnSameClient  = "merge-authorizer-burn-same-client-overwritten"
	c20kBurn            = "merge-authorizer-burn"
	c20kMintSameClient  = "merge-bridge-mint-same-client-overwritten"
	c20kMint            = "merge-bridge-mint"
	c20kReward          = "merge-stake-pool-reward"
	c20kPenaltySameProv = "merge-stake-pool-penalty-same-provider-overwritten"
	c20kPenalty         = "merge-stake-pool-penalty"
	c20kLock            = "merge-pool-lock-sum"
	c20kUserAgg         = "merge-user-aggregate-sum"
	c20kOther           = "merge-pass-through"
	c20kDBTicketsFirst  = "db-burn-tickets-only-one-per-block-stored"
	c20kDBTickets       = "db-burn-tickets"
	c20kDBBurnTotal     = "db-authorizer-total-burn"
	c20kDBMintEmptyID   = "db-authorizer-total-mint-keyed-by-empty-id"
	c20kDBMintTotal     = "db-authorizer-total-mint"
	c20kDBRewardMint    = "db-reward-mints"
)

// ---------------------------------------------------------------------------

func TestC20_EventPipeline(t *testing.T) {
	st := vkit.For("C20").SetRule("per case 1..3 consecutive blocks; per block a drawn sequence of 0..14 transactions: burns (0..6; 3 clients, 3 ethereum addresses, burn nonce = per-address counter as zcnsc.burn keeps it), bridge mints (0..4; unique nonces, 1..4 of 4 authorizers as signers, with the fee-share stake pool reward the contract emits), stake pool rewards / penalties (3 providers, 3 delegates, several reward types), stake lock / unlock, reward collection, read / write pool lock / unlock; every transaction also carries the per-transaction events block.ComputeState adds (TagAddTransactions, TagUpdateUserPayedFees); events have the Index, tag and value-or-pointer data of the emission sites. Each block goes through the real mergeEvents and then through EventDb.WorkEvents in a transaction of the in-memory sqlite event DB. non-trivial = a block in which >= 2 burns share an ethereum address or a client; distinct by the rendered transaction lists")
	st.Assume("Postgres is not available: bulk statements built by UpdateBuilder (UPDATE .. FROM unnest(..)) are recorded by a gorm callback (table, columns, argument arrays) and replaced by a no-op so that the handler continues; the clause 'counts every mint and burn toward the authorizers' totals' is decided on the recorded arguments of the authorizers.total_burn / authorizers.total_mint statements, read as: each listed id gets the listed amount added once (an id listed twice in one statement is counted once, which is what UPDATE .. FROM does)")
	st.Assume("burn totals are keyed the way the code keys them (state.Burn.Burner, the burning client); whether that id has an authorizers row is not judged")
	st.Assume("stake pool reward / penalty, pool lock / unlock and user aggregate events are judged at the merge level only (sums per merge key and per client, multiset of pass-through events); their Postgres handlers run with the bulk statements replaced by no-ops and must not fail")
	st.Assume("only the events relevant to the statement are generated for a transaction (e.g. delegate pool balance updates of a stake lock are left out); data maps are non-nil as stakepool.NewStakePoolReward builds them")
	edb, err := c20world()
	if err != nil {
		t.Fatalf("VERIF-HARNESS-ERROR cannot open the in-memory event db: %v", err)
	}
	rapid.Check(t, func(t *rapid.T) {
		ctx := context.Background()
		tx, err := edb.Begin(ctx)
		if err != nil {
			t.Fatalf("VERIF-HARNESS-ERROR begin: %v", err)
		}
		defer func() { _ = tx.Rollback() }()
		c20takeCaptured()

		// known classes are still sampled but do not dominate
		avoid := map[string]bool{}
		for _, k := range []string{c20kTicketsSameAddr, c20kBurnSameClient, c20kMintSameClient, c20kPenaltySameProv, c20kDBTicketsFirst, c20kDBMintEmptyID} {
			if st.IsKnown(k) && rapid.IntRange(0, 3).Draw(t, "avoidKnown") > 0 {
				avoid[k] = true
			}
		}

		clients := []string{c20id("client", 0), c20id("client", 1), c20id("client", 2), c20id("auth", 0)} // an authorizer may burn, too
		auths := []string{c20id("auth", 0), c20id("auth", 1), c20id("auth", 2), c20id("auth", 3)}
		provs := []struct {
			id string
			pt spenum.Provider
			rt []spenum.Reward
		}{
			{c20id("blobber", 0), spenum.Blobber, []spenum.Reward{spenum.BlockRewardBlobber, spenum.ChallengePassReward, spenum.FileDownloadReward}},
			{c20id("blobber", 1), spenum.Blobber, []spenum.Reward{spenum.BlockRewardBlobber, spenum.ChallengePassReward}},
			{c20id("miner", 0), spenum.Miner, []spenum.Reward{spenum.BlockRewardMiner, spenum.FeeRewardMiner}},
		}
		delegates := []string{c20id("delegate", 0), c20id("delegate", 1), c20id("delegate", 2)}
		allocs := []string{c20id("alloc", 0), c20id("alloc", 1)}

		amount := func(label string) int64 {
			if rapid.IntRange(0, 5).Draw(t, label+"Big") == 0 {
				return rapid.Int64Range(1, 1<<45).Draw(t, label)
			}
			return rapid.Int64Range(1, 50).Draw(t, label)
		}
		dmap := func(label string) map[string]int64 {
			m := map[string]int64{}
			for _, d := range delegates {
				if rapid.Bool().Draw(t, label+"Has") {
					m[d] = amount(label)
				}
			}
			return m
		}

		burnNonce := map[string]int64{}              // per ethereum address (zcnsc user node)
		usedMintNonce := map[int64]bool{}            // zcnsc keeps a global set of minted nonces
		allTickets := map[string]map[string]int{}    // addr -> hash|amount|nonce -> count, every burn so far
		mergedTickets := map[string]map[string]int{} // the same for tickets that were still present after the merge
		ticketBlock := map[string]int{}              // ticket key -> block index
		multiTicketBlock := map[int]bool{}           // blocks whose merged burn-ticket event carried >= 2 tickets
		wantRewardMints := map[string]int{}
		nBlocks := rapid.IntRange(1, 3).Draw(t, "blocks")
		baseRound := rapid.Int64Range(1, 1_000_000).Draw(t, "round")
		var rendered [][]c20txn
		nontrivial := false
		classes := map[string]bool{}

		fail := func(key, format string, args ...interface{}) {
			if st.Known(key) {
				return
			}
			t.Fatalf("%s", c20abbr(vkit.Violation("C20", key, format+" :: blocks=%s", append(args, c20render(rendered))...)))
		}

		for bi := 0; bi < nBlocks; bi++ {
			round := baseRound + int64(bi)
			blockHash := encryption.Hash(fmt.Sprintf("c20-block-%d", round))
			nTx := rapid.IntRange(0, 14).Draw(t, "txns")
			var txns []c20txn
			nBurn, nMint := 0, 0
			addrUsed, burnClientUsed, mintClientUsed, penaltyProvUsed := map[string]int{}, map[string]int{}, map[string]int{}, map[string]int{}
			for i := 0; i < nTx; i++ {
				kind := rapid.SampledFrom([]string{"burn", "burn", "burn", "burn", "mint", "mint", "reward", "reward", "penalty", "penalty",
					"stake", "unstake", "collect", "rplock", "rpunlock", "wplock", "wpunlock"}).Draw(t, "kind")
				if kind == "burn" && (nBurn >= 6 || (avoid[c20kDBTicketsFirst] && nBurn >= 1)) {
					kind = "stake"
				}
				if kind == "mint" && (nMint >= 4 || avoid[c20kDBMintEmptyID]) {
					kind = "collect"
				}
				x := c20txn{Kind: kind, Fee: rapid.Int64Range(0, 20).Draw(t, "fee"), Hash: encryption.Hash(fmt.Sprintf("c20-txn-%d-%d", bi, i))}
				x.Client = rapid.SampledFrom(clients).Draw(t, "client")
				switch kind {
				case "burn":
					x.Addr = c20eth(rapid.IntRange(0, 2).Draw(t, "eth"))
					if rapid.IntRange(0, 3).Draw(t, "checksumSpelling") == 2 {
						// the same address in its mixed-case (checksummed) spelling: the chain numbers burns per literal
						// address string, so this spelling has its own nonce sequence and its own tickets
						x.Addr = "0x" + strings.ToUpper(x.Addr[2:12]) + x.Addr[12:]
					}
					if avoid[c20kTicketsSameAddr] && addrUsed[x.Addr] > 0 {
						for k := 0; k < 3 && addrUsed[x.Addr] > 0; k++ {
							x.Addr = c20eth(k)
						}
						if addrUsed[x.Addr] > 0 {
							x.Addr = c20eth(3 + nBurn)
						}
					}
					if avoid[c20kBurnSameClient] && burnClientUsed[x.Client] > 0 {
						for _, c := range clients {
							if burnClientUsed[c] == 0 {
								x.Client = c
							}
						}
						if burnClientUsed[x.Client] > 0 {
							x.Client = c20id("client", 10+nBurn)
						}
					}
					x.Amount = amount("burnAmount")
					burnNonce[x.Addr]++
					x.Nonce = burnNonce[x.Addr]
					nBurn++
					addrUsed[x.Addr]++
					burnClientUsed[x.Client]++
				case "mint":
					if avoid[c20kMintSameClient] && mintClientUsed[x.Client] > 0 {
						for _, c := range clients {
							if mintClientUsed[c] == 0 {
								x.Client = c
							}
						}
						if mintClientUsed[x.Client] > 0 {
							x.Client = c20id("client", 20+nMint)
						}
					}
					for {
						x.Nonce = rapid.Int64Range(1, 400).Draw(t, "mintNonce")
						if !usedMintNonce[x.Nonce] {
							usedMintNonce[x.Nonce] = true
							break
						}
					}
					x.Amount = amount("mintAmount")
					perm := rapid.Permutation(auths).Draw(t, "signers")
					x.Signers = perm[:rapid.IntRange(1, len(auths)).Draw(t, "nSigners")]
					x.Provider, x.PType, x.RType = x.Signers[rapid.IntRange(0, len(x.Signers)-1).Draw(t, "rewarded")], spenum.Authorizer, spenum.FeeRewardAuthorizer
					x.Reward = rapid.Int64Range(0, 9).Draw(t, "share")
					x.Delegates = dmap("shareDelegate")
					nMint++
					mintClientUsed[x.Client]++
				case "reward":
					p := provs[rapid.IntRange(0, len(provs)-1).Draw(t, "provider")]
					x.Provider, x.PType = p.id, p.pt
					x.RType = rapid.SampledFrom(p.rt).Draw(t, "rewardType")
					x.Reward = rapid.Int64Range(0, 30).Draw(t, "reward")
					x.Delegates = dmap("delegateReward")
					x.Alloc = rapid.SampledFrom(allocs).Draw(t, "alloc")
				case "penalty":
					p := provs[rapid.IntRange(0, 1).Draw(t, "blobber")]
					if avoid[c20kPenaltySameProv] && penaltyProvUsed[p.id] > 0 {
						p = provs[1-rapid.IntRange(0, 1).Draw(t, "otherBlobber")]
						if penaltyProvUsed[p.id] > 0 {
							p.id = c20id("blobber", 10+i)
						}
					}
					x.Provider, x.PType, x.RType = p.id, spenum.Blobber, spenum.ChallengeSlashPenalty
					x.Delegates = dmap("penalty")
					x.Alloc = rapid.SampledFrom(allocs).Draw(t, "alloc")
					penaltyProvUsed[p.id]++
				case "stake", "unstake":
					p := provs[rapid.IntRange(0, len(provs)-1).Draw(t, "provider")]
					x.Provider, x.PType = p.id, p.pt
					x.Amount = amount("stake")
					if kind == "unstake" {
						x.Reward = rapid.Int64Range(0, 20).Draw(t, "collected")
					}
				case "collect":
					p := provs[rapid.IntRange(0, len(provs)-1).Draw(t, "provider")]
					x.Provider, x.PType = p.id, p.pt
					x.Reward = rapid.Int64Range(0, 20).Draw(t, "collected")
				case "rplock", "rpunlock":
					x.Amount = amount("readPool")
				case "wplock", "wpunlock":
					x.Alloc = rapid.SampledFrom(allocs).Draw(t, "alloc")
					x.Amount = amount("writePool")
				}
				txns = append(txns, x)
			}
			rendered = append(rendered, txns)

			// what the block must contribute, computed from the transactions before the
			// merge runs (the merge middlewares add into the first event's data in place)
			want := c20newView()
			var events []Event
			perTag := map[string]map[string]int{} // tag -> merge index -> number of events
			for i := range txns {
				for _, e := range txns[i].events(round, blockHash) {
					if err := want.add(e); err != nil {
						t.Fatalf("VERIF-HARNESS-ERROR %v", err)
					}
					m := perTag[e.Tag.String()]
					if m == nil {
						m = map[string]int{}
						perTag[e.Tag.String()] = m
					}
					m[e.Index]++
				}
			}
			// the events handed to the code are built a second time so that nothing is shared with `want`
			for i := range txns {
				events = append(events, txns[i].events(round, blockHash)...)
			}
			shares := func(tag EventTag) bool {
				for _, n := range perTag[tag.String()] {
					if n >= 2 {
						return true
					}
				}
				return false
			}

			merged, err := mergeEvents(round, blockHash, events)
			if err != nil {
				fail("merge-error", "mergeEvents failed on block %d: %v", bi, err)
				return
			}
			got := c20newView()
			for _, e := range merged {
				if err := got.add(e); err != nil {
					fail("merge-output-shape", "block %d: %v", bi, err)
					return
				}
			}

			// ---- (a) merge level
			if lost, extra := c20diffInt(want.tickets, got.tickets); len(lost)+len(extra) > 0 {
				key := c20kTickets
				if len(extra) == 0 && shares(TagAddBurnTicket) {
					key = c20kTicketsSameAddr
					for _, l := range lost { // every lost ticket must belong to an address burnt to more than once in this block
						if perTag[TagAddBurnTicket.String()][strings.SplitN(l, "|", 2)[0]] < 2 {
							key = c20kTickets
						}
					}
				}
				fail(key, "block %d: burn tickets after mergeEvents differ from the burns of the block: lost %v, unexpected %v (address|txn|amount|nonce)", bi, lost, extra)
			}
			if d := c20diffSum(want.burnBy, got.burnBy); len(d) > 0 {
				key := c20kBurn
				if shares(TagAuthorizerBurn) {
					key = c20kBurnSameClient
					for b, w := range want.burnBy {
						if g := got.burnBy[b]; g != w && (g > w || perTag[TagAuthorizerBurn.String()][b] < 2) {
							key = c20kBurn
						}
					}
				}
				fail(key, "block %d: burnt amount per burner after mergeEvents differs: %v", bi, d)
			}
			if lost, extra := c20diffInt(want.mints, got.mints); len(lost)+len(extra) > 0 {
				key := c20kMint
				if len(extra) == 0 && shares(TagAddBridgeMint) {
					key = c20kMintSameClient
					for _, l := range lost { // every lost mint must belong to a client that minted more than once in this block
						if perTag[TagAddBridgeMint.String()][strings.SplitN(l, "|", 2)[0]] < 2 {
							key = c20kMint
						}
					}
				}
				fail(key, "block %d: bridge mints after mergeEvents differ: lost %v, unexpected %v (user|nonce|amount|signers)", bi, lost, extra)
			}
			if d := c20diffSum(want.rewards, got.rewards); len(d) > 0 {
				fail(c20kReward, "block %d: stake pool reward sums (provider|type[|delegate]) after mergeEvents differ: %v", bi, d)
			}
			if d := c20diffSum(want.penalties, got.penalties); len(d) > 0 {
				key := c20kPenalty
				if shares(TagStakePoolPenalty) {
					key = c20kPenaltySameProv
					for k, w := range want.penalties { // every lowered sum must belong to a provider slashed more than once in this block
						prov := strings.SplitN(k, "|", 2)[0]
						if g := got.penalties[k]; g != w && (g > w || perTag[TagStakePoolPenalty.String()][spenum.ChallengeSlashPenalty.String()+prov] < 2) {
							key = c20kPenalty
						}
					}
					for k, g := range got.penalties {
						if _, ok := want.penalties[k]; !ok && g != 0 {
							key = c20kPenalty
						}
					}
				}
				fail(key, "block %d: stake pool penalty sums (provider|delegate) after mergeEvents differ: %v", bi, d)
			}
			if d := c20diffSum(want.locks, got.locks); len(d) > 0 {
				fail(c20kLock, "block %d: pool lock / unlock amounts per merge key after mergeEvents differ: %v", bi, d)
			}
			if d := c20diffSum(want.userAgg, got.userAgg); len(d) > 0 {
				fail(c20kUserAgg, "block %d: per-user collected rewards / payed fees after mergeEvents differ: %v", bi, d)
			}
			if lost, extra := c20diffInt(want.other, got.other); len(lost)+len(extra) > 0 {
				fail(c20kOther, "block %d: transactions / reward mints after mergeEvents differ: lost %v, unexpected %v", bi, lost, extra)
			}
			if d := c20diffSum(want.lockUser, got.lockUser); len(d) > 0 {
				classes["observed/lock_amount_moved_to_another_client"] = true // two clients locking into one allocation: not judged
			}

			// ---- (b) the per-block worker path on the sqlite event DB
			c20takeCaptured()
			werr := make(chan error, 1)
			go func() {
				_, err := tx.WorkEvents(ctx, BlockEvents{events: merged, round: round, block: blockHash, blockSize: len(txns), tx: tx})
				werr <- err
			}()
			select {
			case err := <-werr:
				if err != nil {
					fail("db-handler-error", "block %d: EventDb.WorkEvents failed: %v", bi, err)
					return
				}
			case <-time.After(60 * time.Second):
				t.Fatalf("VERIF-HANG EventDb.WorkEvents did not return within 60 s :: blocks=%s", c20abbr(c20render(rendered)))
			}
			stmts := c20takeCaptured()
			for _, s := range stmts {
				if strings.HasPrefix(s.table, "?") {
					t.Fatalf("VERIF-HARNESS-ERROR cannot read a bulk update: %s", s.table)
				}
			}

			// burn tickets
			for k, n := range want.tickets {
				p := strings.SplitN(k, "|", 2)
				if allTickets[p[0]] == nil {
					allTickets[p[0]] = map[string]int{}
					mergedTickets[p[0]] = map[string]int{}
				}
				allTickets[p[0]][p[1]] += n
				ticketBlock[k] = bi
			}
			for k, n := range got.tickets {
				p := strings.SplitN(k, "|", 2)
				if mergedTickets[p[0]] == nil {
					mergedTickets[p[0]] = map[string]int{}
				}
				mergedTickets[p[0]][p[1]] += n
			}
			if got.nTicketEv >= 2 {
				multiTicketBlock[bi] = true
			}
			addrs := make([]string, 0, len(allTickets))
			for a := range allTickets {
				addrs = append(addrs, a)
			}
			sort.Strings(addrs)
			// The message of a violation must not depend on which of several tickets the code happened to keep
			// (withUniqueEventOverwrite returns its events in map order): totals go into the message, details into the log.
			nHave, nAll, nMerged := 0, 0, 0
			dbKey := ""
			var details []string
			for _, a := range addrs {
				rows, err := tx.GetBurnTickets(a)
				if err != nil {
					fail("db-burn-tickets-query", "GetBurnTickets(%s) failed: %v", a, err)
					continue
				}
				have := map[string]int{}
				for _, r := range rows {
					if r.EthereumAddress != a {
						fail(c20kDBTickets, "GetBurnTickets(%s) returned a row of address %s", a, r.EthereumAddress)
					}
					have[fmt.Sprintf("%s|%d|%d", r.Hash, r.Amount, r.Nonce)]++
				}
				nHave += len(rows)
				for _, n := range allTickets[a] {
					nAll += n
				}
				for _, n := range mergedTickets[a] {
					nMerged += n
				}
				l2, e2 := c20diffInt(mergedTickets[a], have)
				if len(l2)+len(e2) == 0 {
					continue // the DB holds exactly what the merge left: a loss in the merge was reported by clause (a) of its block
				}
				if dbKey == "" {
					dbKey = c20kDBTicketsFirst
				}
				if len(e2) > 0 {
					dbKey = c20kDBTickets
				}
				for _, l := range l2 {
					k := a + "|" + strings.SplitN(l, " x", 2)[0]
					if !multiTicketBlock[ticketBlock[k]] {
						dbKey = c20kDBTickets
					}
				}
				details = append(details, fmt.Sprintf("GetBurnTickets(%s) returns %v; burns to it so far %v; missing %v, unexpected %v (txn|amount|nonce)",
					a, c20keys(have), c20keys(allTickets[a]), l2, e2))
			}
			if dbKey != "" {
				t.Logf("%s", c20abbr(strings.Join(details, "\n")))
				fail(dbKey, "after block %d the query database returns %d burn tickets over all addresses; %d burns were finalized so far, %d of them were still present after mergeEvents; the merged burn-ticket event of block %d carried %d tickets",
					bi, nHave, nAll, nMerged, bi, got.nTicketEv)
			}

			// authorizer totals: recorded arguments of the bulk updates of this block
			gotBurn, gotMint := map[string]int64{}, map[string]int64{}
			mintIDs := 0
			for _, s := range stmts {
				if s.table != "authorizers" {
					continue
				}
				seen := map[string]bool{}
				for _, r := range s.rows {
					id := r["id"]
					if seen[id] {
						continue // UPDATE .. FROM applies one joined row per target row
					}
					seen[id] = true
					if v, ok := r["total_burn"]; ok {
						n, _ := strconv.ParseInt(v, 10, 64)
						gotBurn[id] += n
					}
					if v, ok := r["total_mint"]; ok {
						n, _ := strconv.ParseInt(v, 10, 64)
						gotMint[id] += n
						mintIDs++
					}
				}
			}
			if !c20eqSum(want.burnBy, gotBurn) && !c20eqSum(got.burnBy, gotBurn) {
				fail(c20kDBBurnTotal, "block %d: authorizers.total_burn is updated with %v, burnt per burner: %v", bi, c20sums(gotBurn), c20sums(want.burnBy))
			}
			if !c20eqSum(want.mintBy, gotMint) && !c20eqSum(got.mintBy, gotMint) {
				key := c20kDBMintTotal
				if _, only := gotMint[""]; only && len(gotMint) == 1 {
					key = c20kDBMintEmptyID
				}
				fail(key, "block %d: authorizers.total_mint is updated with (id: amount) %v, minted per signing authorizer: %v", bi, c20sums(gotMint), c20sums(want.mintBy))
			}

			// reward mints are append-only rows
			for k, n := range want.other {
				if strings.HasPrefix(k, "mintreward|") {
					wantRewardMints[k] += n
				}
			}
			var rms []RewardMint
			if err := tx.Store.Get().Model(&RewardMint{}).Find(&rms).Error; err != nil {
				fail("db-reward-mints-query", "reading reward_mints failed: %v", err)
			} else {
				have := map[string]int{}
				for _, r := range rms {
					have[fmt.Sprintf("mintreward|%s|%d|%s", r.ClientID, r.Amount, r.ProviderID)]++
				}
				if lost, extra := c20diffInt(wantRewardMints, have); len(lost)+len(extra) > 0 {
					fail(c20kDBRewardMint, "after block %d reward_mints rows differ from the collected rewards: missing %v, unexpected %v", bi, lost, extra)
				}
			}

			// ---- statistics
			if nBurn >= 2 && (shares(TagAddBurnTicket) || shares(TagAuthorizerBurn)) {
				nontrivial = true
			}
			for tag, name := range map[EventTag]string{TagAddBurnTicket: "burns_same_address", TagAuthorizerBurn: "burns_same_client", TagAddBridgeMint: "mints_same_client",
				TagStakePoolReward: "rewards_same_provider_and_type", TagStakePoolPenalty: "penalties_same_provider", TagLockStakePool: "stake_locks_same_client",
				TagUnlockStakePool: "stake_unlocks_same_client", TagLockReadPool: "readpool_locks_same_client", TagLockWritePool: "writepool_locks_same_allocation",
				TagUnlockWritePool: "writepool_unlocks_same_allocation", TagUpdateUserCollectedRewards: "collected_rewards_same_user", TagUpdateUserPayedFees: "fees_same_user"} {
				if shares(tag) {
					classes["block_shares/"+name] = true
				}
			}
			classes[fmt.Sprintf("block_burns/%d", nBurn)] = true
			classes[fmt.Sprintf("block_mints/%d", nMint)] = true
			if nBurn >= 2 && !shares(TagAddBurnTicket) {
				classes["block_shares/several_burns_all_addresses_distinct"] = true
			}
			if mintIDs > 0 {
				classes["db/authorizer_total_mint_statement"] = true
			}
			if len(gotBurn) > 0 {
				classes["db/authorizer_total_burn_statement"] = true
			}
		}

		st.Case()
		st.Class(fmt.Sprintf("blocks/%d", nBlocks))
		for c := range classes {
			st.Class(c)
		}
		if nontrivial {
			st.NonTrivial(c20render(rendered))
		}
		if st.WantSample(nontrivial) {
			st.Sample(nontrivial, map[string]interface{}{"blocks": c20renderJSON(rendered)})
		}
	})
}

func c20keys(m map[string]int) []string {
	var out []string
	for k, n := range m {
		for i := 0; i < n; i++ {
			out = append(out, k)
		}
	}
	sort.Strings(out)
	return out
}

func c20sums(m map[string]int64) []string {
	var out []string
	for k, v := range m {
		out = append(out, fmt.Sprintf("%q: %d", k, v))
	}
	sort.Strings(out)
	return out
}

func c20renderTxn(x c20txn) string {
	s := x.Kind + "(" + c20short(x.Client)
	switch x.Kind {
	case "burn":
		s += fmt.Sprintf(" eth=%s amount=%d nonce=%d", c20short(x.Addr), x.Amount, x.Nonce)
	case "mint":
		s += fmt.Sprintf(" nonce=%d amount=%d signers=%v share=%d+%v to %s", x.Nonce, x.Amount, c20shorts(x.Signers), x.Reward, c20dm(x.Delegates), c20short(x.Provider))
	case "reward":
		s += fmt.Sprintf(" provider=%s type=%d reward=%d delegates=%v", c20short(x.Provider), int(x.RType), x.Reward, c20dm(x.Delegates))
	case "penalty":
		s += fmt.Sprintf(" provider=%s alloc=%s delegates=%v", c20short(x.Provider), c20short(x.Alloc), c20dm(x.Delegates))
	case "stake", "unstake", "collect":
		s += fmt.Sprintf(" provider=%s amount=%d reward=%d", c20short(x.Provider), x.Amount, x.Reward)
	case "wplock", "wpunlock":
		s += fmt.Sprintf(" alloc=%s amount=%d", c20short(x.Alloc), x.Amount)
	default:
		s += fmt.Sprintf(" amount=%d", x.Amount)
	}
	return s + fmt.Sprintf(" fee=%d)", x.Fee)
}

func c20dm(m map[string]int64) []string {
	var out []string
	for k, v := range m {
		out = append(out, fmt.Sprintf("%s:%d", c20short(k), v))
	}
	sort.Strings(out)
	return out
}

func c20render(blocks [][]c20txn) string {
	var bs []string
	for _, b := range blocks {
		var xs []string
		for _, x := range b {
			xs = append(xs, c20renderTxn(x))
		}
		bs = append(bs, "["+strings.Join(xs, ", ")+"]")
	}
	return strings.Join(bs, " ")
}

func c20renderJSON(blocks [][]c20txn) [][]string {
	var out [][]string
	for _, b := range blocks {
		xs := []string{}
		for _, x := range b {
			xs = append(xs, c20renderTxn(x))
		}
		out = append(out, xs)
	}
	return out
}
