package stakepool

import (
	"fmt"
	"math"
	"math/big"
	"sort"
	"testing"

	"0chain.net/smartcontract/stakepool/spenum"
	"github.com/0chain/common/core/currency"
	"pgregory.net/rapid"
	"verifharness/vkit"
	"verifharness/vstate"
)

// C10: provider service charge + delegate reward increments == paid amount
// exactly; shares proportional to stake up to rounding; RandN credits at most N
// delegates with an exact total; a killed or under-staked provider receives
// nothing.

type c10snap struct {
	provider currency.Coin
	pools    map[string]currency.Coin
}

func c10take(sp *StakePool) c10snap {
	s := c10snap{provider: sp.Reward, pools: map[string]currency.Coin{}}
	for id, p := range sp.Pools {
		s.pools[id] = p.Reward
	}
	return s
}

func c10coin(t *rapid.T, label string) currency.Coin {
	switch rapid.IntRange(0, 6).Draw(t, label+"Kind") {
	case 0:
		return 0
	case 1:
		return currency.Coin(rapid.Uint64Range(1, 20).Draw(t, label))
	case 2:
		return currency.Coin(rapid.Uint64Range(1, 1_000_000).Draw(t, label))
	case 3:
		return currency.Coin(rapid.Uint64Range(1<<53-3, 1<<53+1000).Draw(t, label))
	case 4:
		return currency.Coin(rapid.Uint64Range(1, 4_000_000_000_000_000_000).Draw(t, label))
	case 5:
		return currency.Coin(rapid.Uint64Range(math.MaxUint64-1000, math.MaxUint64).Draw(t, label))
	default:
		return currency.Coin(rapid.Uint64().Draw(t, label))
	}
}

func c10pool(t *rapid.T) (*StakePool, []string, string) {
	sp := NewStakePool()
	n := rapid.IntRange(0, 12).Draw(t, "delegates")
	var ids []string
	var desc []string
	equal := rapid.IntRange(0, 3).Draw(t, "equalStakes") == 0
	eq := currency.Coin(rapid.Uint64Range(0, 1000).Draw(t, "equalStake"))
	for i := 0; i < n; i++ {
		id := fmt.Sprintf("d%02d-%04x", rapid.IntRange(0, 99).Draw(t, "idp"), i)
		bal := eq
		if !equal {
			switch rapid.IntRange(0, 5).Draw(t, "balKind") {
			case 0:
				bal = 0
			case 1:
				bal = currency.Coin(rapid.Uint64Range(1, 10).Draw(t, "bal"))
			case 2, 3:
				bal = currency.Coin(rapid.Uint64Range(1, 1e12).Draw(t, "bal"))
			case 4:
				bal = currency.Coin(rapid.Uint64Range(1, 4e18).Draw(t, "bal"))
			case 5:
				bal = currency.Coin(rapid.Uint64Range(math.MaxUint64/4, math.MaxUint64/2).Draw(t, "bal"))
			}
		}
		rew := currency.Coin(0)
		if rapid.IntRange(0, 4).Draw(t, "hasReward") == 0 {
			rew = c10coin(t, "prevReward") % 4_000_000_000_000_000_001 // accrued rewards are bounded by the supply
		}
		sp.Pools[id] = &DelegatePool{Balance: bal, Reward: rew, DelegateID: id, Status: spenum.Active}
		ids = append(ids, id)
		desc = append(desc, fmt.Sprintf("%s:%d", id, bal))
	}
	sort.Strings(ids)
	sp.Settings.ServiceChargeRatio = rapid.SampledFrom([]float64{0, 0, 0.1, 0.25, 0.333, 0.5, 0.999, 1}).Draw(t, "serviceCharge")
	sp.Settings.DelegateWallet = "delegate-wallet"
	sp.Settings.MaxNumDelegates = 20
	var total big.Int
	for _, p := range sp.Pools {
		total.Add(&total, new(big.Int).SetUint64(uint64(p.Balance)))
	}
	switch rapid.IntRange(0, 4).Draw(t, "minStakeKind") {
	case 0, 1:
		sp.Settings.MinStake = 0
	case 2:
		if total.IsUint64() {
			sp.Settings.MinStake = currency.Coin(total.Uint64())
		}
	case 3:
		if total.IsUint64() && total.Uint64() < math.MaxUint64 {
			sp.Settings.MinStake = currency.Coin(total.Uint64() + 1)
		}
	case 4:
		sp.Settings.MinStake = currency.Coin(rapid.Uint64Range(0, 1e12).Draw(t, "minStake"))
	}
	if rapid.IntRange(0, 5).Draw(t, "previousProviderReward") == 0 {
		sp.Reward = c10coin(t, "spReward")
	}
	sp.HasBeenKilled = rapid.IntRange(0, 7).Draw(t, "killed") == 0
	return sp, ids, fmt.Sprintf("pools=%v sc=%v min=%d killed=%v", desc, sp.Settings.ServiceChargeRatio, sp.Settings.MinStake, sp.HasBeenKilled)
}

func TestC10_DistributeRewards(t *testing.T) {
	st := vkit.For("C10").SetRule("generated stake pools (0..12 delegate pools; balances 0, small, equal, up to 4e18 and near 2^63; service charge from {0..1}; min_stake around the total; killed flag; previous rewards incl. near-overflow) and amounts (0, small, around 2^53, up to supply, near 2^64) through DistributeRewards and DistributeRewardsRandN (seed, N in 0..len+2, before/after the demeter activation); oracle in exact big-integer arithmetic; non-trivial = successful distribution over >= 2 delegates with unequal non-zero stakes and an amount not divisible by their count; distinct by (pool description, amount, N, seed)")
	st.Assume("amounts are bounded by the token supply 4e18 (delegate balances and previous rewards go up to 2^64-1)")
	st.Assume("proportionality tolerance per delegate: n + 2 + valueLeft*2^-50 units (the contract computes stake ratios in float64)")
	rapid.Check(t, func(t *rapid.T) {
		sp, ids, desc := c10pool(t)
		value := c10coin(t, "value")
		if value > 4_000_000_000_000_000_000 {
			// an amount above the token supply (4e18 < 2^62) cannot be paid by any caller
			value = currency.Coin(uint64(value) % 4_000_000_000_000_000_001)
		}
		randMode := rapid.Bool().Draw(t, "randN")
		w := vstate.NewWorld()
		w.Round = 100
		forkRound := rapid.SampledFrom([]int64{-1, 50, 100, 101}).Draw(t, "demeterRound")
		if forkRound >= 0 {
			if err := w.RecordHardFork("demeter", forkRound); err != nil {
				t.Fatalf("VERIF-HARNESS-ERROR %v", err)
			}
		}
		x := w.Begin()
		before := c10take(sp)
		var total big.Int
		for _, p := range sp.Pools {
			total.Add(&total, new(big.Int).SetUint64(uint64(p.Balance)))
		}
		n := len(sp.Pools)
		randN, seed := 0, int64(0)
		var err error
		func() {
			defer func() {
				if r := recover(); r != nil {
					err = fmt.Errorf("PANIC: %v", r)
				}
			}()
			if randMode {
				randN = rapid.IntRange(0, n+2).Draw(t, "N")
				seed = rapid.Int64().Draw(t, "seed")
				err = sp.DistributeRewardsRandN(value, "prov", spenum.Miner, seed, randN, spenum.BlockRewardMiner, x.Ctx)
			} else {
				err = sp.DistributeRewards(value, "prov", spenum.Blobber, spenum.BlockRewardBlobber, x.Ctx)
			}
		}()
		what := fmt.Sprintf("value=%d randN=%v(N=%d seed=%d fork=%d) %s", value, randMode, randN, seed, forkRound, desc)
		st.Case()
		if err != nil {
			if len(err.Error()) > 6 && err.Error()[:6] == "PANIC:" {
				t.Fatalf("%s", vkit.Violation("C10", "panic", "%v :: %s", err, what))
			}
			st.Class("error_returned")
			return // an error aborts the transaction; nothing is claimed about partial effects here
		}
		after := c10take(sp)
		// deltas
		dProv := new(big.Int).Sub(new(big.Int).SetUint64(uint64(after.provider)), new(big.Int).SetUint64(uint64(before.provider)))
		sum := new(big.Int).Set(dProv)
		credited := 0
		deltas := map[string]*big.Int{}
		for _, id := range ids {
			d := new(big.Int).Sub(new(big.Int).SetUint64(uint64(after.pools[id])), new(big.Int).SetUint64(uint64(before.pools[id])))
			if d.Sign() < 0 {
				t.Fatalf("%s", vkit.Violation("C10", "reward-decreased", "delegate %s reward decreased by %v :: %s", id, d, what))
			}
			if d.Sign() > 0 {
				credited++
			}
			deltas[id] = d
			sum.Add(sum, d)
		}
		if dProv.Sign() < 0 {
			t.Fatalf("%s", vkit.Violation("C10", "reward-decreased", "provider reward decreased :: %s", what))
		}
		under := total.IsUint64() && currency.Coin(total.Uint64()) < sp.Settings.MinStake
		if sp.HasBeenKilled || under || value == 0 {
			if sum.Sign() != 0 {
				t.Fatalf("%s", vkit.Violation("C10", "paid-to-dead-or-understaked", "killed=%v under-staked=%v value=%d but %v units were credited :: %s", sp.HasBeenKilled, under, value, sum, what))
			}
			st.Class("nothing_to_pay")
			return
		}
		bv := new(big.Int).SetUint64(uint64(value))
		if sum.Cmp(bv) != 0 {
			key := "total-not-exact"
			if randMode {
				selStakeZero := false
				if randN <= 0 {
					key = "randn-unstaked-subset-drops-amount"
				} else {
					// the selected subset may hold no stake at all
					pools := sp.getRandPools(x.Ctx, seed, randN)
					z := true
					for _, p := range pools {
						if p.Balance != 0 {
							z = false
						}
					}
					selStakeZero = z
					if selStakeZero {
						key = "randn-unstaked-subset-drops-amount"
					}
				}
			}
			if !st.Known(key) {
				t.Fatalf("%s", vkit.Violation("C10", key, "paid %d but provider charge %v + delegate increments = %v (difference %v) :: %s", value, dProv, sum, new(big.Int).Sub(sum, bv), what))
			}
			return
		}
		if randMode && n > 0 && credited > randN && randN >= 0 {
			t.Fatalf("%s", vkit.Violation("C10", "more-than-n-credited", "%d delegates credited, N=%d :: %s", credited, randN, what))
		}
		// proportionality (only for the all-delegates path, where the stake base is the whole pool)
		valueLeft := new(big.Int).Sub(bv, dProv)
		nz, unequal := 0, false
		var first currency.Coin
		if !randMode && n > 0 && total.Sign() > 0 {
			tol := new(big.Int).Add(big.NewInt(int64(n+2)), new(big.Int).Rsh(valueLeft, 50))
			for _, id := range ids {
				bal := sp.Pools[id].Balance
				if bal > 0 {
					if nz > 0 && bal != first {
						unequal = true
					}
					first = bal
					nz++
				}
				exp := new(big.Int).Mul(valueLeft, new(big.Int).SetUint64(uint64(bal)))
				exp.Div(exp, &total)
				diff := new(big.Int).Sub(deltas[id], exp)
				diff.Abs(diff)
				if diff.Cmp(tol) > 0 {
					t.Fatalf("%s", vkit.Violation("C10", "not-proportional", "delegate %s (stake %d of %v) got %v, proportional share is %v (tolerance %v) :: %s", id, bal, &total, deltas[id], exp, tol, what))
				}
			}
		} else {
			for _, id := range ids {
				bal := sp.Pools[id].Balance
				if bal > 0 {
					if nz > 0 && bal != first {
						unequal = true
					}
					first = bal
					nz++
				}
			}
		}
		nontrivial := nz >= 2 && unequal && valueLeft.Sign() > 0 && new(big.Int).Mod(valueLeft, big.NewInt(int64(nz))).Sign() != 0
		if randMode {
			st.Class("randN")
			if randN < n {
				st.Class("randN_proper_subset")
			}
		} else {
			st.Class("all_delegates")
		}
		if value > 1<<53 {
			st.Class("amount_above_2^53")
		}
		if nontrivial {
			st.NonTrivial(desc, value, randMode, randN, seed, forkRound)
		}
		if st.WantSample(nontrivial) {
			st.Sample(nontrivial, map[string]interface{}{"case": what, "provider_increment": dProv.String(), "delegates_credited": credited})
		}
	})
}
