package encryption

import (
	"encoding/hex"
	"fmt"
	"testing"

	"github.com/herumi/bls-go-binary/bls"
	"pgregory.net/rapid"
	"verifharness/vkit"
)

// C32: aggregate verification accepts exactly when every individual signature
// is valid for its key and message; cancelling invalid signatures are rejected.

func c32addToSig(sigHex string, delta *bls.G1, negate bool) string {
	var s bls.Sign
	if err := s.DeserializeHexStr(sigHex); err != nil {
		panic(err)
	}
	var g bls.G1
	if err := g.Deserialize(s.Serialize()); err != nil {
		panic(err)
	}
	d := *delta
	if negate {
		bls.G1Neg(&d, delta)
	}
	bls.G1Add(&g, &g, &d)
	var out bls.Sign
	if err := out.Deserialize(g.Serialize()); err != nil {
		panic(err)
	}
	return out.SerializeToHexStr()
}

func TestC32_AggregateAgreesWithIndividual(t *testing.T) {
	st := vkit.For("C32").SetRule("n in 1..40 (key, message, signature) triples over derived BLS keys (keys and messages may repeat), batch size 1..n+1, the same key objects reused across several aggregate runs in one case (as long-lived node/client schemes are), corruption pattern: none / one or several signatures replaced / messages replaced / keys swapped / two signatures swapped / coordinated pair (sig_i + d, sig_j - d); oracle: Aggregate+Verify accepts <=> every triple verifies individually; non-trivial = at least one corrupted triple and more than one batch; distinct by (n, batch, pattern, positions)")
	rapid.Check(t, func(t *rapid.T) {
		nKeys := rapid.IntRange(1, 12).Draw(t, "keys")
		runs := rapid.IntRange(1, 3).Draw(t, "runs")
		// verifier-side long-lived schemes (public key only), as node.SigScheme / cached client schemes are
		vers := make([]*BLS0ChainScheme, nKeys)
		for i := range vers {
			v := NewBLS0ChainScheme()
			if err := v.SetPublicKey(vBLS(i).GetPublicKey()); err != nil {
				t.Fatalf("VERIF-HARNESS-ERROR %v", err)
			}
			vers[i] = v
		}
		for run := 0; run < runs; run++ {
			n := rapid.IntRange(1, 40).Draw(t, "n")
			batch := rapid.IntRange(1, n+1).Draw(t, "batchSize")
			keyIdx := make([]int, n)
			msgs := make([]string, n)
			sigs := make([]string, n)
			sameMsg := rapid.Bool().Draw(t, "oneMessageForAll") // tickets: everyone signs the block hash
			common := hex.EncodeToString(rapid.SliceOfN(rapid.Byte(), 32, 32).Draw(t, "msg"))
			for i := 0; i < n; i++ {
				keyIdx[i] = rapid.IntRange(0, nKeys-1).Draw(t, "k")
				if sameMsg {
					msgs[i] = common
				} else {
					msgs[i] = hex.EncodeToString(rapid.SliceOfN(rapid.Byte(), 32, 32).Draw(t, "m"))
				}
				var err error
				if sigs[i], err = vBLS(keyIdx[i]).Sign(msgs[i]); err != nil {
					t.Fatalf("VERIF-HARNESS-ERROR %v", err)
				}
			}
			pattern := rapid.SampledFrom([]string{"none", "none", "sig", "sigs", "msg", "key", "swap", "cancelling-pair", "tail-sig"}).Draw(t, "pattern")
			if st.IsKnown("cancelling-pair") && pattern == "cancelling-pair" && rapid.IntRange(0, 3).Draw(t, "skipKnown") > 0 {
				pattern = "sig" // the known class is still sampled, but does not dominate
			}
			var pos []int
			switch pattern {
			case "sig":
				i := rapid.IntRange(0, n-1).Draw(t, "i")
				sigs[i], _ = vBLS(40).Sign(msgs[i])
				pos = []int{i}
			case "tail-sig":
				i := n - 1
				sigs[i], _ = vBLS(41).Sign(msgs[i])
				pos = []int{i}
			case "sigs":
				k := rapid.IntRange(1, n).Draw(t, "howMany")
				for c := 0; c < k; c++ {
					i := rapid.IntRange(0, n-1).Draw(t, "i")
					sigs[i], _ = vBLS(42 + c%3).Sign(msgs[i])
					pos = append(pos, i)
				}
			case "msg":
				i := rapid.IntRange(0, n-1).Draw(t, "i")
				msgs[i] = hex.EncodeToString(rapid.SliceOfN(rapid.Byte(), 32, 32).Draw(t, "m2"))
				pos = []int{i}
			case "key":
				i := rapid.IntRange(0, n-1).Draw(t, "i")
				keyIdx[i] = (keyIdx[i] + 1 + rapid.IntRange(0, nKeys).Draw(t, "shift")) % nKeys
				pos = []int{i}
			case "swap":
				if n >= 2 {
					i := rapid.IntRange(0, n-2).Draw(t, "i")
					j := rapid.IntRange(i+1, n-1).Draw(t, "j")
					sigs[i], sigs[j] = sigs[j], sigs[i]
					pos = []int{i, j}
				}
			case "cancelling-pair":
				if n >= 2 {
					i := rapid.IntRange(0, n-2).Draw(t, "i")
					j := rapid.IntRange(i+1, n-1).Draw(t, "j")
					var d bls.G1
					if err := d.HashAndMapTo(rapid.SliceOfN(rapid.Byte(), 8, 8).Draw(t, "delta")); err != nil {
						t.Fatalf("VERIF-HARNESS-ERROR %v", err)
					}
					sigs[i] = c32addToSig(sigs[i], &d, false)
					sigs[j] = c32addToSig(sigs[j], &d, true)
					pos = []int{i, j}
				}
			}
			// individual verdicts
			allValid := true
			for i := 0; i < n; i++ {
				ok, err := vers[keyIdx[i]].Verify(sigs[i], msgs[i])
				if !ok || err != nil {
					allValid = false
				}
			}
			agg := GetAggregateSignatureScheme(SignatureSchemeBls0chain, n, batch)
			var aggErr error
			for i := 0; i < n; i++ {
				if err := agg.Aggregate(vers[keyIdx[i]], i, sigs[i], msgs[i]); err != nil {
					aggErr = err
					break
				}
			}
			accepted := false
			if aggErr == nil {
				ok, err := agg.Verify()
				accepted = ok && err == nil
			}
			numBatches := (n + batch - 1) / batch
			what := fmt.Sprintf("run %d: n=%d batch=%d (%d batches) pattern=%s positions=%v sameMsg=%v", run, n, batch, numBatches, pattern, pos, sameMsg)
			st.Case()
			if accepted != allValid {
				key := "aggregate-disagrees"
				if accepted && !allValid && (pattern == "cancelling-pair" || pattern == "swap") {
					// swapping two signatures is the cancelling pair with d = sig_j - sig_i
					key = "cancelling-pair"
				} else if accepted {
					key = "aggregate-accepts-invalid"
				} else {
					key = "aggregate-rejects-valid"
				}
				if !st.Known(key) {
					t.Fatalf("%s", vkit.Violation("C32", key, "every signature valid on its own = %v, batched check accepts = %v (aggregate error: %v) :: %s", allValid, accepted, aggErr, what))
				}
			}
			st.Class("pattern/" + pattern)
			nt := !allValid && numBatches > 1
			if nt {
				st.NonTrivial(n, batch, pattern, fmt.Sprint(pos), run)
			}
			if st.WantSample(nt) {
				st.Sample(nt, map[string]interface{}{"case": what, "individually_valid": allValid, "aggregate_accepts": accepted})
			}
		}
	})
}
