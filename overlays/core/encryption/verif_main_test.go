package encryption

import (
	"crypto/ed25519"
	"crypto/sha256"
	"encoding/hex"
	"fmt"
	"strings"
	"sync"
	"testing"

	"github.com/herumi/bls-go-binary/bls"
	"verifharness/vkit"
)

func TestMain(m *testing.M) { vkit.Main(m) }

var (
	vkeyMu    sync.Mutex
	vkeyCache = map[int]*BLS0ChainScheme{}
)

// vBLS returns the i-th BLS scheme derived from VERIF_SEED.
func vBLS(i int) *BLS0ChainScheme {
	vkeyMu.Lock()
	defer vkeyMu.Unlock()
	if s, ok := vkeyCache[i]; ok {
		return s
	}
	d := sha256.Sum256([]byte(fmt.Sprintf("verif|%d|enc|%d", vkit.Seed(), i)))
	var sk bls.SecretKey
	if err := sk.SetLittleEndianMod(d[:]); err != nil {
		panic(err)
	}
	s := NewBLS0ChainScheme()
	if err := s.ReadKeys(strings.NewReader(sk.GetPublicKey().SerializeToHexStr() + "\n" + hex.EncodeToString(sk.GetLittleEndian()) + "\n")); err != nil {
		panic(err)
	}
	vkeyCache[i] = s
	return s
}

func vED(i int) *ED25519Scheme {
	d := sha256.Sum256([]byte(fmt.Sprintf("verif|%d|ed|%d", vkit.Seed(), i)))
	priv := ed25519.NewKeyFromSeed(d[:])
	s := NewED25519Scheme()
	if err := s.ReadKeys(strings.NewReader(hex.EncodeToString(priv.Public().(ed25519.PublicKey)) + "\n" + hex.EncodeToString(priv) + "\n")); err != nil {
		panic(err)
	}
	return s
}

// vPublicOnly returns a verifier-side scheme holding only the public key.
func vPublicOnly(name, pub string) (SignatureScheme, error) {
	s := GetSignatureScheme(name)
	return s, s.SetPublicKey(pub)
}

// vVerify runs Verify and maps a panic to (false, error): a crash is a failure to verify.
func vVerify(s SignatureScheme, sig, hash string) (ok bool, err error, panicked bool) {
	defer func() {
		if r := recover(); r != nil {
			ok, err, panicked = false, fmt.Errorf("panic: %v", r), true
		}
	}()
	ok, err = s.Verify(sig, hash)
	return
}
