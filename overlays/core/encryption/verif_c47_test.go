package encryption

import (
	"encoding/hex"
	"fmt"
	"testing"

	"pgregory.net/rapid"
	"verifharness/vkit"
)

// C47 (scheme part): a signature produced with a private key over a hash
// verifies under the matching public key and fails under any other key or hash.

func TestC47_SignVerify(t *testing.T) {
	st := vkit.For("C47").SetRule("both client schemes (bls0chain, ed25519), derived key pairs, drawn 32-byte hashes; the signature must verify on a verifier-side scheme built from the public key string; then one generated tampering: signature bit flip / truncation / extension by extra bytes / signature of another key / of another hash, key replaced by another key / extended by extra bytes / truncated, hash bit flip / other hash; oracle: tampered never verifies (an error or panic counts as failure to verify); non-trivial = every tampered case; distinct by (scheme, key, hash, tampering)")
	rapid.Check(t, func(t *rapid.T) {
		name := rapid.SampledFrom([]string{SignatureSchemeBls0chain, SignatureSchemeEd25519}).Draw(t, "scheme")
		ki := rapid.IntRange(0, 40).Draw(t, "key")
		kj := rapid.IntRange(0, 40).Draw(t, "otherKey")
		if kj == ki {
			kj = ki + 1
		}
		var signer, other SignatureScheme
		if name == SignatureSchemeBls0chain {
			signer, other = vBLS(ki), vBLS(kj)
		} else {
			signer, other = vED(ki), vED(kj)
		}
		hash := hex.EncodeToString(rapid.SliceOfN(rapid.Byte(), 32, 32).Draw(t, "hash"))
		sig, err := signer.Sign(hash)
		if err != nil {
			t.Fatalf("%s", vkit.Violation("C47", "sign-error", "%s: signing failed: %v", name, err))
		}
		ver, err := vPublicOnly(name, signer.GetPublicKey())
		if err != nil {
			t.Fatalf("%s", vkit.Violation("C47", "own-key-rejected", "%s: verifier rejects the signer's public key: %v", name, err))
		}
		if ok, err, _ := vVerify(ver, sig, hash); !ok || err != nil {
			t.Fatalf("%s", vkit.Violation("C47", "valid-signature-rejected", "%s: genuine signature does not verify under its public key (ok=%v err=%v)", name, ok, err))
		}
		// what the node may have done with the same strings before it is asked again: the signature has been through
		// a batched check (first or last of a batch with another valid signature), once or twice; the verdict on the
		// genuine signature must not depend on that
		prior := "none"
		if name == SignatureSchemeBls0chain {
			prior = rapid.SampledFrom([]string{"none", "batched-first", "batched-last", "batched-twice", "none"}).Draw(t, "priorUse")
		}
		if prior != "none" {
			h2 := hex.EncodeToString(rapid.SliceOfN(rapid.Byte(), 32, 32).Draw(t, "companionHash"))
			sig2, _ := other.Sign(h2)
			ver2, _ := vPublicOnly(name, other.GetPublicKey())
			rounds := 1
			if prior == "batched-twice" {
				rounds = 2
			}
			for r := 0; r < rounds; r++ {
				agg := GetAggregateSignatureScheme(name, 2, 2)
				var e1, e2 error
				if prior == "batched-last" {
					e1 = agg.Aggregate(ver2, 0, sig2, h2)
					e2 = agg.Aggregate(ver, 1, sig, hash)
				} else {
					e1 = agg.Aggregate(ver, 0, sig, hash)
					e2 = agg.Aggregate(ver2, 1, sig2, h2)
				}
				if ok, err := agg.Verify(); e1 != nil || e2 != nil || !ok || err != nil {
					t.Fatalf("%s", vkit.Violation("C47", "valid-signature-rejected-in-batch", "%s: two genuine signatures fail the batched check (%s, pass %d): %v %v ok=%v err=%v", name, prior, r+1, e1, e2, ok, err))
				}
				if ok, err, _ := vVerify(ver, sig, hash); !ok || err != nil {
					t.Fatalf("%s", vkit.Violation("C47", "valid-signature-rejected-after-batch", "%s: genuine signature no longer verifies under its public key after it went through a batched check (%s, pass %d; ok=%v err=%v)", name, prior, r+1, ok, err))
				}
			}
		}
		st.Class("prior_use/" + prior)
		st.Case()
		// --- one tampering
		kind := rapid.SampledFrom([]string{"sig-bitflip", "sig-truncate", "sig-extend", "sig-other-key", "sig-other-hash", "key-other", "key-extend", "key-truncate", "hash-bitflip", "hash-other"}).Draw(t, "tamper")
		tsig, thash, tkey := sig, hash, signer.GetPublicKey()
		flip := func(h string) string {
			b, _ := hex.DecodeString(h)
			i := rapid.IntRange(0, len(b)*8-1).Draw(t, "bit")
			b[i/8] ^= 1 << uint(i%8)
			return hex.EncodeToString(b)
		}
		switch kind {
		case "sig-bitflip":
			tsig = flip(sig)
		case "sig-truncate":
			n := rapid.IntRange(0, len(sig)/2-1).Draw(t, "keepBytes")
			tsig = sig[:2*n]
		case "sig-extend":
			tsig = sig + hex.EncodeToString(rapid.SliceOfN(rapid.Byte(), 1, 8).Draw(t, "extra"))
		case "sig-other-key":
			tsig, _ = other.Sign(hash)
		case "sig-other-hash":
			h2 := flip(hash)
			tsig, _ = signer.Sign(h2)
		case "key-other":
			tkey = other.GetPublicKey()
		case "key-extend":
			tkey = tkey + hex.EncodeToString(rapid.SliceOfN(rapid.Byte(), 1, 8).Draw(t, "extra"))
		case "key-truncate":
			n := rapid.IntRange(1, len(tkey)/2-1).Draw(t, "keepBytes")
			tkey = tkey[:2*n]
		case "hash-bitflip":
			thash = flip(hash)
		case "hash-other":
			thash = hex.EncodeToString(rapid.SliceOfN(rapid.Byte(), 32, 32).Draw(t, "hash2"))
		}
		if tsig == sig && thash == hash && tkey == signer.GetPublicKey() {
			return // the drawn tampering was the identity
		}
		tv, kerr := vPublicOnly(name, tkey)
		st.Class(name + "/" + kind)
		st.NonTrivial(name, ki, hash, kind, tsig, tkey, thash)
		if kerr != nil {
			st.Class("tampered_key_rejected_at_load")
			return
		}
		ok, verr, panicked := vVerify(tv, tsig, thash)
		if panicked {
			st.Class("panic_on_malformed_input")
		}
		if ok {
			t.Fatalf("%s", vkit.Violation("C47", "tampered-accepted:"+kind, "%s: tampering %q still verifies (err=%v): key %s sig %s hash %s", name, kind, verr, tkey, tsig, thash))
		}
		if st.WantSample(true) {
			st.Sample(true, map[string]interface{}{"scheme": name, "tamper": kind, "result": fmt.Sprintf("ok=%v err=%v", ok, verr)})
		}
	})
}
