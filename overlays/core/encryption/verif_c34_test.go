package encryption

import (
	"encoding/hex"
	"fmt"
	"testing"

	"pgregory.net/rapid"
	"verifharness/vkit"
)

// C34 (client keys part): threshold client keys reconstruct signatures that
// verify under the original key; split keys aggregate to the original signature.
func TestC34_ThresholdAndSplitKeys(t *testing.T) {
	st := vkit.For("C34")
	rapid.Check(t, func(t *rapid.T) {
		orig := vBLS(rapid.IntRange(0, 30).Draw(t, "key"))
		hash := hex.EncodeToString(rapid.SliceOfN(rapid.Byte(), 32, 32).Draw(t, "hash"))
		want, _ := orig.Sign(hash)
		verifier, _ := vPublicOnly(SignatureSchemeBls0chain, orig.GetPublicKey())
		if rapid.Bool().Draw(t, "threshold") {
			n := rapid.IntRange(1, 14).Draw(t, "n")
			th := rapid.IntRange(1, n).Draw(t, "t")
			shares, err := GenerateThresholdKeyShares(SignatureSchemeBls0chain, th, n, orig)
			if err != nil || len(shares) != n {
				t.Fatalf("%s", vkit.Violation("C34", "threshold-shares", "GenerateThresholdKeyShares(t=%d,n=%d) -> %d shares, err %v", th, n, len(shares), err))
			}
			for s := 0; s < 2; s++ {
				perm := rapid.Permutation(seqN(n)).Draw(t, "signers")[:th]
				rec := GetReconstructSignatureScheme(SignatureSchemeBls0chain, th, n)
				for _, p := range perm {
					sig, err := shares[p].Sign(hash)
					if err != nil {
						t.Fatalf("%s", vkit.Violation("C34", "threshold-sign", "share %d cannot sign: %v", p, err))
					}
					// the verifier only ever sees strings: public key and id travel as text (as in the multisig wallet)
					remote := GetThresholdSignatureScheme(SignatureSchemeBls0chain)
					if err := remote.SetPublicKey(shares[p].GetPublicKey()); err != nil {
						t.Fatalf("%s", vkit.Violation("C34", "threshold-transport", "share public key does not load: %v", err))
					}
					if err := remote.SetID(shares[p].GetID()); err != nil {
						t.Fatalf("%s", vkit.Violation("C34", "threshold-transport", "share id %q does not load: %v", shares[p].GetID(), err))
					}
					if ok, err := remote.Verify(sig, hash); !ok || err != nil {
						t.Fatalf("%s", vkit.Violation("C34", "threshold-share-signature", "share %d's signature does not verify under its public key", p))
					}
					if err := rec.Add(remote, sig); err != nil {
						t.Fatalf("%s", vkit.Violation("C34", "threshold-add", "Add failed: %v", err))
					}
				}
				got, err := rec.Reconstruct()
				if err != nil {
					t.Fatalf("%s", vkit.Violation("C34", "threshold-reconstruct", "Reconstruct failed: %v", err))
				}
				if ok, err := verifier.Verify(got, hash); !ok || err != nil {
					t.Fatalf("%s", vkit.Violation("C34", "threshold-signature-invalid", "signature reconstructed from shares %v (t=%d n=%d) does not verify under the original public key", perm, th, n))
				}
				if got != want {
					t.Fatalf("%s", vkit.Violation("C34", "threshold-signature-differs", "reconstructed signature differs from the original key's signature (t=%d n=%d signers %v)", th, n, perm))
				}
			}
			st.Case()
			st.Class("client_threshold_keys")
			if n >= 10 {
				st.NonTrivial("thr", th, n, hash)
			}
			if st.WantSample(false) {
				st.Sample(false, map[string]interface{}{"kind": "client-threshold", "t": th, "n": n})
			}
			return
		}
		parts := rapid.IntRange(1, 7).Draw(t, "parts")
		keys, err := orig.GenerateSplitKeys(parts)
		if err != nil || len(keys) != parts {
			t.Fatalf("%s", vkit.Violation("C34", "split-keys", "GenerateSplitKeys(%d) -> %d keys, err %v", parts, len(keys), err))
		}
		var sigs []string
		for i, k := range keys {
			sig, err := k.Sign(hash)
			if err != nil {
				t.Fatalf("%s", vkit.Violation("C34", "split-sign", "part %d cannot sign: %v", i, err))
			}
			pv, _ := vPublicOnly(SignatureSchemeBls0chain, k.GetPublicKey())
			if ok, err := pv.Verify(sig, hash); !ok || err != nil {
				t.Fatalf("%s", vkit.Violation("C34", "split-part-signature", "signature of part %d of %d does not verify under that part's public key", i, parts))
			}
			sigs = append(sigs, sig)
		}
		agg, err := orig.AggregateSignatures(sigs)
		if err != nil {
			t.Fatalf("%s", vkit.Violation("C34", "split-aggregate", "AggregateSignatures failed: %v", err))
		}
		if ok, err := verifier.Verify(agg, hash); !ok || err != nil {
			t.Fatalf("%s", vkit.Violation("C34", "split-signature-invalid", "aggregated signature of %d parts does not verify under the original public key", parts))
		}
		if agg != want {
			t.Fatalf("%s", vkit.Violation("C34", "split-signature-differs", "aggregated signature of %d parts differs from the original key's signature", parts))
		}
		st.Case()
		st.Class(fmt.Sprintf("split_keys_%d", parts))
		if parts >= 3 {
			st.NonTrivial("split", parts, hash)
		}
	})
}

func seqN(n int) []int {
	s := make([]int, n)
	for i := range s {
		s[i] = i
	}
	return s
}
