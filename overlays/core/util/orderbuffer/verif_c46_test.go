package orderbuffer

import (
	"fmt"
	"sort"
	"sync"
	"testing"

	"pgregory.net/rapid"
	"verifharness/vkit"
)

// C46: the ordered block buffer yields blocks lowest round first, never holds
// more than its capacity, drops only the highest-round entries when full, and
// ignores an exact repeat of the block it already holds at that position.

type c46blk struct {
	round int64
	id    int
}

func (b *c46blk) String() string { return fmt.Sprintf("b%d@r%d", b.id, b.round) }

// reference model: a stably sorted list of blocks
type c46model struct {
	max   int
	items []*c46blk
}

func (m *c46model) add(b *c46blk) (ignored bool, dropped []*c46blk) {
	// position after the last entry with round <= b.round
	pos := 0
	for pos < len(m.items) && m.items[pos].round <= b.round {
		pos++
	}
	if pos > 0 && m.items[pos-1] == b {
		return true, nil
	}
	m.items = append(m.items, nil)
	copy(m.items[pos+1:], m.items[pos:])
	m.items[pos] = b
	if len(m.items) > m.max {
		dropped = append(dropped, m.items[m.max:]...)
		m.items = m.items[:m.max]
	}
	return false, dropped
}

func c46pool(t *rapid.T) []*c46blk {
	nrounds := rapid.IntRange(1, 6).Draw(t, "nrounds")
	base := rapid.Int64Range(0, 1<<40).Draw(t, "base")
	var pool []*c46blk
	for r := 0; r < nrounds; r++ {
		per := rapid.IntRange(1, 3).Draw(t, "perRound")
		for k := 0; k < per; k++ {
			pool = append(pool, &c46blk{round: base + int64(r)*rapid.Int64Range(1, 3).Draw(t, "gap"), id: len(pool)})
		}
	}
	return pool
}

func TestC46_Model(t *testing.T) {
	st := vkit.For("C46").SetRule("rapid state machine over one OrderBuffer (capacity 1..8, blocks from a pool of <=18 blocks over <=6 rounds, several blocks per round; Add(b.round,b)/First/Pop) against a stably-sorted reference list; non-trivial = history with an Add while the buffer is at capacity AND an immediately repeated block; distinct by op-sequence fingerprint")
	rapid.Check(t, func(t *rapid.T) {
		max := rapid.IntRange(1, 8).Draw(t, "capacity")
		pool := c46pool(t)
		ob := New(max)
		model := &c46model{max: max}
		var hist []string
		atCap, repeat, dropLow := false, false, false
		check := func(when string) {
			if len(ob.Buffer) > max {
				t.Fatalf("%s", vkit.Violation("C46", "capacity", "%s: buffer holds %d > capacity %d; history %v", when, len(ob.Buffer), max, hist))
			}
			if len(ob.Buffer) != len(model.items) {
				t.Fatalf("%s", vkit.Violation("C46", "model-length", "%s: buffer holds %d entries, reference %d; history %v", when, len(ob.Buffer), len(model.items), hist))
			}
			for i, it := range ob.Buffer {
				if it.Data != interface{}(model.items[i]) || it.Round != model.items[i].round {
					t.Fatalf("%s", vkit.Violation("C46", "model-content", "%s: entry %d is %v@%d, reference %v; history %v", when, i, it.Data, it.Round, model.items[i], hist))
				}
				if i > 0 && ob.Buffer[i-1].Round > it.Round {
					t.Fatalf("%s", vkit.Violation("C46", "order", "%s: entries not sorted by round; history %v", when, hist))
				}
			}
		}
		t.Repeat(map[string]func(*rapid.T){
			"add": func(t *rapid.T) {
				b := rapid.SampledFrom(pool).Draw(t, "blk")
				if len(model.items) == max {
					atCap = true
				}
				before := append([]*c46blk{}, model.items...)
				ign, dropped := model.add(b)
				if ign {
					repeat = true
				}
				ok := ob.Add(b.round, b)
				hist = append(hist, "add "+b.String())
				if !ok {
					t.Fatalf("%s", vkit.Violation("C46", "add-false", "Add returned false; history %v", hist))
				}
				// independent statement of "drops only the highest-round entries":
				// every dropped entry has a round >= every kept entry
				for _, d := range dropped {
					for _, k := range model.items {
						if k.round > d.round {
							t.Fatalf("harness: reference model dropped a lower round")
						}
					}
					if d != b {
						dropLow = true
					}
				}
				_ = before
				check("after add")
			},
			"repeatLast": func(t *rapid.T) {
				if len(hist) == 0 || len(model.items) == 0 {
					t.Skip("nothing to repeat")
				}
				// re-add the block that currently closes its round's run
				i := rapid.IntRange(0, len(model.items)-1).Draw(t, "idx")
				for i+1 < len(model.items) && model.items[i+1].round == model.items[i].round {
					i++
				}
				b := model.items[i]
				n := len(ob.Buffer)
				ign, _ := model.add(b)
				if !ign {
					t.Fatalf("harness: reference model did not ignore an exact repeat")
				}
				repeat = true
				ob.Add(b.round, b)
				hist = append(hist, "repeat "+b.String())
				if len(ob.Buffer) != n {
					t.Fatalf("%s", vkit.Violation("C46", "repeat-not-ignored", "exact repeat of %v changed the length %d -> %d; history %v", b, n, len(ob.Buffer), hist))
				}
				check("after repeat")
			},
			"first": func(t *rapid.T) {
				it, ok := ob.First()
				hist = append(hist, "first")
				if ok != (len(model.items) > 0) {
					t.Fatalf("%s", vkit.Violation("C46", "first-ok", "First ok=%v with %d reference entries; history %v", ok, len(model.items), hist))
				}
				if ok {
					min := model.items[0].round
					for _, m := range model.items {
						if m.round < min {
							min = m.round
						}
					}
					if it.Round != min || it.Data != interface{}(model.items[0]) {
						t.Fatalf("%s", vkit.Violation("C46", "first-not-lowest", "First returned %v@%d, lowest round held is %d; history %v", it.Data, it.Round, min, hist))
					}
				}
				check("after first")
			},
			"pop": func(t *rapid.T) {
				it, ok := ob.Pop()
				hist = append(hist, "pop")
				if ok != (len(model.items) > 0) {
					t.Fatalf("%s", vkit.Violation("C46", "pop-ok", "Pop ok=%v with %d reference entries; history %v", ok, len(model.items), hist))
				}
				if ok {
					min := model.items[0].round
					for _, m := range model.items {
						if m.round < min {
							min = m.round
						}
					}
					if it.Round != min || it.Data != interface{}(model.items[0]) {
						t.Fatalf("%s", vkit.Violation("C46", "pop-not-lowest", "Pop returned %v@%d, lowest round held is %d; history %v", it.Data, it.Round, min, hist))
					}
					model.items = model.items[1:]
				}
				check("after pop")
			},
		})
		st.Case()
		nt := atCap && repeat
		if atCap {
			st.Class("add_at_capacity")
		}
		if repeat {
			st.Class("exact_repeat")
		}
		if dropLow {
			st.Class("dropped_an_older_entry")
		}
		if nt {
			st.NonTrivial(max, fmt.Sprint(hist))
		}
		if st.WantSample(nt) && len(hist) > 0 {
			st.Sample(nt, map[string]interface{}{"capacity": max, "ops": hist})
		}
	})
}

// Concurrent use: generated programs of k goroutines over one buffer, run under
// the race detector; the oracle is on the quiescent final state and on what
// each consumer saw.
func TestC46_Concurrent(t *testing.T) {
	st := vkit.For("C46")
	rapid.Check(t, func(t *rapid.T) {
		max := rapid.IntRange(1, 8).Draw(t, "capacity")
		pool := c46pool(t)
		k := rapid.IntRange(2, 4).Draw(t, "goroutines")
		type op struct {
			kind int // 0 add, 1 pop, 2 first
			b    *c46blk
		}
		progs := make([][]op, k)
		added := map[*c46blk]int{}
		var desc []string
		for g := 0; g < k; g++ {
			n := rapid.IntRange(1, 12).Draw(t, "len")
			for i := 0; i < n; i++ {
				o := op{kind: rapid.IntRange(0, 2).Draw(t, "kind")}
				if o.kind == 0 {
					o.b = rapid.SampledFrom(pool).Draw(t, "blk")
					added[o.b]++
				}
				progs[g] = append(progs[g], o)
			}
			desc = append(desc, fmt.Sprintf("g%d:%d ops", g, n))
		}
		ob := New(max)
		popped := make([][]Item, k)
		var wg sync.WaitGroup
		start := make(chan struct{})
		for g := 0; g < k; g++ {
			wg.Add(1)
			go func(g int) {
				defer wg.Done()
				<-start
				for _, o := range progs[g] {
					switch o.kind {
					case 0:
						ob.Add(o.b.round, o.b)
					case 1:
						if it, ok := ob.Pop(); ok {
							popped[g] = append(popped[g], it)
						}
					case 2:
						ob.First()
					}
				}
			}(g)
		}
		close(start)
		wg.Wait()
		if len(ob.Buffer) > max {
			t.Fatalf("%s", vkit.Violation("C46", "capacity-concurrent", "buffer holds %d > capacity %d", len(ob.Buffer), max))
		}
		if !sort.SliceIsSorted(ob.Buffer, func(i, j int) bool { return ob.Buffer[i].Round < ob.Buffer[j].Round }) {
			t.Fatalf("%s", vkit.Violation("C46", "order-concurrent", "final buffer not sorted by round"))
		}
		seen := map[*c46blk]int{}
		for _, it := range ob.Buffer {
			seen[it.Data.(*c46blk)]++
		}
		for g := range popped {
			for _, it := range popped[g] {
				b := it.Data.(*c46blk)
				if b.round != it.Round {
					t.Fatalf("%s", vkit.Violation("C46", "item-corrupt", "popped item round %d carries block %v", it.Round, b))
				}
				seen[b]++
			}
		}
		for b, n := range seen {
			if n > added[b] {
				t.Fatalf("%s", vkit.Violation("C46", "invented-entry", "block %v handed out/held %d times but added %d times", b, n, added[b]))
			}
		}
		st.Case()
		st.Class("concurrent_program")
		st.NonTrivial("conc", max, k, fmt.Sprint(desc), len(seen))
		if st.WantSample(false) {
			st.Sample(false, map[string]interface{}{"concurrent": true, "capacity": max, "goroutines": desc})
		}
	})
}
