package miner

import (
	"testing"

	"verifharness/vkit"
	"verifharness/vlog"
)

func TestMain(m *testing.M) {
	vlog.Quiet()
	vkit.Main(m)
}
