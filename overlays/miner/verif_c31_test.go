package miner

// C31: a node treats a block as notarized only if it holds at least the
// threshold number of verification tickets from distinct miners of that round's
// magic block, each a valid signature on the block hash. Tickets attached to a
// received block, duplicated, from non-miners or with bad signatures never
// contribute.
//
// A byzantine miner sends a (correct) block proposal, single tickets,
// notarization messages and notarized-block messages whose ticket lists are
// drawn from a grammar, in a drawn order. Every message goes through the real
// N2N entity handler (VerifyBlockHandler, VerificationTicketReceiptHandler,
// NotarizationReceiptHandler, NotarizedBlockHandler - so the drop rules of the
// real receivers apply), then through the real message handlers
// (handleVerifyBlockMessage -> processVerifyBlockWithTimeout -> processVerifyBlock,
// handleVerificationTicketMessage, handleNotarizationMessage ->
// notarizationProcess, handleNotarizedBlockMessage); only the worker goroutines
// between the channels are replaced by a synchronous hand-over.

import (
	"bytes"
	"context"
	"fmt"
	"sort"
	"strings"
	"testing"
	"time"

	"0chain.net/chaincore/block"
	"0chain.net/chaincore/node"
	"0chain.net/chaincore/transaction"
	"0chain.net/core/datastore"
	"0chain.net/smartcontract/faucetsc"
	"pgregory.net/rapid"
	"verifharness/vkit"
)

const c31KeyBlockTickets = "unverified-tickets-of-received-block-counted"

// ticket grammar
const (
	c31Valid     = "valid"             // miner i signs the block hash
	c31Sharder   = "sharder"           // a sharder of the magic block signs the block hash
	c31Outsider  = "outsider"          // a well-formed key outside the magic block signs the block hash
	c31UnknownID = "unknown_id"        // an id nobody has, garbage signature
	c31OtherHash = "other_hash"        // miner i's valid signature over another hash
	c31WrongKey  = "wrong_key"         // verifier id of miner i, signature made by miner k != i
	c31Garbage   = "garbage_sig"       // verifier id of miner i, signature is not a signature
	c31EmptySig  = "empty_sig"         // verifier id of miner i, empty signature
	c31OtherCase = "valid_other_case"  // miner i's valid signature spelled in another letter case (hex decoding ignores case): one more textual form of a ticket of miner i
	c31Dup       = "duplicate_of_prev" // the previous list entry again
)

var c31InvalidKinds = []string{c31Sharder, c31Outsider, c31UnknownID, c31OtherHash, c31WrongKey, c31Garbage, c31EmptySig, c31OtherCase, c31OtherCase, c31Dup}

type c31Tk struct {
	Kind string
	Who  int
}

func (k c31Tk) String() string { return fmt.Sprintf("%s(%d)", k.Kind, k.Who) }

type c31Msg struct {
	Kind    string // block | ticket | notarization | notarized_block
	Tickets []c31Tk
	JSON    bool
	VTs     []*block.VerificationTicket // set when the tickets were materialized at generation time (ticket bursts)
	Late    bool                        // the worker picks the message up when its processing context has already run out
	Busy    bool                        // all ticket-verification slots of the node are taken by other verifications while the message is processed
}

func c31Materialize(e *e3Engine, tks []c31Tk, hash, otherHash string) []*block.VerificationTicket {
	var out []*block.VerificationTicket
	n := len(e.miners)
	for _, k := range tks {
		i := ((k.Who % n) + n) % n
		var vt *block.VerificationTicket
		switch k.Kind {
		case c31Valid:
			vt = e.ticketBy(e.miners[i], hash)
		case c31Sharder:
			vt = e.ticketBy(e.sharders[i%len(e.sharders)], hash)
		case c31Outsider:
			vt = e.ticketBy(e.outsider, hash)
		case c31UnknownID:
			vt = &block.VerificationTicket{VerifierID: fmt.Sprintf("%064x", 0xabcdef00+k.Who), Signature: fmt.Sprintf("%064x", k.Who+1)}
		case c31OtherHash:
			vt = e.ticketBy(e.miners[i], otherHash)
		case c31WrongKey:
			vt = e.ticketBy(e.miners[(i+1)%n], hash)
			vt.VerifierID = e.miners[i].id
		case c31Garbage:
			sig := fmt.Sprintf("%064x", k.Who+7)
			if k.Who%2 == 1 {
				sig = "not-hex-at-all"
			}
			vt = &block.VerificationTicket{VerifierID: e.miners[i].id, Signature: sig}
		case c31EmptySig:
			vt = &block.VerificationTicket{VerifierID: e.miners[i].id, Signature: ""}
		case c31OtherCase:
			vt = e.ticketBy(e.miners[i], hash)
			if k.Who%2 == 0 {
				vt.Signature = strings.ToUpper(vt.Signature)
			} else {
				h := len(vt.Signature) / 2
				vt.Signature = strings.ToUpper(vt.Signature[:h]) + vt.Signature[h:]
			}
		case c31Dup:
			if len(out) == 0 {
				vt = e.ticketBy(e.miners[i], hash)
			} else {
				vt = out[len(out)-1].Copy()
			}
		default:
			panic("unknown ticket kind " + k.Kind)
		}
		out = append(out, vt)
	}
	return out
}

// c31ValidMiner tells, with the keys the harness owns, whether vt is a valid signature of a miner of the magic
// block over hash; it returns the miner index.
func c31ValidMiner(e *e3Engine, vt *block.VerificationTicket, hash string) (int, bool) {
	if vt == nil {
		return -1, false
	}
	for _, m := range e.miners {
		if m.id == vt.VerifierID {
			ok, err := m.scheme.Verify(vt.Signature, hash)
			return m.idx, err == nil && ok
		}
	}
	return -1, false
}

func c31GenList(t *rapid.T, n, thr int, restrictValid bool) []c31Tk {
	perm := rapid.Permutation(e3Seq(n)).Draw(t, "miners")
	validK := func(k int) []c31Tk {
		var l []c31Tk
		for i := 0; i < k && i < n; i++ {
			l = append(l, c31Tk{c31Valid, perm[i]})
		}
		return l
	}
	invalid := func() c31Tk {
		return c31Tk{c31InvalidKinds[rapid.IntRange(0, len(c31InvalidKinds)-1).Draw(t, "invalidKind")], rapid.IntRange(0, n-1).Draw(t, "who")}
	}
	if restrictValid {
		// known finding handled: received blocks carry nothing, or only valid tickets of distinct miners
		if rapid.IntRange(0, 2).Draw(t, "emptyList") == 0 {
			return nil
		}
		return validK(rapid.IntRange(1, n).Draw(t, "validK"))
	}
	mode := rapid.IntRange(0, 9).Draw(t, "listMode")
	var l []c31Tk
	switch {
	case mode <= 3: // at least threshold entries, fewer than threshold valid ones
		k := rapid.IntRange(0, thr-1).Draw(t, "validK")
		l = validK(k)
		total := rapid.IntRange(thr, n+3).Draw(t, "total")
		for len(l) < total {
			l = append(l, invalid())
		}
	case mode == 4: // threshold-1 valid ones and copies of them
		l = validK(thr - 1)
		for i, c := 0, rapid.IntRange(1, 3).Draw(t, "copies"); i < c; i++ {
			l = append(l, c31Tk{c31Valid, l[rapid.IntRange(0, len(l)-1).Draw(t, "copyOf")].Who})
		}
	case mode <= 6: // a legitimate list
		l = validK(rapid.IntRange(thr, n).Draw(t, "validK"))
	case mode == 7: // short
		for i, c := 0, rapid.IntRange(0, 3).Draw(t, "short"); i < c; i++ {
			if rapid.Bool().Draw(t, "v") {
				l = append(l, c31Tk{c31Valid, rapid.IntRange(0, n-1).Draw(t, "who")})
			} else {
				l = append(l, invalid())
			}
		}
	default: // anything
		for i, c := 0, rapid.IntRange(0, n+4).Draw(t, "len"); i < c; i++ {
			if rapid.IntRange(0, 2).Draw(t, "v") > 0 {
				l = append(l, c31Tk{c31Valid, rapid.IntRange(0, n-1).Draw(t, "who")})
			} else {
				l = append(l, invalid())
			}
		}
	}
	if len(l) > 1 && rapid.Bool().Draw(t, "shuffle") {
		p := rapid.Permutation(e3Seq(len(l))).Draw(t, "order")
		sh := make([]c31Tk, len(l))
		for i, j := range p {
			sh[i] = l[j]
		}
		// a "duplicate of the previous entry" keeps its meaning wherever it lands
		l = sh
	}
	return l
}

func e3Seq(n int) []int {
	s := make([]int, n)
	for i := range s {
		s[i] = i
	}
	return s
}

// c31WireBlock returns what the receiver decodes: a copy of b carrying the given tickets.
func c31WireBlock(b *block.Block, vts []*block.VerificationTicket, jsonCodec bool) (*block.Block, error) {
	cp := b.Clone()
	cp.VerificationTickets = vts
	return e3Wire(cp, jsonCodec)
}

func c31WireEntity(meta string, src datastore.Entity, jsonCodec bool) (datastore.Entity, error) {
	dst := datastore.GetEntityMetadata(meta).Instance()
	if jsonCodec {
		if err := datastore.FromJSON(bytes.NewReader(datastore.ToJSON(src).Bytes()), dst); err != nil {
			return nil, err
		}
		return dst, nil
	}
	if err := datastore.FromMsgpack(bytes.NewReader(datastore.ToMsgpack(src).Bytes()), dst); err != nil {
		return nil, err
	}
	return dst, nil
}

// c31Dispatch hands one queued block message to the real message handlers; the two worker hops
// (blockVerifyC, notarizationBlockProcessC) are emptied synchronously.
// c31Late: the message in flight is processed with a context that has already run out (a busy or stalled worker): no
// verification can complete, so nothing the message carries may count.
var c31Late bool

func c31Dispatch(mc *Chain, msg *BlockMessage) {
	ctx, cancel := context.WithTimeout(context.Background(), 20*time.Second)
	defer cancel()
	if c31Late {
		cancel()
	}
	switch msg.Type {
	case MessageVerify:
		mc.HandleVerifyBlockMessage(ctx, msg)
		select {
		case b := <-mc.blockVerifyC:
			_ = mc.processVerifyBlockWithTimeout(ctx, b, 3*time.Second)
		default:
		}
	case MessageVerificationTicket:
		mc.HandleVerificationTicketMessage(ctx, msg)
	case MessageNotarization:
		mc.HandleNotarizationMessage(ctx, msg)
		select {
		case not := <-mc.notarizationBlockProcessC:
			// the worker gives notarizationProcess 30 s; a block the node does not hold would have to come from the
			// network (20 fetch attempts of 200 ms each, all failing here), so that case is cut short
			d := 10 * time.Second
			if lb, _ := mc.GetBlock(ctx, not.BlockID); lb == nil {
				d = 250 * time.Millisecond
			}
			cctx, ccancel := context.WithTimeout(ctx, d)
			_ = mc.notarizationProcess(cctx, not)
			ccancel()
		default:
		}
	case MessageNotarizedBlock:
		mc.HandleNotarizedBlockMessage(ctx, msg)
	}
}

func c31Drain(mc *Chain, wait time.Duration) *BlockMessage {
	if wait == 0 {
		select {
		case m := <-mc.blockMessageChannel:
			return m
		default:
			return nil
		}
	}
	select {
	case m := <-mc.blockMessageChannel:
		return m
	case <-time.After(wait):
		return nil
	}
}

func TestC31_Notarization(t *testing.T) {
	e, err := e3Boot()
	if err != nil {
		t.Fatalf("VERIF-HARNESS-ERROR boot: %v", err)
	}
	n, thr := len(e.miners), e.threshold()
	if got := e.mc.GetNotarizationThresholdCount(n); got != thr {
		t.Fatalf("VERIF-HARNESS-ERROR threshold: chain says %d, harness computes %d", got, thr)
	}
	st := vkit.For("C31").SetRule(fmt.Sprintf("magic block of %d derived miners (threshold %d) and 2 sharders; a byzantine miner's correct block B of round r on a notarized parent; 1-5 messages in a drawn order: block proposal carrying a ticket list / single ticket / notarization message / notarized-block message, ticket lists drawn from the grammar {valid ticket of miner i, duplicate, sharder, key outside the magic block, unknown id, valid signature over another hash, signature of another miner under miner i's id, garbage, empty} with list shapes 'at least threshold entries but fewer than threshold valid', 'threshold-1 valid plus copies', legitimate, short, arbitrary; msgpack or JSON wire copies; each message goes through the real receive handler and the real message handler. Oracle after every message: the received object, the node's stored block and the round's notarized list say 'notarized' only if the number of distinct miners with a valid ticket on B's hash among ALL tickets delivered so far (verified by the harness with the keys it owns) is at least the threshold. Non-trivial = a delivered (not dropped) message whose list has at least threshold entries of which fewer than threshold are valid tickets of distinct miners; distinct by message-sequence fingerprint", n, thr))
	st.Assume("the receiving node does not verify the block itself in these histories (no verification-collection worker runs), so its own ticket never counts")
	st.Assume("worker goroutines between blockMessageChannel / blockVerifyC / notarizationBlockProcessC and the handlers are replaced by a synchronous hand-over; everything else is the real receive path")
	st.Assume("network fetches fail (sandbox): a notarization for a block the node does not hold ends with an error")

	rapid.Check(t, func(t *rapid.T) {
		st.Case()
		mc := e.mc
		known := st.IsKnown(c31KeyBlockTickets)
		first := e.allocRounds(2, nil)
		r := first + 1
		var blocks []*block.Block
		defer func() { e.cleanup([]int64{first, r, r + 1}, blocks) }()

		e.become(0)
		var pre []e3Pre
		if rapid.Bool().Draw(t, "prevHasTxn") {
			pre = append(pre, e3Pre{From: e.clients[0], To: faucetsc.ADDRESS, Value: 1e9, Fee: 1e10, Type: transaction.TxnTypeSmartContract, Data: e3SCData("pour", nil)})
		}
		prev, err := e.fabricatePrev(first, rapid.IntRange(0, n-1).Draw(t, "prevGen"), pre)
		if err != nil {
			t.Fatalf("VERIF-HARNESS-ERROR previous block: %v", err)
		}
		blocks = append(blocks, prev)
		seed := rapid.Int64Range(1, 1<<40).Draw(t, "seed")
		mr := e.openRound(r, seed)
		// the byzantine sender: usually a generator of the round
		byz := -1
		wantRank := rapid.IntRange(0, 2).Draw(t, "byzRank")
		for _, m := range e.miners {
			if mr.GetMinerRank(m.node) == wantRank {
				byz = m.idx
			}
		}
		recv := (byz + 1 + rapid.IntRange(0, n-2).Draw(t, "receiver")) % n
		// the block: correct, possibly with a transaction; a remote object, unknown to the receiver
		var bpre []e3Pre
		if rapid.Bool().Draw(t, "blockHasTxn") {
			bpre = append(bpre, e3Pre{From: e.clients[1], To: e.clients[2].id, Value: 7, Fee: 1e10, Type: transaction.TxnTypeSend})
		}
		blockSeed := seed
		if rapid.IntRange(0, 5).Draw(t, "otherRRS") == 0 {
			blockSeed = seed + 1 // a block made for another random seed of the round (after a timeout)
		}
		B, err := e.fabricate(prev, r, byz, blockSeed, bpre, false)
		if err != nil {
			t.Fatalf("VERIF-HARNESS-ERROR block: %v", err)
		}
		otherHash := prev.Hash
		if rapid.Bool().Draw(t, "otherHashRandom") {
			otherHash = fmt.Sprintf("%064x", rapid.Uint64().Draw(t, "oh"))
		}
		e.become(recv)
		sender := e.miners[byz].node

		// messages
		nMsgs := rapid.IntRange(1, 5).Draw(t, "messages")
		kinds := []string{"block", "block", "block", "ticket", "ticket", "notarization", "notarization", "notarized_block", "notarized_block"}
		var msgs []c31Msg
		for i := 0; i < nMsgs; i++ {
			m := c31Msg{Kind: kinds[rapid.IntRange(0, len(kinds)-1).Draw(t, "msgKind")], JSON: rapid.IntRange(0, 3).Draw(t, "json") == 0}
			m.Late = rapid.IntRange(0, 9).Draw(t, "late") == 6
			m.Busy = m.Kind == "block" && rapid.IntRange(0, 7).Draw(t, "verificationSlotsBusy") == 5
			switch m.Kind {
			case "ticket":
				if rapid.IntRange(0, 2).Draw(t, "burst") == 0 {
					// a burst: every entry of a generated list arrives as its own ticket message
					l := c31GenList(t, n, thr, false)
					vts := c31Materialize(e, l, B.Hash, otherHash)
					for j := range l {
						msgs = append(msgs, c31Msg{Kind: "ticket", Tickets: []c31Tk{l[j]}, JSON: m.JSON, VTs: []*block.VerificationTicket{vts[j]}})
					}
					continue
				}
				if rapid.IntRange(0, 2).Draw(t, "validTicket") > 0 {
					m.Tickets = []c31Tk{{c31Valid, rapid.IntRange(0, n-1).Draw(t, "who")}}
				} else {
					k := c31InvalidKinds[rapid.IntRange(0, len(c31InvalidKinds)-2).Draw(t, "invalidKind")] // no "duplicate of previous" for a single ticket
					m.Tickets = []c31Tk{{k, rapid.IntRange(0, n-1).Draw(t, "who")}}
				}
			case "block":
				restrict := known && rapid.IntRange(0, 19).Draw(t, "knownClass") > 0
				m.Tickets = c31GenList(t, n, thr, restrict)
			default:
				m.Tickets = c31GenList(t, n, thr, false)
			}
			msgs = append(msgs, m)
		}

		deliveredValid := map[int]bool{} // miners with a valid ticket on B.Hash in anything delivered so far
		blockCarriedBad := false         // some delivered block proposal carried a ticket that is not a fresh valid miner ticket
		var trace []string
		nontrivial := false
		describe := func() string {
			var sb strings.Builder
			fmt.Fprintf(&sb, "round %d, %d miners, threshold %d, byzantine sender m%d (rank %d), receiver m%d, block %s (rrs match %v)\n", r, n, thr, byz, wantRank, recv, e3Short(B.Hash), blockSeed == seed)
			for _, l := range trace {
				sb.WriteString("   " + l + "\n")
			}
			return sb.String()
		}

		// account books what a queued message (i.e. one the receive handler let through) carries for B: the oracle's
		// count of distinct miners with a valid ticket is taken from the message itself, so a queue entry that is
		// handed over late (loaded machine) is booked exactly like a prompt one
		account := func(qm *BlockMessage) (valid map[int]bool, total int, bad bool) {
			var l []*block.VerificationTicket
			switch {
			case qm.Block != nil && qm.Block.Hash == B.Hash:
				l = qm.Block.GetVerificationTickets()
			case qm.BlockVerificationTicket != nil && qm.BlockVerificationTicket.BlockID == B.Hash:
				l = []*block.VerificationTicket{&qm.BlockVerificationTicket.VerificationTicket}
			case qm.Notarization != nil && qm.Notarization.BlockID == B.Hash:
				l = qm.Notarization.VerificationTickets
			}
			valid = map[int]bool{}
			seenID := map[string]bool{}
			for _, vt := range l {
				idx, ok := c31ValidMiner(e, vt, B.Hash)
				if ok && !seenID[vt.VerifierID] {
					valid[idx] = true
				} else {
					bad = true
				}
				if vt != nil {
					seenID[vt.VerifierID] = true
				}
			}
			for i := range valid {
				deliveredValid[i] = true
			}
			if qm.Type == MessageVerify && bad {
				blockCarriedBad = true
			}
			return valid, len(l), bad
		}
		// next returns the next queue entry that belongs to this case; entries pushed late by an earlier case
		// (loaded machine) are void - their rounds are gone - and are discarded
		mine := func(qm *BlockMessage) bool {
			switch {
			case qm.Block != nil:
				return qm.Block.Hash == B.Hash
			case qm.BlockVerificationTicket != nil:
				return qm.BlockVerificationTicket.BlockID == B.Hash
			case qm.Notarization != nil:
				return qm.Notarization.BlockID == B.Hash
			}
			return false
		}
		next := func(wait time.Duration) *BlockMessage {
			deadline := time.Now().Add(wait)
			for {
				left := time.Until(deadline)
				if left < 0 {
					left = 0
				}
				qm := c31Drain(mc, left)
				if qm == nil {
					return nil
				}
				if mine(qm) {
					return qm
				}
				st.Class("stale_queue_entry_discarded")
			}
		}

		for mi, m := range msgs {
			vts := m.VTs
			if vts == nil {
				vts = c31Materialize(e, m.Tickets, B.Hash, otherHash)
			}
			for _, k := range m.Tickets {
				st.Class("ticket/" + k.Kind)
			}
			st.Class("message/" + m.Kind)
			// a message pushed late by an earlier step (loaded machine) is handled before the next one arrives
			for qm := next(0); qm != nil; qm = next(0) {
				account(qm)
				c31Dispatch(mc, qm)
				trace = append(trace, "   (a queue entry of an earlier message was handed over late)")
				st.Class("late_queue_entry_processed")
			}
			ctx := node.WithNode(node.WithSenderValidateFunc(context.Background(), func() error { return nil }), sender)
			var obj *block.Block // the received block object, when the message carries one
			var herr error
			ok := e3Watch(2*time.Minute, func() {
				switch m.Kind {
				case "block":
					wb, err := c31WireBlock(B, vts, m.JSON)
					if err != nil {
						herr = err
						return
					}
					obj = wb
					_, _ = VerifyBlockHandler(ctx, wb)
				case "notarized_block":
					wb, err := c31WireBlock(B, vts, m.JSON)
					if err != nil {
						herr = err
						return
					}
					obj = wb
					_, _ = NotarizedBlockHandler(ctx, wb)
				case "ticket":
					bvt := &block.BlockVerificationTicket{VerificationTicket: *vts[0], Round: r, BlockID: B.Hash}
					ent, err := c31WireEntity("block_verification_ticket", bvt, true)
					if err != nil {
						herr = err
						return
					}
					_, _ = VerificationTicketReceiptHandler(ctx, ent)
				case "notarization":
					not := &Notarization{VerificationTickets: vts, BlockID: B.Hash, Round: r, Block: B.Clone()} // SendNotarization sets Block too
					ent, err := c31WireEntity("block_notarization", not, m.JSON)
					if err != nil {
						herr = err
						return
					}
					_, _ = NotarizationReceiptHandler(ctx, ent)
				}
				if herr != nil {
					return
				}
				if qm := next(40 * time.Millisecond); qm != nil {
					validHere, total, _ := account(qm)
					c31Late = m.Late
					if m.Busy {
						release := mc.VerifOccupyTicketSlots()
						c31Dispatch(mc, qm)
						release()
						st.Class("processed_with_all_verification_slots_busy/" + m.Kind)
					} else {
						c31Dispatch(mc, qm)
					}
					c31Late = false
					if m.Late {
						st.Class("processed_with_expired_context/" + m.Kind)
					}
					trace = append(trace, fmt.Sprintf("#%d %s %v -> processed", mi, m.Kind, m.Tickets))
					st.Class("processed/" + m.Kind)
					if total >= thr && len(validHere) < thr {
						nontrivial = true
						st.Class("nontrivial_message/" + m.Kind)
					}
				} else {
					trace = append(trace, fmt.Sprintf("#%d %s %v -> dropped by the receive handler", mi, m.Kind, m.Tickets))
					st.Class("dropped_by_receive_handler/" + m.Kind)
				}
			})
			if !ok {
				t.Fatalf("%s", vkit.Violation("C31", "handler-hang", "VERIF-HANG message %d (%s) not processed within 2 minutes\n%s", mi, m.Kind, describe()))
			}
			if herr != nil {
				// the wire copy could not be built or decoded: nothing reached the node
				trace = append(trace, fmt.Sprintf("#%d %s %v -> not decodable: %v", mi, m.Kind, m.Tickets, herr))
				st.Class("undecodable/" + m.Kind)
				continue
			}
			// ---- oracle
			var says []string
			if obj != nil && obj.IsBlockNotarized() {
				says = append(says, "received object IsBlockNotarized")
			}
			var held []*block.VerificationTicket
			if lb, _ := mc.GetBlock(context.Background(), B.Hash); lb != nil {
				if lb.IsBlockNotarized() {
					says = append(says, "stored block IsBlockNotarized")
				}
				held = lb.GetVerificationTickets()
				blocks = append(blocks, lb)
			}
			if rr := mc.GetMinerRound(r); rr != nil {
				for _, nb := range rr.GetNotarizedBlocks() {
					if nb.Hash == B.Hash {
						says = append(says, "round's notarized list holds the block")
					}
				}
			}
			if len(says) > 0 {
				v := len(deliveredValid)
				heldValid := map[int]bool{}
				for _, vt := range held {
					if i, ok := c31ValidMiner(e, vt, B.Hash); ok {
						heldValid[i] = true
					}
				}
				if v >= thr {
					st.Class("notarized_with_enough_valid_tickets")
				} else {
					key := "notarized-below-threshold/" + m.Kind
					if blockCarriedBad {
						key = c31KeyBlockTickets
					}
					detail := fmt.Sprintf("%s after message #%d (%s): distinct miners with a valid ticket delivered so far = %d (held by the stored block: %d valid of %d tickets), threshold %d\n%s", strings.Join(says, "; "), mi, m.Kind, v, len(heldValid), len(held), thr, describe())
					if key == c31KeyBlockTickets && st.Known(key) {
						st.Class("known/" + key)
						if nontrivial {
							st.NonTrivial(fmt.Sprint(msgs))
						}
						return
					}
					t.Fatalf("%s", vkit.Violation("C31", key, "%s", detail))
				}
			}
		}
		// give the asynchronous parts of the handlers (previous-block update goroutine) a moment and look again
		if qm := next(2 * time.Millisecond); qm != nil {
			account(qm)
			c31Dispatch(mc, qm)
			st.Class("late_queue_entry_processed")
		}
		if lb, _ := mc.GetBlock(context.Background(), B.Hash); lb != nil && lb.IsBlockNotarized() && len(deliveredValid) < thr {
			key := "notarized-below-threshold/late"
			if blockCarriedBad {
				key = c31KeyBlockTickets
			}
			if !(key == c31KeyBlockTickets && st.Known(key)) {
				t.Fatalf("%s", vkit.Violation("C31", key, "stored block is notarized at the end with %d valid distinct miner tickets delivered, threshold %d\n%s", len(deliveredValid), thr, describe()))
			}
		}
		if nontrivial {
			var fp []string
			for _, m := range msgs {
				ks := make([]string, 0, len(m.Tickets))
				for _, k := range m.Tickets {
					ks = append(ks, k.String())
				}
				fp = append(fp, m.Kind+":"+strings.Join(ks, ","))
			}
			st.NonTrivial(strings.Join(fp, "|"))
		}
		if st.WantSample(nontrivial) {
			s := append([]string{}, trace...)
			sort.Strings(s[:0])
			st.Sample(nontrivial, map[string]interface{}{"threshold": thr, "trace": s})
		}
	})
}
