package miner

import (
	"context"
	"testing"
	"time"

	"0chain.net/chaincore/transaction"
	"0chain.net/core/common"
	"0chain.net/smartcontract/faucetsc"
	"github.com/0chain/common/core/util"
)

// TestE3_Smoke: one generated block from a small pool, verified as another miner.
func TestE3_Smoke(t *testing.T) {
	e, err := e3Boot()
	if err != nil {
		t.Fatalf("VERIF-HARNESS-ERROR boot: %v", err)
	}
	r := e.allocRounds(2, nil) + 1
	prev, err := e.fabricatePrev(r-1, 1, nil)
	if err != nil {
		t.Fatalf("VERIF-HARNESS-ERROR prev: %v", err)
	}
	mr := e.openRound(r, 987654321)
	// generator: rank 0
	gen := -1
	for _, m := range e.miners {
		if mr.GetMinerRank(m.node) == 0 {
			gen = m.idx
		}
	}
	e.become(gen)
	now := common.Now()
	c0, c1 := e.clients[0], e.clients[1]
	n0, _, _ := e3StateOf(prev, c0.id)
	var txns []*transaction.Transaction
	t1 := e.newTxn(c0, c1.id, 100, 1e10+5, n0+1, transaction.TxnTypeSend, "", now)
	t2 := e.newTxn(c0, c1.id, 101, 1e10+9, n0+2, transaction.TxnTypeSend, "", now)
	t3 := e.newTxn(c1, faucetsc.ADDRESS, 1e9, 1e10+7, 2, transaction.TxnTypeSmartContract, e3SCData("pour", nil), now)
	for _, x := range []*transaction.Transaction{t1, t2, t3} {
		w := c0
		if x == t3 {
			w = c1
		}
		if _, err := x.Sign(w.scheme); err != nil {
			t.Fatal(err)
		}
		txns = append(txns, x)
	}
	if err := e.poolPut(txns...); err != nil {
		t.Fatalf("pool: %v", err)
	}
	t.Logf("pool: %v", e.poolHashes())
	t0 := time.Now()
	b, err := e.mc.GenerateRoundBlock(context.Background(), mr)
	if err != nil {
		t.Fatalf("generate: %v", err)
	}
	t.Logf("generated in %v: round %d txns %d root %s", time.Since(t0), b.Round, len(b.Txns), util.ToHex(b.ClientStateHash))
	for _, x := range b.Txns {
		t.Logf("  txn %s nonce %d fn %q status %d out %q", e3Short(x.Hash), x.Nonce, x.FunctionName, x.Status, x.TransactionOutput)
	}
	fresh, err := e3Wire(b, false)
	if err != nil {
		t.Fatalf("wire: %v", err)
	}
	ver := (gen + 1) % len(e.miners)
	e.become(ver)
	t0 = time.Now()
	bvt, err := e.mc.VerifyRoundBlock(context.Background(), mr, fresh)
	if err != nil {
		t.Fatalf("verify: %v", err)
	}
	t.Logf("verified in %v ticket by %s", time.Since(t0), e3Short(bvt.VerifierID))
	rp := e.replay(b)
	t.Logf("replay: %+v", rp)
	e.cleanup([]int64{r - 1, r}, nil)
}
