package miner

// Engine E3: a real miner chain booted in-process (shipped configuration, real
// RocksDB state DB, real contracts, miniredis as the transaction pool) whose
// miner and sharder keys are all derived keys owned by the harness, so the test
// can generate as miner g, verify as miner v and sign tickets as any node.
//
// Nothing is written under /repo: the work dir is a fresh temp dir, vkit.Main
// moved the process out of the source tree.

import (
	"bytes"
	"context"
	"encoding/hex"
	"encoding/json"
	"fmt"
	"os"
	"path/filepath"
	"sort"
	"strconv"
	"strings"
	"sync"
	"time"

	"0chain.net/chaincore/block"
	"0chain.net/chaincore/chain"
	"0chain.net/chaincore/client"
	"0chain.net/chaincore/node"
	"0chain.net/chaincore/round"
	"0chain.net/chaincore/state"
	"0chain.net/chaincore/transaction"
	"0chain.net/core/common"
	"0chain.net/core/config"
	"0chain.net/core/datastore"
	"0chain.net/core/encryption"
	"0chain.net/core/memorystore"
	"0chain.net/core/viper"
	"0chain.net/smartcontract/faucetsc"
	"0chain.net/smartcontract/minersc"
	"0chain.net/smartcontract/setupsc"
	"0chain.net/smartcontract/storagesc"
	"0chain.net/smartcontract/zcnsc"
	"github.com/0chain/common/core/currency"
	"github.com/0chain/common/core/statecache"
	"github.com/0chain/common/core/util"
	"github.com/alicebob/miniredis/v2"
	"github.com/gomodule/redigo/redis"
	"verifharness/vkeys"
	"verifharness/vkit"
	"verifharness/vlog"
)

const (
	e3RepoConfigDir     = "/repo/docker.local/config"
	e3ShippedChainOwner = "edb90b850f2e7e7cbd0a1fa370fdcc5cd378ffbec95363a7bc0e5a98b8ba5759"
	e3ShippedSCOwner    = "1746b06bb09f55ee01b33b5e2e055d6cc7a900cb57c0a3a5eaabb8a0e7745802"
)

type e3Node struct {
	idx    int
	node   *node.Node
	scheme *encryption.BLS0ChainScheme
	id     string
}

type e3Wallet struct {
	name   string
	scheme *encryption.BLS0ChainScheme
	id     string
	pub    string
}

func e3NewWallet(role string, i int) *e3Wallet {
	s := vkeys.BLS(vkit.Seed(), role, i)
	return &e3Wallet{name: fmt.Sprintf("%s%d", role, i), scheme: s, id: vkeys.ID(s.GetPublicKey()), pub: s.GetPublicKey()}
}

type e3Engine struct {
	mc       *Chain
	wd       string
	redis    *miniredis.Miniredis
	miners   []*e3Node
	sharders []*e3Node
	outsider *e3Node // a well-formed miner-type key that is in no magic block
	owner    *e3Wallet
	clients  []*e3Wallet // funded in genesis
	poor     *e3Wallet   // funded with very little
	stranger *e3Wallet   // not in the state at all
	gb       *block.Block
	mb       *block.MagicBlock
	txnMeta  datastore.EntityMetadata

	mu    sync.Mutex
	round int64 // highest round number handed out
	seq   int64
}

var (
	e3Once sync.Once
	e3Eng  *e3Engine
	e3Err  error
)

// e3NumMiners is the size of the genesis magic block (threshold = ceil(0.66 n)).
func e3NumMiners() int { return vkit.EnvInt("VERIF_E3_MINERS", 5) }

func e3Boot() (*e3Engine, error) {
	e3Once.Do(func() {
		defer func() {
			if r := recover(); r != nil {
				e3Err = fmt.Errorf("boot panic: %v", r)
			}
		}()
		e3Eng, e3Err = e3DoBoot()
	})
	return e3Eng, e3Err
}

func e3DoBoot() (*e3Engine, error) {
	vlog.Quiet()
	wd, err := os.MkdirTemp("", "verif-e3-")
	if err != nil {
		return nil, err
	}
	for _, d := range []string{"config", "data/rocksdb/state", "log"} {
		if err := os.MkdirAll(filepath.Join(wd, d), 0o755); err != nil {
			return nil, err
		}
	}
	e := &e3Engine{wd: wd, owner: e3NewWallet("owner", 0)}
	rd := func(name string) string {
		b, er := os.ReadFile(filepath.Join(e3RepoConfigDir, name))
		if er != nil {
			panic(er)
		}
		return string(b)
	}
	cy := rd("0chain.yaml")
	cy = strings.ReplaceAll(cy, e3ShippedChainOwner, e.owner.id)
	cy = strings.ReplaceAll(cy, "timeout: 8000ms", "timeout: 600000ms") // a loaded machine must not turn slow calls into rejected txns
	cy = strings.ReplaceAll(cy, "console: true", "console: false")
	// the pool iteration of generateBlock is cut off after this wall-clock time; keep the clock out of the outcome
	cy = strings.ReplaceAll(cy, "max_wait_time: 180ms", "max_wait_time: 60000ms")
	sy := strings.ReplaceAll(rd("sc.yaml"), e3ShippedSCOwner, e.owner.id)
	if err := os.WriteFile(filepath.Join(wd, "config", "0chain.yaml"), []byte(cy), 0o644); err != nil {
		return nil, err
	}
	if err := os.WriteFile(filepath.Join(wd, "config", "sc.yaml"), []byte(sy), 0o644); err != nil {
		return nil, err
	}
	config.Configuration().DeploymentMode = 2
	config.SetupDefaultConfig()
	config.SetupConfig(wd)
	config.SetupSmartContractConfig(wd)
	vlog.Quiet()
	config.Configuration().ChainID = viper.GetString("server_chain.id")
	transaction.SetTxnTimeout(int64(viper.GetInt("server_chain.transaction.timeout")))
	config.SetServerChainID(config.Configuration().ChainID)
	common.SetupRootContext(node.GetNodeContext())
	ctx := common.GetRootContext()

	// the transaction pool and the client store: miniredis
	mr, err := miniredis.Run()
	if err != nil {
		return nil, err
	}
	e.redis = mr
	port, _ := strconv.Atoi(mr.Port())
	memorystore.InitDefaultPool(mr.Host(), port)
	mkPool := func() *redis.Pool {
		return &redis.Pool{MaxIdle: 80, MaxActive: 1000, Dial: func() (redis.Conn, error) { return redis.Dial("tcp", mr.Addr()) }}
	}
	memorystore.AddPool("txndb", mkPool())
	memorystore.AddPool("clientdb", mkPool())

	ms := memorystore.GetStorageProvider()
	chain.SetupEntity(ms, wd)
	round.SetupEntity(ms)
	round.SetupVRFShareEntity(ms)
	block.SetupEntity(ms)
	block.SetupBlockSummaryEntity(ms)
	block.SetupStateChange(ms)
	state.SetupPartialState(ms)
	state.SetupStateNodes(ms)
	client.SetupEntity(ms)
	transaction.SetupEntity(ms)
	SetupNotarizationEntity()
	setupsc.SetupSmartContracts()

	c := chain.NewChainFromConfig()

	// nodes: derived keys
	n := e3NumMiners()
	mb := block.NewMagicBlock()
	mb.Miners = node.NewPool(node.NodeTypeMiner)
	mb.Sharders = node.NewPool(node.NodeTypeSharder)
	mkNode := func(tp node.NodeType, role string, i int) *e3Node {
		s := vkeys.BLS(vkit.Seed(), role, i)
		nd := node.Provider()
		nd.Type = tp
		nd.PublicKey = s.GetPublicKey()
		nd.Host = "127.0.0.1"
		nd.N2NHost = "127.0.0.1"
		nd.Port = 1 // closed port: every N2N send is refused at once
		nd.SetIndex = i
		nd.Description = fmt.Sprintf("%s%d", role, i)
		if err := nd.SetPublicKey(nd.PublicKey); err != nil {
			panic(err)
		}
		return &e3Node{idx: i, node: nd, scheme: s, id: nd.GetKey()}
	}
	// the node's own identity first, as miner.go does (the magic block set-up then adopts the pool's node object)
	self0 := vkeys.BLS(vkit.Seed(), "miner", 0)
	if err := node.Self.SetSignatureScheme(self0); err != nil {
		return nil, err
	}
	node.Self.Type = node.NodeTypeMiner
	for i := 0; i < n; i++ {
		m := mkNode(node.NodeTypeMiner, "miner", i)
		if err := mb.Miners.AddNode(m.node); err != nil {
			return nil, err
		}
		e.miners = append(e.miners, m)
	}
	for i := 0; i < 2; i++ {
		s := mkNode(node.NodeTypeSharder, "sharder", i)
		if err := mb.Sharders.AddNode(s.node); err != nil {
			return nil, err
		}
		e.sharders = append(e.sharders, s)
	}
	e.outsider = mkNode(node.NodeTypeMiner, "outsider", 0)
	mb.MagicBlockNumber = 1
	mb.StartingRound = 0
	mb.N, mb.K = n, n
	mb.T = (2*n + 2) / 3
	mb.Hash = mb.GetHash()
	e.mb = mb

	SetupMinerChain(c)
	mc := GetMinerChain()
	e.mc = mc
	mc.SetDiscoverClients(false)
	mc.SetGenerationTimeout(viper.GetInt("server_chain.block.generation.timeout"))
	mc.SetRetryWaitTime(viper.GetInt("server_chain.block.generation.retry_wait_time"))
	mc.SetupStateCache()
	chain.SetServerChain(c)
	SetupM2MSenders()
	SetupM2SSenders()
	SetupM2MRequestors()
	SetupM2SRequestors()
	chain.SetupX2MRequestors()
	chain.SetupX2SRequestors()

	// genesis distribution: contract wallets as shipped, clients funded out of the miner contract's share
	var cs []state.IDTokens
	cs = append(cs, state.IDTokens{ID: e.owner.id, Tokens: 1e15})
	for i := 0; i < 6; i++ {
		w := e3NewWallet("client", i)
		e.clients = append(e.clients, w)
		cs = append(cs, state.IDTokens{ID: w.id, Tokens: 1e15})
	}
	e.poor = e3NewWallet("poor", 0)
	cs = append(cs, state.IDTokens{ID: e.poor.id, Tokens: e3PoorFunds})
	e.stranger = e3NewWallet("stranger", 0)
	for _, m := range e.miners {
		cs = append(cs, state.IDTokens{ID: m.id, Tokens: 1e12})
	}
	for _, s := range e.sharders {
		cs = append(cs, state.IDTokens{ID: s.id, Tokens: 1e12})
	}
	const (
		minerShare   = 16e17
		storageShare = 20e17
		faucetShare  = 2e16
	)
	zcnShare := currency.Coin(config.MaxTokenSupply) - minerShare - storageShare - faucetShare
	init := state.NewInitStates()
	init.States = []state.InitState{
		{ID: minersc.ADDRESS, Tokens: minerShare, State: cs},
		{ID: storagesc.ADDRESS, Tokens: storageShare},
		{ID: faucetsc.ADDRESS, Tokens: faucetShare},
		{ID: zcnsc.ADDRESS, Tokens: zcnShare},
	}
	go mc.StartLFMBWorker(ctx)
	e.gb = mc.SetupGenesisBlock(viper.GetString("server_chain.genesis_block.id"), mb, init)
	// the sharders of the magic block are "up" (SetupGenesisBlock marks them inactive until they answer)
	for _, s := range mc.GetMagicBlock(0).Sharders.CopyNodes() {
		s.SetStatus(node.NodeStatusActive)
	}
	// re-resolve the node objects (the pool may have been cloned by the chain)
	cur := mc.GetMagicBlock(0)
	for _, m := range e.miners {
		if nd := cur.Miners.GetNode(m.id); nd != nil {
			m.node = nd
		} else {
			return nil, fmt.Errorf("miner %d missing from the chain's magic block", m.idx)
		}
	}
	if cur.Miners.Size() != n {
		return nil, fmt.Errorf("magic block has %d miners, want %d", cur.Miners.Size(), n)
	}
	e.txnMeta = datastore.GetEntityMetadata("txn")
	e.become(0)
	return e, nil
}

const e3PoorFunds = 25e9 // 2.5 ZCN

// threshold is the notarization threshold recomputed by the harness: ceil(n * threshold_by_count / 100).
func (e *e3Engine) threshold() int {
	n := len(e.miners)
	pct := viper.GetInt("server_chain.block.consensus.threshold_by_count")
	return (n*pct + 99) / 100
}

// become switches the identity of "this node" to miner i (the harness owns every key).
func (e *e3Engine) become(i int) {
	m := e.miners[i]
	node.Self.Node = m.node
	if err := node.Self.SetSignatureScheme(m.scheme); err != nil {
		panic(err)
	}
}

func (e *e3Engine) selfIdx() int {
	id := node.Self.Underlying().GetKey()
	for _, m := range e.miners {
		if m.id == id {
			return m.idx
		}
	}
	return -1
}

func (e *e3Engine) nextSeq() int64 {
	e.mu.Lock()
	defer e.mu.Unlock()
	e.seq++
	return e.seq
}

// allocRounds reserves k consecutive round numbers above everything used so far; the first one is chosen so that
// (first+offset) has the wanted residues. Round numbers only grow (the chain's current round cannot move back).
func (e *e3Engine) allocRounds(k int64, accept func(first int64) bool) int64 {
	e.mu.Lock()
	defer e.mu.Unlock()
	first := e.round + 1
	for i := 0; i < 100000 && accept != nil && !accept(first); i++ {
		first++
	}
	e.round = first + k - 1
	return first
}

// ---------------------------------------------------------------------------
// rounds and blocks

// openRound creates round r with the given random seed and makes it the current round.
func (e *e3Engine) openRound(r int64, seed int64) *Round {
	mr := e.mc.CreateRound(round.NewRound(r))
	mr = e.mc.AddRound(mr).(*Round)
	e.mc.SetCurrentRound(r)
	if seed != 0 {
		e.mc.SetRandomSeed(mr, seed)
	}
	return mr
}

// ticket signs hash as miner i.
func (e *e3Engine) ticketBy(nd *e3Node, hash string) *block.VerificationTicket {
	sig, err := nd.scheme.Sign(hash)
	if err != nil {
		panic(err)
	}
	return &block.VerificationTicket{VerifierID: nd.id, Signature: sig}
}

// e3Pre is a transaction the harness executes into the fabricated previous block (to vary the previous state).
type e3Pre struct {
	From  *e3Wallet
	To    string
	Value currency.Coin
	Fee   currency.Coin
	Type  int
	Data  string
}

// fabricatePrev builds, executes and notarizes (with honest tickets of all miners) a block at round r on top of
// the genesis state, generated by miner gen; pre transactions are executed through Chain.UpdateState the way a
// generator does. The chain's round r gets it as its notarized block. Returns the block.
func (e *e3Engine) fabricatePrev(r int64, gen int, pre []e3Pre) (*block.Block, error) {
	pr := e.openRound(r, 0)
	seed := int64(1000003*r + 17)
	e.mc.SetRandomSeed(pr, seed)
	b, err := e.fabricate(e.gb, r, gen, seed, pre, true)
	if err != nil {
		return nil, err
	}
	mc := e.mc
	b = mc.AddRoundBlock(pr, b)
	for _, m := range e.miners {
		mc.AddVerificationTicket(b, e.ticketBy(m, b.Hash))
	}
	if !b.IsBlockNotarized() {
		return nil, fmt.Errorf("fabricated previous block did not reach notarization with %d honest tickets", len(e.miners))
	}
	mc.AddNotarizedBlockToRound(pr, b)
	b.SetBlockState(block.StateNotarized)
	return b, nil
}

// fabricate builds a correct block of round r on top of prev, generated and signed by miner gen, with the pre
// transactions executed through Chain.UpdateState. With commit=false nothing of it reaches the chain object (the
// state cache used is a private one): the block is what a remote generator would send.
func (e *e3Engine) fabricate(prev *block.Block, r int64, gen int, seed int64, pre []e3Pre, commit bool) (*block.Block, error) {
	mc := e.mc
	b := block.NewBlock(mc.GetKey(), r)
	b.MinerID = e.miners[gen].id
	b.CreationDate = common.Now()
	if b.CreationDate < prev.CreationDate {
		b.CreationDate = prev.CreationDate
	}
	b.SetPreviousBlock(prev)
	b.Round = r
	b.SetRoundRandomSeed(seed)
	lfmbr := mc.GetLatestFinalizedMagicBlockRound(r)
	if lfmbr == nil {
		return nil, fmt.Errorf("no lfmbr")
	}
	b.LatestFinalizedMagicBlockHash = lfmbr.Hash
	b.LatestFinalizedMagicBlockRound = lfmbr.Round
	b.Hash = encryption.Hash(fmt.Sprintf("verif-e3-fab|%d|%d", e.nextSeq(), r))
	bs := block.CreateStateWithPreviousBlock(prev, mc.GetStateDB(), r)
	b.SetClientState(bs)
	sc := mc.GetStateCache()
	if !commit {
		sc = statecache.NewStateCache()
	}
	bc := statecache.NewBlockCache(sc, statecache.Block{Round: r, Hash: b.Hash, PrevHash: prev.Hash})
	ctx, cancel := context.WithTimeout(context.Background(), 2*time.Minute)
	defer cancel()
	nonces := map[string]int64{}
	for _, p := range pre {
		nn, ok := nonces[p.From.id]
		if !ok {
			s, err := chain.GetStateById(bs, p.From.id)
			if err != nil && err != util.ErrValueNotPresent {
				return nil, err
			}
			nn = s.Nonce
		}
		t := e.newTxn(p.From, p.To, p.Value, p.Fee, nn+1, p.Type, p.Data, b.CreationDate)
		if _, err := t.Sign(p.From.scheme); err != nil {
			return nil, err
		}
		es, err := mc.UpdateState(ctx, b, bs, t, bc)
		if err != nil {
			continue // rejected: nothing applied
		}
		nonces[p.From.id] = nn + 1
		t.OutputHash = t.ComputeOutputHash()
		b.Txns = append(b.Txns, t)
		b.Events = append(b.Events, es...)
	}
	b.ClientStateHash = bs.GetRoot()
	b.SetStateChangesCount(bs)
	b.SetStateStatus(block.StateSuccessful)
	b.RunningTxnCount = prev.RunningTxnCount + int64(len(b.Txns))
	b.HashBlock()
	sig, err := e.miners[gen].scheme.Sign(b.Hash)
	if err != nil {
		return nil, err
	}
	b.Signature = sig
	b.ComputeTxnMap()
	if commit {
		bc.SetBlockHash(b.Hash)
		bc.Commit()
	}
	return b, nil
}

// notarizeHonestly gives b valid tickets of the first k miners (through the chain's own bookkeeping).
func (e *e3Engine) notarizeHonestly(mr *Round, b *block.Block, k int) {
	for i := 0; i < k && i < len(e.miners); i++ {
		e.mc.AddVerificationTicket(b, e.ticketBy(e.miners[i], b.Hash))
	}
	if b.IsBlockNotarized() {
		e.mc.AddNotarizedBlockToRound(mr, b)
		b.SetBlockState(block.StateNotarized)
	}
}

// cleanup forgets rounds and blocks of a finished case and empties the pool.
func (e *e3Engine) cleanup(rounds []int64, blocks []*block.Block) {
	ctx := context.Background()
	for _, r := range rounds {
		if rr := e.mc.GetRound(r); rr != nil {
			if mr, ok := rr.(*Round); ok {
				mr.CancelVerification()
				mr.TryCancelBlockGeneration()
			}
			e.mc.DeleteRound(ctx, rr)
		}
	}
	for _, b := range blocks {
		if b != nil {
			e.mc.DeleteBlock(ctx, b)
		}
	}
	e.redis.FlushAll()
}

// ---------------------------------------------------------------------------
// transactions and the pool

func (e *e3Engine) newTxn(from *e3Wallet, to string, value, fee currency.Coin, nonce int64, tp int, data string, ts common.Timestamp) *transaction.Transaction {
	t := transaction.Provider().(*transaction.Transaction)
	t.ClientID = from.id
	t.PublicKey = from.pub
	t.ToClientID = to
	t.Value = value
	t.Fee = fee
	t.Nonce = nonce
	t.CreationDate = ts
	t.TransactionType = tp
	t.TransactionData = data
	t.ChainID = config.GetServerChainID()
	t.Hash = t.ComputeHash()
	_ = t.ComputeProperties()
	return t
}

func e3SCData(fn string, input interface{}) string {
	var raw json.RawMessage
	switch v := input.(type) {
	case nil:
		raw = json.RawMessage("{}")
	case string:
		raw = json.RawMessage(v)
	default:
		b, err := json.Marshal(v)
		if err != nil {
			panic(err)
		}
		raw = b
	}
	d, _ := json.Marshal(struct {
		Name  string          `json:"name"`
		Input json.RawMessage `json:"input"`
	}{fn, raw})
	return string(d)
}

// poolPut writes transactions into the pool the way transaction.PutTransaction does (store write + collection score).
func (e *e3Engine) poolPut(txns ...*transaction.Transaction) error {
	ctx := memorystore.WithEntityConnection(common.GetRootContext(), e.txnMeta)
	defer memorystore.Close(ctx)
	for _, t := range txns {
		cp := t.Clone()
		if err := cp.ComputeProperties(); err != nil {
			return err
		}
		if _, err := transaction.PutTransaction(ctx, cp); err != nil {
			return err
		}
	}
	return nil
}

// poolHashes lists the transaction hashes currently in the pool collection.
func (e *e3Engine) poolHashes() []string {
	var out []string
	ctx := memorystore.WithEntityConnection(common.GetRootContext(), e.txnMeta)
	defer memorystore.Close(ctx)
	t := e.txnMeta.Instance().(*transaction.Transaction)
	_ = e.txnMeta.GetStore().IterateCollection(ctx, e.txnMeta, t.GetCollectionName(), func(_ context.Context, ce datastore.CollectionEntity) (bool, error) {
		out = append(out, ce.GetKey())
		return true, nil
	})
	return out
}

// stateOf reads nonce and balance of an account in a block's state.
func e3StateOf(b *block.Block, id string) (int64, currency.Coin, error) {
	s, err := chain.GetStateById(b.ClientState, id)
	if err != nil && err != util.ErrValueNotPresent {
		return 0, 0, err
	}
	return s.Nonce, s.Balance, nil
}

// ---------------------------------------------------------------------------
// wire

// e3Wire encodes a block the way the N2N layer does and decodes it into a fresh object (decode + ComputeProperties).
func e3Wire(b *block.Block, jsonCodec bool) (*block.Block, error) {
	fresh := datastore.GetEntityMetadata("block").Instance().(*block.Block)
	if jsonCodec {
		buf := datastore.ToJSON(b)
		if err := datastore.FromJSON(bytes.NewReader(buf.Bytes()), fresh); err != nil {
			return nil, err
		}
		return fresh, nil
	}
	buf := datastore.ToMsgpack(b)
	if err := datastore.FromMsgpack(bytes.NewReader(buf.Bytes()), fresh); err != nil {
		return nil, err
	}
	return fresh, nil
}

// e3Replayed is the result of executing a block's transactions again from its parent with pristine transaction copies.
type e3Replayed struct {
	Root     string
	Changes  int
	Statuses []int
	Outputs  []string
	Err      error
}

// replay executes the transactions of b again on top of its parent with fresh state objects and an isolated cache.
func (e *e3Engine) replay(b *block.Block) e3Replayed {
	prev := b.PrevBlock
	nb := block.NewBlock(e.mc.GetKey(), b.Round)
	nb.MinerID, nb.CreationDate = b.MinerID, b.CreationDate
	nb.SetPreviousBlock(prev)
	nb.Round = b.Round
	nb.SetRoundRandomSeed(b.GetRoundRandomSeed())
	nb.Hash = b.Hash
	bs := block.CreateStateWithPreviousBlock(prev, e.mc.GetStateDB(), b.Round)
	nb.SetClientState(bs)
	bc := statecache.NewBlockCache(statecache.NewStateCache(), statecache.Block{Round: b.Round, Hash: b.Hash, PrevHash: b.PrevHash})
	var r e3Replayed
	ctx, cancel := context.WithTimeout(context.Background(), 5*time.Minute)
	defer cancel()
	for _, orig := range b.Txns {
		t := orig.Clone()
		t.Status, t.TransactionOutput, t.OutputHash = 0, "", ""
		if t.ClientID == "" {
			if err := t.ComputeClientID(); err != nil {
				r.Err = err
				return r
			}
		}
		if err := t.ComputeProperties(); err != nil {
			r.Err = err
			return r
		}
		if _, err := e.mc.UpdateState(ctx, nb, bs, t, bc); err != nil {
			r.Err = fmt.Errorf("txn %s (nonce %d): %v", t.Hash, t.Nonce, err)
			return r
		}
		nb.Txns = append(nb.Txns, t)
		r.Statuses = append(r.Statuses, t.Status)
		r.Outputs = append(r.Outputs, t.TransactionOutput)
	}
	r.Root = util.ToHex(bs.GetRoot())
	r.Changes = bs.GetChangeCount()
	return r
}

func e3SortedKeys(m map[string]int) []string {
	ks := make([]string, 0, len(m))
	for k := range m {
		ks = append(ks, k)
	}
	sort.Strings(ks)
	return ks
}

func e3Short(h string) string {
	if len(h) > 8 {
		return h[:8]
	}
	return h
}

func e3Hex(b []byte) string { return hex.EncodeToString(b) }

// e3Watch runs f with a watchdog; ok=false means it did not return in time.
func e3Watch(d time.Duration, f func()) (ok bool) {
	done := make(chan struct{})
	go func() {
		defer close(done)
		f()
	}()
	select {
	case <-done:
		return true
	case <-time.After(d):
		return false
	}
}
