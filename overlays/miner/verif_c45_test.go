package miner

// C45: any block a miner generates from its transaction pool, verified by
// another node holding the same previous state, passes validation and
// recomputes to the same state root, outputs and change count; it contains no
// transaction twice, keeps each sender's nonces consecutive, stays under the
// block cost limit and includes each built-in transaction at most once.
//
// The block comes from the real GenerateRoundBlock (generateBlock over the
// miniredis pool). It is encoded the way the N2N layer does, decoded into a
// fresh object and verified with the real VerifyRoundBlock by another miner of
// the magic block (the harness owns all keys and switches the node identity).

import (
	"0chain.net/chaincore/chain"
	"0chain.net/core/viper"
	"context"
	"fmt"
	"sort"
	"strings"
	"testing"
	"time"

	"0chain.net/chaincore/block"
	"0chain.net/chaincore/client"
	"0chain.net/chaincore/transaction"
	"0chain.net/core/common"
	"0chain.net/smartcontract/faucetsc"
	"0chain.net/smartcontract/minersc"
	"0chain.net/smartcontract/storagesc"
	"github.com/0chain/common/core/currency"
	"github.com/0chain/common/core/util"
	"pgregory.net/rapid"
	"verifharness/vkit"
)

const (
	c45KeyBuiltin = "pool-call-of-built-in-function-included"
	c45KeyBadSig  = "pool-txn-with-bad-signature-included"
)

// kinds of pool transactions
const (
	c45Send      = "send"
	c45Pour      = "pour"
	c45PourFree  = "pour_zero_fee"
	c45BadSig    = "send_bad_signature"
	c45LowFee    = "send_insufficient_fee"
	c45Overdraw  = "send_overdraw"
	c45Expensive = "sc_expensive_failing"
	c45CheapFail = "sc_cheap_failing"
	c45Builtin   = "sc_built_in_name"
	c45Unknown   = "sc_unknown_function"
	c45Data      = "data"
	c45Stale     = "send_stale_time"
)

type c45Spec struct {
	Sender int    // index into the senders of the case
	Off    int    // nonce = state nonce + Off (0 past, 1 current, >1 future)
	Kind   string //
	Rank   int    // pool order key: higher rank is iterated earlier (score = fee)
	Var    int    // variant selector inside the kind
}

type c45Pooled struct {
	spec  c45Spec
	txn   *transaction.Transaction
	from  *e3Wallet
	score int64
}

// c45SetMaxBlockCost changes server_chain.block.max_block_cost the way a restart with another configuration would:
// the chain's configuration is read again from the (otherwise unchanged) settings.
func c45SetMaxBlockCost(t *rapid.T, mc *Chain, limit int) {
	viper.Set("server_chain.block.max_block_cost", limit)
	if err := mc.ChainConfig.(*chain.ConfigImpl).FromViper(); err != nil {
		t.Fatalf("VERIF-HARNESS-ERROR re-reading the chain configuration: %v", err)
	}
	if mc.ChainConfig.MaxBlockCost() != limit {
		t.Fatalf("VERIF-HARNESS-ERROR max block cost is %d after setting %d", mc.ChainConfig.MaxBlockCost(), limit)
	}
}

func c45GenSpecs(t *rapid.T, nSenders int, label string, allowBuiltin, allowBadSig bool) []c45Spec {
	kinds := []string{c45Send, c45Send, c45Send, c45Send, c45Send, c45Pour, c45Pour, c45Pour, c45PourFree,
		c45LowFee, c45Overdraw, c45Overdraw, c45Expensive, c45CheapFail, c45CheapFail, c45Unknown, c45Data, c45Data, c45Stale}
	if allowBuiltin {
		kinds = append(kinds, c45Builtin)
	}
	if allowBadSig {
		kinds = append(kinds, c45BadSig)
	}
	offs := []int{0, 1, 1, 1, 2, 2, 2, 3, 3, 4, 5, 12}
	var specs []c45Spec
	shape := rapid.IntRange(0, 9).Draw(t, label+"shape")
	for s := 0; s < nSenders; s++ {
		n := rapid.IntRange(0, 5).Draw(t, fmt.Sprintf("%sn%d", label, s))
		if shape >= 8 {
			n = rapid.IntRange(3, 7).Draw(t, fmt.Sprintf("%snn%d", label, s)) // long per-sender chains
		}
		for i := 0; i < n; i++ {
			sp := c45Spec{Sender: s}
			sp.Off = offs[rapid.IntRange(0, len(offs)-1).Draw(t, "off")]
			sp.Kind = kinds[rapid.IntRange(0, len(kinds)-1).Draw(t, "kind")]
			sp.Rank = rapid.IntRange(1, 40).Draw(t, "rank")
			sp.Var = rapid.IntRange(0, 7).Draw(t, "var")
			specs = append(specs, sp)
		}
	}
	if shape == 6 { // one sender's chain of expensive calls, later nonces pooled with higher fees: they turn current one by one inside the block
		s := rapid.IntRange(0, nSenders-1).Draw(t, "chainSender")
		k := rapid.IntRange(3, 6).Draw(t, "chainLen")
		base := rapid.IntRange(1, 20).Draw(t, "chainRank")
		for i := 0; i < k; i++ {
			kind := c45Expensive
			if rapid.IntRange(0, 4).Draw(t, "chainKind") == 0 {
				kind = c45Send
			}
			specs = append(specs, c45Spec{Sender: s, Off: 1 + i, Kind: kind, Rank: base + i, Var: rapid.IntRange(0, 7).Draw(t, "var")})
		}
	}
	if shape == 7 { // cost near the limit: several expensive calls of distinct senders, all current
		for s := 0; s < nSenders; s++ {
			k := rapid.IntRange(1, 2).Draw(t, "heavy")
			for i := 0; i < k; i++ {
				specs = append(specs, c45Spec{Sender: s, Off: 1 + i, Kind: c45Expensive, Rank: rapid.IntRange(1, 40).Draw(t, "rank"), Var: rapid.IntRange(0, 7).Draw(t, "var")})
			}
		}
	}
	return specs
}

var c45BuiltinNames = []struct{ addr, fn string }{
	{minersc.ADDRESS, "payFees"},
	{storagesc.ADDRESS, "generate_challenge"},
	{storagesc.ADDRESS, "blobber_block_rewards"},
	{storagesc.ADDRESS, "commit_settings_changes"},
}

// c45Build turns a spec into a signed pool transaction relative to the sender's state in prev.
func c45Build(e *e3Engine, sp c45Spec, idx int, from *e3Wallet, others []*e3Wallet, nonce int64, bal currency.Coin, rnd int64) c45Pooled {
	now := common.Now()
	to := others[(sp.Var)%len(others)].id
	if to == from.id {
		to = e.stranger.id
	}
	fee := currency.Coin(1e10) + currency.Coin(sp.Rank*64+idx)
	value := currency.Coin(1000 + sp.Var)
	tp := transaction.TxnTypeSend
	data := ""
	switch sp.Kind {
	case c45Send:
		if sp.Var == 7 {
			to = e.stranger.id // creates a new account
		}
	case c45Pour, c45PourFree:
		tp, to, data, value = transaction.TxnTypeSmartContract, faucetsc.ADDRESS, e3SCData("pour", nil), currency.Coin(1e9)
		if sp.Kind == c45PourFree {
			fee = 0
		}
	case c45LowFee:
		fee = currency.Coin(1e8) - 1 - currency.Coin(idx) // transfer cost 10 / coeff 1000 = 0.01 ZCN needed
		if sp.Var%2 == 0 {
			fee = 0
		}
	case c45Overdraw:
		value = bal + currency.Coin(1+sp.Var) // more than the sender owns
		if sp.Var >= 6 && bal > fee {
			value = bal - fee + 1 // value alone is covered, value+fee is not
		}
	case c45Expensive:
		tp, to, value = transaction.TxnTypeSmartContract, storagesc.ADDRESS, 0
		fns := []string{"update_allocation_request", "free_allocation_request", "new_allocation_request", "cancel_allocation"}
		data = e3SCData(fns[sp.Var%len(fns)], map[string]interface{}{"id": fmt.Sprintf("%064x", sp.Var+1), "x": idx})
	case c45CheapFail:
		tp, to, value = transaction.TxnTypeSmartContract, faucetsc.ADDRESS, 0
		data = e3SCData("update-settings", map[string]interface{}{"fields": map[string]string{"pour_amount": "1"}})
	case c45Builtin:
		bi := c45BuiltinNames[sp.Var%len(c45BuiltinNames)]
		tp, to, value = transaction.TxnTypeSmartContract, bi.addr, 0
		data = e3SCData(bi.fn, map[string]interface{}{"round": rnd, "sent_by": "client"}) // never byte-identical to the generator's own built-in
	case c45Unknown:
		tp, to, value = transaction.TxnTypeSmartContract, faucetsc.ADDRESS, 0
		data = e3SCData(fmt.Sprintf("no_such_function_%d", sp.Var), nil)
		if sp.Var%2 == 0 {
			to = e.stranger.id // not a contract address
		}
	case c45Data:
		tp, value = transaction.TxnTypeData, 0
		data = fmt.Sprintf("payload-%d-%d", idx, sp.Var)
	case c45Stale:
		now = now - common.Timestamp(transaction.TXN_TIME_TOLERANCE) - 120
	}
	t := e.newTxn(from, to, value, fee, nonce, tp, data, now)
	signer := from.scheme
	if sp.Kind == c45BadSig && sp.Var%2 == 0 {
		signer = e.stranger.scheme // a well-formed signature of somebody else
	}
	if _, err := t.Sign(signer); err != nil {
		panic(err)
	}
	if sp.Kind == c45BadSig && sp.Var%2 == 1 {
		// a well-formed signature over another hash
		s, err := from.scheme.Sign(fmt.Sprintf("%064x", idx+1))
		if err != nil {
			panic(err)
		}
		t.Signature = s
	}
	score := int64(fee)
	return c45Pooled{spec: sp, txn: t, from: from, score: score}
}

func c45SenderOf(t *transaction.Transaction) string {
	if t.ClientID != "" {
		return t.ClientID
	}
	id, err := client.GetIDFromPublicKey(t.PublicKey)
	if err != nil {
		return "?" + t.PublicKey
	}
	return id
}

type c45BlockReport struct {
	Round    int64    `json:"round"`
	Builtins []string `json:"builtins"`
	Pool     []string `json:"pool"`
	Included []string `json:"included"`
	Became   int      `json:"future_became_current"`
}

func TestC45_GenerateVerify(t *testing.T) {
	e, err := e3Boot()
	if err != nil {
		t.Fatalf("VERIF-HARNESS-ERROR boot: %v", err)
	}
	st := vkit.For("C45").SetRule("a case = a previous state (0-4 harness-executed sends/pours in a fabricated notarized block on the genesis state), 1-2 (thorough 1-3) rounds whose numbers are chosen to hit the built-in transaction schedules (challenge/3, block reward/30, settings/200), per round a drawn generator of rank 0/1, a drawn verifier and a generated miniredis pool over 2-5 senders (rich clients, a nearly empty wallet, the generator's own wallet): per sender a list of (nonce offset 0 past / 1 current / 2-5 future / 12 too far, kind, pool rank = fee) with kinds send, faucet pour (also with zero fee), insufficient fee, overdraw, expensive and cheap failing contract calls, client calls of the built-in function names, unknown function / non-contract address, data, stale creation time, bad signature; duplicate nonces, several expensive calls near the block cost limit, re-put of a pooled txn; leftovers of the previous round stay pooled. Oracle: real GenerateRoundBlock -> msgpack/JSON wire round trip -> real VerifyRoundBlock as another miner passes; roots, change count, outputs, statuses equal (verifier and an independent replay on an isolated cache); no hash twice, per-sender nonces consecutive from state nonce+1, sum of estimated costs <= max block cost, built-in names <= 1. Non-trivial = a block in which a future-nonce txn was iterated before its predecessor and became current inside the block; distinct by pool-shape/block-layout fingerprint")
	st.Assume("generator and verifier share one process: same state DB (the 'same previous state'), same global state cache (read through the parent hash only)")
	st.Assume("transaction timestamps are real time (generateBlock stamps common.Now); no oracle reads the clock; pool order is controlled through distinct fees")
	st.Assume("block.proposal.max_wait_time raised from 180ms to 60s so that the wall-clock cut-off of the pool iteration does not decide the outcome")
	maxBlocks := vkit.Scale(2, 3)

	rapid.Check(t, func(t *rapid.T) {
		st.Case()
		mc := e.mc
		allowBuiltin := !st.IsKnown(c45KeyBuiltin) || rapid.IntRange(0, 19).Draw(t, "knownBuiltin") == 0
		allowBadSig := !st.IsKnown(c45KeyBadSig) || rapid.IntRange(0, 19).Draw(t, "knownBadSig") == 0
		nBlocks := rapid.IntRange(1, maxBlocks).Draw(t, "blocks")
		roundClass := rapid.IntRange(0, 9).Draw(t, "roundClass")
		first := e.allocRounds(int64(nBlocks)+1, func(f int64) bool {
			r := f + 1 // round of the first generated block
			switch {
			case roundClass <= 5:
				return r%30 != 0 && r%200 != 0
			case roundClass <= 7:
				return r%30 == 0
			case roundClass == 8:
				return r%200 == 0
			default:
				return r%600 == 0
			}
		})
		var rounds []int64
		var blocks []*block.Block
		defer func() { e.cleanup(rounds, blocks) }()

		// the block cost limit is a chain setting: mostly the shipped 10000, sometimes just above the cost of all
		// built-in transactions together (1356 + 600 + 794 + 56), so that a pool of cheap transactions fills a block
		// to the limit
		limit := rapid.SampledFrom([]int{10000, 10000, 10000, 3000, 3300, 4000}).Draw(t, "maxBlockCost")
		saturate := rapid.IntRange(0, 3).Draw(t, "saturate") == 0
		if roundClass >= 8 && rapid.Bool().Draw(t, "settingsRoundTight") {
			limit, saturate = rapid.SampledFrom([]int{3000, 3300, 3100}).Draw(t, "tightLimit"), true
		}
		if limit != 10000 {
			c45SetMaxBlockCost(t, mc, limit)
			defer c45SetMaxBlockCost(t, mc, 10000)
		}

		// previous state
		var pre []e3Pre
		for i, n := 0, rapid.IntRange(0, 4).Draw(t, "pre"); i < n; i++ {
			from := e.clients[rapid.IntRange(0, 3).Draw(t, "preFrom")]
			if rapid.Bool().Draw(t, "prePour") {
				pre = append(pre, e3Pre{From: from, To: faucetsc.ADDRESS, Value: 1e9, Fee: 1e10, Type: transaction.TxnTypeSmartContract, Data: e3SCData("pour", nil)})
			} else {
				pre = append(pre, e3Pre{From: from, To: e.clients[4].id, Value: currency.Coin(rapid.IntRange(1, 1000).Draw(t, "preVal")), Fee: 1e10, Type: transaction.TxnTypeSend})
			}
		}
		e.become(0)
		prev, err := e.fabricatePrev(first, rapid.IntRange(0, len(e.miners)-1).Draw(t, "prevGen"), pre)
		rounds = append(rounds, first)
		if err != nil {
			t.Fatalf("VERIF-HARNESS-ERROR previous block: %v", err)
		}
		blocks = append(blocks, prev)

		nSenders := rapid.IntRange(2, 5).Draw(t, "senders")
		var reports []c45BlockReport
		nontrivial := false
		byHash := map[string]*c45Pooled{} // every transaction pooled in this case (leftovers of earlier rounds stay pooled)
		thisRound := map[string]bool{}
		var fpParts []interface{}

		for bi := 0; bi < nBlocks; bi++ {
			r := first + 1 + int64(bi)
			rounds = append(rounds, r)
			seed := rapid.Int64Range(1, 1<<40).Draw(t, "seed")
			mr := e.openRound(r, seed)
			genRank := rapid.IntRange(0, 1).Draw(t, "genRank")
			gen := -1
			for _, m := range e.miners {
				if mr.GetMinerRank(m.node) == genRank {
					gen = m.idx
				}
			}
			if gen < 0 {
				t.Fatalf("VERIF-HARNESS-ERROR no miner of rank %d in round %d", genRank, r)
			}
			ver := (gen + 1 + rapid.IntRange(0, len(e.miners)-2).Draw(t, "verifier")) % len(e.miners)

			// the senders of this round
			genWallet := &e3Wallet{name: "generator", scheme: e.miners[gen].scheme, id: e.miners[gen].id, pub: e.miners[gen].scheme.GetPublicKey()}
			senders := []*e3Wallet{e.clients[0], e.clients[1], e.poor, genWallet, e.clients[2]}[:nSenders]
			others := []*e3Wallet{e.clients[3], e.clients[4], e.clients[5], e.clients[0], e.clients[1]}
			specs := c45GenSpecs(t, nSenders, fmt.Sprintf("b%d", bi), allowBuiltin, allowBadSig)
			if saturate {
				// every sender pools ten cheap transactions in nonce order (pours cost 100, sends 10)
				for s := 0; s < nSenders; s++ {
					for i := 0; i < 10; i++ {
						kind := c45Send
						if rapid.IntRange(0, 2).Draw(t, "satPour") != 0 {
							kind = c45Pour
						}
						specs = append(specs, c45Spec{Sender: s, Off: 1 + i, Kind: kind, Rank: 40 - 3*i, Var: rapid.IntRange(0, 6).Draw(t, "var")})
					}
				}
			}
			stNonce := map[string]int64{}
			stBal := map[string]currency.Coin{}
			for _, w := range append(append([]*e3Wallet{}, senders...), e.clients...) {
				n, bal, err := e3StateOf(prev, w.id)
				if err != nil {
					t.Fatalf("VERIF-HARNESS-ERROR state of %s: %v", w.name, err)
				}
				stNonce[w.id], stBal[w.id] = n, bal
			}
			var pool []c45Pooled
			thisRound = map[string]bool{}
			for i, sp := range specs {
				from := senders[sp.Sender]
				nonce := stNonce[from.id] + int64(sp.Off)
				if nonce < 1 {
					nonce = 1
				}
				p := c45Build(e, sp, i, from, others, nonce, stBal[from.id], r)
				if _, dup := byHash[p.txn.Hash]; dup {
					continue
				}
				pool = append(pool, p)
				byHash[p.txn.Hash] = &p
			}
			var txns []*transaction.Transaction
			for i := range pool {
				pp := pool[i]
				byHash[pp.txn.Hash] = &pp
				thisRound[pp.txn.Hash] = true
				txns = append(txns, pool[i].txn)
				st.Class("pool/" + pool[i].spec.Kind)
				switch {
				case pool[i].spec.Off <= 0:
					st.Class("pool_nonce/past")
				case pool[i].spec.Off == 1:
					st.Class("pool_nonce/current")
				case pool[i].spec.Off >= 12:
					st.Class("pool_nonce/too_far")
				default:
					st.Class("pool_nonce/future")
				}
			}
			if err := e.poolPut(txns...); err != nil {
				t.Fatalf("VERIF-HARNESS-ERROR pool write: %v", err)
			}
			// duplicates of pooled transactions: the same transactions submitted again
			if len(txns) > 0 && rapid.IntRange(0, 2).Draw(t, "reput") == 0 {
				k := rapid.IntRange(0, len(txns)-1).Draw(t, "reputIdx")
				if err := e.poolPut(txns[k], txns[k]); err != nil {
					t.Fatalf("VERIF-HARNESS-ERROR pool write: %v", err)
				}
				st.Class("pool/duplicate_put")
			}
			nonceSeen := map[string]int{}
			for _, p := range pool {
				nonceSeen[fmt.Sprintf("%s/%d", p.from.id, p.txn.Nonce)]++
			}
			for _, c := range nonceSeen {
				if c > 1 {
					st.Class("pool/duplicate_nonce_group")
				}
			}

			var leftovers []string
			for _, h := range e.poolHashes() {
				if !thisRound[h] {
					if p, ok := byHash[h]; ok {
						leftovers = append(leftovers, fmt.Sprintf("%s %s nonce %d kind %s fee %d", e3Short(h), p.from.name, p.txn.Nonce, p.spec.Kind, p.txn.Fee))
					} else {
						leftovers = append(leftovers, e3Short(h)+" (not pooled by this case)")
					}
				}
			}
			if len(leftovers) > 0 {
				st.Class("pool/has_leftovers_of_previous_round")
			}

			// ---- generate (real path) as miner gen
			e.become(gen)
			var b *block.Block
			var gerr error
			if !e3Watch(3*time.Minute, func() { b, gerr = mc.GenerateRoundBlock(context.Background(), mr) }) {
				t.Fatalf("%s", vkit.Violation("C45", "generate-hang", "VERIF-HANG GenerateRoundBlock did not return within 3 minutes (round %d, pool of %d)", r, len(pool)))
			}
			if gerr != nil || b == nil {
				code := "nil-block"
				if gerr != nil {
					code = gerr.Error()
					if ce, ok := gerr.(*common.Error); ok {
						code = ce.Code
					}
				}
				st.Class("no_block/" + code)
				return // no block, nothing to verify
			}
			blocks = append(blocks, b)
			st.Class(fmt.Sprintf("blocks_generated/at_depth_%d", bi+1))

			rep := c45BlockReport{Round: r}
			for _, p := range pool {
				rep.Pool = append(rep.Pool, fmt.Sprintf("s%d:+%d:%s:r%d", p.spec.Sender, p.spec.Off, p.spec.Kind, p.spec.Rank))
			}
			describe := func() string {
				var sb strings.Builder
				fmt.Fprintf(&sb, "round %d generator m%d verifier m%d prev %s\n pool (iteration order = score desc):\n", r, gen, ver, e3Short(prev.Hash))
				ps := append([]c45Pooled{}, pool...)
				sort.SliceStable(ps, func(i, j int) bool { return ps[i].score > ps[j].score })
				for _, p := range ps {
					fmt.Fprintf(&sb, "   %s %s nonce %d (state %d, off %+d) kind %s fee %d value %d to %s\n", e3Short(p.txn.Hash), p.from.name, p.txn.Nonce, stNonce[p.from.id], p.spec.Off, p.spec.Kind, p.txn.Fee, p.txn.Value, e3Short(p.txn.ToClientID))
				}
				for _, l := range leftovers {
					fmt.Fprintf(&sb, "   leftover of the previous round: %s\n", l)
				}
				fmt.Fprintf(&sb, " block %s txns:\n", e3Short(b.Hash))
				for _, x := range b.Txns {
					kind := "built-in/other"
					if p, ok := byHash[x.Hash]; ok {
						kind = p.spec.Kind
					}
					fmt.Fprintf(&sb, "   %s from %s nonce %d fn %q kind %s status %d out %.80q\n", e3Short(x.Hash), e3Short(c45SenderOf(x)), x.Nonce, x.FunctionName, kind, x.Status, x.TransactionOutput)
				}
				return sb.String()
			}

			// ---- structure of the generated block
			seen := map[string]bool{}
			perSender := map[string][]int64{}
			fnCount := map[string]int{}
			cost := 0
			lfb := mc.GetLatestFinalizedBlock()
			includedBuiltinFromPool, includedBadSig := false, false
			for _, x := range b.Txns {
				if seen[x.Hash] {
					t.Fatalf("%s", vkit.Violation("C45", "txn-twice", "transaction %s is in the generated block twice\n%s", x.Hash, describe()))
				}
				seen[x.Hash] = true
				sid := c45SenderOf(x)
				perSender[sid] = append(perSender[sid], x.Nonce)
				if mc.isBuildInTxn(x) {
					fnCount[x.FunctionName]++
				}
				cp := x.Clone()
				cp.ClientID = sid
				_ = cp.ComputeProperties()
				c, err := mc.EstimateTransactionCost(context.Background(), lfb, cp)
				if err != nil {
					t.Fatalf("%s", vkit.Violation("C45", "included-txn-without-cost", "cost of included transaction %s cannot be estimated: %v\n%s", x.Hash, err, describe()))
				}
				cost += c
				if p, ok := byHash[x.Hash]; ok {
					if thisRound[x.Hash] {
						st.Class("included/" + p.spec.Kind)
						rep.Included = append(rep.Included, fmt.Sprintf("s%d:+%d:%s", p.spec.Sender, p.spec.Off, p.spec.Kind))
					} else {
						st.Class("included_leftover_of_previous_round/" + p.spec.Kind)
						rep.Included = append(rep.Included, fmt.Sprintf("left:%s:%s", p.from.name, p.spec.Kind))
					}
					if p.spec.Kind == c45Builtin {
						includedBuiltinFromPool = true
						st.Class("included_built_in_name_from_pool/" + x.FunctionName)
					}
					if p.spec.Kind == c45BadSig {
						includedBadSig = true
					}
				} else {
					rep.Builtins = append(rep.Builtins, x.FunctionName)
					st.Class("built_in/" + x.FunctionName)
				}
			}
			for sid, ns := range perSender {
				n0, _, err := e3StateOf(prev, sid)
				if err != nil {
					t.Fatalf("VERIF-HARNESS-ERROR state of %s: %v", sid, err)
				}
				for i, n := range ns {
					if n != n0+int64(i)+1 {
						t.Fatalf("%s", vkit.Violation("C45", "nonces-not-consecutive", "sender %s has state nonce %d, block carries nonces %v\n%s", e3Short(sid), n0, ns, describe()))
					}
				}
			}
			if cost > mc.ChainConfig.MaxBlockCost() {
				t.Fatalf("%s", vkit.Violation("C45", "cost-over-limit", "sum of transaction costs %d > max block cost %d\n%s", cost, mc.ChainConfig.MaxBlockCost(), describe()))
			}
			if cost+2692 >= mc.ChainConfig.MaxBlockCost() {
				st.Class("cost/within_one_expensive_call_of_limit")
			}
			if cost+56 >= mc.ChainConfig.MaxBlockCost() {
				st.Class("cost/within_56_of_limit")
				if r%200 == 0 {
					st.Class("cost/within_56_of_limit_in_a_settings_round")
				}
			}
			st.Class(fmt.Sprintf("max_block_cost=%d", mc.ChainConfig.MaxBlockCost()))
			builtinTwice := ""
			for _, fn := range e3SortedKeys(fnCount) {
				if fnCount[fn] > 1 {
					builtinTwice = fn
				}
			}
			if builtinTwice != "" && !includedBuiltinFromPool {
				t.Fatalf("%s", vkit.Violation("C45", "builtin-twice", "built-in function %q is in the generated block %d times\n%s", builtinTwice, fnCount[builtinTwice], describe()))
			}

			// future txn that became current inside the block: included txn with nonce n+1 whose score was higher
			// than the score of the included txn with nonce n of the same sender (it was iterated first)
			became := 0
			bySenderNonce := map[string]*c45Pooled{}
			for _, x := range b.Txns {
				if p, ok := byHash[x.Hash]; ok {
					bySenderNonce[fmt.Sprintf("%s/%d", p.from.id, x.Nonce)] = p
				}
			}
			for _, x := range b.Txns {
				p, ok := byHash[x.Hash]
				if !ok {
					continue
				}
				if q, ok := bySenderNonce[fmt.Sprintf("%s/%d", p.from.id, x.Nonce-1)]; ok && p.score > q.score {
					became++
				}
			}
			rep.Became = became
			if became > 0 {
				nontrivial = true
				st.Class("future_became_current")
			}
			reports = append(reports, rep)
			fpParts = append(fpParts, strings.Join(rep.Pool, ","), strings.Join(rep.Included, ","), strings.Join(rep.Builtins, ","))

			// ---- wire + verification as another miner
			jsonCodec := rapid.IntRange(0, 3).Draw(t, "codec") == 0
			fresh, err := e3Wire(b, jsonCodec)
			if err != nil {
				t.Fatalf("%s", vkit.Violation("C45", "wire-decode", "generated block does not decode from its own wire encoding (json=%v): %v\n%s", jsonCodec, err, describe()))
			}
			e.become(ver)
			var verr error
			if !e3Watch(3*time.Minute, func() { _, verr = mc.VerifyRoundBlock(context.Background(), mr, fresh) }) {
				t.Fatalf("%s", vkit.Violation("C45", "verify-hang", "VERIF-HANG VerifyRoundBlock did not return within 3 minutes\n%s", describe()))
			}
			if verr != nil {
				if includedBadSig && strings.Contains(strings.ToLower(verr.Error()), "signature") {
					if !st.Known(c45KeyBadSig) {
						t.Fatalf("%s", vkit.Violation("C45", c45KeyBadSig, "generated block carries a pool transaction whose signature does not verify; the verifier rejects the block: %v\n%s", verr, describe()))
					}
					st.Class("known/" + c45KeyBadSig)
					return
				}
				if builtinTwice != "" && includedBuiltinFromPool && strings.Contains(verr.Error(), "txn_validation_failed") {
					if !st.Known(c45KeyBuiltin) {
						t.Fatalf("%s", vkit.Violation("C45", c45KeyBuiltin, "built-in function %q is in the generated block %d times (one of them a pool transaction sent by an ordinary client); the verifier rejects the block: %v\n%s", builtinTwice, fnCount[builtinTwice], verr, describe()))
					}
					st.Class("known/" + c45KeyBuiltin)
					return
				}
				code := verr.Error()
				if ce, ok := verr.(*common.Error); ok {
					code = ce.Code
				}
				t.Fatalf("%s", vkit.Violation("C45", "verify-rejected/"+code, "honest verifier m%d rejects the block generated by m%d: %v\n%s", ver, gen, verr, describe()))
			}
			if builtinTwice != "" {
				t.Fatalf("%s", vkit.Violation("C45", "builtin-twice-accepted", "built-in function %q is in the generated block %d times and the verifier accepted it\n%s", builtinTwice, fnCount[builtinTwice], describe()))
			}
			st.Class("verified_ok")
			if !fresh.IsStateComputed() || fresh.ClientState == nil {
				t.Fatalf("%s", vkit.Violation("C45", "verifier-state-missing", "verification passed but the verifier's block has no computed state\n%s", describe()))
			}
			gRoot, vRoot := util.ToHex(b.ClientState.GetRoot()), util.ToHex(fresh.ClientState.GetRoot())
			if gRoot != vRoot || gRoot != util.ToHex(b.ClientStateHash) {
				t.Fatalf("%s", vkit.Violation("C45", "root-differs", "state roots differ: generator %s, block header %s, verifier %s\n%s", gRoot, util.ToHex(b.ClientStateHash), vRoot, describe()))
			}
			if fresh.ClientState.GetChangeCount() != b.StateChangesCount {
				t.Fatalf("%s", vkit.Violation("C45", "change-count-differs", "state change count: header %d, verifier recomputed %d\n%s", b.StateChangesCount, fresh.ClientState.GetChangeCount(), describe()))
			}
			if len(fresh.Txns) != len(b.Txns) {
				t.Fatalf("%s", vkit.Violation("C45", "txn-count-differs", "wire copy has %d transactions, generated block %d\n%s", len(fresh.Txns), len(b.Txns), describe()))
			}
			for i := range b.Txns {
				g, v := b.Txns[i], fresh.Txns[i]
				if g.TransactionOutput != v.TransactionOutput || g.Status != v.Status || g.OutputHash != v.OutputHash || g.Hash != v.Hash {
					t.Fatalf("%s", vkit.Violation("C45", "output-differs", "transaction %d (%s): generator status %d output %q hash %s; verifier status %d output %q hash %s\n%s", i, g.Hash, g.Status, g.TransactionOutput, g.OutputHash, v.Status, v.TransactionOutput, v.OutputHash, describe()))
				}
			}
			// ---- independent replay from pristine copies on an isolated cache
			rp := e.replay(b)
			if rp.Err != nil {
				t.Fatalf("%s", vkit.Violation("C45", "replay-rejected", "replaying the generated block from its parent fails: %v\n%s", rp.Err, describe()))
			}
			if rp.Root != gRoot || rp.Changes != b.StateChangesCount {
				t.Fatalf("%s", vkit.Violation("C45", "replay-root-differs", "replay root %s changes %d; generator root %s changes %d\n%s", rp.Root, rp.Changes, gRoot, b.StateChangesCount, describe()))
			}
			for i := range b.Txns {
				if rp.Outputs[i] != b.Txns[i].TransactionOutput || rp.Statuses[i] != b.Txns[i].Status {
					t.Fatalf("%s", vkit.Violation("C45", "replay-output-differs", "transaction %d (%s): generator status %d output %q; replay status %d output %q\n%s", i, b.Txns[i].Hash, b.Txns[i].Status, b.Txns[i].TransactionOutput, rp.Statuses[i], rp.Outputs[i], describe()))
				}
			}

			// next round builds on this block: the network notarizes it
			if bi+1 < nBlocks {
				e.notarizeHonestly(mr, b, len(e.miners))
				if !b.IsBlockNotarized() {
					t.Fatalf("VERIF-HARNESS-ERROR generated block not notarized by %d honest tickets", len(e.miners))
				}
				prev = b
			}
		}
		if nontrivial {
			st.NonTrivial(fpParts...)
		}
		if st.WantSample(nontrivial) {
			st.Sample(nontrivial, reports)
		}
	})
}
