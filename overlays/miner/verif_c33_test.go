package miner

import (
	"context"
	"crypto/sha256"
	"fmt"
	"sort"
	"strconv"
	"strings"
	"sync"
	"testing"
	"time"

	"0chain.net/chaincore/block"
	"0chain.net/chaincore/chain"
	"0chain.net/chaincore/node"
	"0chain.net/chaincore/round"
	"0chain.net/chaincore/threshold/bls"
	"0chain.net/core/common"
	"0chain.net/core/encryption"
	"0chain.net/core/memorystore"
	hbls "github.com/herumi/bls-go-binary/bls"
	"pgregory.net/rapid"
	"verifharness/vkeys"
	"verifharness/vkit"
)

// C33: for a given round, timeout count and previous seed, any two sets of at
// least threshold-many verified VRF shares from the round's miners yield the same
// round random seed; shares that fail verification are never counted, and fewer
// than threshold shares never produce a seed.
//
// Engine E3 (in-package, miner): every simulated node is the miner chain object
// re-initialised with SetupMinerChain over a fresh chain.Chain, the node's own
// DKG object (real bls package, complete t-of-n key generation), a magic block
// with the n miners and real round objects. Honest shares are produced by the
// real GetBlsShare on the sender's node; deliveries go through the real
// Chain.AddVRFShare (verifyVRFShare, verifyCachedVRFShares, Round.AddVRFShare,
// ThresholdNumBLSSigReceived, computeRBO, computeRoundRandomSeed).

var c33once sync.Once

func c33setup() {
	c33once.Do(func() {
		if common.GetRootContext() == nil {
			common.SetupRootContext(context.Background())
		}
		round.SetupEntity(memorystore.GetStorageProvider())
	})
}

// c33dkg is one complete key generation: party i holds dkgs[i].
type c33dkg struct {
	t, n    int
	nodes   []*node.Node
	dkgs    []*bls.DKG
	groupSK bls.Key // sum of the constant coefficients: the key no party holds
	msks    [][]string
	mpks    map[bls.PartyID][]bls.PublicKey
}

// faultyDKG is party p's key material when the share dealt by party drop never reached it (the view change skips a
// share that fails validation; a DKG restored from a summary may hold fewer than n shares): its aggregated secret is
// not the one the magic block's public polynomials give for p.
func (g *c33dkg) faultyDKG(p, drop int) (*bls.DKG, error) {
	d := bls.SetDKG(g.t, g.n, map[string]string{}, g.msks[p], g.mpks, g.nodes[p].ID)
	for i := 0; i < g.n; i++ {
		if i == drop {
			continue
		}
		sij, err := g.dkgs[i].ComputeDKGKeyShare(d.ID)
		if err != nil {
			return nil, err
		}
		if err := d.AddSecretShare(g.dkgs[i].ID, sij.GetHexString(), false); err != nil {
			return nil, err
		}
	}
	d.AggregateSecretKeyShares()
	return d, nil
}

func c33coef(salt uint64, party, j int) bls.Key {
	d := sha256.Sum256([]byte(fmt.Sprintf("verif|c33|%d|%d|%d|%d", vkit.Seed(), salt, party, j)))
	var k bls.Key
	if err := k.SetLittleEndianMod(d[:]); err != nil {
		panic(err)
	}
	return k
}

// c33makeDKG runs the key generation with polynomials derived from (VERIF_SEED, salt).
func c33makeDKG(t, n int, nodes []*node.Node, salt uint64) (*c33dkg, error) {
	g := &c33dkg{t: t, n: n, nodes: nodes, dkgs: make([]*bls.DKG, n)}
	msks := make([][]string, n)
	mpks := map[bls.PartyID][]bls.PublicKey{}
	for i := 0; i < n; i++ {
		coefs := make([]bls.Key, t)
		for j := range coefs {
			coefs[j] = c33coef(salt, i, j)
			msks[i] = append(msks[i], coefs[j].GetHexString())
		}
		g.groupSK.Add(&coefs[0])
		mpks[bls.ComputeIDdkg(nodes[i].ID)] = hbls.GetMasterPublicKey(coefs)
	}
	if len(mpks) != n {
		return nil, fmt.Errorf("party ids collide")
	}
	g.msks, g.mpks = msks, mpks
	for i := 0; i < n; i++ {
		g.dkgs[i] = bls.SetDKG(t, n, map[string]string{}, msks[i], mpks, nodes[i].ID)
	}
	for i := 0; i < n; i++ {
		for j := 0; j < n; j++ {
			sij, err := g.dkgs[i].ComputeDKGKeyShare(g.dkgs[j].ID)
			if err != nil {
				return nil, err
			}
			if !g.dkgs[j].ValidateShare(mpks[g.dkgs[i].ID], sij) {
				return nil, fmt.Errorf("key share %d -> %d does not validate", i, j)
			}
			if err := g.dkgs[j].AddSecretShare(g.dkgs[i].ID, sij.GetHexString(), false); err != nil {
				return nil, err
			}
		}
	}
	for i := 0; i < n; i++ {
		g.dkgs[i].AggregateSecretKeyShares()
	}
	return g, nil
}

// c33node makes the process's miner chain the node of party p: fresh chain,
// magic block with the n miners, p's DKG, previous round (with its seed, when
// it is known yet) and the round itself with the given timeout count.
func c33node(g *c33dkg, p int, rn int64, tc int, prevSeed int64, prevKnown bool, own ...*bls.DKG) (*Chain, *Round, *Round) {
	c := chain.Provider().(*chain.Chain)
	c.ChainConfig = chain.NewConfigImpl(&chain.ConfigData{IsDkgEnabled: true, MinGenerators: 1, GeneratorsPercent: 0.2})
	mb := block.NewMagicBlock()
	mb.T, mb.N, mb.K = g.t, g.n, g.n
	mb.Miners = node.NewPool(node.NodeTypeMiner)
	mb.Sharders = node.NewPool(node.NodeTypeSharder)
	for _, nd := range g.nodes {
		if err := mb.Miners.AddNode(nd); err != nil {
			panic(err)
		}
	}
	c.SetMagicBlock(mb)
	chain.SetServerChain(c)
	SetupMinerChain(c)
	mc := GetMinerChain()
	node.Self.Node = g.nodes[p]
	dkg := g.dkgs[p]
	if len(own) > 0 && own[0] != nil {
		dkg = own[0]
	}
	if err := mc.SetDKG(dkg, 0); err != nil {
		panic(err)
	}
	ctx := context.Background()
	pr := mc.getOrCreateRound(ctx, rn-1)
	if prevKnown && prevSeed != 0 {
		pr.Round.SetRandomSeed(prevSeed, g.n)
	}
	mr := mc.getOrCreateRound(ctx, rn)
	if tc > 0 {
		mr.SetTimeoutCount(tc)
	}
	// The node has already moved past the round: TryProposeBlock returns at once and no block
	// generation / 5 s watchdog timers are started when the seed is computed.
	mc.SetCurrentRound(rn + 1)
	return mc, pr, mr
}

// c33honest returns the share party p's node produces for (rn, tc, prevSeed) and the message it signed.
func c33honest(g *c33dkg, p int, rn int64, tc int, prevSeed int64) (share, msg string, err error) {
	mc, _, mr := c33node(g, p, rn, tc, prevSeed, true)
	if msg, err = mc.GetBlsMessageForRound(mr.Round); err != nil {
		return "", "", err
	}
	share, err = mc.GetBlsShare(context.Background(), mr.Round)
	return share, msg, err
}

// c33delivery is one VRF share message handed to a node. What it carries is
// resolved when it is delivered, against the round's situation at that moment
// (the timeout count changes when the node restarts the round).
type c33delivery struct {
	party    int    // claimed sender (index of a round miner)
	kind     string // how the share is made
	fixed    string // share text for the kinds that do not depend on the situation
	fixedMsg string // the message a fixed share signs ("" = none)
	signer   int    // other-party: whose share is presented
	delta    int    // label-lower / label-higher: distance of the carried timeout count
	outsider bool   // sent by a registered node that is not one of the round's miners
}

// c33situation is what a share must match on a node right now.
type c33situation struct {
	tc      int
	msg     string
	valid   []string // every party's signature share over msg
	wantRBO string
	want    int64
}

func c33seedOf(sig *bls.Sign) (string, int64) {
	rbo := encryption.Hash(sig.GetHexString())
	u, err := strconv.ParseUint(rbo[0:16], 16, 64)
	if err != nil {
		panic(err)
	}
	return rbo, int64(u)
}

func TestC33_RoundRandomSeed(t *testing.T) {
	c33setup()
	st := vkit.For("C33").SetRule("per case a complete t-of-n key generation (1<=t<=n<=7, miner ids from derived keys, polynomials derived from VERIF_SEED and a drawn salt), a round number (1, small, large), timeout count 0..3 and previous round seed (any non-zero int64; 0 for round 1); honest shares come from the real GetBlsShare on each sender's node; 2..4 receiving nodes each get a drawn delivery list: v valid shares of distinct senders (v drawn around t-1, t, t+1, n) mixed in drawn order with shares over another round / timeout count / previous seed, another party's share under this sender's id, garbage, empty and upper-case encodings, repeats, and right shares labelled with a lower / higher timeout count, shares of a registered node that is not a round miner (zero signature, a member's share, a random point); on some nodes the previous round's seed becomes known only after the first deliveries (those are cached and verified later), and some nodes restart the round in the middle (Round.Restart + IncrementTimeoutCount as restartRound does: new timeout count, new message, old shares must no longer count); non-trivial = at least two nodes obtained the seed from different sets of senders; distinct by (t, n, ids, round, timeout, previous seed, per-node accepted sender sets)")
	st.Assume("a simulated node is the process-wide miner chain re-initialised by SetupMinerChain over a fresh chain.Chain; the node's current round is set to round+1 so that TryProposeBlock does nothing, and the block collection goroutine started by StartVerification is cancelled with CancelVerification after the node is done")
	st.Assume("reference for 'verified share': BLS signatures are unique, so a stored share is genuine exactly when it decodes to the signature the claimed sender's own DKG key gives for the message GetBlsMessageForRound returns on that node; reference for the seed: the group signature made with the sum of all constant coefficients (the key no party holds), hashed and cut the way computeRoundRandomSeed does")
	st.Assume("liveness is only demanded where the statement implies it: right after a valid, matching, new share was processed and the share set holds t shares the seed must exist; a share set filled to t from the cache while the triggering share itself was invalid (no seed until a restart) is counted as an observation, not a violation")
	rapid.Check(t, func(t *rapid.T) {
		n := rapid.SampledFrom([]int{1, 2, 3, 3, 4, 4, 5, 5, 6, 7}).Draw(t, "n")
		th := rapid.IntRange(1, n).Draw(t, "t")
		idx := rapid.Permutation(c33seq(24)).Draw(t, "minerKeys")[:n]
		nodes := make([]*node.Node, n)
		for i := range nodes {
			s := vkeys.BLS(vkit.Seed(), "miner", idx[i])
			nd := node.Provider()
			nd.Type = node.NodeTypeMiner
			nd.PublicKey = s.GetPublicKey()
			if err := nd.SetPublicKey(nd.PublicKey); err != nil {
				t.Fatalf("VERIF-HARNESS-ERROR %v", err)
			}
			nd.Status = node.NodeStatusActive
			nodes[i] = nd
		}
		// a registered node that is not one of the round's miners (a sharder, a miner of another magic block)
		outsider := node.Provider()
		outsider.Type = node.NodeTypeMiner
		outsider.PublicKey = vkeys.BLS(vkit.Seed(), "outsider", rapid.IntRange(0, 3).Draw(t, "outsiderKey")).GetPublicKey()
		if err := outsider.SetPublicKey(outsider.PublicKey); err != nil {
			t.Fatalf("VERIF-HARNESS-ERROR %v", err)
		}
		node.RegisterNode(outsider)
		g, err := c33makeDKG(th, n, nodes, rapid.Uint64Range(0, 1<<20).Draw(t, "dkgSalt"))
		if err != nil {
			t.Fatalf("VERIF-HARNESS-ERROR key generation: %v", err)
		}
		rn := rapid.SampledFrom([]int64{1, 2, 3, 12, 100, 1234, 5_000_000}).Draw(t, "round")
		if rapid.IntRange(0, 3).Draw(t, "otherRound") == 0 {
			rn = rapid.Int64Range(2, 1<<40).Draw(t, "roundX")
		}
		tc := rapid.IntRange(0, 3).Draw(t, "timeoutCount")
		var prevSeed int64
		if rn > 1 || rapid.Bool().Draw(t, "round1PrevSeed") {
			for prevSeed == 0 {
				prevSeed = rapid.Int64().Draw(t, "prevSeed")
			}
		}
		what := fmt.Sprintf("t=%d n=%d round=%d timeout=%d prevSeed=%d miners=%v", th, n, rn, tc, prevSeed, idx)

		// honest shares through the real GetBlsShare, one node per sender
		valid := make([]string, n)
		var msg string
		for p := 0; p < n; p++ {
			sh, m, err := c33honest(g, p, rn, tc, prevSeed)
			if err != nil {
				t.Fatalf("%s", vkit.Violation("C33", "honest-share-error", "party %d cannot produce its share: %v :: %s", p, err, what))
			}
			if p > 0 && m != msg {
				t.Fatalf("%s", vkit.Violation("C33", "message-differs-between-nodes", "parties 0 and %d sign different messages %q / %q :: %s", p, msg, m, what))
			}
			msg = m
			if ref := g.dkgs[p].Sign(msg).GetHexString(); ref != sh {
				t.Fatalf("%s", vkit.Violation("C33", "honest-share-differs", "party %d's GetBlsShare is not its key's signature over the round message :: %s", p, what))
			}
			valid[p] = sh
		}
		orig := c33situation{tc: tc, msg: msg, valid: valid}
		orig.wantRBO, orig.want = c33seedOf(g.groupSK.Sign(msg))
		situationFor := func(tcNow int, msgNow string) c33situation {
			if msgNow == orig.msg {
				s := orig
				s.tc = tcNow
				return s
			}
			s := c33situation{tc: tcNow, msg: msgNow, valid: make([]string, n)}
			for p := range s.valid {
				s.valid[p] = g.dkgs[p].Sign(msgNow).GetHexString() // what GetBlsShare returns (checked above for the first message)
			}
			s.wantRBO, s.want = c33seedOf(g.groupSK.Sign(msgNow))
			return s
		}
		isGenuine := func(cur *c33situation, party int, share string) bool {
			var s bls.Sign
			if err := s.SetHexString(share); err != nil {
				return false
			}
			return s.IsEqual(g.dkgs[party].Sign(cur.msg))
		}
		// shares over other messages (made by the same real path on a node in another situation)
		other := func(kind string, p int) (string, string) {
			r2, tc2, ps2 := rn, tc, prevSeed
			switch kind {
			case "other-round":
				r2 = rn + int64(rapid.SampledFrom([]int{1, 9, 10, 100}).Draw(t, "roundDelta"))
			case "other-timeout":
				tc2 = tc + rapid.IntRange(1, 30).Draw(t, "timeoutDelta")
			case "other-prev-seed":
				for ps2 == prevSeed || ps2 == 0 {
					ps2 = rapid.Int64().Draw(t, "otherPrevSeed")
				}
			}
			if ps2 == 0 && r2 > 1 {
				ps2 = 0x5eed // only round 0 may have no seed
			}
			sh, m, err := c33honest(g, p, r2, tc2, ps2)
			if err != nil {
				t.Fatalf("VERIF-HARNESS-ERROR %v", err)
			}
			return sh, m // the concatenated message of another (round, timeout) pair can coincide with the round's
		}
		garbagePoint := func() string {
			var sk bls.Key
			d0 := sha256.Sum256([]byte(fmt.Sprintf("c33-garbage-%d", rapid.IntRange(0, 1000).Draw(t, "garbage"))))
			_ = sk.SetLittleEndianMod(d0[:])
			return sk.Sign(msg).GetHexString()
		}
		// resolve gives the share text, the carried timeout count and whether the share is the claimed sender's genuine share now
		var fdkg *bls.DKG // the receiving node's own key material when it is faulty
		resolve := func(d *c33delivery, cur *c33situation) (share string, label int, genuine bool) {
			label = cur.tc
			switch d.kind {
			case "own-share-of-faulty-key":
				share = fdkg.Sign(cur.msg).GetHexString()
			case "valid", "repeat-valid":
				share = cur.valid[d.party]
			case "stale-valid":
				share = orig.valid[d.party]
			case "upper-case":
				share = strings.ToUpper(cur.valid[d.party])
			case "other-party", "outsider-member-share":
				share = cur.valid[d.signer]
			case "label-lower":
				share, label = cur.valid[d.party], cur.tc-d.delta
			case "label-higher":
				share, label = cur.valid[d.party], cur.tc+d.delta
			default:
				share = d.fixed
			}
			if d.outsider {
				return share, label, false
			}
			if d.fixedMsg != "" {
				return share, label, d.fixedMsg == cur.msg
			}
			return share, label, isGenuine(cur, d.party, share)
		}

		nNodes := rapid.IntRange(2, 4).Draw(t, "nodes")
		type outcome struct {
			situation string
			seed      int64
			senders   string
		}
		var outcomes []outcome
		classes := map[string]bool{}
		for k := 0; k < nNodes; k++ {
			self := rapid.IntRange(0, n-1).Draw(t, "self")
			// deliveries
			vChoices := []int{0, th - 1, th, th, th, th + 1, n, n, rapid.IntRange(0, n).Draw(t, "validCountX")}
			v := rapid.SampledFrom(vChoices).Draw(t, "validCount")
			if v < 0 {
				v = 0
			}
			if v > n {
				v = n
			}
			perm := rapid.Permutation(c33seq(n)).Draw(t, "senders")
			var ds []c33delivery
			for _, p := range perm[:v] {
				ds = append(ds, c33delivery{party: p, kind: "valid"})
			}
			extra := rapid.IntRange(0, n+2).Draw(t, "otherDeliveries")
			for e := 0; e < extra; e++ {
				p := rapid.IntRange(0, n-1).Draw(t, "sender")
				kind := rapid.SampledFrom([]string{"other-round", "other-timeout", "other-prev-seed", "other-party", "garbage-point", "garbage-hex", "garbage-text", "empty",
					"upper-case", "repeat-valid", "stale-valid", "label-lower", "label-higher", "zero-signature", "outsider-zero-signature", "outsider-member-share",
					"outsider-garbage-point"}).Draw(t, "kind")
				d := c33delivery{party: p, kind: kind}
				switch kind {
				case "other-round", "other-timeout", "other-prev-seed":
					d.fixed, d.fixedMsg = other(kind, p)
				case "other-party":
					d.signer = rapid.IntRange(0, n-1).Draw(t, "realSigner") // genuine only if signer == party, or t == 1 (all parties hold the same key)
				case "garbage-point":
					d.fixed = garbagePoint()
				case "zero-signature", "outsider-zero-signature":
					var zero bls.Sign
					d.fixed, d.outsider = zero.GetHexString(), kind == "outsider-zero-signature"
				case "outsider-member-share":
					d.signer, d.outsider = p, true
				case "outsider-garbage-point":
					d.fixed, d.outsider = garbagePoint(), true
				case "garbage-hex":
					d.fixed = encryption.Hash(fmt.Sprint(rapid.IntRange(0, 1000).Draw(t, "garbage")))
				case "garbage-text":
					d.fixed = rapid.StringN(0, 20, 40).Draw(t, "text")
				case "label-lower", "label-higher":
					d.delta = 1 + rapid.IntRange(0, 1).Draw(t, "labelDelta")
				}
				ds = append(ds, d)
			}
			// a node whose own key material misses a dealt share: the share it makes for itself is not its signature
			// under the magic block's keys and must not count on this node either
			fdkg = nil
			if n >= 2 && rapid.IntRange(0, 3).Draw(t, "faultySelf") == 0 {
				drop := (self + 1 + rapid.IntRange(0, n-2).Draw(t, "missingDealer")) % n
				var err error
				if fdkg, err = g.faultyDKG(self, drop); err != nil {
					t.Fatalf("VERIF-HARNESS-ERROR faulty key material: %v", err)
				}
				for c, k2 := 0, rapid.IntRange(1, 2).Draw(t, "ownShareDeliveries"); c < k2; c++ {
					ds = append(ds, c33delivery{party: self, kind: "own-share-of-faulty-key"})
				}
				classes["node/own_key_material_misses_a_dealt_share"] = true
			}
			order := rapid.Permutation(c33seq(len(ds))).Draw(t, "order")
			prevLateAfter := -1 // the previous round's seed is known from the start
			if prevSeed != 0 && len(ds) > 0 && rapid.IntRange(0, 2).Draw(t, "prevSeedLate") == 0 {
				prevLateAfter = rapid.IntRange(1, len(ds)).Draw(t, "prevSeedAfter")
			}
			restartAt := -1 // the node times out and redoes the VRF exchange before this delivery
			if len(ds) > 0 && rapid.IntRange(0, 3).Draw(t, "restart") == 0 {
				restartAt = rapid.IntRange(1, len(ds)).Draw(t, "restartBefore")
			}

			mc, pr, mr := c33node(g, self, rn, tc, prevSeed, prevLateAfter < 0, fdkg)
			prevKnown := prevLateAfter < 0
			cur := orig
			ctx := context.Background()
			directValid := map[int]bool{}
			stuck := false
			var hist []string
			check := func(step string, trigger *c33delivery, genuine bool, label int, inSetBefore bool, sizeBefore int) {
				shares := mr.GetVRFShares()
				if len(shares) > th {
					t.Fatalf("%s", vkit.Violation("C33", "more-than-t-shares", "node %d holds %d shares, t=%d after %s :: %s :: %v", k, len(shares), th, step, what, hist))
				}
				for key, s := range shares {
					p := -1
					for i, nd := range nodes {
						if nd.GetKey() == key {
							p = i
						}
					}
					if p < 0 || s.GetParty() == nil || s.GetParty().GetKey() != key {
						t.Fatalf("%s", vkit.Violation("C33", "share-under-foreign-key", "node %d stores a share under key %s that is not one of the round's miners / not its sender's (after %s) :: %s :: %v", k, key, step, what, hist))
					}
					if !isGenuine(&cur, p, s.Share) {
						t.Fatalf("%s", vkit.Violation("C33", "unverified-share-counted", "node %d counts a share of party %d that is not that party's signature over the round message (after %s) :: %s :: %v", k, p, step, what, hist))
					}
				}
				if mr.HasRandomSeed() {
					if len(shares) < th {
						t.Fatalf("%s", vkit.Violation("C33", "seed-below-threshold", "node %d has a seed with %d verified shares, t=%d (after %s) :: %s :: %v", k, len(shares), th, step, what, hist))
					}
					if mr.GetRandomSeed() != cur.want || mr.GetVRFOutput() != cur.wantRBO {
						t.Fatalf("%s", vkit.Violation("C33", "seed-differs", "node %d derived seed %d (vrf output %s) from senders %v, the group signature gives %d (%s) :: %s :: %v",
							k, mr.GetRandomSeed(), mr.GetVRFOutput(), c33senders(shares, nodes), cur.want, cur.wantRBO, what, hist))
					}
				} else if len(shares) == th && trigger != nil {
					processed := genuine && label == cur.tc && prevKnown && !inSetBefore && sizeBefore < th
					if processed {
						t.Fatalf("%s", vkit.Violation("C33", "threshold-reached-no-seed", "node %d processed a valid share of party %d, holds %d = t verified shares and has no seed :: %s :: %v", k, trigger.party, len(shares), what, hist))
					}
					if !stuck {
						stuck = true
						classes["observed/share_set_filled_from_cache_by_an_invalid_trigger_no_seed"] = true
					}
				}
			}
			for step, oi := range order {
				d := ds[oi]
				if step == prevLateAfter {
					pr.Round.SetRandomSeed(prevSeed, n)
					prevKnown = true
					hist = append(hist, "prev-seed-known")
				}
				if step == restartAt {
					// what restartRound does when it redoes the VRF exchange
					if err := mr.Restart(); err != nil {
						hist = append(hist, "restart-refused")
						classes["node/restart_refused"] = true
					} else {
						mr.IncrementTimeoutCount(pr.GetRandomSeed(), mc.GetMiners(rn))
						nowMsg := cur.msg
						if prevKnown {
							var err error
							if nowMsg, err = mc.GetBlsMessageForRound(mr.Round); err != nil {
								t.Fatalf("VERIF-HARNESS-ERROR %v", err)
							}
						}
						cur = situationFor(mr.GetTimeoutCount(), nowMsg)
						directValid, stuck = map[int]bool{}, false
						hist = append(hist, fmt.Sprintf("restart(timeout=%d)", cur.tc))
						classes["node/restarted"] = true
						if cur.msg != orig.msg {
							classes["node/restarted_with_new_message"] = true
						}
						check("restart", nil, false, 0, false, 0)
						if len(mr.GetVRFShares()) != 0 || mr.HasRandomSeed() {
							t.Fatalf("%s", vkit.Violation("C33", "restart-keeps-shares", "node %d restarted the round and still holds %d shares / seed %d :: %s :: %v", k, len(mr.GetVRFShares()), mr.GetRandomSeed(), what, hist))
						}
					}
				}
				share, label, genuine := resolve(&d, &cur)
				sender := nodes[d.party]
				if d.outsider {
					sender = outsider
				}
				vrfs := &round.VRFShare{Round: rn, Share: share, RoundTimeoutCount: label}
				vrfs.SetParty(sender)
				_, inSet := mr.GetVRFShares()[sender.GetKey()]
				sizeBefore := len(mr.GetVRFShares())
				done := make(chan bool, 1)
				go func() { done <- mc.AddVRFShare(ctx, mr, vrfs) }()
				var added bool
				select {
				case added = <-done:
				case <-time.After(60 * time.Second):
					t.Fatalf("VERIF-HANG AddVRFShare did not return within 60 s :: %s :: %v", what, hist)
				}
				hist = append(hist, fmt.Sprintf("%d:%s(genuine=%v,label=%d)->%v", d.party, d.kind, genuine, label, added))
				if genuine && label == cur.tc && prevKnown {
					directValid[d.party] = true
				}
				classes["delivery/"+d.kind] = true
				if !genuine && added {
					classes["observed/invalid_share_reported_added"] = true
				}
				check(fmt.Sprintf("delivery %d", step), &d, genuine, label, inSet, sizeBefore)
			}
			check("all deliveries", nil, false, 0, false, 0)
			if len(directValid) >= th && !stuck && !mr.HasRandomSeed() {
				t.Fatalf("%s", vkit.Violation("C33", "enough-valid-shares-no-seed", "node %d was given valid shares of %d distinct parties (t=%d) and has no seed :: %s :: %v", k, len(directValid), th, what, hist))
			}
			switch {
			case mr.HasRandomSeed():
				outcomes = append(outcomes, outcome{cur.msg, mr.GetRandomSeed(), fmt.Sprint(c33senders(mr.GetVRFShares(), nodes))})
				classes["node/seed"] = true
			case stuck:
				classes["node/stuck_at_threshold"] = true
			default:
				classes["node/no_seed_below_threshold"] = true
			}
			mr.CancelVerification()
			pr.CancelVerification()
			switch {
			case v < th:
				classes["valid_count/below_t"] = true
			case v == th:
				classes["valid_count/equal_t"] = true
			default:
				classes["valid_count/above_t"] = true
			}
			if prevLateAfter >= 0 {
				classes["node/prev_seed_late"] = true
			}
		}
		sets := map[string]bool{}
		for i, o := range outcomes {
			if o.situation != orig.msg {
				continue // the node restarted into another timeout count: another message, another seed
			}
			sets[o.senders] = true
			for _, o2 := range outcomes[:i] {
				if o2.situation == o.situation && o2.seed != o.seed {
					t.Fatalf("%s", vkit.Violation("C33", "nodes-disagree", "two nodes derived seeds %d and %d for the same round, timeout count and previous seed :: %s", o2.seed, o.seed, what))
				}
			}
		}
		st.Case()
		st.Class(fmt.Sprintf("dkg/t%d_n%d", th, n))
		for c := range classes {
			st.Class(c)
		}
		nt := len(sets) >= 2
		if nt {
			keys := make([]string, 0, len(sets))
			for s := range sets {
				keys = append(keys, s)
			}
			sort.Strings(keys)
			st.NonTrivial(what, fmt.Sprint(keys))
		}
		if st.WantSample(nt) {
			st.Sample(nt, map[string]interface{}{"case": what, "nodes_with_seed": len(outcomes), "distinct_sender_sets": len(sets), "seed": orig.want})
		}
	})
}

func c33senders(shares map[string]*round.VRFShare, nodes []*node.Node) []int {
	var out []int
	for i, nd := range nodes {
		if _, ok := shares[nd.GetKey()]; ok {
			out = append(out, i)
		}
	}
	return out
}

func c33seq(n int) []int {
	s := make([]int, n)
	for i := range s {
		s[i] = i
	}
	return s
}
