package miner

import (
	"context"
	"fmt"
	"runtime"
	"sync"
	"testing"
	"time"

	"0chain.net/chaincore/block"
	"0chain.net/chaincore/chain"
	"0chain.net/chaincore/client"
	"0chain.net/chaincore/transaction"
	"0chain.net/core/common"
	"0chain.net/core/config"
	"0chain.net/core/datastore"
	"0chain.net/core/encryption"
	"pgregory.net/rapid"
	"verifharness/checks/c44kit"
	"verifharness/vkeys"
	"verifharness/vkit"
)

// C44 part (c): miner Chain.ValidateTransactions validates a block's
// transactions in parallel batches that share the cancel / round-mismatch flags.
// Generated blocks have >= 2 batches; a drawn subset of transactions is made
// invalid in a drawn way so that one batch raises the flags while the others
// read them; the current round may move past the block's round while the
// validation runs; 1..3 blocks are validated concurrently as the block verify
// workers do. Oracle: race detector silent; and, as a cross-check of the set-up,
// the call fails exactly when the block holds an invalid transaction or the
// round moved on.

var (
	c44vOnce sync.Once
	c44vMC   *Chain
)

func c44vSetup() *Chain {
	c44vOnce.Do(func() {
		config.SetServerChainID("")
		transaction.SetTxnTimeout(600)
		if datastore.GetEntityMetadata("client") == nil {
			md := datastore.MetadataProvider()
			md.Name = "client"
			md.Provider = client.Provider
			datastore.RegisterEntityMetadata("client", md)
		}
		c := chain.Provider().(*chain.Chain)
		c.ChainConfig = chain.NewConfigImpl(&chain.ConfigData{ValidationBatchSize: 2, ClientSignatureScheme: encryption.SignatureSchemeBls0chain})
		SetupMinerChain(c)
		c44vMC = GetMinerChain()
	})
	return c44vMC
}

type c44vTxnSpec struct {
	client int
	nonce  int64
	defect string // "", "no-output-hash", "bad-hash", "stale", "bad-signature", "bad-output-hash"
}

func c44vTxn(sp c44vTxnSpec, now common.Timestamp, salt int) *transaction.Transaction {
	s := vkeys.BLS(vkit.Seed(), "c44client", sp.client)
	t := &transaction.Transaction{}
	t.ClientID = vkeys.ID(s.GetPublicKey())
	t.PublicKey = s.GetPublicKey()
	t.ToClientID = vkeys.ID(vkeys.BLS(vkit.Seed(), "c44client", sp.client+100).GetPublicKey())
	t.CreationDate = now
	t.Nonce = sp.nonce
	t.Value = 1
	t.TransactionData = fmt.Sprintf("c44-%d-%d", salt, sp.nonce)
	t.TransactionOutput = "ok"
	if sp.defect == "stale" {
		t.CreationDate = now - 100000
	}
	t.Hash = t.ComputeHash()
	sig, err := s.Sign(t.Hash)
	if err != nil {
		panic(err)
	}
	t.Signature = sig
	t.OutputHash = t.ComputeOutputHash()
	switch sp.defect {
	case "no-output-hash":
		t.OutputHash = ""
	case "bad-hash":
		t.Value = 2 // hash no longer matches the content
	case "bad-signature":
		other := vkeys.BLS(vkit.Seed(), "c44client", sp.client+50)
		t.Signature, _ = other.Sign(t.Hash)
	case "bad-output-hash":
		t.TransactionOutput = "changed"
	}
	return t
}

func TestC44_ValidateTransactions(t *testing.T) {
	if !c44kit.RaceEnabled {
		t.Fatalf("VERIF-HARNESS-ERROR C44 part validate was built without -race: the race detector is the oracle")
	}
	const knownKey = "validate-transactions-plain-flags"
	st := vkit.For("C44").SetRule(c44kit.Rule)
	mc := c44vSetup()
	var salt int
	var roundBase int64 // the chain's current round only moves forward: every case works 100 rounds further on
	rapid.Check(t, func(t *rapid.T) {
		roundBase += 100
		batch := rapid.IntRange(1, 4).Draw(t, "batchSize")
		mc.ChainConfig = chain.NewConfigImpl(&chain.ConfigData{ValidationBatchSize: batch, ClientSignatureScheme: encryption.SignatureSchemeBls0chain})
		nBlocks := rapid.IntRange(1, 3).Draw(t, "concurrentBlocks")
		now := common.Now()
		type blk struct {
			b        *block.Block
			invalid  int
			batches  int
			defects  []string
			moveOn   bool
			expected bool // expected to fail
		}
		var blocks []*blk
		var desc []string
		anyMove := false
		for i := 0; i < nBlocks; i++ {
			n := rapid.IntRange(batch+1, 4*batch+3).Draw(t, "txns") // at least two batches
			x := &blk{b: &block.Block{}}
			x.b.Round = roundBase + int64(10+i)
			x.b.Hash = fmt.Sprintf("%064x", 0xc44000+salt*8+i)
			x.b.CreationDate = now
			x.batches = (n + batch - 1) / batch
			nBad := rapid.SampledFrom([]int{0, 1, 1, 1, 2, 3}).Draw(t, "invalidTxns")
			if st.IsKnown(knownKey) {
				// open known finding: any raised flag is an unsynchronised write next to the other batches' reads;
				// excluded by construction, only all-valid blocks remain
				nBad = 0
			}
			bad := map[int]string{}
			for k := 0; k < nBad; k++ {
				bad[rapid.IntRange(0, n-1).Draw(t, "badPos")] = rapid.SampledFrom([]string{"no-output-hash", "no-output-hash", "bad-hash", "stale", "bad-signature", "bad-output-hash"}).Draw(t, "defect")
			}
			for p := 0; p < n; p++ {
				salt++
				sp := c44vTxnSpec{client: rapid.IntRange(0, 5).Draw(t, "client"), nonce: int64(p + 1), defect: bad[p]}
				x.b.Txns = append(x.b.Txns, c44vTxn(sp, now, salt))
				if sp.defect != "" {
					x.invalid++
					x.defects = append(x.defects, fmt.Sprintf("%d:%s(batch %d)", p, sp.defect, p/batch))
				}
			}
			x.moveOn = !st.IsKnown(knownKey) && rapid.IntRange(0, 5).Draw(t, "roundMovesOn") == 0
			anyMove = anyMove || x.moveOn
			blocks = append(blocks, x)
			desc = append(desc, fmt.Sprintf("block%d{round %d, %d txns in %d batches of %d, invalid %v, roundMovesOn=%v}", i, x.b.Round, n, x.batches, batch, x.defects, x.moveOn))
		}
		fmt.Printf("C44-PROGRAM object=validate %v\n", desc)

		// the chain's current round: below every block's round at first
		mc.Chain.SetCurrentRound(roundBase)
		base := runtime.NumGoroutine()
		var wg sync.WaitGroup
		errs := make([]error, len(blocks))
		for i, x := range blocks {
			wg.Add(1)
			go func(i int, x *blk) {
				defer wg.Done()
				errs[i] = mc.ValidateTransactions(context.Background(), x.b)
			}(i, x)
			if x.moveOn {
				wg.Add(1)
				go func(x *blk) {
					defer wg.Done()
					mc.Chain.SetCurrentRound(x.b.Round + 1) // the protocol moved to the next round meanwhile
				}(x)
			}
		}
		done := make(chan struct{})
		go func() { wg.Wait(); close(done) }()
		select {
		case <-done:
		case <-time.After(60 * time.Second):
			buf := make([]byte, 1<<20)
			buf = buf[:runtime.Stack(buf, true)]
			t.Fatalf("VERIF-HANG %s", vkit.Violation("C44", "hang/validate", "ValidateTransactions did not return: %v\n%s", desc, buf))
		}
		// batch goroutines of a failed validation keep running after the call returned: let them finish so that
		// their accesses belong to this case
		for dl := time.Now().Add(5 * time.Second); runtime.NumGoroutine() > base && time.Now().Before(dl); {
			time.Sleep(200 * time.Microsecond)
		}
		for i, x := range blocks {
			failed := errs[i] != nil
			mustFail := x.invalid > 0
			mustPass := x.invalid == 0 && !anyMove
			if (mustFail && !failed) || (mustPass && failed) {
				t.Fatalf("%s", vkit.Violation("C44", "validate-result", "ValidateTransactions returned %v for %s", errs[i], desc[i]))
			}
		}
		st.Case()
		nt := false
		for _, x := range blocks {
			if x.batches >= 2 && (x.invalid > 0 || x.moveOn) {
				nt = true
			}
			if st.IsKnown(knownKey) && x.batches >= 2 && len(blocks) >= 2 {
				// while the flags finding is open no flag may be raised; what is left to explore is the batch
				// goroutines of several all-valid blocks running side by side
				nt = true
				st.Class("validate/known_open_only_valid_blocks")
			}
			if x.invalid > 0 {
				st.Class("validate/flag_raised_by_invalid_txn")
			}
			if x.moveOn {
				st.Class("validate/round_moves_on_during_validation")
			}
			if x.invalid > 1 {
				st.Class("validate/several_batches_raise_the_flag")
			}
		}
		if len(blocks) > 1 {
			st.Class("validate/concurrent_blocks")
		}
		st.Class("programs/validate")
		if nt {
			st.NonTrivial("validate", batch, fmt.Sprint(desc))
		}
		if st.WantSample(nt) {
			st.Sample(nt, map[string]interface{}{"object": "validate", "blocks": desc})
		}
	})
}
