package miner

import (
	"context"
	"encoding/json"
	"fmt"
	"testing"
	"time"

	"0chain.net/chaincore/block"
	"0chain.net/chaincore/chain"
	"0chain.net/chaincore/transaction"
	"0chain.net/core/common"
	"0chain.net/core/encryption"
	"pgregory.net/rapid"
	"verifharness/vkeys"
	"verifharness/vkit"
)

// C22, clause "accepted ... once per round": the fee payment is a built-in transaction of the generator and block
// validation refuses a block that carries one of the built-in functions (payFees, generate_challenge,
// blobber_block_rewards, commit_settings_changes) more than once. The contract itself keeps no record of the rounds it
// was paid for, so this rule of ValidateTransactions is what makes the payment happen once per block.
//
// Generated: blocks of 2..14 correctly signed transactions, validation batch size 1..4 (so that copies of a function
// fall into the same or into different batches), built-in calls at drawn positions: none, each function once, one
// function twice or three times, two functions twice. Oracle: ValidateTransactions fails iff some built-in function
// occurs more than once.
func TestC22_OneBuiltinPerBlock(t *testing.T) {
	st := vkit.For("C22")
	mc := c44vSetup()
	fns := make([]string, 0, len(gBuildInTxnsMap))
	for _, f := range []string{"payFees", "generate_challenge", "blobber_block_rewards", "commit_settings_changes"} {
		if _, ok := gBuildInTxnsMap[f]; ok {
			fns = append(fns, f)
		}
	}
	if len(fns) == 0 {
		t.Fatalf("VERIF-HARNESS-ERROR no built-in function names found")
	}
	var salt int
	var roundBase int64 = 1 << 30
	rapid.Check(t, func(t *rapid.T) {
		roundBase += 100
		batch := rapid.IntRange(1, 4).Draw(t, "batchSize")
		mc.ChainConfig = chain.NewConfigImpl(&chain.ConfigData{ValidationBatchSize: batch, ClientSignatureScheme: encryption.SignatureSchemeBls0chain})
		n := rapid.IntRange(2, 14).Draw(t, "txns")
		now := common.Now()
		b := &block.Block{}
		b.Round = roundBase + 10
		b.Hash = fmt.Sprintf("%064x", 0xc22000+salt)
		b.CreationDate = now
		// which positions carry which built-in function
		at := map[int]string{}
		k := rapid.SampledFrom([]int{0, 1, 2, 2, 3, 4}).Draw(t, "builtins")
		for i := 0; i < k; i++ {
			at[rapid.IntRange(0, n-1).Draw(t, "pos")] = fns[rapid.IntRange(0, len(fns)-1).Draw(t, "fn")]
		}
		count := map[string]int{}
		batchesOf := map[string]map[int]bool{}
		var desc []string
		for p := 0; p < n; p++ {
			salt++
			txn := c44vTxn(c44vTxnSpec{client: rapid.IntRange(0, 5).Draw(t, "client"), nonce: int64(p + 1)}, now, salt)
			if fn, ok := at[p]; ok {
				txn.TransactionType = transaction.TxnTypeSmartContract
				data, _ := json.Marshal(map[string]interface{}{"name": fn, "input": map[string]int64{"round": b.Round}})
				txn.TransactionData = string(data)
				if err := txn.ComputeProperties(); err != nil || txn.FunctionName != fn {
					t.Fatalf("VERIF-HARNESS-ERROR built-in call not parsed: %v", err)
				}
				txn.Value = 0
				txn.Hash = txn.ComputeHash()
				s := c22Signer(txn.ClientID)
				txn.Signature, _ = s.Sign(txn.Hash)
				txn.OutputHash = txn.ComputeOutputHash()
				count[fn]++
				if batchesOf[fn] == nil {
					batchesOf[fn] = map[int]bool{}
				}
				batchesOf[fn][p/batch] = true
				desc = append(desc, fmt.Sprintf("%d:%s(batch %d)", p, fn, p/batch))
			}
			b.Txns = append(b.Txns, txn)
		}
		dup, acrossBatches := false, false
		for fn, c := range count {
			if c > 1 {
				dup = true
				if len(batchesOf[fn]) > 1 {
					acrossBatches = true
				}
			}
		}
		mc.Chain.SetCurrentRound(roundBase)
		done := make(chan error, 1)
		go func() { done <- mc.ValidateTransactions(context.Background(), b) }()
		var err error
		select {
		case err = <-done:
		case <-time.After(60 * time.Second):
			t.Fatalf("VERIF-HANG %s", vkit.Violation("C22", "hang/validate", "ValidateTransactions did not return for %v", desc))
		}
		if dup && err == nil {
			t.Fatalf("%s", vkit.Violation("C22", "block-with-repeated-built-in-accepted", "ValidateTransactions accepted a block of %d transactions (batch size %d) that carries a built-in function more than once: %v", n, batch, desc))
		}
		if !dup && err != nil {
			t.Fatalf("%s", vkit.Violation("C22", "block-with-single-built-ins-refused", "ValidateTransactions refused a block of %d valid transactions (batch size %d) with built-ins %v: %v", n, batch, desc, err))
		}
		st.Case()
		switch {
		case acrossBatches:
			st.Class("builtin/repeated-across-batches")
			st.NonTrivial("c22-builtin", n, batch, fmt.Sprint(desc))
		case dup:
			st.Class("builtin/repeated-within-one-batch")
		case len(count) > 0:
			st.Class("builtin/each-once")
		default:
			st.Class("builtin/none")
		}
	})
}

func c22Signer(clientID string) encryption.SignatureScheme {
	for i := 0; i < 6; i++ {
		s := vkeys.BLS(vkit.Seed(), "c44client", i)
		if vkeys.ID(s.GetPublicKey()) == clientID {
			return s
		}
	}
	panic("unknown client")
}
