package miner

import (
	"context"
	"fmt"
	"sync"
	"testing"

	"0chain.net/chaincore/block"
	"0chain.net/chaincore/chain"
	"0chain.net/chaincore/round"
	"0chain.net/core/encryption"
	"verifharness/checks/c44kit"
)

// C44 part (e): the miner's round object (miner.Round wraps round.Round with
// the verification channel, the collected verification tickets, the own VRF
// share / ticket and the cancel functions) under generated concurrent programs.
// Operations are the exported methods the miner's message goroutines, block
// verify workers, the block collection goroutine and the round-timeout handler
// call on the round they got from GetMinerRound.

var c44mrOnce sync.Once

func TestC44_MinerRound(t *testing.T) {
	mc := c44vSetup()
	c44mrOnce.Do(func() { round.SetupEntity(nil) })
	mc.ChainConfig = chain.NewConfigImpl(&chain.ConfigData{ValidationBatchSize: 2, MinGenerators: 3, GeneratorsPercent: 0.5, ClientSignatureScheme: encryption.SignatureSchemeBls0chain})
	var mr *Round
	bvt := func(i int) *block.BlockVerificationTicket {
		t := &block.BlockVerificationTicket{Round: 9, BlockID: fmt.Sprintf("%064x", 0xb0+i%3)}
		t.VerifierID = fmt.Sprintf("%064x", 0xa0+i%5)
		t.Signature = fmt.Sprintf("sig-%d-%d", i%3, i%5)
		return t
	}
	proposal := func(g, i int) *block.Block {
		b := &block.Block{}
		b.Round = 9
		b.Hash = fmt.Sprintf("%064x", 0xb0+i%3)
		b.SetRoundRandomSeed(7)
		return b
	}
	fresh := func() { mr = mc.CreateRound(round.NewRound(9)) }
	ops := []c44kit.Op{
		// BlockVerifyWorkers -> AddToRoundVerification
		{Name: "AddBlockToVerify", R: []string{"verifyChannel"}, Weight: 3, Fn: func(g, a int) { mr.AddBlockToVerify(proposal(g, a)) }},
		// CollectBlocksForVerification goroutine
		{Name: "GetBlocksToVerifyChannel", R: []string{"verifyChannel"}, Weight: 2, Fn: func(g, a int) {
			select {
			case <-mr.GetBlocksToVerifyChannel():
			default:
			}
		}},
		{Name: "StartVerificationBlockCollection", W: []string{"cancelf"}, R: []string{"phase"}, Weight: 2, Fn: func(g, a int) {
			_ = mr.StartVerificationBlockCollection(context.Background())
		}},
		// notarization reached (message goroutines, verify workers), moving to the next round
		{Name: "CancelVerification", W: []string{"cancelf", "verifyChannel", "phase"}, Weight: 3, Fn: func(g, a int) { mr.CancelVerification() }},
		// round timeout handler
		{Name: "Restart", W: []string{"cancelf", "verifyChannel", "phase", "tickets", "vrfCache"}, Weight: 2, Fn: func(g, a int) { _ = mr.Restart() }},
		// verification-ticket messages, own ticket
		{Name: "AddVerificationTickets", W: []string{"tickets"}, Weight: 2, Fn: func(g, a int) {
			mr.AddVerificationTickets([]*block.BlockVerificationTicket{bvt(a), bvt(a + 1)})
		}},
		{Name: "GetVerificationTickets", R: []string{"tickets"}, Weight: 2, Fn: func(g, a int) {
			_ = mr.GetVerificationTickets(fmt.Sprintf("%064x", 0xb0+a%3))
			_ = mr.IsTicketCollected(bvt(a))
		}},
		{Name: "VrfShare", W: []string{"vrfShare"}, Fn: func(g, a int) {
			if mr.VrfShare() == nil {
				mr.SetVrfShare(&round.VRFShare{Round: 9})
			}
		}},
		{Name: "OwnVerificationTicket", W: []string{"ownTicket"}, Fn: func(g, a int) {
			if mr.OwnVerificationTicket() == nil {
				mr.SetOwnVerificationTicket(bvt(a))
			}
		}},
		// block generation goroutine / cancellation when a better block is notarized
		{Name: "GenerationCancelf", W: []string{"cancelf"}, Weight: 2, Fn: func(g, a int) {
			if a%2 == 0 {
				_, cancel := context.WithCancel(context.Background())
				mr.SetGenerationCancelf(cancel)
			} else {
				mr.TryCancelBlockGeneration()
			}
		}},
		{Name: "IsVerificationComplete", R: []string{"phase"}, Fn: func(g, a int) {
			_ = mr.IsVerificationComplete()
			_ = mr.IsVRFComplete()
			_ = mr.IsComplete()
		}},
	}
	c44kit.Run(t, c44kit.Object{
		Name:  "minerround",
		Roles: []string{"miner"},
		Ops:   ops,
		Fresh: fresh,
		Known: []c44kit.KnownPair{
			// the verification channel is replaced under cancelGuard (CancelVerification) / roundGuard (Restart)
			// and read with no lock by AddBlockToVerify ("assumes non-concurrent update") and GetBlocksToVerifyChannel
			{Key: "miner-round-verify-channel-unlocked", A: "AddBlockToVerify", B: "CancelVerification"},
			{Key: "miner-round-verify-channel-unlocked", A: "AddBlockToVerify", B: "Restart"},
			{Key: "miner-round-verify-channel-unlocked", A: "GetBlocksToVerifyChannel", B: "CancelVerification"},
			{Key: "miner-round-verify-channel-unlocked", A: "GetBlocksToVerifyChannel", B: "Restart"},
			{Key: "miner-round-verify-channel-unlocked", A: "CancelVerification", B: "Restart"},
			{Key: "miner-round-verify-channel-unlocked", A: "Restart", B: "Restart"},
		},
	})
}
