package client

import (
	"context"
	"encoding/hex"
	"encoding/json"
	"fmt"
	"testing"

	"0chain.net/core/encryption"
	"pgregory.net/rapid"
	"verifharness/vkeys"
	"verifharness/vkit"
)

// C47 (client part): a client id is always the hash of the client's public key.
func TestC47_ClientID(t *testing.T) {
	st := vkit.For("C47")
	rapid.Check(t, func(t *rapid.T) {
		c := Provider().(*Client)
		scheme := rapid.SampledFrom([]string{encryption.SignatureSchemeBls0chain, encryption.SignatureSchemeEd25519}).Draw(t, "scheme")
		c.SetSignatureSchemeType(scheme)
		key := func(i int) encryption.SignatureScheme {
			if scheme == encryption.SignatureSchemeBls0chain {
				return vkeys.BLS(vkit.Seed(), "client", i)
			}
			return vkeys.ED(vkit.Seed(), "client", i)
		}
		var hist []string
		cur := -1
		rekeyed := false
		check := func() {
			if cur < 0 {
				return
			}
			pub := key(cur).GetPublicKey()
			b, _ := hex.DecodeString(pub)
			want := encryption.Hash(b)
			if c.PublicKey != pub {
				t.Fatalf("%s", vkit.Violation("C47", "client-key-not-set", "client carries key %s, last key set was %s; history %v", c.PublicKey, pub, hist))
			}
			if c.ID != want {
				t.Fatalf("%s", vkit.Violation("C47", "client-id-not-hash-of-key", "client id %s is not the hash %s of its public key; history %v", c.ID, want, hist))
			}
			if err := c.Validate(context.Background()); err != nil {
				t.Fatalf("%s", vkit.Violation("C47", "client-validate", "Validate fails on a client whose key was just set: %v; history %v", err, hist))
			}
			h := encryption.Hash("msg" + fmt.Sprint(len(hist)))
			sig, _ := key(cur).Sign(h)
			if ok, err := c.Verify(sig, h); !ok || err != nil {
				t.Fatalf("%s", vkit.Violation("C47", "client-verify", "client does not verify a signature of its own key (ok=%v err=%v); history %v", ok, err, hist))
			}
			osig, _ := key(cur + 1).Sign(h)
			if ok, _ := c.Verify(osig, h); ok {
				t.Fatalf("%s", vkit.Violation("C47", "client-verifies-foreign-key", "client with id %s verifies a signature made with another key; history %v", c.ID, hist))
			}
		}
		t.Repeat(map[string]func(*rapid.T){
			"setPublicKey": func(t *rapid.T) {
				i := rapid.IntRange(0, 5).Draw(t, "key")
				if err := c.SetPublicKey(key(i).GetPublicKey()); err != nil {
					t.Fatalf("%s", vkit.Violation("C47", "client-set-key", "SetPublicKey failed: %v", err))
				}
				hist = append(hist, fmt.Sprintf("SetPublicKey(k%d)", i))
				if cur >= 0 && cur != i {
					rekeyed = true
				}
				cur = i
				check()
			},
			"presetIDThenKey": func(t *rapid.T) {
				// the transaction path: co.ID = txn.ClientID; co.SetPublicKey(txn.PublicKey)
				i := rapid.IntRange(0, 5).Draw(t, "key")
				j := rapid.IntRange(0, 5).Draw(t, "idOf")
				b, _ := hex.DecodeString(key(j).GetPublicKey())
				c.ID = encryption.Hash(b)
				if err := c.SetPublicKey(key(i).GetPublicKey()); err != nil {
					t.Fatalf("%s", vkit.Violation("C47", "client-set-key", "SetPublicKey failed: %v", err))
				}
				hist = append(hist, fmt.Sprintf("ID=id(k%d);SetPublicKey(k%d)", j, i))
				if i != j {
					rekeyed = true
				}
				cur = i
				check()
			},
			"setScheme": func(t *rapid.T) {
				i := rapid.IntRange(0, 5).Draw(t, "key")
				if err := c.SetSignatureScheme(key(i)); err != nil {
					t.Fatalf("%s", vkit.Violation("C47", "client-set-scheme", "SetSignatureScheme failed: %v", err))
				}
				hist = append(hist, fmt.Sprintf("SetSignatureScheme(k%d)", i))
				if cur >= 0 && cur != i {
					rekeyed = true
				}
				cur = i
				check()
			},
			"decodeAndCompute": func(t *rapid.T) {
				i := rapid.IntRange(0, 5).Draw(t, "key")
				doc := fmt.Sprintf(`{"public_key":%q}`, key(i).GetPublicKey())
				if rapid.Bool().Draw(t, "withForeignID") {
					b, _ := hex.DecodeString(key(i + 1).GetPublicKey())
					doc = fmt.Sprintf(`{"id":%q,"public_key":%q}`, encryption.Hash(b), key(i).GetPublicKey())
					rekeyed = true
				}
				if err := json.Unmarshal([]byte(doc), c); err != nil {
					t.Fatalf("VERIF-HARNESS-ERROR %v", err)
				}
				c.SigScheme = nil
				if err := c.ComputeProperties(); err != nil {
					t.Fatalf("%s", vkit.Violation("C47", "client-compute", "ComputeProperties failed: %v", err))
				}
				hist = append(hist, fmt.Sprintf("decode(k%d)+ComputeProperties", i))
				if cur >= 0 && cur != i {
					rekeyed = true
				}
				cur = i
				check()
			},
			"clone": func(t *rapid.T) {
				if cur < 0 {
					t.Skip("no key yet")
				}
				c = c.Clone()
				hist = append(hist, "Clone")
				check()
			},
		})
		st.Case()
		st.Class("client_id_history")
		if rekeyed {
			st.Class("client_rekeyed_or_preset_id")
			st.NonTrivial("client", scheme, fmt.Sprint(hist))
		}
		if st.WantSample(false) && len(hist) > 0 {
			st.Sample(false, map[string]interface{}{"kind": "client-id", "scheme": scheme, "ops": hist})
		}
	})
}
