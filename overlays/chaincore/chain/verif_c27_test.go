package chain

import (
	"context"
	"encoding/hex"
	"fmt"
	"os"
	"path/filepath"
	"sort"
	"strings"
	"sync"
	"testing"
	"time"

	"0chain.net/chaincore/block"
	"0chain.net/chaincore/node"
	"0chain.net/chaincore/round"
	"0chain.net/core/datastore"
	"0chain.net/core/encryption"
	"github.com/0chain/common/core/statecache"
	"github.com/0chain/common/core/util"
	"pgregory.net/rapid"
	"verifharness/vkit"
)

// C27: after blocks are finalized and old state is pruned below a round, the complete
// state of every retained block at or above that round can still be read - also when
// a transaction deletes and later re-creates identical values within one block.
//
// One node with a real persistent state DB (RocksDB in a temporary directory): generated
// histories of tiny blocks over a small key space are built on top of each other in
// memory, finalized with the chain's own finalizeBlock (SaveChanges, RecordDeadNodes at
// the block round, rebase, block-summary ring, LFB) with a generated lag, and pruned with
// the chain's own pruneClientState.

type c27op struct {
	Del bool
	Key string
	Val string
}

type c27txn struct {
	Ops  []c27op
	Fail bool
}

var c27once sync.Once

type c27bsh struct{}

func (c27bsh) SaveMagicBlock() MagicBlockSaveFunc { return nil }
func (c27bsh) UpdatePendingBlock(ctx context.Context, b *block.Block, txns []datastore.Entity) {
}
func (c27bsh) UpdateFinalizedBlock(ctx context.Context, b *block.Block) error { return nil }

// c27db is the node's persistent state DB; the wrapper only notes the versions pruning is
// asked for and can interrupt a prune through its context (it changes no behaviour).
type c27db struct {
	*util.PNodeDB
	versions  []int64
	interrupt time.Duration // > 0: the next prune runs under a context cancelled after that delay
}

func (d *c27db) PruneBelowVersion(ctx context.Context, v int64) error {
	d.versions = append(d.versions, v)
	if d.interrupt > 0 {
		cctx, cancel := context.WithTimeout(ctx, d.interrupt)
		defer cancel()
		d.interrupt = 0
		return d.PNodeDB.PruneBelowVersion(cctx, v)
	}
	return d.PNodeDB.PruneBelowVersion(ctx, v)
}

// c27blk is a block the node holds plus the reference content of its state.
type c27blk struct {
	b         *block.Block
	model     map[string]string
	finalized bool
	// recreated: a committed transaction of this block deleted a value and wrote the identical value again
	recreated bool
}

func c27apply(m map[string]string, prog []c27txn) (out map[string]string, recreated bool) {
	out = map[string]string{}
	for k, v := range m {
		out[k] = v
	}
	blockStart := m
	for _, tx := range prog {
		loc := map[string]string{}
		for k, v := range out {
			loc[k] = v
		}
		ok, rec := true, false
		gone := map[string]string{}
		for _, op := range tx.Ops {
			if op.Del {
				v, has := loc[op.Key]
				if !has {
					ok = false
					break
				}
				gone[op.Key] = v
				delete(loc, op.Key)
			} else {
				if v, was := gone[op.Key]; was && v == op.Val {
					rec = true
				}
				if v, was := blockStart[op.Key]; was && v == op.Val {
					if _, now := loc[op.Key]; !now {
						rec = true // deleted by an earlier transaction of this block, written again identically
					}
				}
				loc[op.Key] = op.Val
			}
		}
		if ok && !tx.Fail {
			out = loc
			recreated = recreated || rec
		}
	}
	return out, recreated
}

// c27state reads the complete state under a root through a fresh trie handle on db and
// compares it with the model; "" when every node is there and the content is equal.
func c27state(db util.NodeDB, version int64, root util.Key, model map[string]string) string {
	if len(root) == 0 {
		if len(model) == 0 {
			return ""
		}
		return "empty root, model has values"
	}
	mpt := util.NewMerklePatriciaTrie(db, util.Sequence(version), root, statecache.NewEmpty())
	got := map[string]string{}
	missing := ""
	err := mpt.Iterate(context.Background(), func(ctx context.Context, path util.Path, key util.Key, n util.Node) error {
		if n == nil {
			if missing == "" {
				missing = fmt.Sprintf("node %.12x at path %q is missing", key, string(path))
			}
			return nil
		}
		if vn, ok := n.(*util.ValueNode); ok {
			got[string(path)] = string(vn.GetValueBytes())
		}
		return nil
	}, util.NodeTypeValueNode|util.NodeTypeLeafNode|util.NodeTypeFullNode|util.NodeTypeExtensionNode)
	if missing != "" {
		return missing
	}
	if err != nil {
		return "iteration fails: " + err.Error()
	}
	if len(got) != len(model) {
		return fmt.Sprintf("%d values read, model has %d", len(got), len(model))
	}
	for k, v := range model {
		if got[k] != v {
			return fmt.Sprintf("key %s reads %q, model %q", k, got[k], v)
		}
	}
	return ""
}

func TestC27_PruningKeepsRetainedState(t *testing.T) {
	c27once.Do(func() {
		round.SetupEntity(nil)
		if datastore.GetEntityMetadata("block_summary") == nil {
			block.SetupBlockSummaryEntity(nil)
		}
	})
	st := vkit.For("C27").SetRule("one node with a real RocksDB state DB per case: a generated history of 60-400 tiny blocks (1-4 transactions of 1-4 trie writes through chain.CreateTxnMPT + MergeMPTChanges with the miner's cache handling) over 8-16 fixed-length keys and 3 values - insert, update, delete, delete + identical re-insert in the same transaction / a later transaction of the block / a later block, failing transactions, occasional sibling (fork) blocks that are never finalized; blocks are finalized in order by the chain's own finalizeBlock with a generated lag of 0-6 blocks behind the tip, and pruned at generated points by the chain's own pruneClientState (prune window 1-40 rounds; every 4th prune is interrupted through its context after 0-300 us), a third of the cases additionally by PruneBelowVersion at a drawn version <= LFB - window. Oracle after every prune and at the end: for every finalized block at or above the highest version pruned so far, a full iteration of its root through a fresh trie handle on the RocksDB alone finds every node and exactly the values of the reference map recorded when the block was built; blocks not yet finalized are read the same way through their in-memory levels. Non-trivial = a pruned history in which a block at or above the pruned version deleted a value and re-created it identically; distinct by (history fingerprint, version)")
	st.Assume("what a transaction writes is generated; the round / magic-block / block-state-handler environment finalizeBlock needs is a one-miner magic block and a no-op handler")
	rapid.Check(t, func(t *rapid.T) {
		wd, err := os.MkdirTemp(".", "c27-")
		if err != nil {
			t.Fatalf("VERIF-HARNESS-ERROR tempdir: %v", err)
		}
		defer os.RemoveAll(wd)
		abs, _ := filepath.Abs(wd)
		pn, err := util.NewPNodeDB(filepath.Join(abs, "state"), filepath.Join(abs, "log"))
		if err != nil {
			t.Fatalf("VERIF-HARNESS-ERROR open state db: %v", err)
		}
		defer pn.Close()
		db := &c27db{PNodeDB: pn}

		// ------------------------------------------------------------- the node
		c := vChain()
		c.stateDB = db
		c.SetupStateCache()
		window := rapid.SampledFrom([]int{1, 2, 3, 7, 1, 2, 15, 40, 3, 25}).Draw(t, "pruneWindow")
		conf := c.ChainConfig.(*ConfigImpl)
		conf.conf.PruneStateBelowCount = window
		conf.conf.MinGenerators = 1
		conf.conf.GeneratorsPercent = 1
		conf.conf.ThresholdByCount = 66
		mb := vMagicBlock(0, 1)
		miner := vNode(node.NodeTypeMiner, 0)
		if err := mb.Miners.AddNode(miner); err != nil {
			t.Fatalf("VERIF-HARNESS-ERROR %v", err)
		}
		c.InitializeMinerPool(mb)
		c.SetMagicBlock(mb)
		ctx := context.Background()
		// the node's worker that takes the "LFB changed" notifications SetLatestFinalizedBlock sends
		done := make(chan struct{})
		defer close(done)
		go func() {
			for {
				select {
				case <-c.syncLFBStateC:
				case <-done:
					return
				}
			}
		}()

		// ------------------------------------------------------------- keys
		nk := rapid.IntRange(8, 16).Draw(t, "keys")
		klen := rapid.SampledFrom([]int{4, 64}).Draw(t, "keyLen")
		var pool []string
		seen := map[string]bool{}
		for i := 0; len(pool) < nk && i < 8*nk; i++ {
			head := ""
			for j := 0; j < 2; j++ {
				head += string("a05"[rapid.IntRange(0, 2).Draw(t, "nibble")])
			}
			k := head + encryption.Hash(head + fmt.Sprint(rapid.IntRange(0, 3).Draw(t, "tail")))[:klen-2]
			if !seen[k] {
				seen[k] = true
				pool = append(pool, k)
			}
		}
		values := []string{"A", "B", "CC"}

		// ------------------------------------------------------------- genesis
		r0 := rapid.Int64Range(40, 99).Draw(t, "genesisRound")
		g := block.Provider().(*block.Block)
		g.Round = r0
		g.Hash = encryption.Hash(fmt.Sprintf("c27-genesis-%d", r0))
		g.MinerID = miner.GetKey()
		g.CreateState(db, nil)
		gm := map[string]string{}
		for i, k := range pool {
			if i == 0 || rapid.Bool().Draw(t, "inGenesis") {
				gm[k] = rapid.SampledFrom(values).Draw(t, "value")
				if _, err := g.ClientState.Insert(util.Path(k), &util.SecureSerializableValue{Buffer: []byte(gm[k])}); err != nil {
					t.Fatalf("VERIF-HARNESS-ERROR genesis insert: %v", err)
				}
			}
		}
		g.ClientStateHash = g.ClientState.GetRoot()
		g.SetStateStatus(block.StateSuccessful)
		if err := g.ClientState.SaveChanges(ctx, db, false); err != nil {
			t.Fatalf("VERIF-HARNESS-ERROR genesis save: %v", err)
		}
		c.SetLatestFinalizedBlock(g)
		c.rebaseState(g)

		// build executes one generated block on top of prev the way the miner does
		build := func(prev *c27blk, tag string) *c27blk {
			b := block.Provider().(*block.Block)
			b.MinerID = miner.GetKey()
			b.RoundRank = 0
			b.CreationDate = 1700000000
			b.SetPreviousBlock(prev.b)
			var prog []c27txn
			ntx := rapid.IntRange(1, 4).Draw(t, "txns")
			if tag == "main-empty" {
				ntx = 0 // a block that changes no state
			}
			for ti := 0; ti < ntx; ti++ {
				var tx c27txn
				sofar, _ := c27apply(prev.model, prog)
				var present []string
				for k := range sofar {
					if k != pool[0] {
						present = append(present, k)
					}
				}
				sort.Strings(present)
				nops := rapid.IntRange(1, 4).Draw(t, "ops")
				for oi := 0; oi < nops; oi++ {
					kind := rapid.IntRange(0, 9).Draw(t, "opKind")
					switch {
					case kind <= 2 && len(present) > 0:
						tx.Ops = append(tx.Ops, c27op{Del: true, Key: rapid.SampledFrom(present).Draw(t, "delKey")})
					case kind == 3 && len(present) > 0: // delete and re-create identically in one transaction
						k := rapid.SampledFrom(present).Draw(t, "recreate")
						tx.Ops = append(tx.Ops, c27op{Del: true, Key: k}, c27op{Key: k, Val: sofar[k]})
					case kind == 4: // write the value the key had when the block started (re-creation across transactions)
						k := rapid.SampledFrom(pool).Draw(t, "restoreKey")
						v, had := prev.model[k]
						if !had {
							v = rapid.SampledFrom(values).Draw(t, "value")
						}
						tx.Ops = append(tx.Ops, c27op{Key: k, Val: v})
					default:
						tx.Ops = append(tx.Ops, c27op{Key: rapid.SampledFrom(pool).Draw(t, "insKey"), Val: rapid.SampledFrom(values).Draw(t, "value")})
					}
				}
				tx.Fail = rapid.IntRange(0, 9).Draw(t, "fails") == 0
				prog = append(prog, tx)
			}
			bs := block.CreateStateWithPreviousBlock(prev.b, c.GetStateDB(), b.Round)
			bc := statecache.NewBlockCache(c.GetStateCache(), statecache.Block{Round: b.Round, Hash: b.Hash, PrevHash: b.PrevHash})
			for _, tx := range prog {
				tc := statecache.NewTransactionCache(bc)
				tm := CreateTxnMPT(bs, tc)
				failed := tx.Fail
				for _, op := range tx.Ops {
					var err error
					if op.Del {
						_, err = tm.Delete(util.Path(op.Key))
					} else {
						_, err = tm.Insert(util.Path(op.Key), &util.SecureSerializableValue{Buffer: []byte(op.Val)})
					}
					if err != nil {
						failed = true
						break
					}
				}
				if failed {
					continue
				}
				if err := bs.MergeMPTChanges(tm); err != nil {
					t.Fatalf("VERIF-HARNESS-ERROR merge: %v", err)
				}
				tc.Commit()
			}
			b.SetClientState(bs)
			b.SetStateChangesCount(bs)
			b.RoundRandomSeed = int64(vkit.FP(tag, b.Round) >> 1)
			b.HashBlock()
			b.SetStateStatus(block.StateSuccessful)
			bc.SetBlockHash(b.Hash)
			bc.Commit()
			model, rec := c27apply(prev.model, prog)
			return &c27blk{b: b, model: model, recreated: rec}
		}

		// ------------------------------------------------------------- history
		chain := []*c27blk{{b: g, model: gm, finalized: true}}
		lfbIdx := 0
		pruned := int64(-1) // highest version pruning was asked for
		nBlocks := rapid.IntRange(80, vkit.Scale(240, 400)).Draw(t, "blocks")
		directPrune := rapid.IntRange(0, 2).Draw(t, "alsoDirectPrune") == 0
		prunes, interrupted := 0, 0
		var fp []interface{}
		nontrivialAt := map[int64]bool{}

		verify := func(when string) {
			for i := len(chain) - 1; i >= 0; i-- {
				x := chain[i]
				if x.b.Round < pruned {
					break
				}
				var diff string
				if x.finalized {
					// a finalized block's state lives in the persistent DB alone
					diff = c27state(pn, x.b.Round, x.b.ClientStateHash, x.model)
				} else {
					diff = c27state(x.b.ClientState.GetNodeDB(), x.b.Round, x.b.ClientStateHash, x.model)
				}
				if diff != "" {
					kind := "finalized"
					if !x.finalized {
						kind = "not-yet-finalized"
					}
					t.Fatalf("%s", vkit.Violation("C27", "retained-state-unreadable:"+kind, "%s: state pruned below %d (versions asked for: %v, LFB %d, window %d); the %s block of round %d cannot be read completely: %s", when, pruned, db.versions, chain[lfbIdx].b.Round, window, kind, x.b.Round, diff))
				}
				if x.recreated && x.finalized && prunes > 0 {
					nontrivialAt[x.b.Round] = true
				}
			}
		}
		finalizeNext := func() {
			x := chain[lfbIdx+1]
			r := round.NewRound(x.b.Round)
			r.SetRandomSeed(x.b.RoundRandomSeed, 1)
			c.AddRound(r)
			if err := c.finalizeBlock(ctx, x.b, c27bsh{}); err != nil {
				t.Fatalf("VERIF-HARNESS-ERROR finalizeBlock(round %d): %v", x.b.Round, err)
			}
			x.finalized = true
			lfbIdx++
		}
		for len(chain)-1 < nBlocks {
			tip := chain[len(chain)-1]
			if lfbIdx == len(chain)-1 && rapid.IntRange(0, 14).Draw(t, "rollback") == 7 {
				// a block is finalized for the next round by mistake and the round is then finalized again with the block it
				// really ends with (the chain's recovery from an incorrectly finalized block), which may change no state
				wrong := build(tip, "fork")
				r := round.NewRound(wrong.b.Round)
				r.SetRandomSeed(wrong.b.RoundRandomSeed, 1)
				c.AddRound(r)
				if err := c.finalizeBlock(ctx, wrong.b, c27bsh{}); err != nil {
					t.Fatalf("VERIF-HARNESS-ERROR finalizeBlock(wrong block of round %d): %v", wrong.b.Round, err)
				}
				tagR := "main"
				if rapid.Bool().Draw(t, "winnerChangesNothing") {
					tagR = "main-empty"
				}
				nbR := build(tip, tagR)
				chain = append(chain, nbR)
				fp = append(fp, "rollback", hex.EncodeToString(nbR.b.ClientStateHash[:4]))
				finalizeNext()
				st.Class("finalized-block-rolled-back/" + tagR)
				if window <= 3 && rapid.Bool().Draw(t, "quietThenPrune") {
					// a few blocks that change nothing, then a prune right above the rolled-back round: whatever the
					// abandoned block had replaced is still part of every retained state
					for q := 0; q < window; q++ {
						qb := build(chain[len(chain)-1], "main-empty")
						chain = append(chain, qb)
						fp = append(fp, "quiet")
						finalizeNext()
					}
					v := nbR.b.Round + 1
					if v <= chain[lfbIdx].b.Round-int64(window)+1 && v > r0 {
						if err := db.PruneBelowVersion(ctx, v); err != nil {
							t.Fatalf("VERIF-HARNESS-ERROR PruneBelowVersion: %v", err)
						}
						if v > pruned {
							pruned = v
						}
						prunes++
						st.Class("prune/right-above-a-rolled-back-round")
						verify(fmt.Sprintf("after PruneBelowVersion(%d) right above the rolled-back round %d", v, nbR.b.Round))
					}
				}
				continue
			}
			nb := build(tip, "main")
			if rapid.IntRange(0, 11).Draw(t, "siblingFork") == 0 {
				// a competing block of the same round on the same parent, computed but never finalized
				build(tip, "fork")
				st.Class("fork-sibling-computed")
			}
			chain = append(chain, nb)
			fp = append(fp, hex.EncodeToString(nb.b.ClientStateHash[:4]))
			lag := rapid.IntRange(0, 6).Draw(t, "lag")
			for len(chain)-1-lfbIdx > lag {
				finalizeNext()
			}
			if rapid.IntRange(0, 39).Draw(t, "pruneNow") == 0 || len(chain)-1 == nBlocks {
				before := len(db.versions)
				if prunes%4 == 3 {
					db.interrupt = time.Duration(rapid.IntRange(1, 300).Draw(t, "interruptAfterMicros")) * time.Microsecond
					interrupted++
				}
				c.pruneClientState(ctx)
				db.interrupt = 0
				if len(db.versions) > before {
					v := db.versions[len(db.versions)-1]
					if v > pruned {
						pruned = v
					}
					prunes++
					st.Class("prune/pruneClientState")
					verify(fmt.Sprintf("after pruneClientState at LFB %d", chain[lfbIdx].b.Round))
				} else {
					st.Class("prune/abandoned-or-too-early")
				}
				if directPrune && chain[lfbIdx].b.Round-int64(window) > r0 {
					v := rapid.Int64Range(r0, chain[lfbIdx].b.Round-int64(window)).Draw(t, "directVersion")
					if err := db.PruneBelowVersion(ctx, v); err != nil {
						t.Fatalf("VERIF-HARNESS-ERROR PruneBelowVersion: %v", err)
					}
					if v > pruned {
						pruned = v
					}
					prunes++
					st.Class("prune/direct-version")
					verify(fmt.Sprintf("after PruneBelowVersion(%d)", v))
				}
			}
		}
		for lfbIdx < len(chain)-1 {
			finalizeNext()
		}
		verify("at the end of the history")
		st.Case()
		if interrupted > 0 {
			st.ClassN("prune/interrupted", interrupted)
		}
		switch {
		case prunes == 0:
			st.Class("history/never-pruned")
		case pruned <= r0+1:
			st.Class("history/pruned-nothing-above-genesis")
		default:
			st.Class("history/pruned")
		}
		if len(nontrivialAt) > 0 && pruned > r0+1 {
			st.Class("history/recreated-value-in-retained-block")
			st.NonTrivial(strings.Join(strings.Fields(fmt.Sprint(fp...)), ""), pruned)
		}
		if st.WantSample(len(nontrivialAt) > 0) {
			st.Sample(len(nontrivialAt) > 0, map[string]interface{}{"blocks": nBlocks, "keys": len(pool), "key_length": klen, "genesis_round": r0, "prune_window": window,
				"prune_versions": db.versions, "retained_blocks_with_identical_recreation": len(nontrivialAt), "last_round": chain[len(chain)-1].b.Round})
		}
	})
}
