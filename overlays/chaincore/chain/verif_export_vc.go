package chain

// Harness helper for check C38 (view-change phase machine on the full-chain simulator).
//
// The simulator's process-wide Chain object keeps the magic blocks that finalization
// installed (UpdateMagicBlock + SetLatestFinalizedMagicBlock). A check that lets the
// miner contract complete view changes installs new magic blocks the way finalization
// does; VerifResetMagicBlocks puts the Chain back to "only the genesis magic block is
// known" so that the next generated history starts from the same chain. It touches only
// the magic-block bookkeeping of the Chain object, no protocol code path.

import (
	"context"

	"0chain.net/chaincore/block"
	"0chain.net/chaincore/round"
)

func (c *Chain) VerifResetMagicBlocks(genesis *block.Block) error {
	c.mbMutex.Lock()
	c.MagicBlockStorage = round.NewRoundStartingStorage()
	err := c.MagicBlockStorage.Put(genesis.MagicBlock, genesis.MagicBlock.StartingRound)
	c.PreviousMagicBlock = nil
	c.mbMutex.Unlock()
	if err != nil {
		return err
	}
	c.lfmbMutex.Lock()
	c.magicBlockStartingRounds = map[int64]*block.Block{genesis.MagicBlock.StartingRound: genesis}
	c.lfmbMutex.Unlock()
	c.updateLatestFinalizedMagicBlock(context.Background(), genesis)
	return nil
}
