package chain

import (
	"context"
	"fmt"
	"strings"
	"sync"
	"testing"
	"time"

	"0chain.net/chaincore/block"
	"0chain.net/chaincore/round"
	"0chain.net/core/datastore"
	"0chain.net/core/viper"
	"github.com/0chain/common/core/util"
	"pgregory.net/rapid"
	"verifharness/vkit"
)

// C36, second sentence: each newly finalized block descends from the previous
// finalized block, so finalized blocks form one chain. The real
// Chain.finalizeRound runs over generated histories in which a node learns of
// notarized blocks branch by branch (late branches may fork off below the block
// it has already finalized) and is asked to finalize rounds in between; a
// stand-in for the block finalization worker accepts every block handed over,
// makes it the latest finalized block and records it.

var c36fOnce sync.Once

type c36fNopVC struct{}

func (c36fNopVC) ViewChange(context.Context, *block.Block) error { return nil }

type c36fNode struct {
	c         *Chain
	mu        sync.Mutex
	finalized []*block.Block
	stop      context.CancelFunc
	done      chan struct{}
}

func c36fNew(genesis *block.Block, ahead int) *c36fNode {
	viper.Set("server_chain.lfb_ticket.ahead", ahead)
	c := vChain()
	c.SetMagicBlock(vMagicBlock(0, 1))
	c.viewChanger = c36fNopVC{}
	c.stateDB = util.NewMemoryNodeDB() // the rollback path records the lfb round there
	c.LatestFinalizedBlock = genesis
	c.LatestDeterministicBlock = genesis
	n := &c36fNode{c: c, done: make(chan struct{})}
	ctx, cancel := context.WithCancel(context.Background())
	n.stop = cancel
	go func() {
		defer close(n.done)
		for {
			select {
			case <-ctx.Done():
				return
			case fbr := <-c.finalizedBlocksChannel:
				n.mu.Lock()
				n.finalized = append(n.finalized, fbr.block)
				n.mu.Unlock()
				c.lfbMutex.Lock()
				c.LatestFinalizedBlock = fbr.block
				c.lfbMutex.Unlock()
				fbr.resultC <- nil
			}
		}
	}()
	return n
}

func (n *c36fNode) close() { n.stop(); <-n.done }

func (n *c36fNode) notarize(b *block.Block) {
	n.c.blocksMutex.Lock()
	n.c.blocks[b.Hash] = b
	n.c.blocksMutex.Unlock()
	r := n.c.GetRound(b.Round)
	if r == nil {
		r = n.c.AddRound(&round.Round{Number: b.Round})
	}
	r.AddNotarizedBlock(b)
	if b.Round > n.c.GetCurrentRound() {
		n.c.SetCurrentRound(b.Round)
	}
}

func (n *c36fNode) finalize(rn int64) (handed []*block.Block, returned bool) {
	n.mu.Lock()
	before := len(n.finalized)
	n.mu.Unlock()
	ctx, cancel := context.WithTimeout(context.Background(), 20*time.Second)
	defer cancel()
	done := make(chan struct{})
	go func() { defer close(done); n.c.finalizeRound(ctx, n.c.GetRound(rn)) }()
	select {
	case <-done:
		returned = true
	case <-time.After(30 * time.Second):
	}
	n.mu.Lock()
	defer n.mu.Unlock()
	return append([]*block.Block(nil), n.finalized[before:]...), returned
}

func c36fDescends(b, anc *block.Block) bool {
	for p := b; p != nil && p.Round >= anc.Round; p = p.PrevBlock {
		if p.Hash == anc.Hash {
			return true
		}
	}
	return false
}

func TestC36_FinalizedChain(t *testing.T) {
	c36once.Do(func() { round.SetupEntity(nil) })
	c36fOnce.Do(func() {
		if datastore.GetEntityMetadata("block_summary") == nil {
			block.SetupBlockSummaryEntity(nil)
		}
	})
	st := vkit.For("C36")
	rapid.Check(t, func(t *rapid.T) {
		ahead := rapid.SampledFrom([]int{5, 2, 5, 3}).Draw(t, "lfbTicketAhead") // shipped config 5, built-in default 2
		names := map[string]string{}
		mk := func(name string, parent *block.Block, rank int) *block.Block {
			b := &block.Block{}
			b.Hash = fmt.Sprintf("%064x", vkit.FP(name))
			b.RoundRank = rank
			if parent != nil {
				b.SetPreviousBlock(parent)
			}
			b.SetStateStatus(block.StateSuccessful)
			names[b.Hash] = name
			return b
		}
		nm := func(b *block.Block) string { return fmt.Sprintf("%s@%d", names[b.Hash], b.Round) }
		g := mk("G", nil, 0)
		n := c36fNew(g, ahead)
		defer n.close()
		n.notarize(g)
		all := []*block.Block{g}
		tips := []*block.Block{g}
		perRound := map[int64]int{0: 1}
		branchOf := map[string]string{g.Hash: "a"}
		nextBranch := byte('a')
		var maxRound int64
		var last *block.Block
		var hist []string
		forkBelowLFBSeen, handedTotal, rollbacks := false, 0, 0
		steps := rapid.IntRange(4, 45).Draw(t, "steps")
		for s := 0; s < steps; s++ {
			op := rapid.SampledFrom([]string{"extend", "extend", "extend", "finalize", "finalize"}).Draw(t, "op")
			switch op {
			case "extend":
				var parent *block.Block
				switch k := rapid.IntRange(0, 11).Draw(t, "where"); {
				case last != nil && k < 6:
					parent = last // the branch that grew last keeps growing
				case k < 9:
					parent = tips[rapid.IntRange(0, len(tips)-1).Draw(t, "tip")]
				case k < 11:
					// a late branch that forks off below the latest finalized block
					var below []*block.Block
					lfbNow := n.c.GetLatestFinalizedBlock()
					for _, b := range all {
						if b.Round < lfbNow.Round {
							below = append(below, b)
						}
					}
					if len(below) == 0 {
						below = all
					}
					parent = below[rapid.IntRange(0, len(below)-1).Draw(t, "below")]
				default:
					parent = all[rapid.IntRange(0, len(all)-1).Draw(t, "any")] // a new fork anywhere
				}
				if perRound[parent.Round+1] >= 3 {
					continue
				}
				br := branchOf[parent.Hash]
				isTip := false
				for i, tp := range tips {
					if tp == parent {
						isTip = true
						tips = append(tips[:i:i], tips[i+1:]...)
						break
					}
				}
				if !isTip {
					nextBranch++
					br = string(rune(nextBranch))
				}
				b := mk(fmt.Sprintf("%s%d", br, parent.Round+1), parent, perRound[parent.Round+1])
				branchOf[b.Hash] = br
				perRound[b.Round]++
				n.notarize(b)
				all = append(all, b)
				tips = append(tips, b)
				last = b
				if b.Round > maxRound {
					maxRound = b.Round
				}
				hist = append(hist, fmt.Sprintf("+%s<-%s", nm(b), nm(parent)))
			case "finalize":
				if maxRound == 0 {
					continue
				}
				rn := maxRound - int64(rapid.SampledFrom([]int{0, 0, 1, 2}).Draw(t, "back"))
				if rn < 1 || n.c.GetRound(rn) == nil {
					continue
				}
				prev := n.c.GetLatestFinalizedBlock()
				// is there, at this moment, a notarized block in round rn whose branch misses the lfb?
				for _, nb := range n.c.GetRound(rn).GetNotarizedBlocks() {
					if nb.Round > prev.Round && !c36fDescends(nb, prev) {
						forkBelowLFBSeen = true
					}
				}
				var dist int64
				if cb := n.c.ComputeFinalizedBlock(context.Background(), prev.Round, n.c.GetRound(rn)); cb != nil {
					dist = cb.Round - prev.Round
				}
				handed, returned := n.finalize(rn)
				if !returned {
					t.Fatalf("%s", vkit.Violation("C36", "finalize-round-hangs", "finalizeRound(%d) did not return within 30 s; history %v", rn, hist))
				}
				var hs []string
				for _, fb := range handed {
					hs = append(hs, nm(fb))
				}
				hist = append(hist, fmt.Sprintf("finalize(%d)->[%s]", rn, strings.Join(hs, " ")))
				cur := prev
				for _, fb := range handed {
					if fb.Round <= cur.Round || !c36fDescends(fb, cur) {
						key := "finalized-block-off-the-finalized-chain"
						if dist > int64(ahead) {
							// the walk back from the computed block stops after lfb_ticket.ahead blocks, before reaching the lfb round
							key = "finalized-block-off-the-finalized-chain:beyond-walk-depth"
						}
						if !st.Known(key) {
							t.Fatalf("%s", vkit.Violation("C36", key, "finalizeRound(%d) handed %s to block finalization, which does not descend from the latest finalized block %s (the computed block is %d rounds above it, lfb_ticket.ahead=%d); history %v", rn, nm(fb), nm(cur), dist, ahead, hist))
						}
					}
					cur = fb
				}
				handedTotal += len(handed)
				now := n.c.GetLatestFinalizedBlock()
				if len(handed) == 0 && now.Hash != prev.Hash {
					// rollback of an incorrectly finalized block: only back along the finalized chain
					rollbacks++
					if !c36fDescends(prev, now) {
						t.Fatalf("%s", vkit.Violation("C36", "rollback-leaves-the-chain", "finalizeRound(%d) moved the latest finalized block from %s to %s, which is not one of its ancestors; history %v", rn, nm(prev), nm(now), hist))
					}
				}
			}
		}
		st.Case()
		st.Class("finalize_history")
		if forkBelowLFBSeen {
			st.Class("finalize_asked_with_a_branch_that_misses_the_lfb")
		}
		if rollbacks > 0 {
			st.Class("finalize_rolled_back")
		}
		if handedTotal > 0 {
			st.Class("finalize_handed_blocks_over")
		}
		if forkBelowLFBSeen || (handedTotal > 0 && nextBranch > 'a') {
			st.NonTrivial("finalize-history", fmt.Sprint(hist), ahead)
		}
		if st.WantSample(forkBelowLFBSeen) {
			h := hist
			if len(h) > 30 {
				h = h[:30]
			}
			st.Sample(forkBelowLFBSeen, map[string]interface{}{"kind": "finalize-history", "ahead": ahead, "history": h, "blocks_handed_over": handedTotal, "rollbacks": rollbacks})
		}
	})
}
