package chain

// Harness helper for check C31 (fault: ticket verification capacity exhausted).
//
// Chain.VerifyTickets runs at most four verifications at a time (verifyTicketsWithContext); further calls wait for a
// free slot until their context runs out. VerifOccupyTicketSlots takes all four slots, as four long verifications of
// other blocks would, until the returned function is called. It adds no behaviour to any protocol code path.

import (
	"context"
	"sync"
)

func (c *Chain) VerifOccupyTicketSlots() (release func()) {
	stop := make(chan struct{})
	started := make(chan struct{}, 4)
	var wg sync.WaitGroup
	for i := 0; i < 4; i++ {
		wg.Add(1)
		go func() {
			defer wg.Done()
			_ = c.verifyTicketsWithContext.Run(context.Background(), func() error {
				started <- struct{}{}
				<-stop
				return nil
			})
		}()
	}
	for i := 0; i < 4; i++ {
		<-started
	}
	return func() { close(stop); wg.Wait() }
}
