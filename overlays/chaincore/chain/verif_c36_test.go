package chain

import (
	"context"
	"fmt"
	"sync"
	"testing"

	"0chain.net/chaincore/block"
	"0chain.net/chaincore/round"
	"pgregory.net/rapid"
	"verifharness/vkit"
)

// C36: the block chosen for finalization is the most recent block that is an
// ancestor of every notarized block of the latest round that has any, and lies
// in an earlier round.

var c36once sync.Once

type c36blk struct {
	b      *block.Block
	parent *c36blk
	name   string
}

func c36new(name string, rnd int64, parent *c36blk, rank int) *c36blk {
	b := &block.Block{}
	b.Hash = fmt.Sprintf("%064x", vkit.FP(name))
	b.Round = rnd
	b.RoundRank = rank
	b.SetStateStatus(block.StateSuccessful)
	if parent != nil {
		b.PrevHash = parent.b.Hash
	}
	return &c36blk{b: b, parent: parent, name: name}
}

func TestC36_ComputeFinalizedBlock(t *testing.T) {
	c36once.Do(func() { round.SetupEntity(nil) })
	st := vkit.For("C36").SetRule("generated block trees above a last-finalized block L (sibling S of L and common grandparent G included): 2..8 rounds, 1..3 blocks per round with parents drawn from the previous round, a drawn subset registered as notarized in each round object (tip rounds may have none, round objects may be missing), parent links present as pointers / resolvable through the chain's block cache / through the LFB shortcut / (only right above L) unresolvable on a foreign fork; oracle: reference level-by-level common-ancestor walk; non-trivial = the latest notarized round holds >= 2 blocks whose branches diverge for >= 2 rounds; distinct by tree fingerprint")
	rapid.Check(t, func(t *rapid.T) {
		c := vChain()
		L := rapid.Int64Range(2, 50).Draw(t, "lfbRound")
		G := c36new("G", L-1, nil, 0)
		lfb := c36new("L", L, G, 0)
		S := c36new("S", L, G, 1)
		lfb.b.PrevBlock, S.b.PrevBlock = G.b, G.b
		c.LatestFinalizedBlock = lfb.b
		lfbCached := rapid.Bool().Draw(t, "lfbCached")
		if lfbCached {
			c.blocks[lfb.b.Hash] = lfb.b
		}
		nRounds := rapid.IntRange(2, 8).Draw(t, "rounds")
		prev := []*c36blk{lfb, S}
		var desc []string
		type lvl struct {
			blocks    []*c36blk
			notarized []*c36blk
			hasRound  bool
		}
		levels := map[int64]*lvl{}
		foreignUnresolvable := map[*c36blk]bool{}
		for i := 1; i <= nRounds; i++ {
			rn := L + int64(i)
			n := rapid.IntRange(1, 3).Draw(t, "blocks")
			lv := &lvl{hasRound: rapid.IntRange(0, 9).Draw(t, "roundObjectPresent") > 0}
			var cur []*c36blk
			for k := 0; k < n; k++ {
				var p *c36blk
				if i == 1 {
					// mostly on top of L; sometimes on the sibling fork
					if rapid.IntRange(0, 3).Draw(t, "onSibling") == 0 {
						p = S
					} else {
						p = lfb
					}
				} else {
					p = prev[rapid.IntRange(0, len(prev)-1).Draw(t, "parent")]
				}
				nb := c36new(fmt.Sprintf("r%d.%d", i, k), rn, p, k)
				link := rapid.SampledFrom([]string{"ptr", "ptr", "ptr", "cache", "none"}).Draw(t, "link")
				switch {
				case link == "ptr":
					nb.b.PrevBlock = p.b
				case link == "cache" && (p != S):
					c.blocks[p.b.Hash] = p.b // resolvable through GetBlock
				case i == 1 && p == lfb:
					// resolvable through the LFB shortcut even when L is not cached
				case i == 1 && p == S:
					foreignUnresolvable[nb] = true // parent unknown locally and not the LFB
				default:
					nb.b.PrevBlock = p.b // deeper unresolvable parents would need the network: not generated
					link = "ptr"
				}
				desc = append(desc, fmt.Sprintf("%s<-%s[%s]", nb.name, p.name, link))
				cur = append(cur, nb)
			}
			lv.blocks = cur
			// notarized subset registered in the round object
			tip := i == nRounds || i == nRounds-1
			for _, x := range cur {
				reg := rapid.IntRange(0, 9).Draw(t, "registered")
				if (tip && reg < 4) || (!tip && reg < 1) {
					continue
				}
				lv.notarized = append(lv.notarized, x)
			}
			levels[rn] = lv
			prev = cur
		}
		var top round.RoundI
		for i := 1; i <= nRounds; i++ {
			rn := L + int64(i)
			lv := levels[rn]
			if !lv.hasRound && i != nRounds {
				lv.notarized = nil
				desc = append(desc, fmt.Sprintf("round%d:missing", i))
				continue
			}
			r := round.NewRound(rn)
			for _, x := range lv.notarized {
				r.AddNotarizedBlock(x.b)
			}
			c.AddRound(r)
			names := ""
			for _, x := range lv.notarized {
				names += x.name + " "
			}
			desc = append(desc, fmt.Sprintf("round%d:notarized{%s}", i, names))
			top = r
		}
		// ---- reference
		var start []*c36blk
		for rn := L + int64(nRounds); rn > L; rn-- {
			lv := levels[rn]
			if rn != L+int64(nRounds) && !lv.hasRound {
				break
			}
			if len(lv.notarized) > 0 {
				start = lv.notarized
				break
			}
		}
		var want *c36blk
		resolvable := true
		divergence := 0
		if len(start) > 0 {
			curSet := start
			for {
				seen := map[*c36blk]bool{}
				var parents []*c36blk
				for _, x := range curSet {
					if foreignUnresolvable[x] {
						resolvable = false
					}
					if x.parent == nil {
						resolvable = false
						break
					}
					if !seen[x.parent] {
						seen[x.parent] = true
						parents = append(parents, x.parent)
					}
				}
				if !resolvable {
					break
				}
				curSet = parents
				if len(curSet) == 1 {
					want = curSet[0]
					break
				}
				divergence++
			}
		}
		got := c.ComputeFinalizedBlock(context.Background(), L, top)
		switch {
		case len(start) == 0 || !resolvable:
			if got != nil && !resolvable {
				t.Fatalf("%s", vkit.Violation("C36", "finalized-on-unresolved-fork", "a block (%s round %d) was chosen although a notarized block's parent is on a fork that cannot be connected; tree %v", got.Hash[:8], got.Round, desc))
			}
			if got != nil && len(start) == 0 {
				t.Fatalf("%s", vkit.Violation("C36", "finalized-without-notarized", "a block was chosen without any notarized block; tree %v", desc))
			}
		default:
			if got == nil || got.Hash != want.b.Hash {
				gs := "<nil>"
				if got != nil {
					gs = fmt.Sprintf("%s@%d", got.Hash[:8], got.Round)
				}
				t.Fatalf("%s", vkit.Violation("C36", "wrong-common-ancestor", "ComputeFinalizedBlock chose %s, the deepest common ancestor in an earlier round is %s (%s@%d); tree %v", gs, want.name, want.b.Hash[:8], want.b.Round, desc))
			}
			if got.Round >= start[0].b.Round {
				t.Fatalf("%s", vkit.Violation("C36", "not-earlier-round", "chosen block is not in an earlier round; tree %v", desc))
			}
		}
		// calling it again must give the same answer (the computation must not disturb the rounds)
		got2 := c.ComputeFinalizedBlock(context.Background(), L, top)
		if (got == nil) != (got2 == nil) || (got != nil && got.Hash != got2.Hash) {
			t.Fatalf("%s", vkit.Violation("C36", "not-repeatable", "second computation over the same rounds gives a different block; tree %v", desc))
		}
		for rn, lv := range levels {
			if r := c.GetRound(rn); r != nil {
				nbs := r.GetNotarizedBlocks()
				if len(nbs) != len(lv.notarized) {
					t.Fatalf("%s", vkit.Violation("C36", "rounds-disturbed", "round %d holds %d notarized blocks after the computation, %d before; tree %v", rn, len(nbs), len(lv.notarized), desc))
				}
				for _, nb := range nbs {
					if nb.Round != rn {
						t.Fatalf("%s", vkit.Violation("C36", "rounds-disturbed", "round %d now lists a block of round %d as notarized; tree %v", rn, nb.Round, desc))
					}
				}
			}
		}
		st.Case()
		nt := len(start) >= 2 && divergence >= 1 && resolvable
		if len(start) >= 2 {
			st.Class("fork_at_latest_notarized_round")
		}
		if !resolvable {
			st.Class("unresolvable_foreign_fork_reached")
		}
		if len(start) == 0 {
			st.Class("no_notarized_blocks")
		}
		if want != nil && want.b.Round <= L {
			st.Class("answer_at_or_below_lfb")
		}
		if nt {
			st.NonTrivial(fmt.Sprint(desc))
		}
		if st.WantSample(nt) {
			w := "<nil>"
			if want != nil {
				w = want.name
			}
			st.Sample(nt, map[string]interface{}{"lfb_round": L, "tree": desc, "expected": w})
		}
	})
}
