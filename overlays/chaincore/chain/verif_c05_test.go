package chain

import (
	"fmt"
	"math"
	"math/big"
	"testing"

	"0chain.net/chaincore/block"
	"0chain.net/chaincore/state"
	"0chain.net/chaincore/transaction"
	"github.com/0chain/common/core/currency"
	"github.com/0chain/common/core/statecache"
	"github.com/0chain/common/core/util"
	"pgregory.net/rapid"
	"verifharness/vkit"
)

// C05 (transfer level): balances anywhere in the uint64 range. Genesis cannot create a balance above the supply
// (4e18 < 2^64), so the clause "crediting never wraps the destination" is out of reach of transaction histories; here
// the account leaves are written directly with generated balances (0, 1, around 2^63, up to 2^64-1) and generated
// transfer lists run through the chain's own transferAmountWithAssert on a real state context over a real trie.
// Oracle (exact big-integer model): a transfer succeeds iff from != to, amount <= balance(from) and
// balance(to) + amount <= 2^64-1; it then moves exactly amount; otherwise it returns an error and neither leaf changes.
func TestC05_TransferBoundaries(t *testing.T) {
	st := vkit.For("C05")
	c := vChain()
	maxU := new(big.Int).SetUint64(math.MaxUint64)
	rapid.Check(t, func(t *rapid.T) {
		mpt := util.NewMerklePatriciaTrie(util.NewLevelNodeDB(util.NewMemoryNodeDB(), util.NewMemoryNodeDB(), false), 1, nil, statecache.NewEmpty())
		n := rapid.IntRange(2, 4).Draw(t, "accounts")
		ids := make([]string, n)
		model := map[string]*big.Int{}
		balGen := rapid.OneOf(
			rapid.SampledFrom([]uint64{0, 1, 2, math.MaxUint64, math.MaxUint64 - 1, math.MaxUint64 - 5, 1 << 63, 1<<63 - 1, 4e18, 1e10}),
			rapid.Uint64(),
			rapid.Uint64Range(0, 1000),
		)
		for i := range ids {
			ids[i] = vHash(100 + i)
			bal := balGen.Draw(t, "balance")
			absent := rapid.IntRange(0, 5).Draw(t, "absent") == 4
			model[ids[i]] = new(big.Int)
			if absent {
				continue
			}
			model[ids[i]].SetUint64(bal)
			s := &state.State{Balance: currency.Coin(bal)}
			s.SetTxnHash(fmt.Sprintf("%064x", 7))
			if _, err := mpt.Insert(util.Path(ids[i]), s); err != nil {
				t.Fatalf("VERIF-HARNESS-ERROR insert: %v", err)
			}
		}
		b := &block.Block{}
		b.Round = 1
		b.ClientState = mpt
		txn := &transaction.Transaction{}
		txn.Hash = fmt.Sprintf("%064x", 9)
		sctx := c.NewStateContext(b, mpt, txn, nil)
		k := rapid.IntRange(1, 6).Draw(t, "transfers")
		boundary, refused, applied := 0, 0, 0
		for i := 0; i < k; i++ {
			from := ids[rapid.IntRange(0, n-1).Draw(t, "from")]
			to := ids[rapid.IntRange(0, n-1).Draw(t, "to")]
			fb, tb := model[from], model[to]
			room := new(big.Int).Sub(maxU, tb)
			var amount uint64
			switch rapid.IntRange(0, 7).Draw(t, "amountKind") {
			case 0:
				amount = fb.Uint64() // everything
			case 1:
				amount = fb.Uint64() + 1 // one too many (wraps to 0 for a full account: then nothing moves)
			case 2:
				if room.IsUint64() {
					amount = room.Uint64() // fills the destination to 2^64-1
				}
			case 3:
				if room.IsUint64() {
					amount = room.Uint64() + 1 // one more than the destination can hold
				}
			case 4:
				amount = 1
			case 5:
				amount = 0
			default:
				amount = rapid.Uint64().Draw(t, "amount")
			}
			a := new(big.Int).SetUint64(amount)
			// the assertion wrapper adds the two balances with a checked addition first: in states whose two balances
			// together exceed 2^64-1 (impossible under a supply below 2^64) it refuses everything, which is safe
			sumFits := new(big.Int).Add(fb, tb).Cmp(maxU) <= 0 || from == to && new(big.Int).Add(fb, fb).Cmp(maxU) <= 0
			mustFail := amount > 0 && (from == to || a.Cmp(fb) > 0 || new(big.Int).Add(tb, a).Cmp(maxU) > 0)
			mustSucceed := !mustFail && sumFits
			if new(big.Int).Add(tb, a).Cmp(maxU) > 0 && a.Cmp(fb) <= 0 && from != to {
				boundary++
				st.Class("transfer/destination-would-wrap")
			}
			var err error
			func() {
				defer func() {
					if r := recover(); r != nil {
						err = fmt.Errorf("panic: %v", r)
					}
				}()
				_, err = c.transferAmountWithAssert(sctx, from, to, currency.Coin(amount))
			}()
			read := func(id string) *big.Int {
				s, e := sctx.GetClientState(id)
				if e != nil && e != util.ErrValueNotPresent {
					t.Fatalf("VERIF-HARNESS-ERROR read: %v", e)
				}
				return new(big.Int).SetUint64(uint64(s.Balance))
			}
			gf, gt := read(from), read(to)
			if mustSucceed && err != nil {
				t.Fatalf("%s", vkit.Violation("C05", "payable-transfer-refused", "transfer of %d from an account holding %s to one holding %s was refused: %v", amount, fb, tb, err))
			}
			if mustFail && err == nil {
				t.Fatalf("%s", vkit.Violation("C05", "unpayable-transfer-applied", "transfer of %d from %s (balance %s) to %s (balance %s) was applied: source now %s, destination now %s", amount, from[60:], fb, to[60:], tb, gf, gt))
			}
			if err == nil {
				if from != to {
					fb.Sub(fb, a)
					tb.Add(tb, a)
				}
				applied++
			} else {
				refused++
			}
			if gf.Cmp(model[from]) != 0 || gt.Cmp(model[to]) != 0 {
				t.Fatalf("%s", vkit.Violation("C05", "wrong-balances-after-transfer", "after transfer of %d (ok=%v, err=%v): source %s expected %s, destination %s expected %s", amount, err == nil, err, gf, model[from], gt, model[to]))
			}
		}
		st.Case()
		st.Class(fmt.Sprintf("transfers/applied=%v/refused=%v", applied > 0, refused > 0))
		if boundary > 0 {
			st.NonTrivial("wrap", n, k, boundary, applied, refused)
		}
	})
}
