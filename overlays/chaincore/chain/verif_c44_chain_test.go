package chain

import (
	"context"
	"fmt"
	"sync"
	"testing"

	"0chain.net/chaincore/block"
	"0chain.net/chaincore/node"
	"0chain.net/chaincore/round"
	"github.com/0chain/common/core/util"
	"verifharness/checks/c44kit"
)

// C44 part (d): the chain's block and round maps (and the fields kept with them:
// current round, latest finalized / deterministic block) under generated
// concurrent programs with the race detector as oracle. Every operation is a
// call (or the exact code fragment) that a miner/sharder worker or an HTTP
// handler issues; the root goroutine of each is named in the op comment.

var c44chainOnce sync.Once

type c44chainRoundFactory struct{}

func (c44chainRoundFactory) CreateRoundF(n int64) round.RoundI {
	return round.NewRound(n)
}

func TestC44_ChainMaps(t *testing.T) {
	c44chainOnce.Do(func() { round.SetupEntity(nil) })
	const (
		nMiners  = 4
		nRounds  = 5
		perRound = 2
	)
	var (
		c      *Chain
		miners []*node.Node
		// copies[g][i]: goroutine g's own object of block i (index = (round-1)*perRound + k). A block object is
		// private to the goroutine that received / built it until it is published through the chain or a round;
		// other goroutines then see the published object (GetBlock) or their own copy with the same hash.
		copies [c44kit.Prelude + 1][]*block.Block
		far    []round.RoundI // rounds 40.. for DeleteRoundsBelow
	)
	ctx := context.Background()
	ticket := func(i int) *block.VerificationTicket {
		return &block.VerificationTicket{VerifierID: miners[i%nMiners].GetKey(), Signature: fmt.Sprintf("sig-%d", i)}
	}
	nBlocks := nRounds * perRound
	hashOf := func(a int) string { i := a % nBlocks; return vHash((i/perRound+1)*10 + i%perRound) }
	roundNo := func(a int) int64 { return int64((a%nBlocks)/perRound + 1) }
	own := func(g, a int) *block.Block { return copies[g][a%nBlocks] }
	published := func(a int) *block.Block {
		b, _ := c.GetBlock(ctx, hashOf(a))
		return b
	}
	getOrCreateRound := func(n int64) round.RoundI {
		// what processBlock / getOrCreateRound do
		r := c.GetRound(n)
		if r == nil {
			r = c.AddRound(c.RoundF.CreateRoundF(n))
		}
		return r
	}
	fresh := func() {
		c = vChain()
		c.RoundF = c44chainRoundFactory{}
		c.ChainConfig.(*ConfigImpl).conf.ThresholdByCount = 66
		mb := vMagicBlock(0, 1)
		miners = miners[:0]
		for i := 0; i < nMiners; i++ {
			n := vNode(node.NodeTypeMiner, i)
			n.SetIndex = i
			if err := mb.Miners.AddNode(n); err != nil {
				panic(err)
			}
			miners = append(miners, n)
		}
		c.SetMagicBlock(mb)
		g := &block.Block{}
		g.Hash = vHash(1000)
		g.SetStateStatus(block.StateSuccessful)
		lfb := &block.Block{} // the latest finalized block is ahead of the deterministic one
		lfb.Round = nRounds - 1
		lfb.Hash = vHash(1001)
		lfb.SetStateStatus(block.StateSuccessful)
		c.LatestFinalizedBlock = lfb
		c.LatestDeterministicBlock = g
		c.blocks[g.Hash] = g
		for gi := range copies {
			copies[gi] = copies[gi][:0]
			for i := 0; i < nBlocks; i++ {
				b := &block.Block{}
				b.Round = roundNo(i)
				b.Hash = hashOf(i)
				b.MinerID = miners[(int(b.Round)+i%perRound)%nMiners].GetKey()
				if b.Round == 1 {
					b.PrevHash = g.Hash
				} else {
					b.PrevHash = hashOf(i - perRound)
				}
				b.RoundRandomSeed = 100 + b.Round
				b.VerificationTickets = []*block.VerificationTicket{ticket(i + gi), ticket(i + gi + 1)}
				if (gi+i)%2 == 1 {
					b.CreateState(util.NewMemoryNodeDB(), nil) // a copy whose state was computed carries its state
					b.SetStateStatus(block.StateSuccessful)
				}
				copies[gi] = append(copies[gi], b)
			}
		}
		far = far[:0]
		for i := 0; i < 4; i++ {
			far = append(far, round.NewRound(int64(40+i)))
		}
		// the node has been running: the k=0 branch of rounds 1..nRounds-1 is already cached (objects nobody
		// else holds), which makes its round-1 block deterministically final (3 of 4 miners extend it)
		for rn := 1; rn < nRounds; rn++ {
			b := *copies[c44kit.Prelude][(rn-1)*perRound]
			c.AddBlock(&b)
		}
	}
	blockW := []string{"blocks", "ldb", "block.prev", "block.ext", "block.tickets", "block.state"}
	ops := []c44kit.Op{
		// miner BlockVerifyWorkers / generateRoundBlock (miner/protocol_round.go addToRoundVerification)
		{Name: "AddBlock", Role: "miner", W: blockW, Weight: 4, Fn: func(g, a int) { c.AddBlock(own(g, a)) }},
		// per-message goroutines (handleNotarizedBlockMessage), CollectBlocksForVerification
		{Name: "AddRoundBlock", Role: "miner", W: append([]string{"rounds", "block.rank"}, blockW...), R: []string{"round.perm"}, Weight: 2, Fn: func(g, a int) {
			b := own(g, a)
			r := getOrCreateRound(roundNo(a))
			if !r.IsRanksComputed() {
				c.SetRandomSeed(r, 100+roundNo(a))
			}
			c.AddRoundBlock(r, b)
		}},
		// chain.BlockWorker processBlock, block fetcher, NotarizationProcessWorker
		{Name: "AddNotarizedBlockToRound", W: append([]string{"rounds", "round.notarized", "round.seed", "round.perm", "block.rank", "block.notarized"}, blockW...), Weight: 4, Fn: func(g, a int) {
			c.AddNotarizedBlockToRound(getOrCreateRound(roundNo(a)), own(g, a))
		}},
		// HTTP / N2N handlers
		{Name: "GetBlock", R: []string{"blocks"}, Weight: 2, Fn: func(g, a int) { _ = published(a) }},
		{Name: "GetBlockClone", R: []string{"blocks", "block.tickets", "block.state", "block.prev", "block.ext", "block.notarized", "block.rank"}, Weight: 2, Fn: func(g, a int) { _, _ = c.GetBlockClone(ctx, hashOf(a)) }},
		// chain.BlockWorker (processBlock end: c.SetBlock(b) with the block it got back from AddNotarizedBlockToRound)
		{Name: "SetBlock", W: []string{"blocks"}, Fn: func(g, a int) {
			if b := published(a); b != nil {
				c.SetBlock(b)
			}
		}},
		// FinalizedBlockWorker -> finalizeBlock "delete dead blocks"
		{Name: "finalizeBlock:deleteDeadBlocks", R: []string{"blocks"}, W: []string{"blocks", "block.prev"}, Weight: 2, Fn: func(g, a int) {
			frb := c.GetRoundBlocks(roundNo(a))
			var dead []*block.Block
			for _, b := range frb {
				if b.Hash != hashOf(a) {
					dead = append(dead, b)
				}
			}
			c.DeleteBlocks(dead)
		}},
		// FinalizeRoundWorker -> finalizeRound -> PruneChain
		{Name: "PruneChain", W: []string{"blocks", "block.prev"}, R: []string{"ldb", "lfb", "currentRound"}, Fn: func(g, a int) {
			b := &block.Block{}
			b.Round = int64(50 + a%4)
			c.PruneChain(ctx, b)
		}},
		// finalizeBlock (chaincore/chain/protocol_block.go:545-547), FinalizedBlockWorker goroutine, no chain lock held
		{Name: "SetLatestDeterministicBlock", R: []string{"block.ext", "lfb", "blocks"}, W: []string{"ldb"}, Weight: 3, Fn: func(g, a int) {
			if pfb := published(a); pfb != nil && c.IsFinalizedDeterministically(pfb) {
				c.SetLatestDeterministicBlock(pfb)
			}
		}},
		{Name: "AddRound", W: []string{"rounds"}, Weight: 2, Fn: func(g, a int) {
			if a < 4 {
				c.AddRound(far[a])
			} else {
				c.AddRound(c.RoundF.CreateRoundF(roundNo(a)))
			}
		}},
		{Name: "GetRound", R: []string{"rounds"}, Weight: 2, Fn: func(g, a int) { _ = c.GetRound(roundNo(a)) }},
		// sharder UpdateFinalizedBlock (sharder/protocol_block.go:43): clone of the round that was just finalized with its block
		{Name: "finalize+GetRoundClone", Role: "sharder", R: []string{"rounds", "round.notarized", "round.seed", "round.perm", "round.block"}, W: []string{"round.block"}, Weight: 2, Fn: func(g, a int) {
			b := published(a)
			if b == nil {
				return
			}
			getOrCreateRound(roundNo(a)).Finalize(b)
			_ = c.GetRoundClone(roundNo(a))
		}},
		// miner updateFinalizedBlock / sharder `go sc.DeleteRoundsBelow`
		{Name: "DeleteRoundsBelow", W: []string{"rounds"}, Fn: func(g, a int) { c.DeleteRoundsBelow(int64(10 + 6*a)) }},
		{Name: "SetCurrentRound", W: []string{"currentRound"}, Fn: func(g, a int) { c.SetCurrentRound(int64(a)) }},
		{Name: "GetCurrentRound", R: []string{"currentRound"}, Fn: func(g, a int) { _ = c.GetCurrentRound() }},
		// per-message goroutines (VRF share handling), BlockWorker
		{Name: "SetRandomSeed", Role: "miner", W: []string{"round.seed", "round.perm"}, R: []string{"rounds", "round.notarized"}, Weight: 2, Fn: func(g, a int) {
			c.SetRandomSeed(getOrCreateRound(roundNo(a)), int64(200+a))
		}},
		{Name: "SetLatestOwnFinalizedBlockRound", W: []string{"lfb"}, Fn: func(g, a int) { c.SetLatestOwnFinalizedBlockRound(int64(a)) }},
		{Name: "LatestOwnFinalizedBlockRound", R: []string{"lfb"}, Fn: func(g, a int) {
			_ = c.LatestOwnFinalizedBlockRound()
			_ = c.GetLatestFinalizedBlockSummary()
		}},
		// ticket merge on a cached block (VerifyTickets / notarization paths)
		{Name: "MergeVerificationTickets", W: []string{"block.tickets", "block.notarized"}, R: []string{"blocks"}, Weight: 2, Fn: func(g, a int) {
			if b := published(a); b != nil {
				c.MergeVerificationTickets(b, []*block.VerificationTicket{ticket(a), ticket(a + 1), ticket(a + 2)})
			}
		}},
		{Name: "GetLocalPreviousBlock", R: []string{"blocks", "block.prev"}, Fn: func(g, a int) {
			if b := published(a); b != nil {
				_ = c.GetLocalPreviousBlock(ctx, b)
			}
		}},
	}
	c44kit.Run(t, c44kit.Object{
		Name:  "chain",
		Ops:   ops,
		Fresh: fresh,
		Known: c44chainKnown,
	})
}

// open known findings of this part: while listed open in known_findings.json the
// two operations are never put into different goroutines of one program
var c44chainKnown = []c44kit.KnownPair{
	// Chain.SetRoundRank assigns the exported field Block.RoundRank of the cached block on every
	// AddNotarizedBlockToRound / AddRoundBlock (under the chain's blocksMutex only); Block.Clone reads it
	{Key: "block-round-rank-plain-field", A: "AddNotarizedBlockToRound", B: "GetBlockClone"},
	{Key: "block-round-rank-plain-field", A: "AddNotarizedBlockToRound", B: "finalize+GetRoundClone"},
	{Key: "block-round-rank-plain-field", A: "AddRoundBlock", B: "GetBlockClone"},
	{Key: "block-round-rank-plain-field", A: "AddRoundBlock", B: "finalize+GetRoundClone"},
	// Block.PrevBlock is an exported field: GetLocalPreviousBlock (and every other reader) reads it without
	// the mutex under which SetPreviousBlock / Clear write it
	{Key: "block-prev-block-plain-field", A: "GetLocalPreviousBlock", B: "AddBlock"},
	{Key: "block-prev-block-plain-field", A: "GetLocalPreviousBlock", B: "AddRoundBlock"},
	{Key: "block-prev-block-plain-field", A: "GetLocalPreviousBlock", B: "AddNotarizedBlockToRound"},
	{Key: "block-prev-block-plain-field", A: "GetLocalPreviousBlock", B: "finalizeBlock:deleteDeadBlocks"},
	{Key: "block-prev-block-plain-field", A: "GetLocalPreviousBlock", B: "PruneChain"},
	// Block.Clone (GetBlockClone, Round.Clone via GetRoundClone) vs ticket merge / state adoption / Clear of the cached block
	{Key: "block-clone-unguarded-fields", A: "GetBlockClone", B: "AddBlock"},
	{Key: "block-clone-unguarded-fields", A: "GetBlockClone", B: "AddRoundBlock"},
	{Key: "block-clone-unguarded-fields", A: "GetBlockClone", B: "AddNotarizedBlockToRound"},
	{Key: "block-clone-unguarded-fields", A: "GetBlockClone", B: "MergeVerificationTickets"},
	{Key: "block-clone-unguarded-fields", A: "GetBlockClone", B: "finalizeBlock:deleteDeadBlocks"},
	{Key: "block-clone-unguarded-fields", A: "GetBlockClone", B: "PruneChain"},
	{Key: "block-clone-unguarded-fields", A: "finalize+GetRoundClone", B: "AddBlock"},
	{Key: "block-clone-unguarded-fields", A: "finalize+GetRoundClone", B: "AddRoundBlock"},
	{Key: "block-clone-unguarded-fields", A: "finalize+GetRoundClone", B: "AddNotarizedBlockToRound"},
	{Key: "block-clone-unguarded-fields", A: "finalize+GetRoundClone", B: "MergeVerificationTickets"},
	{Key: "block-clone-unguarded-fields", A: "finalize+GetRoundClone", B: "finalizeBlock:deleteDeadBlocks"},
	{Key: "block-clone-unguarded-fields", A: "finalize+GetRoundClone", B: "PruneChain"},
	// Chain.LatestDeterministicBlock: finalizeBlock sets it with no lock, addBlock reads and sets it under blocksMutex
	{Key: "chain-latest-deterministic-block-unlocked", A: "SetLatestDeterministicBlock", B: "SetLatestDeterministicBlock"},
	{Key: "chain-latest-deterministic-block-unlocked", A: "SetLatestDeterministicBlock", B: "AddBlock"},
	{Key: "chain-latest-deterministic-block-unlocked", A: "SetLatestDeterministicBlock", B: "AddRoundBlock"},
	{Key: "chain-latest-deterministic-block-unlocked", A: "SetLatestDeterministicBlock", B: "AddNotarizedBlockToRound"},
	{Key: "chain-latest-deterministic-block-unlocked", A: "SetLatestDeterministicBlock", B: "PruneChain"},
	// Chain.SetRandomSeed and AddNotarizedBlockToRound call Round.GetNotarizedBlocks (no round lock)
	{Key: "round-notarized-blocks-read-without-lock", A: "SetRandomSeed", B: "AddNotarizedBlockToRound"},
	{Key: "round-notarized-blocks-read-without-lock", A: "AddRoundBlock", B: "AddNotarizedBlockToRound"},
	{Key: "round-notarized-blocks-read-without-lock", A: "AddNotarizedBlockToRound", B: "AddNotarizedBlockToRound"},
	// Round.Clone (GetRoundClone) vs SetTimeoutCount / SetRandomSeedForNotarizedBlock inside AddNotarizedBlockToRound
	{Key: "round-clone-unguarded-fields", A: "finalize+GetRoundClone", B: "AddNotarizedBlockToRound"},
}
