package chain

import (
	"bytes"
	"context"
	"encoding/json"
	"fmt"
	"net/http/httptest"
	"runtime"
	"strings"
	"sync"
	"testing"
	"time"

	"0chain.net/chaincore/block"
	"0chain.net/chaincore/node"
	"0chain.net/core/encryption"
	"0chain.net/core/viper"
	"pgregory.net/rapid"
	"verifharness/vkeys"
	"verifharness/vkit"
)

// C41: the latest finalized-block ticket a node reports never has a lower round
// than one it reported before, and a received ticket is only adopted when it is
// signed by a sharder of the current magic block.
//
// The real worker (StartLFBTicketWorker) runs in its own goroutine; received
// tickets go through the real HTTP handler function (LFBTicketHandler, JSON body
// built by the test), local blocks through BroadcastLFBTicket, the miner's
// "kick" through AddReceivedLFBTicket exactly as miner.bumpLFBTicket does.

const c41Timeout = 30 * time.Second

var c41once sync.Once

type c41ident struct {
	role  string
	idx   int
	tp    node.NodeType
	id    string
	sk    *encryption.BLS0ChainScheme
	name  string
	known bool // registered in the node registry
}

func c41mk(role string, tp node.NodeType, i int, name string, register bool) *c41ident {
	s := vkeys.BLS(vkit.Seed(), role, i)
	return &c41ident{role: role, idx: i, tp: tp, id: vkeys.ID(s.GetPublicKey()), sk: s, name: name, known: register}
}

// node builds a fresh (inactive: nothing is ever sent over the network) node object of the identity.
func (x *c41ident) node() *node.Node {
	n := node.Provider()
	n.Type = x.tp
	n.PublicKey = x.sk.GetPublicKey()
	if err := n.SetPublicKey(n.PublicKey); err != nil {
		panic(err)
	}
	n.Status = node.NodeStatusInactive
	return n
}

type c41rec struct {
	round      int64
	id, hash   string
	sign       string
	signer     string // class of the named signer
	sig        string // how the signature was made
	inCurMB    bool   // the named signer is a sharder of the magic block in force when the ticket was received
	sigOK      bool   // the signature verifies for the named signer over the ticket's own content (harness keys)
	acceptable bool
}

func c41hang(what string) string {
	buf := make([]byte, 1<<20)
	buf = buf[:runtime.Stack(buf, true)]
	return fmt.Sprintf("VERIF-HANG %s did not return within %v\n%s", what, c41Timeout, buf)
}

func TestC41_LFBTickets(t *testing.T) {
	c41once.Do(func() { SetupLFBTicketSender() })
	const knownKey = "non-sharder-signer-adopted"
	st := vkit.For("C41").SetRule("per case a fresh Chain with 1..3 magic blocks (sharder/miner pools drawn from 6+5 derived identities, self a sharder or a miner, in or out of the pool), the real StartLFBTicketWorker started on a drawn block, then 4..N steps; a step is a burst of 1..4 inputs issued one after the other or from concurrent goroutines (so the worker's drain loops see several queued items), or a move of the current round (possibly into the next magic block). Inputs: tickets through the real LFBTicketHandler (round near/below/far above the latest or extreme; named signer = sharder of the magic block in force / sharder registered but not in it / miner of it / other miner / registered node in no magic block / self / never-registered id / malformed id; signature valid / empty / garbage / made with another node's key / genuine but over another round / over another block hash; also undecodable bodies), BroadcastLFBTicket of local blocks, and the miner's unsigned kick through AddReceivedLFBTicket. After every step the harness waits until both worker queues are empty and does one GetLatestLFBTicket round trip (single worker goroutine). Oracle: reported round never decreases; a newly reported ticket is either the node's own ticket for a block it broadcast (signed by self), a kick object the harness passed, or content-equal to a ticket the harness sent whose named signer was a sharder of the magic block in force at that time and whose signature verifies under that sharder's key (harness owns all keys). Non-trivial = a case in which at least one received ticket was adopted and at least one inadmissible ticket with a round above the latest was offered; distinct by history")
	st.Assume("'current magic block' is Chain.GetCurrentMagicBlock() at the time the ticket is handed to the handler (lookup correctness is C40's subject); membership and signatures are judged from the harness' own key and pool records")
	st.Assume("node status of every generated node is inactive so that broadcasts never touch the network; the rebroadcast timer is drawn from {1h, 3ms}")

	// identities (the harness owns every key)
	var sharders, miners, outsiders, strangers []*c41ident
	for i := 0; i < 6; i++ {
		sharders = append(sharders, c41mk("sharder", node.NodeTypeSharder, i, fmt.Sprintf("S%d", i), true))
	}
	for i := 0; i < 5; i++ {
		miners = append(miners, c41mk("miner", node.NodeTypeMiner, i, fmt.Sprintf("M%d", i), true))
	}
	outsiders = append(outsiders,
		c41mk("c41out", node.NodeTypeSharder, 0, "O0(sharder-type)", true),
		c41mk("c41out", node.NodeTypeMiner, 1, "O1(miner-type)", true),
		c41mk("c41out", node.NodeTypeBlobber, 2, "O2(blobber-type)", true))
	for i := 0; i < 3; i++ {
		strangers = append(strangers, c41mk("c41stranger", node.NodeTypeSharder, i, fmt.Sprintf("X%d", i), false))
	}
	selfS := c41mk("c41self", node.NodeTypeSharder, 0, "SELF", true)
	selfM := c41mk("c41self", node.NodeTypeMiner, 1, "SELF", true)
	byID := map[string]*c41ident{}
	for _, l := range [][]*c41ident{sharders, miners, outsiders, strangers, {selfS, selfM}} {
		for _, x := range l {
			byID[x.id] = x
		}
	}

	rapid.Check(t, func(t *rapid.T) {
		// ---- world ----------------------------------------------------------
		selfIsSharder := rapid.IntRange(0, 3).Draw(t, "selfIsSharder") > 0
		self := selfM
		if selfIsSharder {
			self = selfS
		}
		selfNode := self.node()
		selfNode.Status = node.NodeStatusActive
		node.Self.Node = selfNode
		if err := node.Self.SetSignatureScheme(self.sk); err != nil {
			t.Fatalf("VERIF-HARNESS-ERROR %v", err)
		}
		// every case starts from the same registry content: all registered identities known, strangers never
		for _, l := range [][]*c41ident{sharders, miners, outsiders, {selfS, selfM}} {
			for _, x := range l {
				node.RegisterNode(x.node())
			}
		}
		for _, x := range strangers {
			if node.GetNode(x.id) != nil {
				t.Fatalf("VERIF-HARNESS-ERROR stranger %s is registered", x.name)
			}
		}
		rebroadcast := rapid.SampledFrom([]string{"1h", "1h", "3ms"}).Draw(t, "rebroadcast")
		viper.Set("server_chain.lfb_ticket.rebroadcast_timeout", rebroadcast)

		c := vChain()
		SetServerChain(c)
		nMB := rapid.IntRange(1, 3).Draw(t, "magicBlocks")
		starts := []int64{0}
		for i := 1; i < nMB; i++ {
			starts = append(starts, starts[i-1]+rapid.Int64Range(1, 30).Draw(t, "mbGap"))
		}
		mbSharders := map[string]map[string]bool{} // magic block hash -> sharder ids (harness record)
		mbMiners := map[string]map[string]bool{}
		var worldDesc []string
		for i := 0; i < nMB; i++ {
			mb := vMagicBlock(starts[i], int64(i+1))
			mb.Hash = fmt.Sprintf("c41-mb-%d", i)
			ns := rapid.IntRange(1, 4).Draw(t, "nSharders")
			nm := rapid.IntRange(1, 4).Draw(t, "nMiners")
			sp := rapid.Permutation(seqInts(len(sharders))).Draw(t, "sharderSet")[:ns]
			mp := rapid.Permutation(seqInts(len(miners))).Draw(t, "minerSet")[:nm]
			ss, ms := map[string]bool{}, map[string]bool{}
			var names []string
			for _, k := range sp {
				if err := mb.Sharders.AddNode(sharders[k].node()); err != nil {
					t.Fatalf("VERIF-HARNESS-ERROR %v", err)
				}
				ss[sharders[k].id] = true
				names = append(names, sharders[k].name)
			}
			for _, k := range mp {
				if err := mb.Miners.AddNode(miners[k].node()); err != nil {
					t.Fatalf("VERIF-HARNESS-ERROR %v", err)
				}
				ms[miners[k].id] = true
				names = append(names, miners[k].name)
			}
			if rapid.Bool().Draw(t, "selfInPool") {
				if selfIsSharder {
					_ = mb.Sharders.AddNode(selfNode)
					ss[self.id] = true
				} else {
					_ = mb.Miners.AddNode(selfNode)
					ms[self.id] = true
				}
				names = append(names, "SELF")
			}
			mbSharders[mb.Hash], mbMiners[mb.Hash] = ss, ms
			c.SetMagicBlock(mb)
			worldDesc = append(worldDesc, fmt.Sprintf("mb%d@%d%v", i, starts[i], names))
		}
		if cr := rapid.Int64Range(0, starts[nMB-1]+8).Draw(t, "currentRound"); cr > 0 {
			c.SetCurrentRound(cr)
		}
		curMB := func() *block.MagicBlock {
			mb := c.GetCurrentMagicBlock()
			if mb == nil || mbSharders[mb.Hash] == nil {
				t.Fatalf("VERIF-HARNESS-ERROR current magic block unknown to the harness")
			}
			return mb
		}

		ctx, cancel := context.WithCancel(context.Background())
		on := &block.Block{}
		on.Round = rapid.Int64Range(0, 40).Draw(t, "startRound")
		on.Hash = vHash(int(on.Round))
		workerStarted := false
		startWorker := func() {
			workerStarted = true
			go c.StartLFBTicketWorker(ctx, on)
		}
		defer func() {
			cancel()
			if !workerStarted {
				return
			}
			select {
			case <-c.lfbTickerWorkerIsDone:
			case <-time.After(c41Timeout):
				t.Fatalf("%s", c41hang("worker shutdown"))
			}
		}()
		// scheduling: with one P a goroutine that queues several items is not preempted by the worker
		procs := rapid.SampledFrom([]int{0, 0, 1, 2}).Draw(t, "gomaxprocs")
		if procs > 0 {
			defer runtime.GOMAXPROCS(runtime.GOMAXPROCS(procs))
		}

		// ---- observation ----------------------------------------------------
		get := func(what string) *LFBTicket {
			deadline := time.Now().Add(c41Timeout)
			for len(c.updateLFBTicket) > 0 || len(c.broadcastLFBTicket) > 0 {
				if time.Now().After(deadline) {
					t.Fatalf("%s", c41hang("draining the worker queues after "+what))
				}
				runtime.Gosched()
			}
			gctx, gcancel := context.WithTimeout(context.Background(), c41Timeout)
			defer gcancel()
			tk := c.GetLatestLFBTicket(gctx)
			if tk == nil {
				t.Fatalf("%s", c41hang("GetLatestLFBTicket after "+what))
			}
			return tk
		}
		// what the node reported last; before the first report a placeholder for the block the worker starts on
		latest := &LFBTicket{Round: on.Round}
		firstReport := true

		var (
			hist            []string
			recs            []*c41rec
			kicks           = map[*LFBTicket]bool{}
			bcasts          = map[string]bool{} // "round|hash" of blocks broadcast
			adoptedReceived int
			adoptedOwn      int
			adoptedKick     int
			inadmissibleUp  int
			knownHit        bool
			mbMoved         bool
			concurrentBurst bool
		)
		bcasts[fmt.Sprintf("%d|%s", on.Round, on.Hash)] = true
		allowKnownClass := !st.IsKnown(knownKey) || rapid.IntRange(0, 7).Draw(t, "sampleKnownClass") == 0

		verifyWith := func(x *c41ident, sign, hash string) bool {
			if x == nil {
				return false
			}
			pk := encryption.NewBLS0ChainScheme()
			if err := pk.SetPublicKey(x.sk.GetPublicKey()); err != nil {
				t.Fatalf("VERIF-HARNESS-ERROR %v", err)
			}
			ok, err := pk.Verify(sign, hash)
			return err == nil && ok
		}

		checkLatest := func(tk *LFBTicket, step string) {
			if !firstReport && tk.Round < latest.Round {
				t.Fatalf("%s", vkit.Violation("C41", "round-decreased", "latest ticket round went from %d to %d after %s; world %v; history %v", latest.Round, tk.Round, step, worldDesc, hist))
			}
			if tk == latest {
				return
			}
			firstReport = false
			switch {
			case tk.IsOwn:
				if !bcasts[fmt.Sprintf("%d|%s", tk.Round, tk.LFBHash)] || tk.SharderID != self.id || !verifyWith(self, tk.Sign, c41hash(tk)) {
					t.Fatalf("%s", vkit.Violation("C41", "own-ticket-not-authentic", "own ticket round %d hash %.8s signer %.8s is not a self-signed ticket of a block this node broadcast; history %v", tk.Round, tk.LFBHash, tk.SharderID, hist))
				}
				adoptedOwn++
			case kicks[tk]:
				adoptedKick++
			default:
				var match, good *c41rec
				for _, r := range recs {
					if r.round == tk.Round && r.id == tk.SharderID && r.hash == tk.LFBHash && r.sign == tk.Sign {
						match = r
						if r.acceptable {
							good = r
						}
					}
				}
				if match == nil {
					t.Fatalf("%s", vkit.Violation("C41", "adopted-ticket-never-received", "latest ticket {round %d signer %.8s hash %.8s sign %.12s} equals no ticket that was sent; history %v", tk.Round, tk.SharderID, tk.LFBHash, tk.Sign, hist))
				}
				// independent re-check of the adopted object itself
				who := byID[tk.SharderID]
				sigOK := verifyWith(who, tk.Sign, c41hash(tk))
				if good == nil || !sigOK {
					key := knownKey
					if !match.sigOK || !sigOK {
						key = "bad-signature-adopted"
					}
					if key == knownKey && st.Known(key) {
						knownHit = true
						st.Class("known/" + match.signer)
					} else {
						t.Fatalf("%s", vkit.Violation("C41", key, "adopted a received ticket {round %d} naming %s [%s], signature %s (verifies under the named key over round:signer:hash = %v; named signer was a sharder of the magic block in force when received = %v; magic block now in force %s); step %s; world %v; history %v", tk.Round, c41name(who), match.signer, match.sig, sigOK, match.inCurMB, c.GetCurrentMagicBlock().Hash, step, worldDesc, hist))
					}
				}
				adoptedReceived++
			}
			latest = tk
		}

		// ---- input generators -----------------------------------------------
		drawRound := func() int64 {
			switch rapid.IntRange(0, 19).Draw(t, "roundKind") {
			case 0:
				return rapid.SampledFrom([]int64{-1, 0, 1 << 62, -(1 << 62), latest.Round + 1000000}).Draw(t, "extremeRound")
			case 1, 2, 3, 4, 5:
				return latest.Round - rapid.Int64Range(0, 4).Draw(t, "below")
			default:
				return latest.Round + rapid.Int64Range(1, 6).Draw(t, "above")
			}
		}
		type input struct {
			desc string
			run  func()
		}
		drawTicket := func() input {
			mb := curMB()
			inS, inM := mbSharders[mb.Hash], mbMiners[mb.Hash]
			pick := func(pool []*c41ident, want func(*c41ident) bool) *c41ident {
				var cand []*c41ident
				for _, x := range pool {
					if want(x) {
						cand = append(cand, x)
					}
				}
				if len(cand) == 0 {
					return nil
				}
				return cand[rapid.IntRange(0, len(cand)-1).Draw(t, "who")]
			}
			signerClass := rapid.SampledFrom([]string{"cur-sharder", "cur-sharder", "cur-sharder", "other-sharder", "cur-miner", "cur-miner", "other-miner", "outsider", "self", "stranger", "malformed-id"}).Draw(t, "signer")
			var who *c41ident
			id := ""
			switch signerClass {
			case "cur-sharder":
				who = pick(sharders, func(x *c41ident) bool { return inS[x.id] })
			case "other-sharder":
				who = pick(sharders, func(x *c41ident) bool { return !inS[x.id] })
			case "cur-miner":
				who = pick(miners, func(x *c41ident) bool { return inM[x.id] })
			case "other-miner":
				who = pick(miners, func(x *c41ident) bool { return !inM[x.id] })
			case "outsider":
				who = pick(outsiders, func(*c41ident) bool { return true })
			case "self":
				who = self
			case "stranger":
				who = pick(strangers, func(*c41ident) bool { return true })
			case "malformed-id":
				id = rapid.SampledFrom([]string{"", "00", "zz-not-hex", strings.Repeat("f", 64)}).Draw(t, "badId")
			}
			if who == nil && signerClass != "malformed-id" {
				signerClass = "cur-sharder"
				who = pick(sharders, func(x *c41ident) bool { return inS[x.id] })
				if who == nil { // the pool holds only self
					signerClass, who = "self", self
				}
			}
			if who != nil {
				id = who.id
			}
			rnd := drawRound()
			hash := vHash(int(rapid.IntRange(0, 50).Draw(t, "hash")))
			sigKind := rapid.SampledFrom([]string{"valid", "valid", "valid", "empty", "garbage", "other-key", "other-round", "other-hash"}).Draw(t, "sig")
			inCur := who != nil && inS[who.id]
			if sigKind == "valid" && who != nil && who.known && !inCur && !allowKnownClass {
				sigKind = rapid.SampledFrom([]string{"empty", "garbage", "other-key", "other-round", "other-hash"}).Draw(t, "sigInsteadOfKnownClass")
			}
			tk := &LFBTicket{Round: rnd, SharderID: id, LFBHash: hash}
			signBy := func(x *c41ident, over *LFBTicket) string {
				s, err := x.sk.Sign(c41hash(over))
				if err != nil {
					t.Fatalf("VERIF-HARNESS-ERROR %v", err)
				}
				return s
			}
			signer := who
			if signer == nil {
				signer = strangers[0] // a malformed id has no key; somebody signs the content
			}
			switch sigKind {
			case "valid":
				tk.Sign = signBy(signer, tk)
			case "empty":
			case "garbage":
				tk.Sign = rapid.SampledFrom([]string{"00", "not-hex", strings.Repeat("ab", 32), strings.Repeat("0", 64)}).Draw(t, "garbage")
			case "other-key":
				// somebody else (a miner of the magic block, a stranger, self) signs a ticket that names `who`
				others := []*c41ident{strangers[1], self}
				for _, m := range miners {
					if inM[m.id] {
						others = append(others, m)
						break
					}
				}
				o := others[rapid.IntRange(0, len(others)-1).Draw(t, "forger")]
				if o == signer {
					o = strangers[2]
				}
				tk.Sign = signBy(o, tk)
			case "other-round":
				// a genuine signature of the named node over an older/other round, replayed with this round
				cp := *tk
				cp.Round = rnd - rapid.Int64Range(1, 5).Draw(t, "signedRoundDelta")
				tk.Sign = signBy(signer, &cp)
			case "other-hash":
				cp := *tk
				cp.LFBHash = vHash(51 + rapid.IntRange(0, 5).Draw(t, "signedHash"))
				tk.Sign = signBy(signer, &cp)
			}
			rec := &c41rec{round: rnd, id: id, hash: hash, sign: tk.Sign, signer: signerClass, sig: sigKind, inCurMB: inCur}
			rec.sigOK = who != nil && verifyWith(who, tk.Sign, c41hash(tk))
			if (sigKind == "valid") != rec.sigOK && who != nil {
				t.Fatalf("VERIF-HARNESS-ERROR signature kind %s but verifies=%v", sigKind, rec.sigOK)
			}
			rec.acceptable = rec.inCurMB && rec.sigOK
			recs = append(recs, rec)
			st.Class("signer/" + signerClass)
			st.Class("sig/" + sigKind)
			if !rec.acceptable && rnd > latest.Round {
				inadmissibleUp++
				st.Class("inadmissible_above_latest/" + signerClass + "+" + sigKind)
			}
			if rec.acceptable && rnd > latest.Round {
				st.Class("admissible_above_latest")
			}
			if rec.acceptable && rnd <= latest.Round {
				st.Class("admissible_stale")
			}
			body, err := json.Marshal(tk)
			if err != nil {
				t.Fatalf("VERIF-HARNESS-ERROR %v", err)
			}
			desc := fmt.Sprintf("recv{r%d %s[%s] sig=%s}", rnd, c41name(who), signerClass, sigKind)
			return input{desc: desc, run: func() {
				req := httptest.NewRequest("POST", "/v1/block/get/latest_finalized_ticket", bytes.NewReader(body))
				hctx, hcancel := context.WithTimeout(context.Background(), c41Timeout)
				defer hcancel()
				_, herr := LFBTicketHandler(hctx, req)
				if (herr == nil) != rec.acceptable {
					st.Class("handler_answer_differs_from_admissibility")
				}
			}}
		}
		drawInput := func() input {
			kind := rapid.IntRange(0, 11).Draw(t, "input")
			switch {
			case kind <= 6:
				return drawTicket()
			case (selfIsSharder && kind <= 10) || (!selfIsSharder && kind == 10):
				// a miner also calls BroadcastLFBTicket when it finalizes a block (a no-op for it)
				b := &block.Block{}
				b.Round = drawRound()
				b.Hash = vHash(int(rapid.IntRange(0, 50).Draw(t, "blockHash")))
				if selfIsSharder {
					bcasts[fmt.Sprintf("%d|%s", b.Round, b.Hash)] = true
				}
				st.Class("broadcast")
				return input{desc: fmt.Sprintf("broadcast{r%d}", b.Round), run: func() {
					bctx, bcancel := context.WithTimeout(context.Background(), c41Timeout)
					defer bcancel()
					c.BroadcastLFBTicket(bctx, b)
				}}
			case kind <= 9:
				// the miner's kick (miner.bumpLFBTicket): an unsigned ticket with only a round
				k := &LFBTicket{Round: drawRound()}
				kicks[k] = true
				st.Class("kick")
				return input{desc: fmt.Sprintf("kick{r%d}", k.Round), run: func() {
					kctx, kcancel := context.WithTimeout(context.Background(), c41Timeout)
					defer kcancel()
					c.AddReceivedLFBTicket(kctx, k)
				}}
			default:
				body := rapid.SampledFrom([]string{"", "{", `{"round":"7"}`, `[1,2]`, `{"round":1e40}`}).Draw(t, "badBody")
				st.Class("undecodable_body")
				return input{desc: fmt.Sprintf("recv{body %q}", body), run: func() {
					req := httptest.NewRequest("POST", "/v1/block/get/latest_finalized_ticket", strings.NewReader(body))
					_, _ = LFBTicketHandler(context.Background(), req)
				}}
			}
		}

		// ---- history ----------------------------------------------------------
		runInputs := func(step string, ins []input, conc bool) {
			done := make(chan struct{})
			go func() {
				defer close(done)
				if !conc {
					for _, in := range ins {
						in.run()
					}
					return
				}
				var wg sync.WaitGroup
				for _, in := range ins {
					wg.Add(1)
					go func(in input) { defer wg.Done(); in.run() }(in)
				}
				wg.Wait()
			}()
			select {
			case <-done:
			case <-time.After(c41Timeout):
				t.Fatalf("%s", c41hang("step "+step))
			}
		}
		// inputs that arrive before the worker goroutine runs wait in its (buffered) queues and are
		// drained in one go: the deterministic way to give the drain loops several items
		if n := rapid.IntRange(-3, 8).Draw(t, "queuedBeforeWorkerStarts"); n > 0 {
			var ins []input
			var descs []string
			for i := 0; i < n; i++ {
				in := drawInput()
				ins = append(ins, in)
				descs = append(descs, in.desc)
			}
			step := "queued-before-worker-start[" + strings.Join(descs, " ; ") + "]"
			hist = append(hist, step)
			runInputs(step, ins, false)
			if len(c.updateLFBTicket) > 1 {
				st.Class("received_queue_held_several_items_at_worker_start")
			}
			if len(c.broadcastLFBTicket) > 1 {
				st.Class("broadcast_queue_held_several_items_at_worker_start")
			}
		}
		startWorker()
		checkLatest(get("start"), "start")
		if len(hist) == 0 && (latest.Round != on.Round || !latest.IsOwn) {
			t.Fatalf("%s", vkit.Violation("C41", "initial-ticket", "worker started on round %d reports round %d own=%v", on.Round, latest.Round, latest.IsOwn))
		}
		nSteps := rapid.IntRange(4, vkit.Scale(24, 60)).Draw(t, "steps")
		for s := 0; s < nSteps; s++ {
			if nMB > 0 && rapid.IntRange(0, 9).Draw(t, "moveRound") == 0 {
				before := curMB().Hash
				nr := c.GetCurrentRound() + rapid.Int64Range(1, 25).Draw(t, "roundStep")
				c.SetCurrentRound(nr)
				step := fmt.Sprintf("currentRound=%d", nr)
				if curMB().Hash != before {
					mbMoved = true
					step += "(" + curMB().Hash + ")"
				}
				hist = append(hist, step)
				checkLatest(get(step), step)
				continue
			}
			n := rapid.IntRange(1, 4).Draw(t, "burst")
			conc := n > 1 && rapid.Bool().Draw(t, "concurrent")
			var ins []input
			var descs []string
			for i := 0; i < n; i++ {
				in := drawInput()
				ins = append(ins, in)
				descs = append(descs, in.desc)
			}
			step := strings.Join(descs, " ; ")
			if conc {
				step = "concurrently[" + strings.Join(descs, " | ") + "]"
				concurrentBurst = true
			}
			hist = append(hist, step)
			runInputs(step, ins, conc)
			if len(c.updateLFBTicket) > 1 || len(c.broadcastLFBTicket) > 1 {
				st.Class("queue_seen_holding_several_items_midstream")
			}
			prev := latest
			checkLatest(get(step), step)
			if latest == prev {
				st.Class("step_without_adoption")
			}
		}

		// ---- statistics ---------------------------------------------------------
		st.Case()
		if selfIsSharder {
			st.Class("self_sharder")
		} else {
			st.Class("self_miner")
		}
		st.ClassN("adopted_received", adoptedReceived)
		st.ClassN("adopted_own", adoptedOwn)
		st.ClassN("adopted_kick", adoptedKick)
		if mbMoved {
			st.Class("magic_block_changed_midstream")
		}
		if concurrentBurst {
			st.Class("case_with_concurrent_burst")
		}
		st.Class(fmt.Sprintf("gomaxprocs=%d", procs))
		if rebroadcast != "1h" {
			st.Class("rebroadcast_timer_firing")
		}
		nt := adoptedReceived > 0 && inadmissibleUp > 0
		if nt {
			st.NonTrivial(fmt.Sprint(worldDesc), fmt.Sprint(hist))
		}
		if st.WantSample(nt) {
			h := hist
			if len(h) > 12 {
				h = h[:12]
			}
			st.Sample(nt, map[string]interface{}{"world": worldDesc, "start_round": on.Round, "first_steps": h, "adopted_received": adoptedReceived, "adopted_own": adoptedOwn, "inadmissible_above_latest": inadmissibleUp, "final_round": latest.Round, "known_finding_hit": knownHit})
		}
	})
}

// c41hash is the harness' own statement of what an LFB ticket signature covers:
// the round, the issuing sharder and the block hash.
func c41hash(tk *LFBTicket) string {
	return encryption.Hash(fmt.Sprintf("%d:%s:%s", tk.Round, tk.SharderID, tk.LFBHash))
}

func c41name(x *c41ident) string {
	if x == nil {
		return "<no such node>"
	}
	return x.name
}
