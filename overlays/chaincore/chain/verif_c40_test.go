package chain

import (
	"fmt"
	"sort"
	"testing"

	"0chain.net/chaincore/block"
	"0chain.net/chaincore/round"
	"pgregory.net/rapid"
	"verifharness/vkit"
)

// C40 (chain part): Chain.GetMagicBlock(round) is the stored magic block with
// the greatest starting round not after the round (allowing for the view-change
// offset), or the latest one when none starts earlier; pruning the magic block
// storage the way the chain prunes it never changes the answer for rounds at or
// after the first retained entry.
func TestC40_ChainLookup(t *testing.T) {
	st := vkit.For("C40")
	rapid.Check(t, func(t *rapid.T) {
		c := vChain()
		c.MagicBlockStorage = round.NewRoundStartingStorage()
		ref := map[int64]*block.MagicBlock{}
		sorted := func() []int64 {
			var s []int64
			for k := range ref {
				s = append(s, k)
			}
			sort.Slice(s, func(i, j int) bool { return s[i] < s[j] })
			return s
		}
		want := func(r int64) *block.MagicBlock {
			q := r
			if q >= ViewChangeOffset+1 {
				q -= ViewChangeOffset
			}
			s := sorted()
			var found *block.MagicBlock
			for _, x := range s {
				if x <= q {
					found = ref[x]
				}
			}
			if found == nil {
				found = ref[s[len(s)-1]]
			}
			return found
		}
		var hist []string
		n := 0
		put := func(t *rapid.T, start int64) {
			n++
			mb := vMagicBlock(start, int64(n))
			c.SetMagicBlock(mb)
			ref[start] = mb
			hist = append(hist, fmt.Sprintf("SetMagicBlock(start=%d)", start))
		}
		put(t, rapid.SampledFrom([]int64{0, 0, 0, 1, 50}).Draw(t, "first"))
		pruned, inWindow := false, false
		check := func(t *rapid.T) {
			s := sorted()
			var qs []int64
			for _, x := range s {
				for d := int64(-1); d <= ViewChangeOffset+1; d++ {
					if x+d >= 0 {
						qs = append(qs, x+d)
					}
				}
			}
			qs = append(qs, rapid.Int64Range(0, 700).Draw(t, "q"))
			for _, q := range qs {
				got, exp := c.GetMagicBlock(q), want(q)
				if got != exp {
					t.Fatalf("%s", vkit.Violation("C40", "chain-lookup", "GetMagicBlock(%d) is the block starting at %d, the one in force starts at %d (stored %v); history %v", q, got.StartingRound, exp.StartingRound, s, hist))
				}
				if len(s) > 1 && q >= s[len(s)-1] && q < s[len(s)-1]+ViewChangeOffset {
					inWindow = true
				}
			}
			if got := c.GetLatestMagicBlock(); got != ref[s[len(s)-1]] {
				t.Fatalf("%s", vkit.Violation("C40", "chain-latest", "GetLatestMagicBlock starts at %d, latest stored %d; history %v", got.StartingRound, s[len(s)-1], hist))
			}
		}
		check(t)
		t.Repeat(map[string]func(*rapid.T){
			"set": func(t *rapid.T) {
				put(t, rapid.Int64Range(0, 600).Draw(t, "start"))
				check(t)
			},
			"setNext": func(t *rapid.T) {
				s := sorted()
				put(t, s[len(s)-1]+rapid.Int64Range(1, 120).Draw(t, "gap"))
				check(t)
			},
			"prune": func(t *rapid.T) {
				keep := rapid.IntRange(1, 5).Draw(t, "keep")
				if len(ref) <= keep {
					t.Skip("nothing to prune")
				}
				s := sorted()
				c.PruneRoundStorage(func(round.RoundStorage) int { return keep }, c.MagicBlockStorage)
				for _, x := range s[:len(s)-keep] {
					delete(ref, x)
				}
				pruned = true
				hist = append(hist, fmt.Sprintf("PruneRoundStorage(keep=%d)", keep))
				if got := c.MagicBlockStorage.Count(); got != keep {
					t.Fatalf("%s", vkit.Violation("C40", "chain-prune-count", "%d magic blocks stored after pruning to %d; history %v", got, keep, hist))
				}
				check(t)
			},
		})
		st.Case()
		nt := len(hist) >= 3 && inWindow
		if pruned {
			st.Class("chain_pruned")
		}
		if inWindow {
			st.Class("query_inside_view_change_offset_window")
		}
		if nt {
			st.NonTrivial("chain", fmt.Sprint(hist))
		}
		if st.WantSample(nt) {
			st.Sample(nt, map[string]interface{}{"kind": "chain-lookup", "ops": hist})
		}
	})
}
