package chain

import (
	"fmt"
	"sort"
	"testing"

	"0chain.net/chaincore/node"
	"pgregory.net/rapid"
	"verifharness/vkit"
)

// C42: for a block hash and a sharder set every node computes the same set of
// replicating sharders, independent of insertion order; with enough sharders the
// set has at least `replicators` members; with replication disabled everyone
// stores every block.
func TestC42_Replicators(t *testing.T) {
	st := vkit.For("C42").SetRule("two chain objects whose sharder pools hold the same 1..12 derived sharders inserted in two drawn orders (optionally re-adding one), drawn block hash (incl. hashes engineered to tie XOR scores) and replicator count -2..n+2; oracle: same replicator id set from CanShardBlockWithReplicators on both, agreement with IsBlockSharderFromHash for every sharder, size >= replicators when n >= replicators, everyone when replicators <= 0; non-trivial = n >= 2, 1 <= replicators <= n and different insertion orders; distinct by (ids, orders, hash, replicators)")
	rapid.Check(t, func(t *rapid.T) {
		n := rapid.IntRange(1, 12).Draw(t, "sharders")
		idx := rapid.Permutation(seqInts(30)).Draw(t, "which")[:n]
		order2 := rapid.Permutation(append([]int{}, idx...)).Draw(t, "order2")
		repl := rapid.IntRange(-2, n+2).Draw(t, "replicators")
		hashBytes := rapid.SliceOfN(rapid.Byte(), 32, 32).Draw(t, "hash")
		if rapid.IntRange(0, 3).Draw(t, "lowEntropyHash") == 0 {
			// few distinct bytes => many equal XOR scores => the tie-break decides
			b := rapid.Byte().Draw(t, "fill")
			for i := range hashBytes {
				hashBytes[i] = b
			}
		}
		hash := fmt.Sprintf("%x", hashBytes)
		build := func(order []int, reAdd bool) (*Chain, []*node.Node) {
			c := vChain()
			c.ChainConfig.(*ConfigImpl).conf.NumReplicators = repl
			mb := vMagicBlock(0, 1)
			for _, i := range order {
				if err := mb.Sharders.AddNode(vNode(node.NodeTypeSharder, i)); err != nil {
					t.Fatalf("VERIF-HARNESS-ERROR %v", err)
				}
			}
			if reAdd {
				if err := mb.Sharders.AddNode(vNode(node.NodeTypeSharder, order[len(order)-1])); err != nil {
					t.Fatalf("VERIF-HARNESS-ERROR %v", err)
				}
			}
			c.SetMagicBlock(mb)
			return c, mb.Sharders.CopyNodes()
		}
		c1, nodes1 := build(idx, false)
		c2, nodes2 := build(order2, rapid.Bool().Draw(t, "reAdd"))
		ids := func(c *Chain, nodes []*node.Node) []string {
			_, reps := c.CanShardBlockWithReplicators(10, hash, nodes[0])
			var out []string
			for _, r := range reps {
				out = append(out, r.GetKey())
			}
			sort.Strings(out)
			// each sharder's own answer must agree with membership in that set
			set := map[string]bool{}
			for _, k := range out {
				set[k] = true
			}
			for _, nd := range nodes {
				can, _ := c.CanShardBlockWithReplicators(10, hash, nd)
				is := c.IsBlockSharderFromHash(10, hash, nd)
				if can != is || (repl > 0 && can != set[nd.GetKey()]) {
					t.Fatalf("%s", vkit.Violation("C42", "self-answer-disagrees", "sharder %s: CanShardBlock=%v IsBlockSharder=%v in replicator set=%v (n=%d replicators=%d)", nd.GetKey()[:8], can, is, set[nd.GetKey()], n, repl))
				}
			}
			return out
		}
		s1, s2 := ids(c1, nodes1), ids(c2, nodes2)
		if fmt.Sprint(s1) != fmt.Sprint(s2) {
			t.Fatalf("%s", vkit.Violation("C42", "order-dependent", "replicator sets differ between insertion orders %v / %v: %d vs %d members (hash %s, replicators %d)", idx, order2, len(s1), len(s2), hash[:16], repl))
		}
		again := ids(c1, nodes1)
		if fmt.Sprint(again) != fmt.Sprint(s1) {
			t.Fatalf("%s", vkit.Violation("C42", "not-repeatable", "two calls give different replicator sets"))
		}
		if repl <= 0 && len(s1) != n {
			t.Fatalf("%s", vkit.Violation("C42", "disabled-not-everyone", "replication disabled (%d) but only %d of %d sharders store the block", repl, len(s1), n))
		}
		if repl > 0 && n >= repl && len(s1) < repl {
			t.Fatalf("%s", vkit.Violation("C42", "too-few-replicators", "%d sharders, %d replicators configured, only %d chosen", n, repl, len(s1)))
		}
		st.Case()
		nt := n >= 2 && repl >= 1 && repl <= n && fmt.Sprint(idx) != fmt.Sprint(order2)
		if len(s1) > repl && repl > 0 {
			st.Class("score_tie_at_cutoff")
		}
		if repl <= 0 {
			st.Class("replication_disabled")
		}
		if repl > n {
			st.Class("more_replicators_than_sharders")
		}
		if nt {
			st.NonTrivial(fmt.Sprint(idx), fmt.Sprint(order2), hash, repl)
		}
		if st.WantSample(nt) {
			st.Sample(nt, map[string]interface{}{"sharders": idx, "order2": order2, "hash": hash, "replicators": repl, "chosen": len(s1)})
		}
	})
}
