package chain

import (
	"fmt"
	"sort"
	"testing"

	"0chain.net/chaincore/block"
	"0chain.net/chaincore/node"
	"pgregory.net/rapid"
	"verifharness/vkit"
)

// C42: for a block hash and a sharder set every node computes the same set of
// replicating sharders, independent of insertion order; with enough sharders the
// set has at least `replicators` members; with replication disabled everyone
// stores every block.
func TestC42_Replicators(t *testing.T) {
	st := vkit.For("C42").SetRule("per case 1..3 magic blocks (starting rounds 0, S1, S2) whose sharder pools are drawn subsets of 14 derived sharders (often equal size, different members); two long-lived chain objects hold the same magic blocks with sharders inserted in two drawn orders (optionally re-adding one); then 3..8 queries (round biased to the view-change-offset window around each starting round, block hash drawn from a small pool so hashes repeat across rounds, incl. low-entropy hashes forcing XOR-score ties) with replicator count -2..n+2; oracle: replicator id set from CanShardBlockWithReplicators equal on both chains, equal to the set computed by a fresh chain that only knows the magic block in force, agreeing with IsBlockSharderFromHash and IsBlockSharder for every sharder; size >= replicators when n >= replicators; everyone when replicators <= 0; non-trivial = query with n >= 2 sharders, 1 <= replicators <= n and different insertion orders; distinct by (pools, orders, round, hash, replicators)")
	rapid.Check(t, func(t *rapid.T) {
		repl := rapid.IntRange(-2, 8).Draw(t, "replicators")
		nMB := rapid.IntRange(1, 3).Draw(t, "magicBlocks")
		starts := []int64{0}
		for i := 1; i < nMB; i++ {
			starts = append(starts, starts[i-1]+rapid.Int64Range(1, 60).Draw(t, "gap"))
		}
		sameSize := rapid.Bool().Draw(t, "sameSize")
		size0 := rapid.IntRange(1, 10).Draw(t, "sharders")
		pools := make([][]int, nMB)
		orders2 := make([][]int, nMB)
		for i := range pools {
			n := size0
			if !sameSize {
				n = rapid.IntRange(1, 10).Draw(t, "sharders")
			}
			pools[i] = rapid.Permutation(seqInts(14)).Draw(t, "which")[:n]
			orders2[i] = rapid.Permutation(append([]int{}, pools[i]...)).Draw(t, "order2")
		}
		mkChain := func(orders [][]int, only int, reAdd bool) *Chain {
			c := vChain()
			c.ChainConfig.(*ConfigImpl).conf.NumReplicators = repl
			for i, order := range orders {
				if only >= 0 && i != only {
					continue
				}
				mb := vMagicBlock(starts[i], int64(i+1))
				for _, k := range order {
					if err := mb.Sharders.AddNode(vNode(node.NodeTypeSharder, k)); err != nil {
						t.Fatalf("VERIF-HARNESS-ERROR %v", err)
					}
				}
				if reAdd {
					if err := mb.Sharders.AddNode(vNode(node.NodeTypeSharder, order[len(order)-1])); err != nil {
						t.Fatalf("VERIF-HARNESS-ERROR %v", err)
					}
				}
				if only >= 0 {
					mb.StartingRound = 0
				}
				c.SetMagicBlock(mb)
			}
			return c
		}
		c1 := mkChain(pools, -1, false)
		c2 := mkChain(orders2, -1, rapid.Bool().Draw(t, "reAdd"))
		hashPool := make([]string, rapid.IntRange(1, 3).Draw(t, "hashes"))
		for i := range hashPool {
			hb := rapid.SliceOfN(rapid.Byte(), 32, 32).Draw(t, "hash")
			if rapid.IntRange(0, 3).Draw(t, "lowEntropyHash") == 0 {
				b := rapid.Byte().Draw(t, "fill")
				for k := range hb {
					hb[k] = b
				}
			}
			hashPool[i] = fmt.Sprintf("%x", hb)
		}
		ids := func(c *Chain, rnd int64, hash string) []string {
			nodes := c.GetMagicBlock(rnd).Sharders.CopyNodes()
			_, reps := c.CanShardBlockWithReplicators(rnd, hash, nodes[0])
			var out []string
			set := map[string]bool{}
			for _, r := range reps {
				out = append(out, r.GetKey())
				set[r.GetKey()] = true
			}
			sort.Strings(out)
			blk := &block.Block{}
			blk.Round = rnd
			blk.Hash = hash
			for _, nd := range nodes {
				can, _ := c.CanShardBlockWithReplicators(rnd, hash, nd)
				is := c.IsBlockSharderFromHash(rnd, hash, nd)
				isb := c.IsBlockSharder(blk, nd)
				if can != is || can != isb || (repl > 0 && can != set[nd.GetKey()]) {
					t.Fatalf("%s", vkit.Violation("C42", "self-answer-disagrees", "round %d sharder %s: CanShardBlock=%v IsBlockSharderFromHash=%v IsBlockSharder=%v in replicator set=%v (replicators=%d, magic blocks start at %v)", rnd, nd.GetKey()[:8], can, is, isb, set[nd.GetKey()], repl, starts))
				}
			}
			return out
		}
		nq := rapid.IntRange(3, 8).Draw(t, "queries")
		for q := 0; q < nq; q++ {
			base := starts[rapid.IntRange(0, nMB-1).Draw(t, "near")]
			rnd := base + rapid.Int64Range(-2, ViewChangeOffset+2).Draw(t, "delta")
			if rnd < 0 {
				rnd = 0
			}
			hash := rapid.SampledFrom(hashPool).Draw(t, "h")
			// magic block in force (reference floor lookup with the view-change offset)
			qr := rnd
			if qr >= ViewChangeOffset+1 {
				qr -= ViewChangeOffset
			}
			inForce := 0
			for i, s := range starts {
				if s <= qr {
					inForce = i
				}
			}
			n := len(pools[inForce])
			s1, s2 := ids(c1, rnd, hash), ids(c2, rnd, hash)
			fresh := ids(mkChain(pools, inForce, false), 0, hash)
			what := fmt.Sprintf("round %d (magic block %d of %v in force, %d sharders) hash %s replicators %d", rnd, inForce, starts, n, hash[:12], repl)
			if fmt.Sprint(s1) != fmt.Sprint(s2) {
				t.Fatalf("%s", vkit.Violation("C42", "order-dependent", "replicator sets differ between insertion orders: %d vs %d members :: %s", len(s1), len(s2), what))
			}
			if fmt.Sprint(s1) != fmt.Sprint(fresh) {
				t.Fatalf("%s", vkit.Violation("C42", "history-dependent", "a long-running node computes %d replicators %v, a fresh node that only knows the magic block in force computes %d %v :: %s", len(s1), short(s1), len(fresh), short(fresh), what))
			}
			if repl <= 0 && len(s1) != n {
				t.Fatalf("%s", vkit.Violation("C42", "disabled-not-everyone", "replication disabled but only %d of %d sharders store the block :: %s", len(s1), n, what))
			}
			if repl > 0 && n >= repl && len(s1) < repl {
				t.Fatalf("%s", vkit.Violation("C42", "too-few-replicators", "only %d chosen :: %s", len(s1), what))
			}
			st.Case()
			nt := n >= 2 && repl >= 1 && repl <= n && fmt.Sprint(pools[inForce]) != fmt.Sprint(orders2[inForce])
			if len(s1) > repl && repl > 0 {
				st.Class("score_tie_at_cutoff")
			}
			if repl <= 0 {
				st.Class("replication_disabled")
			}
			if repl > n {
				st.Class("more_replicators_than_sharders")
			}
			if nMB > 1 && rnd >= starts[1] && rnd < starts[1]+ViewChangeOffset {
				st.Class("round_inside_view_change_offset_window")
			}
			if nt {
				st.NonTrivial(fmt.Sprint(pools), fmt.Sprint(orders2), rnd, hash, repl)
			}
			if st.WantSample(nt) {
				st.Sample(nt, map[string]interface{}{"query": what, "pools": pools, "chosen": len(s1)})
			}
		}
	})
}

func short(ids []string) []string {
	out := make([]string, len(ids))
	for i, s := range ids {
		out[i] = s[:6]
	}
	return out
}
