package state

import (
	"context"
	"fmt"
	"math"
	"testing"

	"0chain.net/chaincore/block"
	"0chain.net/chaincore/transaction"
	"0chain.net/core/encryption"
	"github.com/0chain/common/core/statecache"
	"github.com/0chain/common/core/util"
	"pgregory.net/rapid"
	"verifharness/vkit"
)

// C43: behaviour gated by a named hard fork uses the pre-fork rules for every
// block before the fork's recorded round and the post-fork rules from that round
// on; a fork that was never recorded keeps the pre-fork rules.

func c43ctx(db util.NodeDB, root util.Key, round int64) (*StateContext, *util.MerklePatriciaTrie) {
	ldb := util.NewLevelNodeDB(util.NewMemoryNodeDB(), db, false)
	mpt := util.NewMerklePatriciaTrie(ldb, util.Sequence(round), root, statecache.NewEmpty())
	b := &block.Block{}
	b.Round = round
	t := &transaction.Transaction{}
	t.Hash = encryption.Hash("c43")
	return NewStateContext(b, mpt, t, nil, nil, nil, nil, nil, nil), mpt
}

type c43filler struct{ V string }

func (f *c43filler) MarshalMsg(b []byte) ([]byte, error) { return append(b, []byte(f.V)...), nil }
func (f *c43filler) UnmarshalMsg(b []byte) ([]byte, error) {
	f.V = string(b)
	return nil, nil
}

func TestC43_Activation(t *testing.T) {
	st := vkit.For("C43").SetRule("per case: 1..3 chain states (each with its own node DB) with 0..3 of the fork names recorded at drawn rounds (0, r, MaxInt64-1, ...) among 0..20 filler keys; then a drawn sequence of 3..12 evaluations WithActivation(name, state, block round) in one process, block rounds biased to r-1, r, r+1 and drawn in any order (later blocks before earlier ones, different states interleaved); 1 in 5 evaluations runs on a copy of the state with one trie node removed (fault): there the code may refuse (error, neither rule set) but must never run the wrong rule set; non-trivial = sequence containing an evaluation at r-1, r or r+1 of a recorded fork after an evaluation of a later round of the same name; distinct by sequence fingerprint")
	rapid.Check(t, func(t *rapid.T) {
		names := []string{"demeter", "electra", "apollo"}
		type world struct {
			db     *util.MemoryNodeDB
			root   util.Key
			rounds map[string]int64
		}
		nWorlds := rapid.IntRange(1, 3).Draw(t, "states")
		worlds := make([]*world, nWorlds)
		for wi := range worlds {
			w := &world{db: util.NewMemoryNodeDB(), rounds: map[string]int64{}}
			sc, mpt := c43ctx(w.db, nil, 1)
			nf := rapid.IntRange(0, 20).Draw(t, "fillers")
			for i := 0; i < nf; i++ {
				if _, err := sc.InsertTrieNode(fmt.Sprintf("filler:%d:%d", wi, i), &c43filler{V: fmt.Sprint(i)}); err != nil {
					t.Fatalf("VERIF-HARNESS-ERROR %v", err)
				}
			}
			for _, nm := range names {
				if rapid.IntRange(0, 2).Draw(t, "recorded") == 0 {
					continue
				}
				r := rapid.SampledFrom([]int64{0, 1, 2, 100, 5000, math.MaxInt64 - 1}).Draw(t, "forkRound")
				if rapid.Bool().Draw(t, "otherRound") {
					r = rapid.Int64Range(0, 10000).Draw(t, "forkRoundX")
				}
				hf := NewHardFork(nm, r)
				if _, err := sc.InsertTrieNode(hf.GetKey(), hf); err != nil {
					t.Fatalf("VERIF-HARNESS-ERROR %v", err)
				}
				w.rounds[nm] = r
			}
			if err := mpt.SaveChanges(context.Background(), w.db, false); err != nil {
				t.Fatalf("VERIF-HARNESS-ERROR %v", err)
			}
			w.root = mpt.GetRoot()
			worlds[wi] = w
		}
		nEval := rapid.IntRange(3, 12).Draw(t, "evaluations")
		var hist []string
		lastRound := map[string]int64{}
		nontrivial := false
		for e := 0; e < nEval; e++ {
			wi := rapid.IntRange(0, nWorlds-1).Draw(t, "state")
			w := worlds[wi]
			nm := rapid.SampledFrom(names).Draw(t, "name")
			fr, recorded := w.rounds[nm]
			var br int64
			if recorded && rapid.IntRange(0, 3).Draw(t, "nearFork") > 0 {
				br = fr + rapid.Int64Range(-1, 1).Draw(t, "delta")
				if br < 0 {
					br = 0
				}
			} else {
				br = rapid.SampledFrom([]int64{0, 1, 99, 100, 101, 4999, 5000, 5001, 20000, math.MaxInt64 - 2}).Draw(t, "blockRound")
			}
			fault := rapid.IntRange(0, 4).Draw(t, "fault") == 0
			var db util.NodeDB = w.db
			if fault {
				// copy of the node DB with one drawn node missing
				cp := util.NewMemoryNodeDB()
				var keys []util.Key
				_ = w.db.Iterate(context.Background(), func(ctx context.Context, key util.Key, node util.Node) error {
					keys = append(keys, key)
					return cp.PutNode(key, node)
				})
				if len(keys) > 0 {
					// deterministic order for replay
					sortKeys(keys)
					_ = cp.DeleteNode(keys[rapid.IntRange(0, len(keys)-1).Draw(t, "missingNode")])
				}
				db = cp
			}
			sc, _ := c43ctx(db, w.root, br)
			ran := ""
			err := WithActivation(sc, nm, func() error { ran += "before"; return nil }, func() error { ran += "after"; return nil })
			want := "before"
			if recorded && br >= fr {
				want = "after"
			}
			hist = append(hist, fmt.Sprintf("state%d %s(fork=%v@%d) block=%d fault=%v -> %s err=%v", wi, nm, recorded, fr, br, fault, ran, err))
			switch {
			case ran == want && err == nil:
			case fault && ran == "" && err != nil:
				// refused on an incomplete state: acceptable
				st.Class("fault_refused")
			default:
				key := "wrong-rules"
				if fault {
					key = "wrong-rules-on-incomplete-state"
				}
				t.Fatalf("%s", vkit.Violation("C43", key, "%s, fork recorded=%v at round %d, block round %d: ran %q (err=%v), want %q; sequence %v", nm, recorded, fr, br, ran, err, want, hist))
			}
			if lr, ok := lastRound[nm]; ok && recorded && lr > br && br >= fr-1 && br <= fr+1 {
				nontrivial = true
			}
			if br > lastRound[nm] {
				lastRound[nm] = br
			}
			if recorded && (br == fr || br == fr-1 || br == fr+1) {
				st.Class("block_round_at_fork_boundary")
			}
			if !recorded {
				st.Class("fork_unrecorded")
			}
		}
		st.Case()
		if nontrivial {
			st.NonTrivial(fmt.Sprint(hist))
		}
		if st.WantSample(nontrivial) {
			st.Sample(nontrivial, hist)
		}
	})
}

func sortKeys(keys []util.Key) {
	for i := 1; i < len(keys); i++ {
		for j := i; j > 0 && string(keys[j]) < string(keys[j-1]); j-- {
			keys[j], keys[j-1] = keys[j-1], keys[j]
		}
	}
}
