package chain

import (
	"fmt"
	"testing"

	"0chain.net/chaincore/block"
	"0chain.net/chaincore/node"
	"verifharness/vkeys"
	"verifharness/vkit"
	"verifharness/vlog"
)

func TestMain(m *testing.M) {
	vlog.Quiet()
	vkit.Main(m)
}

// vChain returns a chain object as the entity provider builds it (no state DB).
func vChain() *Chain { return Provider().(*Chain) }

func vNode(tp node.NodeType, i int) *node.Node {
	role := "miner"
	if tp == node.NodeTypeSharder {
		role = "sharder"
	}
	s := vkeys.BLS(vkit.Seed(), role, i)
	n := node.Provider()
	n.Type = tp
	n.PublicKey = s.GetPublicKey()
	if err := n.SetPublicKey(n.PublicKey); err != nil {
		panic(err)
	}
	return n
}

func vHash(i int) string { return fmt.Sprintf("%064x", i+1) }

func vMagicBlock(start int64, num int64) *block.MagicBlock {
	mb := block.NewMagicBlock()
	mb.StartingRound = start
	mb.MagicBlockNumber = num
	mb.Miners = node.NewPool(node.NodeTypeMiner)
	mb.Sharders = node.NewPool(node.NodeTypeSharder)
	mb.Hash = fmt.Sprintf("mb-%d-%d", num, start)
	return mb
}

func seqInts(n int) []int {
	s := make([]int, n)
	for i := range s {
		s[i] = i
	}
	return s
}
