package transaction

import (
	"testing"

	"0chain.net/chaincore/client"
	"0chain.net/core/config"
	"0chain.net/core/datastore"
	"verifharness/vkit"
	"verifharness/vlog"
)

func TestMain(m *testing.M) {
	vlog.Quiet()
	config.SetServerChainID("")
	SetTxnTimeout(600) // server_chain.transaction.timeout as shipped
	md := datastore.MetadataProvider()
	md.Name = "client"
	md.Provider = client.Provider
	datastore.RegisterEntityMetadata("client", md)
	vkit.Main(m)
}
