package transaction

import "bytes"

func bytesReader(b []byte) *bytes.Reader { return bytes.NewReader(b) }
