package transaction

import (
	"context"
	"encoding/hex"
	"encoding/json"
	"fmt"
	"math"
	"testing"

	"0chain.net/chaincore/client"
	"0chain.net/core/common"
	"0chain.net/core/encryption"
	"github.com/0chain/common/core/currency"
	"pgregory.net/rapid"
	"verifharness/vkeys"
	"verifharness/vkit"
)

// C30: a transaction is accepted only if its hash is the hash of its contents
// and its signature verifies under the public key whose hash is its client id;
// altering any field that changes what the transaction does or costs (time,
// nonce, sender, recipient, value, data, fee, type) invalidates it.

// c30accept is the acceptance pipeline of a received transaction: wire JSON ->
// decode -> ComputeProperties -> Validate.
func c30accept(wire []byte) error {
	t := Provider().(*Transaction)
	if err := json.Unmarshal(wire, t); err != nil {
		return fmt.Errorf("decode: %v", err)
	}
	if err := t.ComputeProperties(); err != nil {
		return fmt.Errorf("properties: %v", err)
	}
	return t.Validate(context.Background())
}

// c30acceptInBlock is the acceptance of transactions that arrive inside a block, as the miner's
// ValidateTransactions runs it: decode, ComputeProperties, ValidateWrtTimeForBlock(block time, !aggregate), and with
// an aggregate client signature scheme one batched check over (signature, hash) of all transactions.
func c30acceptInBlock(scheme string, wires [][]byte, blockTime common.Timestamp, batch int) error {
	ctx := context.Background()
	agg := encryption.GetAggregateSignatureScheme(scheme, len(wires), batch)
	for i, w := range wires {
		t := Provider().(*Transaction)
		if err := json.Unmarshal(w, t); err != nil {
			return fmt.Errorf("decode: %v", err)
		}
		if err := t.ComputeProperties(); err != nil {
			return fmt.Errorf("properties: %v", err)
		}
		if t.OutputHash == "" {
			return fmt.Errorf("no output hash")
		}
		if err := t.ValidateWrtTimeForBlock(ctx, blockTime, agg == nil); err != nil {
			return err
		}
		if agg != nil {
			ss, err := t.GetSignatureScheme(ctx)
			if err != nil {
				return err
			}
			if err := agg.Aggregate(ss, i, t.Signature, t.Hash); err != nil {
				return err
			}
		}
	}
	if agg != nil {
		if ok, err := agg.Verify(); err != nil {
			return err
		} else if !ok {
			return fmt.Errorf("aggregate signature check failed")
		}
	}
	return nil
}

func c30scheme(name string, i int) encryption.SignatureScheme {
	if name == encryption.SignatureSchemeEd25519 {
		return vkeys.ED(vkit.Seed(), "txn", i)
	}
	return vkeys.BLS(vkit.Seed(), "txn", i)
}

func c30id(s encryption.SignatureScheme) string {
	b, _ := hex.DecodeString(s.GetPublicKey())
	return encryption.Hash(b)
}

func TestC30_SignatureBindsFields(t *testing.T) {
	st := vkit.For("C30").SetRule("transactions of every type (send / data / smart contract with JSON call data) with drawn fields (values incl. 0, 2^53, 2^63-1, 2^63, 2^64-1), both signature schemes, optional pre-registration of sender or victim in the client cache (with and without a decoded scheme); the signed transaction must pass wire-decode + ComputeProperties + Validate; then one generated tampering of one field (creation date, nonce, client id, public key, client id+public key, recipient, value, data, fee, type, hash, signature), either leaving the hash as signed or recomputing it over the new contents; oracle: the tampered transaction is rejected; non-trivial = every tampered case; distinct by (fields, tampering)")
	rapid.Check(t, func(t *rapid.T) {
		name := rapid.SampledFrom([]string{encryption.SignatureSchemeBls0chain, encryption.SignatureSchemeEd25519}).Draw(t, "scheme")
		client.SetClientSignatureScheme(name)
		si := rapid.IntRange(0, 20).Draw(t, "sender")
		oi := (si + 1 + rapid.IntRange(0, 5).Draw(t, "other")) % 30
		if oi == si {
			oi = si + 1
		}
		sender, other := c30scheme(name, si), c30scheme(name, oi)
		txn := Provider().(*Transaction)
		txn.ClientID = c30id(sender)
		txn.PublicKey = sender.GetPublicKey()
		txn.ToClientID = c30id(c30scheme(name, 25+rapid.IntRange(0, 4).Draw(t, "to")))
		txn.Nonce = rapid.Int64Range(1, 1<<40).Draw(t, "nonce")
		txn.Value = currency.Coin(rapid.SampledFrom([]uint64{0, 1, 5, 1 << 53, math.MaxInt64 - 1, math.MaxInt64, 1 << 63, 1<<63 + 7, math.MaxUint64 - 1, math.MaxUint64}).Draw(t, "value"))
		if rapid.Bool().Draw(t, "randomValue") {
			txn.Value = currency.Coin(rapid.Uint64().Draw(t, "valueX"))
		}
		txn.Fee = currency.Coin(rapid.Uint64Range(0, 1e10).Draw(t, "fee"))
		txn.TransactionType = rapid.SampledFrom([]int{TxnTypeSend, TxnTypeData, TxnTypeSmartContract}).Draw(t, "type")
		scData := fmt.Sprintf(`{"name":"%s","input":{"k":%d}}`, rapid.SampledFrom([]string{"pour", "transfer", "add_miner"}).Draw(t, "fn"), rapid.IntRange(0, 99).Draw(t, "arg"))
		if txn.TransactionType == TxnTypeSmartContract || rapid.Bool().Draw(t, "jsonData") {
			txn.TransactionData = scData
		} else {
			txn.TransactionData = rapid.StringN(0, 20, 60).Draw(t, "data")
		}
		txn.CreationDate = common.Now() - common.Timestamp(rapid.IntRange(0, 3).Draw(t, "age"))
		if _, err := txn.Sign(sender); err != nil {
			t.Fatalf("VERIF-HARNESS-ERROR sign: %v", err)
		}
		// state of the client cache before the transaction arrives
		cacheMode := rapid.SampledFrom([]string{"empty", "sender-registered-no-scheme", "sender-with-scheme", "other-registered-no-scheme"}).Draw(t, "clientCache")
		prime := func(s encryption.SignatureScheme, withScheme bool) {
			co := client.Provider().(*client.Client)
			if withScheme {
				_ = co.SetPublicKey(s.GetPublicKey())
			} else {
				// as a client read from the store / registered through the REST handler: id and key text only
				co.ID = c30id(s)
				co.PublicKey = s.GetPublicKey()
			}
			_ = client.PutClientCache(co)
		}
		switch cacheMode {
		case "sender-registered-no-scheme":
			prime(sender, false)
		case "sender-with-scheme":
			prime(sender, true)
		case "other-registered-no-scheme":
			prime(other, false)
		}
		wire, _ := json.Marshal(txn)
		st.Case()
		if err := c30accept(wire); err != nil {
			t.Fatalf("%s", vkit.Violation("C30", "valid-transaction-rejected", "a correctly signed transaction is rejected: %v :: %s", err, wire))
		}
		// ---- one tampering
		var doc map[string]interface{}
		dec := json.NewDecoder(bytesReader(wire))
		dec.UseNumber()
		if err := dec.Decode(&doc); err != nil {
			t.Fatalf("VERIF-HARNESS-ERROR %v", err)
		}
		kind := rapid.SampledFrom([]string{"creation_date", "nonce", "client_id", "public_key", "client_id+public_key", "to_client_id", "value", "value-high", "data", "fee", "type", "hash", "signature", "signature-other-key"}).Draw(t, "tamper")
		rehash := rapid.Bool().Draw(t, "recomputeHash")
		// where the tampered transaction shows up: put by a client, or inside a block among other transactions
		path := rapid.SampledFrom([]string{"put", "block", "put"}).Draw(t, "path")
		var blockWires [][]byte
		pos, batch := 0, 1
		if path == "block" {
			txn.OutputHash = txn.ComputeOutputHash()
			wire, _ = json.Marshal(txn)
			k := rapid.IntRange(0, 2).Draw(t, "companions")
			pos = rapid.IntRange(0, k).Draw(t, "position")
			batch = rapid.IntRange(1, k+1).Draw(t, "batch")
			for i := 0; i <= k; i++ {
				if i == pos {
					blockWires = append(blockWires, wire)
					continue
				}
				cs := c30scheme(name, 40+i)
				c := Provider().(*Transaction)
				c.ClientID, c.PublicKey = c30id(cs), cs.GetPublicKey()
				c.ToClientID = txn.ToClientID
				c.Nonce, c.Value, c.CreationDate = int64(i+1), currency.Coin(i), txn.CreationDate
				c.TransactionData = fmt.Sprintf("companion %d", i)
				if _, err := c.Sign(cs); err != nil {
					t.Fatalf("VERIF-HARNESS-ERROR sign: %v", err)
				}
				c.OutputHash = c.ComputeOutputHash()
				cw, _ := json.Marshal(c)
				blockWires = append(blockWires, cw)
			}
			if err := c30acceptInBlock(name, blockWires, common.Now(), batch); err != nil {
				t.Fatalf("%s", vkit.Violation("C30", "valid-transaction-rejected-in-block", "a block of correctly signed transactions is rejected: %v :: %s", err, blockWires))
			}
		}
		tt := Provider().(*Transaction)
		_ = json.Unmarshal(wire, tt)
		field := kind
		switch kind {
		case "creation_date":
			tt.CreationDate += common.Timestamp(rapid.SampledFrom([]int{-2, -1, 1, 2}).Draw(t, "d"))
		case "nonce":
			tt.Nonce += int64(rapid.SampledFrom([]int{-1, 1, 100}).Draw(t, "d"))
			if tt.Nonce <= 0 {
				tt.Nonce = txn.Nonce + 1
			}
		case "client_id":
			tt.ClientID = c30id(other) // victim's id, attacker's key stays
		case "public_key":
			tt.PublicKey = other.GetPublicKey()
		case "client_id+public_key":
			tt.ClientID, tt.PublicKey = c30id(other), other.GetPublicKey()
		case "to_client_id":
			tt.ToClientID = c30id(c30scheme(name, 24))
		case "value":
			tt.Value = txn.Value + currency.Coin(rapid.SampledFrom([]uint64{1, 2, 1000, math.MaxUint64}).Draw(t, "d")) // wraps on purpose
		case "value-high":
			field = "value"
			tt.Value = currency.Coin(rapid.SampledFrom([]uint64{0, 1 << 63, 1<<63 + 1, math.MaxUint64, math.MaxUint64 - 5}).Draw(t, "v"))
		case "data":
			field = "data"
			if txn.TransactionData == scData {
				tt.TransactionData = fmt.Sprintf(`{"name":"pour","input":{"k":%d}}`, 100+rapid.IntRange(0, 9).Draw(t, "arg2"))
			} else {
				tt.TransactionData = txn.TransactionData + "x"
			}
		case "fee":
			tt.Fee = txn.Fee + currency.Coin(rapid.SampledFrom([]uint64{1, 1000, 1e12}).Draw(t, "d"))
		case "type":
			for tt.TransactionType == txn.TransactionType {
				tt.TransactionType = rapid.SampledFrom([]int{TxnTypeSend, TxnTypeData, TxnTypeSmartContract}).Draw(t, "newType")
			}
		case "hash":
			rehash = false
			b, _ := hex.DecodeString(tt.Hash)
			i := rapid.IntRange(0, len(b)*8-1).Draw(t, "bit")
			b[i/8] ^= 1 << uint(i%8)
			tt.Hash = hex.EncodeToString(b)
		case "signature":
			rehash = false
			b, _ := hex.DecodeString(tt.Signature)
			i := rapid.IntRange(0, len(b)*8-1).Draw(t, "bit")
			b[i/8] ^= 1 << uint(i%8)
			tt.Signature = hex.EncodeToString(b)
		case "signature-other-key":
			rehash = false
			tt.Signature, _ = other.Sign(tt.Hash)
		}
		if rehash {
			tt.Hash = tt.ComputeHash()
		}
		twire, _ := json.Marshal(tt)
		if string(twire) == string(wire) {
			return
		}
		st.Class("tamper/" + kind)
		st.Class("path/" + path)
		st.NonTrivial(string(wire), kind, rehash, string(twire), cacheMode, path, pos, batch)
		var err error
		if path == "block" {
			blockWires[pos] = twire
			err = c30acceptInBlock(name, blockWires, common.Now(), batch)
		} else {
			err = c30accept(twire)
		}
		if err == nil {
			key := "tampered-accepted:" + field
			if field == "fee" {
				key = "unbound-field=Fee"
			} else if field == "type" {
				key = "unbound-field=TransactionType"
			}
			if !st.Known(key) {
				t.Fatalf("%s", vkit.Violation("C30", key, "transaction still accepted after tampering %q (hash recomputed: %v, client cache: %s, arriving by %s, place %d of %d in the block, batch %d): signed %s -> tampered %s", kind, rehash, cacheMode, path, pos, len(blockWires), batch, wire, twire))
			}
		}
		if st.WantSample(true) {
			st.Sample(true, map[string]interface{}{"scheme": name, "type": txn.TransactionType, "tamper": kind, "hash_recomputed": rehash, "client_cache": cacheMode, "path": path, "rejected_with": fmt.Sprint(err)})
		}
	})
}
