package round

import (
	"fmt"
	"testing"
	"time"

	"0chain.net/chaincore/block"
	"0chain.net/chaincore/node"
	"verifharness/checks/c44kit"
)

// C44 part (a): one round.Round shared by generated concurrent programs, race
// detector as oracle. Every operation is a call (or the exact access pattern
// of a named call site) that miner/sharder workers and handlers make on a round
// they obtained from the chain's round map. Block objects follow the rule of
// the real code: a goroutine works on its own copy of a received block until it
// has published it through the round; after that others see the published one.

func TestC44_Round(t *testing.T) {
	const (
		nMiners = 5
		nBlocks = 4 // distinct block hashes of the round
	)
	var (
		r      *Round
		pool   *node.Pool
		miners []*node.Node
		copies [c44kit.Prelude + 1][]*block.Block
	)
	pool, miners = c37Pool(nMiners)
	ticket := func(i int) *block.VerificationTicket {
		return &block.VerificationTicket{VerifierID: miners[i%nMiners].GetKey(), Signature: fmt.Sprintf("sig-%d", i)}
	}
	own := func(g, a int) *block.Block { return copies[g][a%nBlocks] }
	fresh := func() {
		r = vNewRound(7)
		for g := range copies {
			copies[g] = copies[g][:0]
			for i := 0; i < nBlocks; i++ {
				// ranks are not in hash order so that rank- and weight-sorted orders differ from insertion order; a
				// copy ranked after the round's seed changed (timeout, SetRandomSeedForNotarizedBlock) carries
				// another rank than a copy of the same block ranked before
				rank := (i*3 + 1) % nBlocks
				if g%2 == 1 {
					rank = (rank + 2) % nBlocks
				}
				b := vBlock(vHash(i), rank)
				b.Round = 7
				b.MinerID = miners[i%nMiners].GetKey()
				b.VerificationTickets = []*block.VerificationTicket{ticket(i + g), ticket(i + g + 1)}
				copies[g] = append(copies[g], b)
			}
		}
	}
	// what the callers do with the slices they get back
	walk := func(bs []*block.Block) {
		for _, b := range bs {
			_ = b.Hash
		}
	}
	ops := []c44kit.Op{
		// chain.AddNotarizedBlockToRound (BlockWorker, notarization goroutines, block fetchers), miner/sharder AddNotarizedBlock
		{Name: "AddNotarizedBlock", W: []string{"notarized", "proposed", "phase", "block", "tickets"}, Weight: 4, Fn: func(g, a int) { r.AddNotarizedBlock(own(g, a)) }},
		// ComputeFinalizedBlock (finalizeRound goroutine), NotarizedBlockHandler (miner/m_handler.go:493), diagnostics handlers, chain.SetRandomSeed
		{Name: "GetNotarizedBlocks+walk", R: []string{"notarized"}, Weight: 3, Fn: func(g, a int) { walk(r.GetNotarizedBlocks()) }},
		// miner addToRoundVerification / AddRoundBlock callers
		{Name: "AddProposedBlock", Role: "miner", W: []string{"proposed"}, Weight: 2, Fn: func(g, a int) { r.AddProposedBlock(own(g, a)) }},
		// miner handlers (m_handler.go:321), GenerateRoundBlock (protocol_round.go:363, :1445), chain handlers
		{Name: "GetProposedBlocks+walk", R: []string{"proposed"}, Weight: 2, Fn: func(g, a int) { walk(r.GetProposedBlocks()) }},
		// chain handlers (handler.go:722, json_handler.go:410)
		{Name: "GetBestRankedProposedBlock", R: []string{"proposed"}, W: []string{"proposed.order"}, Weight: 2, Fn: func(g, a int) { _ = r.GetBestRankedProposedBlock() }},
		{Name: "GetHeaviestNotarizedBlock", R: []string{"notarized"}, Weight: 2, Fn: func(g, a int) { _ = r.GetHeaviestNotarizedBlock() }},
		// miner CollectBlocksForVerification (protocol_round.go:917)
		{Name: "GetBestRankedNotarizedBlock", Role: "miner", R: []string{"notarized"}, W: []string{"notarized.order"}, Weight: 2, Fn: func(g, a int) { _ = r.GetBestRankedNotarizedBlock() }},
		// finalizeBlock (FinalizedBlockWorker goroutine)
		{Name: "Finalize", W: []string{"block", "finalizing"}, Fn: func(g, a int) {
			if nb := r.GetHeaviestNotarizedBlock(); nb != nil {
				r.Finalize(nb)
			}
		}},
		{Name: "GetBlockHash", R: []string{"block"}, Fn: func(g, a int) { _ = r.GetBlockHash() }},
		// VRF share handling (per-message goroutines), chain.SetRandomSeed
		{Name: "SetRandomSeed", Role: "miner", W: []string{"seed", "perm"}, Weight: 2, Fn: func(g, a int) { r.SetRandomSeed(int64(100+a), nMiners) }},
		// chain.AddNotarizedBlockToRound when the block carries another seed
		{Name: "SetRandomSeedForNotarizedBlock", W: []string{"seed", "perm"}, Fn: func(g, a int) { r.SetRandomSeedForNotarizedBlock(int64(200+a), nMiners) }},
		{Name: "GetRandomSeed", R: []string{"seed"}, Fn: func(g, a int) { _ = r.GetRandomSeed(); _ = r.HasRandomSeed() }},
		{Name: "SetVRFOutput", Role: "miner", W: []string{"vrf"}, Fn: func(g, a int) { r.SetVRFOutput(fmt.Sprint(a)); _ = r.GetVRFOutput() }},
		// chain.SetRoundRank, generator selection
		{Name: "GetMinerRank", R: []string{"perm"}, Weight: 2, Fn: func(g, a int) {
			if r.IsRanksComputed() {
				_ = r.GetMinerRank(miners[a%nMiners])
			}
		}},
		{Name: "GetMinersByRank", R: []string{"perm"}, Fn: func(g, a int) {
			if r.IsRanksComputed() {
				_ = r.GetMinersByRank(pool.CopyNodes())
			}
		}},
		// round timeout handling (RoundWorker -> roundTimeoutProcess goroutine)
		{Name: "Restart", Role: "miner", W: []string{"shares", "block", "phase", "timeout", "seed"}, Fn: func(g, a int) { _ = r.Restart() }},
		{Name: "AddVRFShare", Role: "miner", W: []string{"shares", "phase"}, Weight: 2, Fn: func(g, a int) {
			sh := &VRFShare{Round: 7}
			sh.SetParty(miners[a%nMiners])
			if !r.VRFShareExist(sh) {
				r.AddVRFShare(sh, 4)
			}
		}},
		{Name: "GetVRFShares", Role: "miner", R: []string{"shares"}, Fn: func(g, a int) { _ = r.GetVRFShares() }},
		{Name: "SetPhase", Role: "miner", W: []string{"phase"}, Fn: func(g, a int) { r.SetPhase(Phase(a % 5)); _ = r.GetPhase() }},
		// sharder UpdateFinalizedBlock: chain.GetRoundClone on the finalized round (its Block is set)
		{Name: "Clone", Role: "sharder", R: []string{"notarized", "proposed", "shares", "seed", "perm", "block", "phase", "finalizing", "timeout", "vrf", "tickets"}, Weight: 2, Fn: func(g, a int) {
			if r.GetBlockHash() != "" { // finalized: r.Block is set
				_ = r.Clone()
			}
		}},
		{Name: "SetFinalizing", W: []string{"finalizing"}, Fn: func(g, a int) {
			if r.SetFinalizing() && a%2 == 0 {
				r.ResetFinalizingStateIfNotFinalized()
			}
			_ = r.IsFinalizing()
			_ = r.IsFinalized()
		}},
		// chain.AddNotarizedBlockToRound (both node types)
		{Name: "SetTimeoutCount", W: []string{"timeout"}, Fn: func(g, a int) { r.SetTimeoutCount(a); _ = r.GetTimeoutCount() }},
		// miner round-timeout handling and VRF shares carrying timeout votes
		{Name: "TimeoutVotes", Role: "miner", W: []string{"timeout"}, Weight: 2, Fn: func(g, a int) {
			switch a % 3 {
			case 0:
				r.AddTimeoutVote(a, miners[a%nMiners].GetKey())
			case 1:
				r.IncrementTimeoutCount(int64(a), pool)
			default:
				r.IncSoftTimeoutCount()
			}
			_ = r.GetTimeoutCount()
			_ = r.GetNormalizedTimeoutCount()
			_ = r.GetSoftTimeoutCount()
		}},
		{Name: "VrfStartTime", Role: "miner", W: []string{"vrfstart"}, Fn: func(g, a int) { r.SetVrfStartTime(time.Unix(int64(a), 0)); _ = r.GetVrfStartTime() }},
	}
	c44kit.Run(t, c44kit.Object{
		Name:  "round",
		Ops:   ops,
		Fresh: fresh,
		Known: c44roundKnown,
	})
}

// open known findings of this part: while listed open in known_findings.json the
// two operations are never put into different goroutines of one program
var c44roundKnown = []c44kit.KnownPair{
	// Round.GetNotarizedBlocks returns r.notarizedBlocks without taking r.mutex
	{Key: "round-notarized-blocks-read-without-lock", A: "GetNotarizedBlocks+walk", B: "AddNotarizedBlock"},
	{Key: "round-notarized-blocks-read-without-lock", A: "GetNotarizedBlocks+walk", B: "Restart"},
	// GetProposedBlocks hands out the live slice, add/replace/sort happen in place; the GetBestRanked* getters
	// sort the shared slice while holding only the read lock
	{Key: "round-live-block-slices", A: "GetProposedBlocks+walk", B: "AddNotarizedBlock"},
	{Key: "round-live-block-slices", A: "GetProposedBlocks+walk", B: "AddProposedBlock"},
	{Key: "round-live-block-slices", A: "GetProposedBlocks+walk", B: "GetBestRankedProposedBlock"},
	{Key: "round-live-block-slices", A: "GetBestRankedProposedBlock", B: "GetBestRankedProposedBlock"},
	{Key: "round-live-block-slices", A: "GetBestRankedProposedBlock", B: "Clone"},
	// Round.Clone copies RandomSeed / the timeout counter without the atomics / mutex that guard them
	{Key: "round-clone-unguarded-fields", A: "Clone", B: "SetTimeoutCount"},
	{Key: "round-clone-unguarded-fields", A: "Clone", B: "SetRandomSeedForNotarizedBlock"},
}
