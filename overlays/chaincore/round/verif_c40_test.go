package round

import (
	"fmt"
	"sort"
	"testing"

	"pgregory.net/rapid"
	"verifharness/vkit"
)

// C40 (storage part): for any set of stored starting rounds and any round, the
// entry used is the one with the greatest starting round not after it, or the
// latest when none starts earlier (the fallback is applied by the chain; here
// Get returns nil and GetLatest the latest). Pruning older entries never changes
// the answer for rounds at or after the first retained entry.

type c40ref struct {
	starts map[int64]string
}

func (m *c40ref) sorted() []int64 {
	var s []int64
	for k := range m.starts {
		s = append(s, k)
	}
	sort.Slice(s, func(i, j int) bool { return s[i] < s[j] })
	return s
}

// floor returns the entity in force for round q ("" when none starts at or before q).
func (m *c40ref) floor(q int64) (string, int) {
	s := m.sorted()
	idx := -1
	for i, st := range s {
		if st <= q {
			idx = i
		}
	}
	if idx < 0 {
		return "", -1
	}
	return m.starts[s[idx]], idx
}

func (m *c40ref) latest() string {
	s := m.sorted()
	if len(s) == 0 {
		return ""
	}
	return m.starts[s[len(s)-1]]
}

func c40Queries(t *rapid.T, starts []int64) []int64 {
	qs := []int64{0, 1}
	for _, s := range starts {
		qs = append(qs, s-1, s, s+1)
	}
	n := rapid.IntRange(1, 6).Draw(t, "extraQueries")
	for i := 0; i < n; i++ {
		qs = append(qs, rapid.Int64Range(0, 400).Draw(t, "q"))
	}
	var out []int64
	for _, q := range qs {
		if q >= 0 {
			out = append(out, q)
		}
	}
	return out
}

func TestC40_Storage(t *testing.T) {
	st := vkit.For("C40").SetRule("rapid state machine over a round-starting storage (Put of starting rounds from 0..300 in drawn order with repeats, Prune exactly as Chain.PruneRoundStorage prunes = keep the newest k, explicit Prune of a stored round that is not the newest) with floor-lookup reference model; queried at every boundary s-1,s,s+1 plus drawn rounds; non-trivial = history with >=3 entries, an out-of-order or repeated Put, and a prune followed by queries; distinct by history fingerprint")
	rapid.Check(t, func(t *rapid.T) {
		s := NewRoundStartingStorage()
		ref := &c40ref{starts: map[int64]string{}}
		var hist []string
		outOfOrder, pruned, afterPruneQ := false, false, false
		seq := 0
		checkAll := func() {
			starts := ref.sorted()
			if s.Count() != len(starts) {
				t.Fatalf("%s", vkit.Violation("C40", "count", "Count()=%d, reference %d; history %v", s.Count(), len(starts), hist))
			}
			got := s.GetRounds()
			if fmt.Sprint(got) != fmt.Sprint(starts) && !(len(got) == 0 && len(starts) == 0) {
				t.Fatalf("%s", vkit.Violation("C40", "rounds", "GetRounds()=%v, reference %v; history %v", got, starts, hist))
			}
			if len(starts) == 0 {
				return
			}
			if l := s.GetLatest(); l == nil || l.(string) != ref.latest() {
				t.Fatalf("%s", vkit.Violation("C40", "latest", "GetLatest()=%v, reference %v; history %v", l, ref.latest(), hist))
			}
			for _, q := range c40Queries(t, starts) {
				want, idx := ref.floor(q)
				got := s.Get(q)
				if want == "" {
					// none starts at or before q: the chain falls back on the latest
					if got != nil {
						t.Fatalf("%s", vkit.Violation("C40", "get-below-first", "Get(%d)=%v although no entry starts at or before it (stored %v); history %v", q, got, starts, hist))
					}
				} else if got == nil || got.(string) != want {
					t.Fatalf("%s", vkit.Violation("C40", "get-floor", "Get(%d)=%v, the entry in force is %v (stored %v); history %v", q, got, want, starts, hist))
				}
				if fi := s.FindRoundIndex(q); fi != idx {
					t.Fatalf("%s", vkit.Violation("C40", "find-index", "FindRoundIndex(%d)=%d, reference %d (stored %v); history %v", q, fi, idx, starts, hist))
				}
				if pruned {
					afterPruneQ = true
				}
			}
		}
		t.Repeat(map[string]func(*rapid.T){
			"put": func(t *rapid.T) {
				r := rapid.Int64Range(0, 300).Draw(t, "start")
				if rapid.IntRange(0, 3).Draw(t, "nearExisting") == 0 && len(ref.starts) > 0 {
					ss := ref.sorted()
					r = ss[rapid.IntRange(0, len(ss)-1).Draw(t, "which")] + rapid.Int64Range(-1, 1).Draw(t, "delta")
					if r < 0 {
						r = 0
					}
				}
				ss := ref.sorted()
				if len(ss) > 0 && r <= ss[len(ss)-1] {
					outOfOrder = true
				}
				seq++
				ent := fmt.Sprintf("mb%d@%d", seq, r)
				if err := s.Put(ent, r); err != nil {
					t.Fatalf("%s", vkit.Violation("C40", "put-error", "Put(%d) failed: %v", r, err))
				}
				ref.starts[r] = ent
				hist = append(hist, fmt.Sprintf("Put(%d)", r))
				checkAll()
			},
			"pruneKeepNewest": func(t *rapid.T) {
				// exactly what Chain.PruneRoundStorage does with target count k
				k := rapid.IntRange(1, 4).Draw(t, "keep")
				rounds := s.GetRounds()
				if len(rounds) <= k {
					t.Skip("nothing to prune")
				}
				r := rounds[len(rounds)-k-1]
				if err := s.Prune(r); err != nil {
					t.Fatalf("%s", vkit.Violation("C40", "prune-error", "Prune(%d) of a stored round failed: %v; history %v", r, err, hist))
				}
				for _, x := range ref.sorted() {
					if x <= r {
						delete(ref.starts, x)
					}
				}
				pruned = true
				hist = append(hist, fmt.Sprintf("Prune(%d) keep %d", r, k))
				checkAll()
			},
			"pruneMissing": func(t *rapid.T) {
				r := rapid.Int64Range(0, 300).Draw(t, "round")
				if _, ok := ref.starts[r]; ok {
					t.Skip("stored")
				}
				if err := s.Prune(r); err == nil {
					t.Fatalf("%s", vkit.Violation("C40", "prune-missing", "Prune(%d) of a round that is not stored succeeded; history %v", r, hist))
				}
				hist = append(hist, fmt.Sprintf("Prune(%d) missing", r))
				checkAll()
			},
		})
		st.Case()
		nt := len(ref.starts) >= 1 && outOfOrder && pruned && afterPruneQ
		if outOfOrder {
			st.Class("out_of_order_or_repeated_put")
		}
		if pruned {
			st.Class("pruned")
		}
		if nt {
			st.NonTrivial("storage", fmt.Sprint(hist))
		}
		if st.WantSample(nt) && len(hist) > 0 {
			st.Sample(nt, map[string]interface{}{"kind": "storage", "ops": hist, "stored": ref.sorted()})
		}
	})
}
