package round

import (
	"fmt"
	"sort"
	"testing"

	"0chain.net/chaincore/block"
	"0chain.net/chaincore/node"
	"pgregory.net/rapid"
	"verifharness/vkit"
)

// C35 (round part): a round keeps at most one notarized block per rank, ordered
// from heaviest to lightest, and updating a notarized block replaces it with the
// given block. Ranking: same seed + same miner set => same ranking, a
// permutation, independent of insertion order.

func TestC35_NotarizedBlocks(t *testing.T) {
	st := vkit.For("C35").SetRule("(a) rapid histories of AddNotarizedBlock/UpdateNotarizedBlock/AddProposedBlock over one Round with hashes and ranks drawn from small colliding sets, checked against a reference map rank->block; (b) miner pools built in two drawn insertion orders, rank vectors compared; non-trivial = history with a rank collision between different hashes or an update of a held block / pool of >=3 miners in two different orders; distinct by history fingerprint")
	rapid.Check(t, func(t *rapid.T) {
		r := vNewRound(rapid.Int64Range(1, 1000).Draw(t, "round"))
		nh := rapid.IntRange(1, 6).Draw(t, "hashes")
		maxRank := rapid.IntRange(0, 4).Draw(t, "maxRank")
		// reference: rank -> block object currently held; a hash has one fixed rank
		// (a block's rank is a function of its generator), except when the
		// generator draws an adversarial re-rank.
		rankOf := make([]int, nh)
		for i := range rankOf {
			rankOf[i] = rapid.IntRange(0, maxRank).Draw(t, "rank")
		}
		byRank := map[int]*block.Block{}
		var hist []string
		collision, updated := false, false
		check := func() {
			nbs := r.GetNotarizedBlocks()
			seenRank := map[int]bool{}
			for i, nb := range nbs {
				if seenRank[nb.RoundRank] {
					t.Fatalf("%s", vkit.Violation("C35", "two-blocks-one-rank", "two notarized blocks with rank %d; history %v", nb.RoundRank, hist))
				}
				seenRank[nb.RoundRank] = true
				if i > 0 && nbs[i-1].Weight() < nb.Weight() {
					t.Fatalf("%s", vkit.Violation("C35", "not-heaviest-first", "notarized blocks not ordered by weight; history %v", hist))
				}
				want := byRank[nb.RoundRank]
				if want == nil || want.Hash != nb.Hash {
					t.Fatalf("%s", vkit.Violation("C35", "wrong-block-at-rank", "rank %d holds %s, reference %v; history %v", nb.RoundRank, nb.Hash[60:], want, hist))
				}
			}
			if len(nbs) != len(byRank) {
				t.Fatalf("%s", vkit.Violation("C35", "notarized-count", "%d notarized blocks, reference %d; history %v", len(nbs), len(byRank), hist))
			}
			if h := r.GetHeaviestNotarizedBlock(); len(nbs) > 0 && (h == nil || h.Weight() != nbs[0].Weight()) {
				t.Fatalf("%s", vkit.Violation("C35", "heaviest", "GetHeaviestNotarizedBlock is not the heaviest; history %v", hist))
			}
		}
		t.Repeat(map[string]func(*rapid.T){
			"addNotarized": func(t *rapid.T) {
				i := rapid.IntRange(0, nh-1).Draw(t, "h")
				b := vBlock(vHash(i), rankOf[i])
				hist = append(hist, fmt.Sprintf("addN h%d r%d", i, b.RoundRank))
				if cur, ok := byRank[b.RoundRank]; ok && cur.Hash != b.Hash {
					collision = true
				}
				if cur, ok := byRank[b.RoundRank]; !ok || cur.Hash != b.Hash {
					byRank[b.RoundRank] = b
				}
				r.AddNotarizedBlock(b)
				check()
			},
			"addProposed": func(t *rapid.T) {
				i := rapid.IntRange(0, nh-1).Draw(t, "h")
				r.AddProposedBlock(vBlock(vHash(i), rankOf[i]))
				hist = append(hist, fmt.Sprintf("addP h%d", i))
				check()
			},
			"update": func(t *rapid.T) {
				i := rapid.IntRange(0, nh-1).Draw(t, "h")
				nb := vBlock(vHash(i), rankOf[i])
				hist = append(hist, fmt.Sprintf("update h%d", i))
				held := false
				if cur, ok := byRank[nb.RoundRank]; ok && cur.Hash == nb.Hash {
					held = true
					byRank[nb.RoundRank] = nb
				}
				r.UpdateNotarizedBlock(nb)
				check()
				if held {
					updated = true
					found := false
					for _, x := range r.GetNotarizedBlocks() {
						if x.Hash == nb.Hash {
							found = true
							if x != nb {
								if !st.Known("update-keeps-old-block") {
									t.Fatalf("%s", vkit.Violation("C35", "update-keeps-old-block", "after UpdateNotarizedBlock(b') the round still holds the old object for hash %s; history %v", nb.Hash[60:], hist))
								}
								// continue the search behind the finding: put the model back in step
								byRank[nb.RoundRank] = x
							}
						}
					}
					if !found {
						t.Fatalf("%s", vkit.Violation("C35", "update-lost-block", "block vanished after update; history %v", hist))
					}
				}
			},
		})
		st.Case()
		nt := collision || updated
		if collision {
			st.Class("rank_collision")
		}
		if updated {
			st.Class("update_of_held_block")
		}
		if nt {
			st.NonTrivial("nb", fmt.Sprint(hist))
		}
		if st.WantSample(nt) && len(hist) > 0 {
			st.Sample(nt, map[string]interface{}{"kind": "notarized-history", "ops": hist})
		}
	})
}

func TestC35_Ranking(t *testing.T) {
	st := vkit.For("C35")
	rapid.Check(t, func(t *rapid.T) {
		n := rapid.IntRange(1, 12).Draw(t, "miners")
		idx := rapid.Permutation(seqInts(40)).Draw(t, "which")[:n]
		order2 := rapid.Permutation(append([]int{}, idx...)).Draw(t, "order2")
		seed := rapid.Int64().Draw(t, "seed")
		// the second node reaches the seed through a generated earlier life of the same round: other seeds from
		// VRF attempts, round restarts after timeouts, a seed forced by a notarized block
		type priorStep struct {
			Kind string
			Seed int64
		}
		var prior []priorStep
		finalByBlock := false
		if seed != 0 {
			for i, k := 0, rapid.SampledFrom([]int{0, 1, 2, 0, 3, 4}).Draw(t, "priorSteps"); i < k; i++ {
				st := priorStep{Kind: rapid.SampledFrom([]string{"seed", "restart", "notarized", "seed", "restart"}).Draw(t, "priorKind")}
				if st.Kind != "restart" {
					st.Seed = rapid.Int64().Draw(t, "priorSeed")
				}
				prior = append(prior, st)
			}
			finalByBlock = rapid.Bool().Draw(t, "finalByBlock")
		}
		build := func(order []int, reAdd bool, prior []priorStep) (*node.Pool, *Round) {
			p := node.NewPool(node.NodeTypeMiner)
			for _, i := range order {
				if err := p.AddNode(vMiner(i)); err != nil {
					t.Fatalf("VERIF-HARNESS-ERROR AddNode: %v", err)
				}
			}
			if reAdd && len(order) > 0 {
				// re-adding a known miner (a fresh object, as a magic block update does) must not change positions
				if err := p.AddNode(vMiner(order[0])); err != nil {
					t.Fatalf("VERIF-HARNESS-ERROR AddNode: %v", err)
				}
			}
			r := vNewRound(7)
			{
				for _, ps := range prior {
					switch ps.Kind {
					case "seed":
						r.SetRandomSeed(ps.Seed, p.Size())
					case "notarized":
						r.SetRandomSeedForNotarizedBlock(ps.Seed, p.Size())
					case "restart":
						if err := r.Restart(); err != nil {
							t.Fatalf("VERIF-HARNESS-ERROR Restart: %v", err)
						}
					}
				}
				if r.HasRandomSeed() && r.GetRandomSeed() != seed {
					if finalByBlock {
						r.SetRandomSeedForNotarizedBlock(seed, p.Size())
					} else if err := r.Restart(); err != nil {
						t.Fatalf("VERIF-HARNESS-ERROR Restart: %v", err)
					}
				}
			}
			r.SetRandomSeed(seed, p.Size())
			if r.GetRandomSeed() != seed {
				t.Fatalf("%s", vkit.Violation("C35", "seed-not-taken", "round seed is %d after setting %d (prior %v)", r.GetRandomSeed(), seed, prior))
			}
			return p, r
		}
		reAdd := rapid.Bool().Draw(t, "reAdd")
		p1, r1 := build(idx, false, nil)
		p2, r2 := build(order2, reAdd, prior)
		ranks1 := map[string]int{}
		seen := map[int]bool{}
		for _, nd := range p1.CopyNodes() {
			rk := r1.GetMinerRank(nd)
			ranks1[nd.GetKey()] = rk
			if rk < 0 || rk >= n || seen[rk] {
				t.Fatalf("%s", vkit.Violation("C35", "rank-not-permutation", "ranks are not a permutation of 0..%d: %v", n-1, ranks1))
			}
			seen[rk] = true
		}
		for _, nd := range p2.CopyNodes() {
			if rk := r2.GetMinerRank(nd); rk != ranks1[nd.GetKey()] {
				t.Fatalf("%s", vkit.Violation("C35", "rank-depends-on-insertion-order", "miner %s has rank %d on one node and %d on the other (seed %d, orders %v / %v, earlier life of the round on the second node %v)", nd.GetKey()[:8], ranks1[nd.GetKey()], rk, seed, idx, order2, prior))
			}
		}
		// GetMinersByRank must order the same way on both nodes
		l1 := r1.GetMinersByRank(p1.CopyNodes())
		l2 := r2.GetMinersByRank(p2.CopyNodes())
		for i := range l1 {
			if l1[i].GetKey() != l2[i].GetKey() {
				t.Fatalf("%s", vkit.Violation("C35", "by-rank-order-differs", "GetMinersByRank differs at %d", i))
			}
		}
		st.Case()
		differ := fmt.Sprint(idx) != fmt.Sprint(order2)
		nt := n >= 3 && (differ || len(prior) > 0)
		st.Class("ranking_case")
		if len(prior) > 0 {
			st.Class("ranking_second_node_has_earlier_life")
		}
		if nt {
			st.NonTrivial("rank", n, seed, fmt.Sprint(idx), fmt.Sprint(order2), fmt.Sprint(prior))
		}
		if st.WantSample(false) {
			keys := make([]string, 0, n)
			for k, v := range ranks1 {
				keys = append(keys, fmt.Sprintf("%s:%d", k[:6], v))
			}
			sort.Strings(keys)
			st.Sample(false, map[string]interface{}{"kind": "ranking", "seed": seed, "order1": idx, "order2": order2, "prior": fmt.Sprint(prior), "ranks": keys})
		}
	})
}

func seqInts(n int) []int {
	s := make([]int, n)
	for i := range s {
		s[i] = i
	}
	return s
}
