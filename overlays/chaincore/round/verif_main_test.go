package round

import (
	"fmt"
	"testing"

	"0chain.net/chaincore/block"
	"0chain.net/chaincore/node"
	"verifharness/vkeys"
	"verifharness/vkit"
	"verifharness/vlog"
)

func TestMain(m *testing.M) {
	vlog.Quiet()
	vkit.Main(m)
}

// vNewRound builds a round the way the entity provider does, without needing
// the datastore registry.
func vNewRound(number int64) *Round {
	r := Provider().(*Round)
	r.Number = number
	return r
}

// vMiner returns the i-th derived miner node (not yet in any pool).
func vMiner(i int) *node.Node {
	s := vkeys.BLS(vkit.Seed(), "miner", i)
	n := node.Provider()
	n.Type = node.NodeTypeMiner
	n.PublicKey = s.GetPublicKey()
	if err := n.SetPublicKey(n.PublicKey); err != nil {
		panic(err)
	}
	return n
}

func vBlock(hash string, rank int) *block.Block {
	b := &block.Block{}
	b.Hash = hash
	b.RoundRank = rank
	return b
}

func vHash(i int) string { return fmt.Sprintf("%064x", i+1) }
