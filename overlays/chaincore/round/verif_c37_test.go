package round

import (
	"fmt"
	"sync"
	"testing"
	"time"

	"0chain.net/chaincore/node"
	"0chain.net/core/viper"
	"pgregory.net/rapid"
	"verifharness/vkit"
)

// C37: a round's phase only moves forward except through an explicit reset or a
// restart before sharing, its timeout count never decreases, it holds at most
// threshold-many VRF shares with at most one per miner. Every round operation
// returns, including a rejected restart, and a finalized round never becomes
// un-finalized through the conditional reset.

var c37OpTimeout = 20 * time.Second

// after the first hang in this process (i.e. while rapid is shrinking it) a
// short watchdog is enough
func c37Hung() { c37OpTimeout = 3 * time.Second }

// c37worker runs operations of one case on a separate goroutine so that an
// operation that never returns is observed instead of wedging the test.
type c37worker struct {
	ops  chan func()
	done chan struct{}
}

func newC37Worker() *c37worker {
	w := &c37worker{ops: make(chan func()), done: make(chan struct{})}
	go func() {
		for f := range w.ops {
			f()
			w.done <- struct{}{}
		}
	}()
	return w
}

// do returns false when the operation did not return in time.
func (w *c37worker) do(f func()) bool {
	w.ops <- f
	select {
	case <-w.done:
		return true
	case <-time.After(c37OpTimeout):
		return false
	}
}

func (w *c37worker) close() { close(w.ops) }

type c37model struct {
	number    int64
	phase     Phase
	fin       FinalizingState
	timeout   int
	shares    map[string]bool
	threshold int
}

func (m *c37model) finalized() bool { return m.fin == RoundStateFinalized || m.number == 0 }

func c37Pool(n int) (*node.Pool, []*node.Node) {
	p := node.NewPool(node.NodeTypeMiner)
	var nodes []*node.Node
	for i := 0; i < n; i++ {
		nd := vMiner(i)
		if err := p.AddNode(nd); err != nil {
			panic(err)
		}
		nodes = append(nodes, nd)
	}
	return p, nodes
}

func TestC37_Sequential(t *testing.T) {
	st := vkit.For("C37").SetRule("rapid state machine over one Round (SetPhase, ResetPhase, AddVRFShare, AddNotarizedBlock, Restart, SetFinalizing, Finalize, SetFinalized, conditional/unconditional reset, SetTimeoutCount, AddTimeoutVote, IncrementTimeoutCount with timeout_cap in {0,1,3}) against a reference model, every operation under a 20 s watchdog; plus generated concurrent programs under -race; non-trivial = history with a rejected Restart followed by another operation, or a conditional reset on a finalized round, or a share offered at threshold; distinct by history fingerprint")
	pool, miners := c37Pool(7)
	selfKey := node.Self.Underlying().GetKey()
	_ = selfKey
	rapid.Check(t, func(t *rapid.T) {
		number := rapid.SampledFrom([]int64{0, 1, 5, 1000}).Draw(t, "number")
		capv := rapid.SampledFrom([]int{0, 1, 3}).Draw(t, "timeout_cap")
		viper.Set("server_chain.round_timeouts.timeout_cap", capv)
		r := vNewRound(number)
		m := &c37model{number: number, shares: map[string]bool{}, threshold: rapid.IntRange(1, 5).Draw(t, "threshold")}
		w := newC37Worker()
		defer w.close()
		var hist []string
		rejectedRestartThenOp, condResetOnFinalized, shareAtThreshold := false, false, false
		lastRejected := false
		hung := false
		run := func(name string, f func()) {
			if hung {
				t.Skip("case already hung")
			}
			hist = append(hist, name)
			if lastRejected {
				rejectedRestartThenOp = true
			}
			if !w.do(f) {
				hung = true
				c37Hung()
				key := "operation-hangs"
				if lastRejected {
					key = "hang-after-rejected-restart"
				}
				if st.Known(key) {
					t.Skip("known finding " + key)
				}
				t.Fatalf("%s", vkit.Violation("C37", key, "operation %q did not return within %v; history %v", name, c37OpTimeout, hist))
			}
			lastRejected = false
		}
		observe := func() {
			var ph Phase
			var fin, fing bool
			var toc, ns int
			run("observe", func() {
				ph = r.GetPhase()
				fin = r.IsFinalized()
				fing = r.IsFinalizing()
				toc = r.GetTimeoutCount()
				ns = len(r.GetVRFShares())
			})
			hist = hist[:len(hist)-1]
			if ph != m.phase {
				t.Fatalf("%s", vkit.Violation("C37", "phase-model", "phase is %v, reference %v; history %v", ph, m.phase, hist))
			}
			if fin != m.finalized() {
				t.Fatalf("%s", vkit.Violation("C37", "finalized-model", "IsFinalized=%v, reference %v; history %v", fin, m.finalized(), hist))
			}
			if fing != (m.fin == RoundStateFinalizing) {
				t.Fatalf("%s", vkit.Violation("C37", "finalizing-model", "IsFinalizing=%v, reference state %v; history %v", fing, m.fin, hist))
			}
			if toc < m.timeout {
				key := "timeout-count-decreased"
				if capv > 0 && m.timeout > capv && toc == capv {
					key = "timeout-cap-lowers-count"
				}
				if !st.Known(key) {
					t.Fatalf("%s", vkit.Violation("C37", key, "timeout count went from %d to %d (cap %d); history %v", m.timeout, toc, capv, hist))
				}
			}
			m.timeout = toc
			if ns != len(m.shares) || ns > m.threshold {
				t.Fatalf("%s", vkit.Violation("C37", "shares-model", "%d shares held, reference %d, threshold %d; history %v", ns, len(m.shares), m.threshold, hist))
			}
		}
		t.Repeat(map[string]func(*rapid.T){
			"setPhase": func(t *rapid.T) {
				p := Phase(rapid.IntRange(0, 4).Draw(t, "phase"))
				run(fmt.Sprintf("SetPhase(%d)", p), func() { r.SetPhase(p) })
				if p > m.phase {
					m.phase = p
				}
				observe()
			},
			"resetPhase": func(t *rapid.T) {
				p := Phase(rapid.IntRange(0, 4).Draw(t, "phase"))
				run(fmt.Sprintf("ResetPhase(%d)", p), func() { r.ResetPhase(p) })
				m.phase = p
				observe()
			},
			"addShare": func(t *rapid.T) {
				i := rapid.IntRange(0, len(miners)-1).Draw(t, "miner")
				sh := &VRFShare{Round: number, Share: fmt.Sprintf("s%d", i)}
				sh.SetParty(miners[i])
				var got bool
				run(fmt.Sprintf("AddVRFShare(m%d)", i), func() { got = r.AddVRFShare(sh, m.threshold) })
				want := false
				key := miners[i].GetKey()
				if len(m.shares) >= m.threshold {
					shareAtThreshold = true
				} else if !m.shares[key] {
					want = true
					m.shares[key] = true
				}
				if got != want {
					t.Fatalf("%s", vkit.Violation("C37", "share-accept", "AddVRFShare returned %v, reference %v; history %v", got, want, hist))
				}
				observe()
			},
			"addNotarized": func(t *rapid.T) {
				// the same block again, a block of another rank, or another block of a rank already held (a block
				// generated again after a timeout): blocks 2k and 2k+1 come from the miner of rank k
				i := rapid.IntRange(0, 5).Draw(t, "h")
				rk := i / 2
				b := vBlock(vHash(i), rk)
				run(fmt.Sprintf("AddNotarizedBlock(h%d rank %d)", i, rk), func() { r.AddNotarizedBlock(b) })
				// the property only demands that the phase does not move backwards here;
				// a first notarized block moves it to Share, a repeat of a held block may not
				if ph := r.GetPhase(); ph < m.phase || ph > Share && ph != m.phase {
					t.Fatalf("%s", vkit.Violation("C37", "phase-backwards", "AddNotarizedBlock moved the phase from %v to %v; history %v", m.phase, ph, hist))
				} else {
					m.phase = ph
				}
				observe()
			},
			"restart": func(t *rapid.T) {
				var err error
				run("Restart", func() { err = r.Restart() })
				if m.phase >= Share {
					if err == nil {
						t.Fatalf("%s", vkit.Violation("C37", "restart-after-sharing", "Restart succeeded in phase %v; history %v", m.phase, hist))
					}
					lastRejected = true
				} else {
					if err != nil {
						t.Fatalf("%s", vkit.Violation("C37", "restart-rejected-early", "Restart failed in phase %v: %v; history %v", m.phase, err, hist))
					}
					m.phase = ShareVRF
					m.shares = map[string]bool{}
				}
				observe()
			},
			"setFinalizing": func(t *rapid.T) {
				var got bool
				run("SetFinalizing", func() { got = r.SetFinalizing() })
				want := !(m.finalized() || m.fin == RoundStateFinalizing)
				if want {
					m.fin = RoundStateFinalizing
				}
				if got != want {
					t.Fatalf("%s", vkit.Violation("C37", "set-finalizing", "SetFinalizing returned %v, reference %v; history %v", got, want, hist))
				}
				observe()
			},
			"finalize": func(t *rapid.T) {
				b := vBlock(vHash(9), 0)
				if rapid.Bool().Draw(t, "viaFinalize") {
					run("Finalize", func() { r.Finalize(b) })
				} else {
					run("SetFinalized", func() { r.SetFinalized() })
				}
				m.fin = RoundStateFinalized
				observe()
			},
			"condReset": func(t *rapid.T) {
				was := m.finalized()
				run("ResetFinalizingStateIfNotFinalized", func() { r.ResetFinalizingStateIfNotFinalized() })
				if was {
					condResetOnFinalized = true
				} else {
					m.fin = NotFinalized
				}
				observe()
				if was && !r.IsFinalized() {
					t.Fatalf("%s", vkit.Violation("C37", "unfinalized-by-conditional-reset", "a finalized round became un-finalized; history %v", hist))
				}
			},
			"hardReset": func(t *rapid.T) {
				run("ResetFinalizingState", func() { r.ResetFinalizingState() })
				m.fin = NotFinalized
				observe()
			},
			"setTimeout": func(t *rapid.T) {
				c := rapid.IntRange(0, 6).Draw(t, "count")
				var got bool
				run(fmt.Sprintf("SetTimeoutCount(%d)", c), func() { got = r.SetTimeoutCount(c) })
				if got != (c > m.timeout) {
					t.Fatalf("%s", vkit.Violation("C37", "set-timeout", "SetTimeoutCount(%d) returned %v with count %d; history %v", c, got, m.timeout, hist))
				}
				if c > m.timeout {
					m.timeout = c
				}
				observe()
			},
			"vote": func(t *rapid.T) {
				i := rapid.IntRange(0, len(miners)-1).Draw(t, "miner")
				n := rapid.IntRange(0, 6).Draw(t, "num")
				run(fmt.Sprintf("AddTimeoutVote(%d,m%d)", n, i), func() { r.AddTimeoutVote(n, miners[i].GetKey()) })
				observe()
			},
			"incTimeout": func(t *rapid.T) {
				prrs := rapid.SampledFrom([]int64{0, 1, 77, -5}).Draw(t, "prrs")
				before := m.timeout
				run(fmt.Sprintf("IncrementTimeoutCount(%d)", prrs), func() { r.IncrementTimeoutCount(prrs, pool) })
				observe()
				if prrs == 0 && m.timeout != before {
					t.Fatalf("%s", vkit.Violation("C37", "inc-without-seed", "timeout count changed without a previous seed; history %v", hist))
				}
			},
		})
		st.Case()
		nt := rejectedRestartThenOp || condResetOnFinalized || shareAtThreshold
		if rejectedRestartThenOp {
			st.Class("op_after_rejected_restart")
		}
		if condResetOnFinalized {
			st.Class("conditional_reset_on_finalized")
		}
		if shareAtThreshold {
			st.Class("share_offered_at_threshold")
		}
		if nt {
			st.NonTrivial("seq", number, capv, fmt.Sprint(hist))
		}
		if st.WantSample(nt) && len(hist) > 0 {
			st.Sample(nt, map[string]interface{}{"round": number, "timeout_cap": capv, "threshold": m.threshold, "ops": hist})
		}
	})
}

// Concurrent programs: k goroutines issue round operations; oracle: all return
// (watchdog), race detector silent (the driver runs this part with -race), and
// the sequential invariants hold on the quiescent state. Each drawn program is
// executed several times on fresh rounds so that more interleavings of the same
// program are sampled; programs that pit a finalize against conditional resets
// (the clause "a finalized round never becomes un-finalized through the
// conditional reset") are repeated many more times.
func TestC37_Concurrent(t *testing.T) {
	st := vkit.For("C37")
	_, miners := c37Pool(7)
	viper.Set("server_chain.round_timeouts.timeout_cap", 0)
	opNames := []string{"SetPhase", "AddVRFShare", "AddNotarizedBlock", "SetFinalizing", "ResetFinalizingStateIfNotFinalized", "SetFinalized", "SetTimeoutCount", "reads", "Restart", "GetVRFShares", "Finalize"}
	rapid.Check(t, func(t *rapid.T) {
		number := rapid.SampledFrom([]int64{0, 3}).Draw(t, "number")
		threshold := rapid.IntRange(1, 4).Draw(t, "threshold")
		k := rapid.IntRange(2, 4).Draw(t, "goroutines")
		type op struct {
			kind, arg int
		}
		progs := make([][]op, k)
		var desc []string
		finalizers, resetters := map[int]bool{}, map[int]bool{}
		for g := range progs {
			n := rapid.IntRange(1, 8).Draw(t, "len")
			for i := 0; i < n; i++ {
				o := op{kind: rapid.IntRange(0, 10).Draw(t, "kind"), arg: rapid.IntRange(0, 6).Draw(t, "arg")}
				if o.kind == 8 && st.IsKnown("hang-after-rejected-restart") {
					o.kind = 0 // excluded by construction while that finding is open
				}
				if o.kind == 5 || o.kind == 10 {
					finalizers[g] = true
				}
				if o.kind == 4 {
					resetters[g] = true
				}
				progs[g] = append(progs[g], o)
				desc = append(desc, fmt.Sprintf("g%d:%s(%d)", g, opNames[o.kind], o.arg))
			}
		}
		finalizeVsReset := false
		for g := range finalizers {
			for h := range resetters {
				if g != h {
					finalizeVsReset = true
				}
			}
		}
		reps := vkit.Scale(10, 40)
		if finalizeVsReset && number != 0 {
			reps = vkit.Scale(400, 3000)
		}
		for rep := 0; rep < reps; rep++ {
			r := vNewRound(number)
			var wg sync.WaitGroup
			start := make(chan struct{})
			maxTimeout := make([]int, k)
			for g := range progs {
				wg.Add(1)
				go func(g int) {
					defer wg.Done()
					<-start
					for _, o := range progs[g] {
						switch o.kind {
						case 0:
							r.SetPhase(Phase(o.arg % 5))
						case 1:
							sh := &VRFShare{Round: number}
							sh.SetParty(miners[o.arg%len(miners)])
							r.AddVRFShare(sh, threshold)
						case 2:
							r.AddNotarizedBlock(vBlock(vHash(o.arg%6), (o.arg%6)/2))
						case 3:
							r.SetFinalizing()
						case 4:
							r.ResetFinalizingStateIfNotFinalized()
						case 5:
							r.SetFinalized()
						case 6:
							r.SetTimeoutCount(o.arg)
							if c := r.GetTimeoutCount(); c > maxTimeout[g] {
								maxTimeout[g] = c
							}
						case 7:
							_ = r.GetPhase()
							_ = r.IsFinalized()
							_ = r.GetHeaviestNotarizedBlock()
							_ = r.GetBestRankedNotarizedBlock()
							_ = r.GetProposedBlocks()
						case 8:
							_ = r.Restart()
						case 9:
							_ = r.GetVRFShares()
							_ = r.GetTimeoutCount()
						case 10:
							r.Finalize(vBlock(vHash(8), 0))
						}
					}
				}(g)
			}
			finished := make(chan struct{})
			go func() { wg.Wait(); close(finished) }()
			close(start)
			select {
			case <-finished:
			case <-time.After(c37OpTimeout):
				c37Hung()
				t.Fatalf("%s", vkit.Violation("C37", "concurrent-hang", "concurrent program did not finish within %v: %v", c37OpTimeout, desc))
			}
			// the final reads go through the round's lock as well: keep them under the watchdog
			var nShares, finalTimeout int
			var finalized bool
			quiesced := make(chan struct{})
			go func() {
				nShares = len(r.GetVRFShares())
				finalTimeout = r.GetTimeoutCount()
				finalized = r.IsFinalized()
				close(quiesced)
			}()
			select {
			case <-quiesced:
			case <-time.After(c37OpTimeout):
				c37Hung()
				t.Fatalf("%s", vkit.Violation("C37", "concurrent-hang", "round is wedged after the concurrent program finished (a read did not return within %v): %v", c37OpTimeout, desc))
			}
			if nShares > threshold {
				t.Fatalf("%s", vkit.Violation("C37", "too-many-shares", "%d shares > threshold %d after %v", nShares, threshold, desc))
			}
			for _, mt := range maxTimeout {
				if finalTimeout < mt {
					t.Fatalf("%s", vkit.Violation("C37", "timeout-count-decreased", "final timeout count %d < observed %d", finalTimeout, mt))
				}
			}
			// no program contains the unconditional reset, so once some goroutine has
			// finalized the round it must still be finalized when everything is done
			if len(finalizers) > 0 && !finalized {
				t.Fatalf("%s", vkit.Violation("C37", "unfinalized-by-conditional-reset", "a goroutine finalized the round, only conditional resets ran, yet the round is not finalized at the end (repetition %d): %v", rep, desc))
			}
		}
		st.Case()
		st.ExtraAdd("concurrent_executions", int64(reps))
		st.Class("concurrent_program")
		if finalizeVsReset {
			st.Class("concurrent_finalize_vs_conditional_reset")
		}
		st.NonTrivial("conc", number, threshold, fmt.Sprint(desc))
		if st.WantSample(false) {
			st.Sample(false, map[string]interface{}{"concurrent": true, "program": desc, "executions": reps})
		}
	})
}
