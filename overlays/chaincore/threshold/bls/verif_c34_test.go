package bls

import (
	"fmt"
	"testing"

	"0chain.net/core/encryption"
	"pgregory.net/rapid"
	"verifharness/vkit"
)

// C34 (DKG part): with threshold t among n parties every share a party derives
// for another validates against the sender's public polynomial, the aggregated
// keys sign messages that verify under the group-derived public keys, and any t
// signature shares recover the same group signature.
func TestC34_DKG(t *testing.T) {
	st := vkit.For("C34").SetRule("(a) full DKG runs with 1<=t<=n<=9 parties whose ids are hashes of drawn strings: all n*n shares computed and validated (also against a wrong recipient and a wrong sender polynomial), keys aggregated, every party signs a drawn message, every other party verifies it, 2..4 drawn t-subsets in drawn orders recover the group signature, a (t-1)-subset must not; (b) client threshold keys t-of-n (n up to 14) with ids and public keys transported as strings, and split keys with 1..7 parts; (c) ShareOrSigns.Validate on valid/invalid content; non-trivial = t < n and >= 2 distinct subsets compared (a) / n >= 10 or parts >= 3 (b); distinct by (t, n, ids, message, subsets)")
	rapid.Check(t, func(t *rapid.T) {
		n := rapid.IntRange(1, 9).Draw(t, "n")
		th := rapid.IntRange(1, n).Draw(t, "t")
		// parties that take part in the share exchange but do not make it into the magic block; the others
		// drop their shares (DeleteFromSet) before or after a first aggregation, or simply aggregate again
		extra := rapid.SampledFrom([]int{0, 1, 0, 2}).Draw(t, "dropped")
		mode := rapid.SampledFrom([]string{"once", "shrink", "repeat", "once"}).Draw(t, "aggregation")
		n += extra
		ids := make([]string, n)
		used := map[string]bool{}
		for i := range ids {
			for {
				id := encryption.Hash(fmt.Sprintf("party-%d", rapid.IntRange(0, 1<<30).Draw(t, "idSeed")))
				pid := ComputeIDdkg(id)
				if !used[pid.GetHexString()] {
					used[pid.GetHexString()] = true
					ids[i] = id
					break
				}
			}
		}
		dkgs := make([]*DKG, n)
		mpks := map[PartyID][]PublicKey{}
		for i := range dkgs {
			dkgs[i] = MakeDKG(th, n, ids[i])
			mpks[dkgs[i].ID] = dkgs[i].GetMPKs()
			if len(dkgs[i].GetMPKs()) != th {
				t.Fatalf("%s", vkit.Violation("C34", "mpk-size", "public polynomial has %d coefficients, t=%d", len(dkgs[i].GetMPKs()), th))
			}
		}
		for i := range dkgs {
			for j := range dkgs {
				sij, err := dkgs[i].ComputeDKGKeyShare(dkgs[j].ID)
				if err != nil {
					t.Fatalf("%s", vkit.Violation("C34", "share-error", "ComputeDKGKeyShare failed: %v", err))
				}
				if !ValidateShare(dkgs[i].GetMPKs(), sij, dkgs[j].ID) || !dkgs[j].ValidateShare(dkgs[i].GetMPKs(), sij) {
					t.Fatalf("%s", vkit.Violation("C34", "share-invalid", "share of party %d for party %d does not validate against the sender's public polynomial (t=%d n=%d)", i, j, th, n))
				}
				if n > 1 {
					k := (j + 1) % n
					// (with t = 1 the polynomial is a constant and every party's share is the same value)
					if th >= 2 && ValidateShare(dkgs[i].GetMPKs(), sij, dkgs[k].ID) {
						t.Fatalf("%s", vkit.Violation("C34", "share-validates-for-other-party", "share for party %d validates for party %d", j, k))
					}
					o := (i + 1) % n
					if ValidateShare(dkgs[o].GetMPKs(), sij, dkgs[j].ID) {
						t.Fatalf("%s", vkit.Violation("C34", "share-validates-under-other-polynomial", "share of sender %d validates under sender %d's polynomial", i, o))
					}
				}
				if err := dkgs[j].AddSecretShare(dkgs[i].ID, sij.GetHexString(), false); err != nil {
					t.Fatalf("%s", vkit.Violation("C34", "add-share", "AddSecretShare failed: %v", err))
				}
			}
		}
		n -= extra
		for _, d := range dkgs[n:] {
			delete(mpks, d.ID)
		}
		dkgs = dkgs[:n]
		for i := range dkgs {
			switch mode {
			case "once":
				dkgs[i].DeleteFromSet(ids[n:])
			case "shrink":
				dkgs[i].AggregateSecretKeyShares()
				dkgs[i].DeleteFromSet(ids[n:])
			case "repeat":
				dkgs[i].DeleteFromSet(ids[n:])
				dkgs[i].AggregateSecretKeyShares()
			}
			dkgs[i].AggregateSecretKeyShares()
			if err := dkgs[i].AggregatePublicKeyShares(mpks); err != nil {
				t.Fatalf("%s", vkit.Violation("C34", "aggregate-public", "AggregatePublicKeyShares failed: %v", err))
			}
		}
		msg := rapid.StringN(1, 40, 80).Draw(t, "msg")
		sigs := make([]Sign, n)
		for i := range dkgs {
			sigs[i] = *dkgs[i].Sign(msg)
		}
		for i := range dkgs {
			for k := range dkgs {
				if !dkgs[k].VerifySignature(&sigs[i], msg, dkgs[i].ID) {
					t.Fatalf("%s", vkit.Violation("C34", "share-signature-rejected", "party %d's signature does not verify at party %d under its group-derived key (t=%d n=%d, %d parties dropped, aggregation %q)", i, k, th, n, extra, mode))
				}
				if dkgs[k].VerifySignature(&sigs[i], msg+"x", dkgs[i].ID) {
					t.Fatalf("%s", vkit.Violation("C34", "share-signature-other-message", "signature verifies for another message"))
				}
				if n > 1 && th >= 2 && dkgs[k].VerifySignature(&sigs[i], msg, dkgs[(i+1)%n].ID) {
					t.Fatalf("%s", vkit.Violation("C34", "share-signature-other-party", "signature of party %d verifies as party %d", i, (i+1)%n))
				}
			}
		}
		// group public key = sum of the constant coefficients
		var gpk PublicKey
		for _, m := range mpks {
			gpk.Add(&m[0])
		}
		nsub := rapid.IntRange(2, 4).Draw(t, "subsets")
		var ref string
		distinctSubsets := map[string]bool{}
		for s := 0; s < nsub; s++ {
			perm := rapid.Permutation(seq(n)).Draw(t, "subset")[:th]
			from := make([]PartyID, th)
			shares := make([]Sign, th)
			for x, p := range perm {
				from[x] = dkgs[p].ID
				shares[x] = sigs[p]
			}
			g, err := dkgs[0].RecoverGroupSig(from, shares)
			if err != nil {
				t.Fatalf("%s", vkit.Violation("C34", "recover-error", "RecoverGroupSig failed: %v", err))
			}
			if !g.Verify(&gpk, msg) {
				t.Fatalf("%s", vkit.Violation("C34", "group-signature-invalid", "signature recovered from parties %v does not verify under the group public key (t=%d n=%d)", perm, th, n))
			}
			if ref == "" {
				ref = g.GetHexString()
			} else if ref != g.GetHexString() {
				t.Fatalf("%s", vkit.Violation("C34", "group-signature-differs", "two %d-subsets recover different group signatures (n=%d)", th, n))
			}
			sorted := append([]int{}, perm...)
			sortInts(sorted)
			distinctSubsets[fmt.Sprint(sorted)] = true
		}
		if th >= 2 {
			perm := rapid.Permutation(seq(n)).Draw(t, "short")[:th-1]
			from := make([]PartyID, th-1)
			shares := make([]Sign, th-1)
			for x, p := range perm {
				from[x] = dkgs[p].ID
				shares[x] = sigs[p]
			}
			if g, err := dkgs[0].RecoverGroupSig(from, shares); err == nil && g.Verify(&gpk, msg) {
				t.Fatalf("%s", vkit.Violation("C34", "fewer-than-t-recover", "%d shares recovered a valid group signature with t=%d", th-1, th))
			}
		}
		st.Case()
		st.Class(fmt.Sprintf("dkg_t%d_n%d", th, n))
		st.Class(fmt.Sprintf("dkg_aggregation_%s_dropped%d", mode, extra))
		if th < n && len(distinctSubsets) >= 2 {
			st.NonTrivial("dkg", th, n, fmt.Sprint(ids), msg, fmt.Sprint(distinctSubsets))
		}
		if st.WantSample(th < n) {
			st.Sample(th < n, map[string]interface{}{"kind": "dkg", "t": th, "n": n, "subsets_compared": nsub})
		}
	})
}

func seq(n int) []int {
	s := make([]int, n)
	for i := range s {
		s[i] = i
	}
	return s
}

func sortInts(a []int) {
	for i := 1; i < len(a); i++ {
		for j := i; j > 0 && a[j] < a[j-1]; j-- {
			a[j], a[j-1] = a[j-1], a[j]
		}
	}
}
