package block

import (
	"context"
	"encoding/hex"
	"encoding/json"
	"fmt"
	"strings"
	"testing"

	"0chain.net/chaincore/node"
	"0chain.net/chaincore/transaction"
	"0chain.net/core/common"
	"0chain.net/core/encryption"
	"github.com/0chain/common/core/currency"
	"pgregory.net/rapid"
	"verifharness/vkeys"
	"verifharness/vkit"
)

// C29: a block's hash is a deterministic function of its contents: changing any
// field that determines the block's effect (generator, parent, round, random
// seed, transactions, their outputs, resulting state, magic block) changes the
// hash; a received block whose hash or generator signature does not match, or
// that repeats a transaction, is rejected.

var c29pool = node.NewPool(node.NodeTypeMiner)

func c29miner(i int) (*node.Node, encryption.SignatureScheme) {
	s := vkeys.BLS(vkit.Seed(), "blockminer", i)
	n := node.Provider()
	n.Type = node.NodeTypeMiner
	n.PublicKey = s.GetPublicKey()
	if err := c29pool.AddNode(n); err != nil { // registers the node globally, as a magic block does
		panic(err)
	}
	return n, s
}

func c29txn(t *rapid.T, i int) *transaction.Transaction {
	s := vkeys.BLS(vkit.Seed(), "blocktxn", i%7)
	b, _ := hex.DecodeString(s.GetPublicKey())
	txn := transaction.Provider().(*transaction.Transaction)
	txn.ClientID = encryption.Hash(b)
	txn.PublicKey = s.GetPublicKey()
	txn.ToClientID = encryption.Hash(fmt.Sprintf("to-%d", rapid.IntRange(0, 5).Draw(t, "to")))
	txn.Nonce = int64(i + 1)
	txn.Value = currency.Coin(rapid.Uint64Range(0, 1e12).Draw(t, "value"))
	txn.TransactionData = rapid.StringN(0, 12, 24).Draw(t, "data")
	txn.CreationDate = common.Now()
	if _, err := txn.Sign(s); err != nil {
		panic(err)
	}
	txn.TransactionOutput = rapid.SampledFrom([]string{"", "ok", `{"a":1}`, "failed: x"}).Draw(t, "output")
	txn.OutputHash = txn.ComputeOutputHash()
	txn.Status = rapid.SampledFrom([]int{transaction.TxnSuccess, transaction.TxnError}).Draw(t, "status")
	return txn
}

func c29mb(t *rapid.T, tag string) *MagicBlock {
	mb := NewMagicBlock()
	if rapid.IntRange(0, 2).Draw(t, tag+"poolless") == 0 {
		// a magic block as it may come off the wire with only its scalar fields and hash
		mb.MagicBlockNumber = rapid.Int64Range(1, 9).Draw(t, tag+"num")
		mb.StartingRound = rapid.Int64Range(1, 999).Draw(t, tag+"start")
		mb.T, mb.N, mb.K = 2, 3, 3
		mb.Hash = encryption.Hash(fmt.Sprintf("%s-%d-%d", tag, mb.MagicBlockNumber, mb.StartingRound))
		return mb
	}
	mb.Miners = node.NewPool(node.NodeTypeMiner)
	mb.Sharders = node.NewPool(node.NodeTypeSharder)
	for i := 0; i < rapid.IntRange(1, 3).Draw(t, tag+"miners"); i++ {
		n, _ := c29miner(10 + i)
		cl := n.Clone()
		_ = mb.Miners.AddNode(cl)
	}
	mb.MagicBlockNumber = rapid.Int64Range(1, 9).Draw(t, tag+"num")
	mb.StartingRound = rapid.Int64Range(1, 999).Draw(t, tag+"start")
	mb.T, mb.N, mb.K = 2, 3, 3
	mb.PreviousMagicBlockHash = encryption.Hash(tag)
	mb.Hash = mb.GetHash()
	return mb
}

// c29receive is how a node takes a block off the wire.
func c29receive(wire []byte) (*Block, error) {
	b := &Block{}
	if err := json.Unmarshal(wire, b); err != nil {
		return nil, fmt.Errorf("decode: %v", err)
	}
	if err := b.ComputeProperties(); err != nil {
		return b, fmt.Errorf("properties: %v", err)
	}
	return b, b.Validate(context.Background())
}

func TestC29_HashCommitsToContents(t *testing.T) {
	st := vkit.For("C29").SetRule("signed blocks with 0..12 signed transactions with outputs, optional magic block, drawn header fields; the block must survive wire encode -> decode -> ComputeProperties -> Validate; then one generated tampering from the table {miner id (other registered miner / unknown id), prev hash, round, round random seed, state changes count, client state hash, transaction list (reorder, drop, duplicate, replace one), transaction output hash, magic block (replace, strip, attach, alter a field keeping its hash string), creation date, signature (bit flip / other miner's signature over the same hash), hash}, in two attacker modes: hash left as signed, or hash recomputed over the new contents (the attacker cannot re-sign as the generator); oracle: ComputeHash differs from the signed hash for every effect-relevant tampering, and the receive pipeline rejects the tampered block; non-trivial = tampered field other than hash/signature themselves; distinct by (block, tampering)")
	rapid.Check(t, func(t *rapid.T) {
		gi := rapid.IntRange(0, 4).Draw(t, "generator")
		gen, gs := c29miner(gi)
		other, os := c29miner((gi + 1) % 5)
		b := &Block{}
		b.Version = "1.0"
		b.CreationDate = common.Now()
		b.MinerID = gen.GetKey()
		b.PrevHash = encryption.Hash(fmt.Sprintf("prev-%d", rapid.IntRange(0, 9).Draw(t, "prev")))
		b.Round = rapid.Int64Range(1, 1<<40).Draw(t, "round")
		b.RoundRandomSeed = rapid.Int64().Draw(t, "rrs")
		b.RoundTimeoutCount = rapid.IntRange(0, 3).Draw(t, "toc")
		b.StateChangesCount = rapid.IntRange(0, 500).Draw(t, "changes")
		csh, _ := hex.DecodeString(encryption.Hash(fmt.Sprintf("state-%d", rapid.IntRange(0, 99).Draw(t, "state"))))
		b.ClientStateHash = csh
		n := rapid.IntRange(0, 12).Draw(t, "txns")
		for i := 0; i < n; i++ {
			b.Txns = append(b.Txns, c29txn(t, i))
		}
		if rapid.IntRange(0, 2).Draw(t, "withMB") == 0 {
			b.MagicBlock = c29mb(t, "mb")
		}
		b.ChainID = datastore_ToKey()
		b.HashBlock()
		var err error
		if b.Signature, err = gs.Sign(b.Hash); err != nil {
			t.Fatalf("VERIF-HARNESS-ERROR %v", err)
		}
		// what travels with a block but is not part of its contents: verification tickets of other miners over
		// this block's hash, and the previous block's tickets
		nt := rapid.SampledFrom([]int{0, 1, 0, 3}).Draw(t, "tickets")
		for i := 0; i < nt; i++ {
			v, vs := c29miner((gi + 1 + i) % 5)
			sig, _ := vs.Sign(b.Hash)
			b.VerificationTickets = append(b.VerificationTickets, &VerificationTicket{VerifierID: v.GetKey(), Signature: sig})
		}
		for i, np := 0, rapid.SampledFrom([]int{0, 0, 2}).Draw(t, "prevTickets"); i < np; i++ {
			v, vs := c29miner((gi + i) % 5)
			sig, _ := vs.Sign(b.PrevHash)
			b.PrevBlockVerificationTickets = append(b.PrevBlockVerificationTickets, &VerificationTicket{VerifierID: v.GetKey(), Signature: sig})
		}
		wire, _ := json.Marshal(b)
		st.Case()
		if rb, err := c29receive(wire); err != nil {
			t.Fatalf("%s", vkit.Violation("C29", "valid-block-rejected", "a correctly hashed and signed block is rejected after the wire round trip: %v", err))
		} else if rb.ComputeHash() != b.Hash {
			t.Fatalf("%s", vkit.Violation("C29", "hash-not-deterministic", "the hash recomputed by the receiver differs from the generator's"))
		}
		// ---- tampering
		kinds := []string{"miner-other", "miner-unknown", "prev_hash", "round", "rrs", "state_changes_count", "client_state_hash", "creation_date", "signature-flip", "signature-other-miner", "hash-flip", "mb-attach-or-replace", "hash-respell"}
		if n >= 1 {
			kinds = append(kinds, "txn-drop", "txn-duplicate", "txn-replace", "txn-output")
		}
		if n >= 2 {
			kinds = append(kinds, "txn-reorder")
		}
		if b.MagicBlock != nil {
			kinds = append(kinds, "mb-strip", "mb-alter-keep-hash")
		}
		kind := rapid.SampledFrom(kinds).Draw(t, "tamper")
		rehash := rapid.Bool().Draw(t, "recomputeHash")
		tb := &Block{}
		_ = json.Unmarshal(wire, tb)
		field := kind
		effect := true // does the tampered field determine the block's effect (must move the hash)?
		switch kind {
		case "miner-other":
			tb.MinerID = other.GetKey()
		case "miner-unknown":
			tb.MinerID = encryption.Hash("nobody")
		case "prev_hash":
			tb.PrevHash = encryption.Hash("other-prev")
		case "round":
			tb.Round += int64(rapid.SampledFrom([]int{-1, 1, 1000}).Draw(t, "d"))
		case "rrs":
			tb.RoundRandomSeed++
		case "state_changes_count":
			tb.StateChangesCount++
		case "client_state_hash":
			x, _ := hex.DecodeString(encryption.Hash("another state"))
			tb.ClientStateHash = x
		case "creation_date":
			tb.CreationDate++
		case "signature-flip":
			rehash, effect = false, false
			x, _ := hex.DecodeString(tb.Signature)
			i := rapid.IntRange(0, len(x)*8-1).Draw(t, "bit")
			x[i/8] ^= 1 << uint(i%8)
			tb.Signature = hex.EncodeToString(x)
		case "signature-other-miner":
			rehash, effect = false, false
			tb.Signature, _ = os.Sign(tb.Hash)
		case "hash-flip":
			rehash, effect = false, false
			x, _ := hex.DecodeString(tb.Hash)
			i := rapid.IntRange(0, len(x)*8-1).Draw(t, "bit")
			x[i/8] ^= 1 << uint(i%8)
			tb.Hash = hex.EncodeToString(x)
		case "hash-respell":
			// the same 32 bytes spelled differently are another string, and a block is known by that string
			rehash, effect = false, false
			x := []byte(tb.Hash)
			var letters []int
			for i, c := range x {
				if c >= 'a' && c <= 'f' {
					letters = append(letters, i)
				}
			}
			if len(letters) == 0 {
				return
			}
			if rapid.Bool().Draw(t, "all") {
				tb.Hash = strings.ToUpper(tb.Hash)
			} else {
				i := rapid.SampledFrom(letters).Draw(t, "letter")
				x[i] -= 'a' - 'A'
				tb.Hash = string(x)
			}
		case "txn-drop":
			i := rapid.IntRange(0, n-1).Draw(t, "i")
			tb.Txns = append(tb.Txns[:i:i], tb.Txns[i+1:]...)
		case "txn-duplicate":
			// (the merkle root of an odd list equals that of the list with its last element
			// repeated, so the hash need not move here; the statement's guard is the
			// rejection of a block that repeats a transaction)
			effect = false
			i := rapid.IntRange(0, n-1).Draw(t, "i")
			if rapid.Bool().Draw(t, "repeatLast") {
				i = n - 1
			}
			tb.Txns = append(tb.Txns, tb.Txns[i])
		case "txn-replace":
			i := rapid.IntRange(0, n-1).Draw(t, "i")
			tb.Txns[i] = c29txn(t, 50+i)
		case "txn-output":
			i := rapid.IntRange(0, n-1).Draw(t, "i")
			tb.Txns[i].TransactionOutput += "!"
			tb.Txns[i].OutputHash = tb.Txns[i].ComputeOutputHash()
		case "txn-reorder":
			i := rapid.IntRange(0, n-2).Draw(t, "i")
			tb.Txns[i], tb.Txns[i+1] = tb.Txns[i+1], tb.Txns[i]
			if tb.Txns[i].Hash == tb.Txns[i+1].Hash {
				return
			}
		case "mb-attach-or-replace":
			tb.MagicBlock = c29mb(t, "mb2")
			if b.MagicBlock != nil && tb.MagicBlock.Hash == b.MagicBlock.Hash {
				return
			}
		case "mb-strip":
			tb.MagicBlock = nil
		case "mb-alter-keep-hash":
			tb.MagicBlock.StartingRound += 7
			tb.MagicBlock.T = 1
		}
		if rehash {
			tb.Hash = tb.ComputeHash()
		}
		st.Class("tamper/" + kind)
		st.Class(fmt.Sprintf("tickets_attached_%d", nt))
		if effect || kind == "txn-duplicate" {
			st.NonTrivial(string(wire), kind, rehash)
		}
		if effect {
			if tb.ComputeHash() == b.Hash {
				key := "hash-ignores:" + field
				if !st.Known(key) {
					t.Fatalf("%s", vkit.Violation("C29", key, "tampering %q leaves the block hash unchanged (%s)", kind, b.Hash))
				}
				return
			}
		}
		twire, _ := json.Marshal(tb)
		if _, err := c29receive(twire); err == nil {
			t.Fatalf("%s", vkit.Violation("C29", "tampered-accepted:"+field, "block accepted by decode+ComputeProperties+Validate after tampering %q (hash recomputed by the attacker: %v; %d verification tickets attached)", kind, rehash, nt))
		} else if st.WantSample(true) {
			st.Sample(true, map[string]interface{}{"txns": n, "magic_block": b.MagicBlock != nil, "tamper": kind, "hash_recomputed": rehash, "rejected_with": err.Error()[:min(len(err.Error()), 90)]})
		}
	})
}

func datastore_ToKey() string { return "" }
