package block

import (
	"bytes"
	"context"
	"encoding/hex"
	"encoding/json"
	"fmt"
	"sort"
	"strconv"
	"strings"
	"sync"
	"testing"
	"time"

	"0chain.net/chaincore/transaction"
	"0chain.net/core/datastore"
	"0chain.net/core/encryption"
	"0chain.net/smartcontract/dbs/event"
	"github.com/0chain/common/core/statecache"
	"github.com/0chain/common/core/util"
	"pgregory.net/rapid"
	"verifharness/vkit"
)

// C28: applying a block's published state changes to the previous state yields
// exactly the state root the block declares, the same as executing the block; a
// change set whose root, block hash or node count does not match is rejected
// and leaves the local state untouched.
//
// Three nodes are simulated in-process, each with its own state DB:
//   G generates the blocks the way the miner does (CreateStateWithPreviousBlock,
//     one transaction-level trie per transaction merged with MergeMPTChanges,
//     SetClientState, SetStateChangesCount, HashBlock),
//   V executes them with the real Block.ComputeState,
//   R receives the blocks off the wire, has never executed them and is given
//     change sets through the real NewBlockStateChange -> wire encoding ->
//     datastore.From{JSON,Msgpack} (ComputeProperties) -> ApplyBlockStateChange.
// What a transaction does to the trie is generated (inserts, updates, deletes,
// delete + identical re-insert, failing transactions whose changes are dropped).

type c28op struct {
	Del bool
	Key string
	Val string
}

type c28txn struct {
	Ops  []c28op
	Fail bool // the contract fails after its writes: nothing is merged
}

// c28node is one simulated node: its state DB and what the transactions of a
// round do (the stand-in for Chain.UpdateState).
// c28pdb stands in for the node's persistent state DB: like RocksDB it hands out a freshly
// decoded node on every read, so node objects are shared only among the in-memory levels
// of blocks that are not saved yet (which the real chain reaches through its state cache).
type c28pdb struct{ *util.MemoryNodeDB }

func (p *c28pdb) GetNode(key util.Key) (util.Node, error) {
	n, err := p.MemoryNodeDB.GetNode(key)
	if err != nil {
		return nil, err
	}
	return util.CreateNode(bytes.NewReader(n.Encode()))
}

func (p *c28pdb) MultiGetNode(keys []util.Key) (nodes []util.Node, err error) {
	for _, k := range keys {
		n, e := p.GetNode(k)
		if e != nil {
			err = e
			continue
		}
		nodes = append(nodes, n)
	}
	return nodes, err
}

type c28node struct {
	db    *c28pdb
	progs map[int64][]c28txn
	sc    *statecache.StateCache
	lost  map[int64]string  // round being executed -> first removal of a node of this block that no collector recorded
	lostB map[string]string // the same by block hash, once the block is complete
}

func c28newNode() *c28node {
	return &c28node{db: &c28pdb{util.NewMemoryNodeDB()}, progs: map[int64][]c28txn{}, sc: statecache.NewStateCache(), lost: map[int64]string{}, lostB: map[string]string{}}
}

func (n *c28node) GetPreviousBlock(ctx context.Context, b *Block) *Block {
	panic("VERIF-HARNESS-ERROR c28node.GetPreviousBlock must not be needed")
}
func (n *c28node) GetBlockStateChange(b *Block) error {
	panic("VERIF-HARNESS-ERROR c28node.GetBlockStateChange must not be needed")
}
func (n *c28node) ComputeState(ctx context.Context, pb *Block, waitC ...chan struct{}) error {
	panic("VERIF-HARNESS-ERROR c28node.ComputeState must not be needed")
}
func (n *c28node) GetStateDB() util.NodeDB               { return n.db }
func (n *c28node) GetEventDb() *event.EventDb            { return nil }
func (n *c28node) GetStateCache() *statecache.StateCache { return n.sc }

// UpdateState runs one generated transaction the way Chain.UpdateState does:
// a transaction-level trie over the block state (chain.CreateTxnMPT, copied
// here because chaincore/chain imports this package), merged on success.
func (n *c28node) UpdateState(ctx context.Context, b *Block, bState util.MerklePatriciaTrieI,
	txn *transaction.Transaction, blockStateCache *statecache.BlockCache, waitC ...chan struct{}) ([]event.Event, error) {
	prog := n.progs[b.Round]
	i, err := strconv.Atoi(txn.TransactionData)
	if err != nil || i < 0 || i >= len(prog) {
		panic(fmt.Sprintf("VERIF-HARNESS-ERROR no program for txn %q of round %d", txn.TransactionData, b.Round))
	}
	tdb := util.NewLevelNodeDB(util.NewMemoryNodeDB(), bState.GetNodeDB(), false)
	tc := statecache.NewTransactionCache(blockStateCache)
	tm := util.NewMerklePatriciaTrie(tdb, bState.GetVersion(), bState.GetRoot(), tc)
	for _, op := range prog[i].Ops {
		if op.Del {
			_, err = tm.Delete(util.Path(op.Key))
		} else {
			_, err = tm.Insert(util.Path(op.Key), &util.SecureSerializableValue{Buffer: []byte(op.Val)})
		}
		if err != nil {
			return nil, nil // the contract call failed: the transaction is charged, its writes are dropped
		}
	}
	if prog[i].Fail {
		return nil, nil
	}
	n.noteLostRemoval(b.Round, i, bState, tm)
	if err := bState.MergeMPTChanges(tm); err != nil {
		return nil, err
	}
	tc.Commit()
	return nil, nil
}

// noteLostRemoval observes (it changes nothing) whether the transaction trie tm drops a node
// that the block created earlier without recording its removal.
func (n *c28node) noteLostRemoval(round int64, txn int, bState, tm util.MerklePatriciaTrieI) {
	if n.lost[round] != "" {
		return
	}
	_, blockChanges, _, _ := bState.GetChanges()
	if len(blockChanges) == 0 {
		return
	}
	_, _, deletes, _ := tm.GetChanges()
	gone := map[string]bool{}
	for _, d := range deletes {
		gone[d.GetHash()] = true
	}
	reach := map[string]bool{}
	_ = tm.Iterate(context.Background(), func(ctx context.Context, path util.Path, key util.Key, node util.Node) error {
		reach[hex.EncodeToString(key)] = true
		return nil
	}, util.NodeTypeLeafNode|util.NodeTypeFullNode|util.NodeTypeExtensionNode)
	for _, c := range blockChanges {
		if h := c.New.GetHash(); !reach[h] && !gone[h] {
			ops, _ := json.Marshal(n.progs[round][txn].Ops)
			n.lost[round] = fmt.Sprintf("transaction %d %s removes %s node %.8s created earlier in this block and its collector records neither the node nor its removal", txn, ops, c28nodeKind(c.New), h)
			return
		}
	}
}

// c28model is the reference: what a program does to a key/value map.
func c28model(m map[string]string, prog []c28txn) (out map[string]string, committedDelete bool) {
	out = map[string]string{}
	for k, v := range m {
		out[k] = v
	}
	for _, tx := range prog {
		loc := map[string]string{}
		for k, v := range out {
			loc[k] = v
		}
		ok, del := true, false
		for _, op := range tx.Ops {
			if op.Del {
				if _, has := loc[op.Key]; !has {
					ok = false // MPT.Delete of an absent path is an error
					break
				}
				delete(loc, op.Key)
				del = true
			} else {
				loc[op.Key] = op.Val
			}
		}
		if ok && !tx.Fail {
			out = loc
			committedDelete = committedDelete || del
		}
	}
	return out, committedDelete
}

func c28sortedKeys(m map[string]string) []string {
	ks := make([]string, 0, len(m))
	for k := range m {
		ks = append(ks, k)
	}
	sort.Strings(ks)
	return ks
}

var c28once sync.Once

func c28setup() {
	c28once.Do(func() {
		if datastore.GetEntityMetadata("block_state_change") == nil {
			SetupStateChange(nil)
		}
	})
}

// genesis builds the common starting state on a node and saves it to its DB.
func (n *c28node) genesis(round int64, kv map[string]string) *Block {
	g := Provider().(*Block)
	g.Round = round
	g.Hash = encryption.Hash(fmt.Sprintf("c28-genesis-%d", round))
	g.CreateState(n.db, nil)
	for _, k := range c28sortedKeys(kv) {
		if _, err := g.ClientState.Insert(util.Path(k), &util.SecureSerializableValue{Buffer: []byte(kv[k])}); err != nil {
			panic("VERIF-HARNESS-ERROR genesis insert: " + err.Error())
		}
	}
	g.ClientStateHash = g.ClientState.GetRoot()
	g.SetStateStatus(StateSuccessful)
	if err := g.ClientState.SaveChanges(context.Background(), n.db, false); err != nil {
		panic("VERIF-HARNESS-ERROR genesis save: " + err.Error())
	}
	g.ClientState.SetNodeDB(n.db) // Chain.rebaseState: a finalized block's state reads the persistent DB
	return g
}

// generate is the miner side: protocol_block.go generateBlock without the pool.
func (n *c28node) generate(prev *Block, prog []c28txn, tag string) *Block {
	b := Provider().(*Block)
	b.MinerID = encryption.Hash("c28-miner")
	b.CreationDate = 1700000000
	b.SetPreviousBlock(prev)
	n.progs[b.Round] = prog
	delete(n.lost, b.Round)
	for i := range prog {
		txn := &transaction.Transaction{}
		txn.Hash = encryption.Hash(fmt.Sprintf("c28-txn-%s-%d-%d", tag, b.Round, i))
		txn.ClientID = encryption.Hash("c28-client")
		txn.TransactionData = strconv.Itoa(i)
		b.Txns = append(b.Txns, txn)
	}
	bs := CreateStateWithPreviousBlock(prev, n.db, b.Round)
	bc := statecache.NewBlockCache(n.sc, statecache.Block{Round: b.Round, Hash: b.Hash, PrevHash: b.PrevHash})
	for _, txn := range b.Txns {
		if _, err := n.UpdateState(context.Background(), b, bs, txn, bc); err != nil {
			panic("VERIF-HARNESS-ERROR generate: " + err.Error())
		}
	}
	b.SetClientState(bs)
	b.SetStateChangesCount(bs)
	b.HashBlock()
	b.SetStateStatus(StateSuccessful)
	bc.SetBlockHash(b.Hash)
	bc.Commit()
	n.lostB[b.Hash] = n.lost[b.Round]
	return b
}

// c28offWire is the block as another node has it: decoded from its wire form,
// no state, status pending.
func c28offWire(b *Block) *Block {
	wire, err := json.Marshal(b)
	if err != nil {
		panic("VERIF-HARNESS-ERROR block encode: " + err.Error())
	}
	rb := Provider().(*Block)
	if err := json.Unmarshal(wire, rb); err != nil {
		panic("VERIF-HARNESS-ERROR block decode: " + err.Error())
	}
	if rb.Hash != b.Hash || !bytes.Equal(rb.ClientStateHash, b.ClientStateHash) || rb.StateChangesCount != b.StateChangesCount || rb.Round != b.Round {
		panic("VERIF-HARNESS-ERROR block header lost on the wire")
	}
	return rb
}

// c28send moves a change set over one of the two node-to-node codecs exactly as
// the n2n layer does (datastore.To* on the sender, datastore.From* - which runs
// ComputeProperties - on the receiver).
func c28send(bsc *StateChange, codec string) (out *StateChange, err error) {
	out = datastore.GetEntityMetadata("block_state_change").Instance().(*StateChange)
	switch codec {
	case "json":
		err = datastore.FromJSON(datastore.ToJSON(bsc).Bytes(), out)
	case "msgpack":
		err = datastore.FromMsgpack(datastore.ToMsgpack(bsc).Bytes(), out)
	default:
		panic("VERIF-HARNESS-ERROR codec " + codec)
	}
	if err != nil {
		return nil, err
	}
	return out, nil
}

// c28snapshot fingerprints everything the receiving node holds locally: its
// state DB and, for every earlier block, status, root and the nodes of its
// in-memory level.
func c28snapshot(n *c28node, chain []*Block) string {
	var sb strings.Builder
	ks := make([]string, 0, len(n.db.Nodes))
	for k, nd := range n.db.Nodes {
		ks = append(ks, string(k)+"="+nd.GetHash())
	}
	sort.Strings(ks)
	fmt.Fprintf(&sb, "db:%d:%x;", len(ks), vkit.FP(strings.Join(ks, ",")))
	for _, pb := range chain {
		if pb == nil {
			continue
		}
		fmt.Fprintf(&sb, "b%d:st%d:%x:", pb.Round, pb.GetStateStatus(), pb.ClientStateHash)
		if pb.ClientState == nil {
			sb.WriteString("nostate;")
			continue
		}
		fmt.Fprintf(&sb, "root%x:", pb.ClientState.GetRoot())
		if l, ok := pb.ClientState.GetNodeDB().(*util.LevelNodeDB); ok {
			if m, ok := l.GetCurrent().(*util.MemoryNodeDB); ok {
				ks = ks[:0]
				for k, nd := range m.Nodes {
					ks = append(ks, string(k)+"="+nd.GetHash())
				}
				sort.Strings(ks)
				fmt.Fprintf(&sb, "mem:%d:%x:del%d", len(ks), vkit.FP(strings.Join(ks, ",")), len(l.DeletedNodes))
			}
		}
		fmt.Fprintf(&sb, "chg%d;", pb.ClientState.GetChangeCount())
	}
	return sb.String()
}

// c28content reads the whole state of a block: every pool key through
// GetNodeValueRaw and the full iteration; returns a description of the first
// difference with the model ("" when equal).
func c28content(s util.MerklePatriciaTrieI, model map[string]string, pool []string) string {
	for _, k := range pool {
		raw, err := s.GetNodeValueRaw(util.Path(k))
		want, has := model[k]
		switch {
		case has && err != nil:
			return fmt.Sprintf("key %s: want %q, read fails: %v", k, want, err)
		case has && string(raw) != want:
			return fmt.Sprintf("key %s: want %q, read %q", k, want, raw)
		case !has && err == nil:
			return fmt.Sprintf("key %s: want absent, read %q", k, raw)
		case !has && err != util.ErrValueNotPresent:
			return fmt.Sprintf("key %s: want absent, read fails with %v", k, err)
		}
	}
	got := map[string]string{}
	err := s.Iterate(context.Background(), func(ctx context.Context, path util.Path, key util.Key, node util.Node) error {
		if node == nil {
			return fmt.Errorf("missing node %x at path %s", key, path)
		}
		if vn, ok := node.(*util.ValueNode); ok {
			got[string(path)] = string(vn.GetValueBytes())
		}
		return nil
	}, util.NodeTypeValueNode|util.NodeTypeLeafNode|util.NodeTypeFullNode|util.NodeTypeExtensionNode)
	if err != nil {
		return "full iteration fails: " + err.Error()
	}
	if len(got) != len(model) {
		return fmt.Sprintf("full iteration finds %d values, model has %d", len(got), len(model))
	}
	for k, v := range model {
		if got[k] != v {
			return fmt.Sprintf("full iteration: key %s is %q, model %q", k, got[k], v)
		}
	}
	return ""
}

// c28dump renders the change collector of a block state for a report. A node whose
// present hash differs from the hash it was recorded under was altered after it was
// recorded ("MUTATED"); a node no new node links to, other than the root, is an "ORPHAN".
func c28dump(b *Block) string {
	root, changes, _, start := b.ClientState.GetChanges()
	recorded := map[util.Node]string{}
	if m, ok := b.ClientState.(*util.MerklePatriciaTrie); ok {
		if cc, ok := m.ChangeCollector.(*util.ChangeCollector); ok {
			for k, c := range cc.Changes {
				recorded[c.New] = k
			}
		}
	}
	linked := map[string]bool{hex.EncodeToString(root): true}
	for _, c := range changes {
		switch n := c.New.(type) {
		case *util.ExtensionNode:
			linked[hex.EncodeToString(n.NodeKey)] = true
		case *util.FullNode:
			for _, pe := range util.PathElements {
				if ch := n.GetChild(pe); ch != nil {
					linked[hex.EncodeToString(ch)] = true
				}
			}
		}
	}
	var out []string
	for _, c := range changes {
		d := fmt.Sprintf("%s %.8s", c28nodeKind(c.New), c.New.GetHash())
		if k, ok := recorded[c.New]; ok && k != c.New.GetHash() {
			d = fmt.Sprintf("MUTATED(recorded as %.8s) ", k) + d
		} else if !linked[c.New.GetHash()] {
			d = "ORPHAN " + d
		}
		switch n := c.New.(type) {
		case *util.LeafNode:
			d += fmt.Sprintf(" prefix=%.6s.. path=%.6s.. value=%q", n.Prefix, n.Path, n.GetValueBytes())
		case *util.ExtensionNode:
			d += fmt.Sprintf(" path=%.6s.. -> %.8x", n.Path, n.NodeKey)
		case *util.FullNode:
			for _, pe := range util.PathElements {
				if ch := n.GetChild(pe); ch != nil {
					d += fmt.Sprintf(" %c->%.8x", pe, ch)
				}
			}
		}
		if c.Old != nil {
			d += fmt.Sprintf(" (old %.8s)", c.Old.GetHash())
		}
		out = append(out, d)
	}
	sort.Strings(out)
	return fmt.Sprintf("start %.8x root %.8x nodes [%s]", start, root, strings.Join(out, "; "))
}

type c28result struct {
	err      error
	panicked string
	hung     bool
}

// c28guard runs f under recover and a watchdog (decode + apply take microseconds).
func c28guard(f func() error) c28result {
	ch := make(chan c28result, 1)
	go func() {
		var r c28result
		defer func() {
			if p := recover(); p != nil {
				r.panicked = fmt.Sprint(p)
			}
			ch <- r
		}()
		r.err = f()
	}()
	select {
	case r := <-ch:
		return r
	case <-time.After(60 * time.Second):
		return c28result{hung: true}
	}
}

func c28short(err error) string {
	s := err.Error()
	if len(s) > 48 {
		s = s[:48]
	}
	return s
}

func c28nodeKind(n util.Node) string {
	switch n.(type) {
	case *util.LeafNode:
		return "leaf"
	case *util.FullNode:
		return "full"
	case *util.ExtensionNode:
		return "ext"
	}
	return fmt.Sprintf("%T", n)
}

func c28foreign(t *rapid.T, round int64) util.Node {
	val := &util.SecureSerializableValue{Buffer: []byte(rapid.StringN(1, 12, 24).Draw(t, "foreignValue"))}
	key, _ := hex.DecodeString(encryption.Hash("c28-foreign-" + rapid.StringN(0, 4, 8).Draw(t, "foreignKey")))
	switch rapid.IntRange(0, 2).Draw(t, "foreignKind") {
	case 0:
		return util.NewLeafNode(util.Path("a0"), util.Path("b1"), util.Sequence(round), val)
	case 1:
		fn := util.NewFullNode(nil)
		fn.PutChild("0123456789abcdef"[rapid.IntRange(0, 15).Draw(t, "foreignChild")], key)
		return fn
	default:
		return util.NewExtensionNode(util.Path("c2"), key)
	}
}

// c28Lost is the finding key of the one class of blocks found unpublishable: a
// transaction removes a trie node that an earlier transaction of the same block created,
// re-creates it identically and removes or replaces it again (e.g. delete k, insert k,
// delete k); the transaction's change collector then records neither the node nor its
// removal, the block-level collector keeps the node, and the block's change set carries
// a node that is not part of the new state (ComputeProperties: nodes_outside_tree).
// UpdateState above detects it where it arises (c28node.lost).
const c28Lost = "cannot-publish:removal-of-recreated-node-not-recorded"

// c28Withheld is the finding key of the one tampering found to be accepted into an unreadable
// state: a changed node is withheld and an unchanged node of the same state, linked from a
// changed one, is sent in its place; root, block hash and count all match.
const c28Withheld = "accepted-incomplete:changed-node-withheld"

const (
	c28MustReject = 0
	c28Either     = 1
	c28MustAccept = 2
)

var c28ops = []string{"drop", "dup", "add-foreign", "add-unchanged", "alter-leaf", "alter-inner", "replace-foreign",
	"wrong-hash", "wrong-block", "block-count", "empty", "other-prev", "fork-verbatim", "fork-relabel-block",
	"fork-relabel-both", "reorder", "dead-nodes", "swap-for-unchanged", "drop-and-dup"}

func TestC28_SyncedStateChanges(t *testing.T) {
	c28setup()
	st := vkit.For("C28").SetRule("three in-process nodes: G generates 1-3 blocks over a generated genesis state like the miner (block state over the previous block, one transaction trie per generated transaction of inserts/updates/deletes/delete+identical re-insert over a pool of fixed-length keys with shared prefixes, failing transactions dropped, MergeMPTChanges), V executes them with the real Block.ComputeState, R holds only the wire form of the blocks and syncs: NewBlockStateChange (from G's, V's or a synced block) -> JSON / msgpack n2n codec -> ComputeProperties -> ApplyBlockStateChange, with the previous block on R synced-unsaved / synced-saved / loaded from the DB / not computed / unknown. Honest change sets must be accepted with root == declared hash == V's executed root and every key reading as the model says. Then per block 8 generated tamperings from {drop, duplicate, add foreign / unchanged node, alter a leaf value / an inner link, replace by foreign, wrong root hash, wrong block hash, wrong count on the block, empty, change set of the previous block / of a fork of this block (verbatim, relabelled, relabelled with the declared root)}, plus neutral ones {reorder, dead-node list}, each delivered as a struct mutated after validation, re-validated, or over either wire codec: a mismatch of root, block hash or count must be rejected (by the decoder or by ApplyBlockStateChange, no panic) with the block's state/status, R's state DB and every earlier block's in-memory level byte-for-byte unchanged; anything accepted must give exactly the right state. Non-trivial = tampering of a block with >= 10 changed nodes that includes a committed deletion; distinct by (state root, operator, variant, delivery)")
	st.Assume("what a transaction writes is generated (trie inserts/deletes through a transaction-level trie merged into the block state exactly as Chain.UpdateState does); contracts themselves are not run in this part")
	st.Assume("the receiving block's own header (hash, state hash, state changes count) is authentic: it is covered by the block hash and signature (C29); a change set that matches a forged header is out of scope")
	rapid.Check(t, func(t *rapid.T) {
		// ---------------------------------------------------------------- keys
		klen := rapid.SampledFrom([]int{2, 4, 64, 64}).Draw(t, "keyLen")
		alpha := rapid.SampledFrom([]string{"a0", "a05", "0123456789abcdef"}).Draw(t, "alphabet")
		want := rapid.IntRange(3, 40).Draw(t, "keys")
		seen := map[string]bool{}
		var pool []string
		for tries := 0; len(pool) < want && tries < 4*want; tries++ {
			h := rapid.IntRange(1, 6).Draw(t, "head")
			if h > klen {
				h = klen
			}
			var sb strings.Builder
			for i := 0; i < h; i++ {
				sb.WriteByte(alpha[rapid.IntRange(0, len(alpha)-1).Draw(t, "nibble")])
			}
			k := sb.String()
			if klen > h {
				k += encryption.Hash(k + strconv.Itoa(rapid.IntRange(0, 2).Draw(t, "tail")))[:klen-h]
			}
			if !seen[k] {
				seen[k] = true
				pool = append(pool, k)
			}
		}
		values := []string{"A", "B", "CC"}
		drawVal := func() string {
			if rapid.IntRange(0, 3).Draw(t, "freshValue") == 0 {
				return rapid.StringN(1, 40, 80).Draw(t, "value")
			}
			return rapid.SampledFrom(values).Draw(t, "value")
		}
		// ------------------------------------------------------------ history
		// the chain's state is never empty (genesis funds accounts and stores contract nodes that are
		// never deleted): the first key is always present and never deleted
		gen := map[string]string{}
		for i, k := range pool {
			if i == 0 || rapid.IntRange(0, 2).Draw(t, "inGenesis") > 0 {
				gen[k] = drawVal()
			}
		}
		nb := rapid.IntRange(1, 3).Draw(t, "blocks")
		allowLost := !st.IsKnown(c28Lost) || rapid.IntRange(0, 19).Draw(t, "allowKnownClass") == 0
		models := []map[string]string{gen}
		var progs [][]c28txn
		var hasDelete []bool
		for bi := 0; bi < nb; bi++ {
			cur := models[len(models)-1]
			var prog []c28txn
			ntx := rapid.IntRange(1, 10).Draw(t, "txns")
			for ti := 0; ti < ntx; ti++ {
				var tx c28txn
				sofar, _ := c28model(cur, prog)
				var present []string
				for _, k := range c28sortedKeys(sofar) {
					if k != pool[0] {
						present = append(present, k)
					}
				}
				nops := rapid.IntRange(1, 6).Draw(t, "ops")
				deleted := map[string]bool{} // keys this transaction deleted
				for oi := 0; oi < nops; oi++ {
					kind := rapid.IntRange(0, 9).Draw(t, "opKind")
					var op c28op
					switch {
					case kind <= 2 && len(present) > 0: // delete a present key
						op = c28op{Del: true, Key: rapid.SampledFrom(present).Draw(t, "delKey")}
					case kind == 3 && len(pool) > 1: // delete any key (may be absent: the transaction fails)
						op = c28op{Del: true, Key: rapid.SampledFrom(pool[1:]).Draw(t, "delAny")}
					case kind == 4 && len(present) > 0: // delete and re-create identically
						k := rapid.SampledFrom(present).Draw(t, "recreate")
						tx.Ops = append(tx.Ops, c28op{Del: true, Key: k})
						deleted[k] = true
						op = c28op{Key: k, Val: sofar[k]}
					default:
						op = c28op{Key: rapid.SampledFrom(pool).Draw(t, "insKey"), Val: drawVal()}
					}
					if allowLost {
						tx.Ops = append(tx.Ops, op)
						continue
					}
					// known finding c28Lost: keep its two common shapes out so that the search goes on
					// behind them: a key is deleted at most once per transaction, and a transaction
					// ends with the write that re-creates a deleted value identically
					if op.Del && deleted[op.Key] {
						op = c28op{Key: op.Key, Val: drawVal()}
					}
					tx.Ops = append(tx.Ops, op)
					if op.Del {
						deleted[op.Key] = true
					} else if v, had := sofar[op.Key]; had && deleted[op.Key] && v == op.Val {
						break
					}
				}
				tx.Fail = rapid.IntRange(0, 7).Draw(t, "fails") == 0
				prog = append(prog, tx)
			}
			m, del := c28model(cur, prog)
			progs = append(progs, prog)
			models = append(models, m)
			hasDelete = append(hasDelete, del)
		}
		r0 := rapid.Int64Range(0, 5000).Draw(t, "genesisRound")

		// ---------------------------------------------- G generates, V executes
		G, V, R := c28newNode(), c28newNode(), c28newNode()
		gChain := []*Block{G.genesis(r0, gen)}
		vChain := []*Block{V.genesis(r0, gen)}
		if !bytes.Equal(gChain[0].ClientStateHash, vChain[0].ClientStateHash) {
			t.Fatalf("VERIF-HARNESS-ERROR genesis roots differ between nodes")
		}
		for bi := 0; bi < nb; bi++ {
			b := G.generate(gChain[bi], progs[bi], "main")
			gChain = append(gChain, b)
			vb := c28offWire(b)
			vb.SetPreviousBlock(vChain[bi])
			V.progs[vb.Round] = progs[bi]
			delete(V.lost, vb.Round)
			if err := vb.ComputeState(context.Background(), V); err != nil {
				t.Fatalf("VERIF-HARNESS-ERROR the executing node rejects the generated block: %v", err)
			}
			if d := c28content(vb.ClientState, models[bi+1], pool); d != "" {
				t.Fatalf("VERIF-HARNESS-ERROR executed state differs from the reference model: %s", d)
			}
			V.lostB[vb.Hash] = V.lost[vb.Round]
			vChain = append(vChain, vb)
		}
		last := gChain[nb]
		lastModel := models[nb]
		unchanged := bytes.Equal(last.ClientStateHash, gChain[nb-1].ClientStateHash)

		// --------------------------------------------------------- R's history
		rGenesis := R.genesis(r0, gen) // fills R's DB
		if len(rGenesis.ClientStateHash) > 0 && rapid.Bool().Draw(t, "genesisFromDB") {
			rGenesis = c28offWire(gChain[0]) // a restarted node: the state of the last saved block is opened from the DB
			if err := rGenesis.InitStateDB(R.db); err != nil {
				t.Fatalf("VERIF-HARNESS-ERROR InitStateDB: %v", err)
			}
		}
		rChain := []*Block{rGenesis}
		prevLink := rapid.SampledFrom([]string{"linked", "linked", "linked", "prev-not-computed", "prev-unknown"}).Draw(t, "prevOnReceiver")
		ctx := context.Background()

		// judge applies one delivered change set to a fresh wire copy of block bi on R.
		type delivery struct {
			bsc     *StateChange // nil when the decoder refused it
			decErr  error
			mutate  func(rb *Block)
			expect  int
			label   string
			via     string
			linkAs  string
			relayTo *[]*Block
		}
		judge := func(bi int, d delivery) (*Block, string) {
			src := gChain[bi]
			rb := c28offWire(src)
			link := d.linkAs
			switch link {
			case "linked":
				rb.SetPreviousBlock(rChain[bi-1])
			case "prev-not-computed":
				rb.SetPreviousBlock(c28offWire(gChain[bi-1]))
			case "prev-unknown":
			}
			if d.mutate != nil {
				d.mutate(rb)
			}
			hashBefore := append([]byte{}, rb.ClientStateHash...)
			snap := c28snapshot(R, rChain)
			if d.bsc == nil { // refused by the decoder: nothing was applied
				if d.expect == c28MustAccept {
					t.Fatalf("%s", vkit.Violation("C28", "honest-refused-by-decoder:"+d.label, "round %d: the receiving decoder refuses an untampered change set: %v", src.Round, d.decErr))
				}
				return rb, "rejected-decode"
			}
			res := c28guard(func() error { return rb.ApplyBlockStateChange(d.bsc, R) })
			if res.hung {
				t.Fatalf("VERIF-HANG C28 ApplyBlockStateChange did not return within 60 s (%s)", d.label)
			}
			if res.panicked != "" {
				t.Fatalf("%s", vkit.Violation("C28", "panic:"+d.label, "ApplyBlockStateChange panics instead of rejecting: %s", res.panicked))
			}
			if res.err != nil {
				if d.expect == c28MustAccept {
					t.Fatalf("%s", vkit.Violation("C28", "honest-rejected:"+d.label, "round %d (%d changed nodes, previous block on the receiver: %s): an untampered change set is rejected: %v", src.Round, src.StateChangesCount, link, res.err))
				}
				touched := ""
				switch {
				case rb.GetStateStatus() != StatePending:
					touched = fmt.Sprintf("state status became %d", rb.GetStateStatus())
				case rb.ClientState != nil:
					touched = "the block got a client state"
				case !bytes.Equal(rb.ClientStateHash, hashBefore):
					touched = "the block's state hash changed"
				case c28snapshot(R, rChain) != snap:
					touched = "the state DB or an earlier block's state changed"
				}
				if touched != "" {
					t.Fatalf("%s", vkit.Violation("C28", "rejected-but-touched:"+d.label, "change set rejected (%v) but %s", res.err, touched))
				}
				return rb, "rejected-apply:" + c28short(res.err)
			}
			// accepted
			if d.expect == c28MustReject {
				t.Fatalf("%s", vkit.Violation("C28", "tampered-accepted:"+d.label, "round %d (%d changed nodes, previous block on the receiver: %s): a change set with a root / block hash / count mismatch is accepted", src.Round, src.StateChangesCount, link))
			}
			key := "accepted-wrong-state:" + d.label
			if rb.GetStateStatus() != StateSynched {
				t.Fatalf("%s", vkit.Violation("C28", key, "accepted but the state status is %d, not synched", rb.GetStateStatus()))
			}
			if rb.ClientState == nil || !bytes.Equal(rb.ClientState.GetRoot(), src.ClientStateHash) || !bytes.Equal(rb.ClientStateHash, src.ClientStateHash) {
				t.Fatalf("%s", vkit.Violation("C28", key, "accepted but the state root is not the declared one (%x)", src.ClientStateHash))
			}
			if !bytes.Equal(rb.ClientState.GetRoot(), vChain[bi].ClientState.GetRoot()) {
				t.Fatalf("%s", vkit.Violation("C28", key, "synced root differs from the root obtained by executing the block"))
			}
			if diff := c28content(rb.ClientState, models[bi], pool); diff != "" {
				if strings.HasPrefix(d.label, "swap-for-unchanged") && (strings.Contains(diff, "node not found") || strings.Contains(diff, "missing")) {
					if st.Known(c28Withheld) {
						return rb, "accepted-incomplete(known)"
					}
					t.Fatalf("%s", vkit.Violation("C28", c28Withheld, "round %d (%d changed nodes, delivered %s): a change set in which one changed node is withheld and an unchanged node of the same state is sent in its place (root, block hash and node count all match) is accepted, the block is marked synched, and the state cannot be read: %s", src.Round, src.StateChangesCount, d.via, diff))
				}
				t.Fatalf("%s", vkit.Violation("C28", key, "round %d (%d changed nodes, previous block on the receiver: %s): accepted, root matches, but the state does not read as after execution: %s", src.Round, src.StateChangesCount, link, diff))
			}
			if c28snapshot(R, rChain) != snap {
				st.Class("note/accept-wrote-local-state")
			}
			return rb, "accepted"
		}
		publish := func(from *Block, label string) *StateChange {
			bsc, err := NewBlockStateChange(from)
			if err != nil {
				bi := int(from.Round - r0)
				hist, _ := json.Marshal(map[string]interface{}{"state_before": models[bi-1], "transactions": progs[bi-1]})
				lost := G.lostB[from.Hash]
				if lost == "" {
					lost = V.lostB[from.Hash]
				}
				if lost != "" && strings.Contains(err.Error(), "nodes_outside_tree") {
					if st.Known(c28Lost) {
						st.Class("known/" + c28Lost)
						t.Skip("known finding")
					}
					t.Fatalf("%s", vkit.Violation("C28", c28Lost, "round %d: NewBlockStateChange fails (%v) on an executed block whose state changed: the %d recorded changes contain a node that is not part of the new state (%s); change set: %s; block: %s", from.Round, err, from.StateChangesCount, lost, c28dump(from), hist))
				}
				t.Fatalf("%s", vkit.Violation("C28", "cannot-publish:"+label, "round %d: NewBlockStateChange fails on a block whose state changed (%d changes): %v; change set: %s; block: %s", from.Round, from.StateChangesCount, err, c28dump(from), hist))
			}
			return bsc
		}
		honest := func(bi int, from *Block, via, label, link string) *Block {
			bsc := publish(from, label)
			d := delivery{bsc: bsc, expect: c28MustAccept, label: label + "/" + via, linkAs: link}
			if via != "direct" {
				var err error
				res := c28guard(func() error { d.bsc, err = c28send(bsc, via); return nil })
				if res.panicked != "" || res.hung {
					t.Fatalf("%s", vkit.Violation("C28", "panic:codec-"+via, "encoding/decoding an untampered change set panics or hangs: %s", res.panicked))
				}
				d.decErr = err
				if err == nil && (d.bsc.Block != bsc.Block || !bytes.Equal(d.bsc.Hash, bsc.Hash) || len(d.bsc.Nodes) != len(bsc.Nodes)) {
					t.Fatalf("%s", vkit.Violation("C28", "codec-roundtrip:"+via, "the change set decoded from %s differs from what was sent (block %q/%q, %d/%d nodes)", via, d.bsc.Block, bsc.Block, len(d.bsc.Nodes), len(bsc.Nodes)))
				}
			}
			st.Case()
			st.Class("honest/" + label + "/" + via)
			rb, _ := judge(bi, d)
			return rb
		}

		// earlier blocks: R syncs them one after the other
		for bi := 1; bi < nb; bi++ {
			if bytes.Equal(gChain[bi].ClientStateHash, gChain[bi-1].ClientStateHash) {
				// nothing to fetch: Chain.GetBlockStateChange takes the previous state as it is
				rb := c28offWire(gChain[bi])
				rb.SetPreviousBlock(rChain[bi-1])
				rb.SetClientState(CreateStateWithPreviousBlock(rChain[bi-1], R.db, rb.Round))
				rb.SetStateStatus(rChain[bi-1].GetStateStatus())
				rChain = append(rChain, rb)
				continue
			}
			from := gChain[bi]
			label := "from-generator"
			if rapid.Bool().Draw(t, "fromVerifier") {
				from, label = vChain[bi], "from-executor"
			}
			via := rapid.SampledFrom([]string{"direct", "json", "msgpack"}).Draw(t, "via")
			rb := honest(bi, from, via, label, "linked")
			if prevLink != "linked" || rapid.Bool().Draw(t, "saved") {
				if err := rb.SaveChanges(ctx, R); err != nil {
					t.Fatalf("VERIF-HARNESS-ERROR SaveChanges on the receiver: %v", err)
				}
				st.Class("receiver-prev/saved")
			} else {
				st.Class("receiver-prev/in-memory")
			}
			rChain = append(rChain, rb)
		}
		st.Class("receiver-link/" + prevLink)
		if unchanged {
			// no state change: there is nothing to sync for this block
			st.Class("block/state-unchanged")
			return
		}
		changed := last.StateChangesCount
		switch {
		case changed >= 10:
			st.Class("block/changed>=10")
		case changed >= 4:
			st.Class("block/changed4-9")
		default:
			st.Class("block/changed1-3")
		}
		if hasDelete[nb-1] {
			st.Class("block/with-committed-deletion")
		}
		nontrivial := changed >= 10 && hasDelete[nb-1]

		// ------------------------------------------- the block itself: honest
		for _, via := range []string{"direct", "json", "msgpack"} {
			honest(nb, last, via, "from-generator", prevLink)
		}
		honest(nb, vChain[nb], rapid.SampledFrom([]string{"direct", "json", "msgpack"}).Draw(t, "viaV"), "from-executor", prevLink)
		// relay: a node that only synced the block serves it to the next one
		synced := honest(nb, last, "direct", "from-generator", prevLink)
		honest(nb, synced, rapid.SampledFrom([]string{"direct", "json", "msgpack"}).Draw(t, "viaRelay"), "from-synced", prevLink)

		// --------------------------------------------------------- a fork of it
		forkProg := make([]c28txn, len(progs[nb-1]))
		for i, tx := range progs[nb-1] {
			forkProg[i] = c28txn{Ops: append([]c28op{}, tx.Ops...), Fail: tx.Fail}
		}
		fi := rapid.IntRange(0, len(forkProg)-1).Draw(t, "forkTxn")
		fo := rapid.IntRange(0, len(forkProg[fi].Ops)-1).Draw(t, "forkOp")
		switch rapid.IntRange(0, 2).Draw(t, "forkKind") {
		case 0: // another value for the same write: same shape, same count
			if forkProg[fi].Ops[fo].Del {
				forkProg[fi].Ops[fo] = c28op{Key: forkProg[fi].Ops[fo].Key, Val: "fork"}
			} else {
				forkProg[fi].Ops[fo].Val += "'"
			}
		case 1:
			forkProg[fi].Ops = append(forkProg[fi].Ops[:fo:fo], forkProg[fi].Ops[fo+1:]...)
		default:
			forkProg = append(forkProg, c28txn{Ops: []c28op{{Key: rapid.SampledFrom(pool).Draw(t, "forkKey"), Val: "fork"}}})
		}
		fork := G.generate(gChain[nb-1], forkProg, "fork")
		G.progs[last.Round] = progs[nb-1]
		forkUsable := !bytes.Equal(fork.ClientStateHash, gChain[nb-1].ClientStateHash)
		forkSameRoot := bytes.Equal(fork.ClientStateHash, last.ClientStateHash)

		// the nodes of the new state that did not change in this block (linkedUnchanged: those a
		// changed node points to directly)
		var unchangedNodes, linkedUnchanged []util.Node
		inSet := map[string]bool{}
		{
			h := publish(last, "from-generator")
			for _, nd := range h.Nodes {
				inSet[nd.GetHash()] = true
			}
			var links []util.Key
			for _, nd := range h.Nodes {
				switch n := nd.(type) {
				case *util.ExtensionNode:
					links = append(links, n.NodeKey)
				case *util.FullNode:
					for _, pe := range util.PathElements {
						if ch := n.GetChild(pe); ch != nil {
							links = append(links, ch)
						}
					}
				}
			}
			for _, k := range links {
				if !inSet[hex.EncodeToString(k)] {
					if nd, err := last.ClientState.GetNodeDB().GetNode(k); err == nil {
						linkedUnchanged = append(linkedUnchanged, nd.CloneNode())
					}
				}
			}
			_ = last.ClientState.Iterate(ctx, func(ctx context.Context, path util.Path, key util.Key, node util.Node) error {
				if node != nil && !inSet[node.GetHash()] && len(unchangedNodes) < 64 {
					unchangedNodes = append(unchangedNodes, node.CloneNode())
				}
				return nil
			}, util.NodeTypeLeafNode|util.NodeTypeFullNode|util.NodeTypeExtensionNode)
		}

		// ------------------------------------------------------- tamperings
		for round := 0; round < 8; round++ {
			op := rapid.SampledFrom(c28ops).Draw(t, "tamper")
			if op == "swap-for-unchanged" && st.IsKnown(c28Withheld) && rapid.IntRange(0, 3).Draw(t, "skipKnown") > 0 {
				op = "replace-foreign"
			}
			mode := rapid.SampledFrom([]string{"mutated-after-validation", "revalidated", "json", "msgpack"}).Draw(t, "delivery")
			h := publish(last, "from-generator") // fresh honest copy to tamper with
			expect := c28MustReject
			variant := ""
			var mutate func(rb *Block)
			switch op {
			case "other-prev":
				if nb < 2 || bytes.Equal(gChain[nb-1].ClientStateHash, gChain[nb-2].ClientStateHash) {
					op = "fork-verbatim"
				}
			case "add-unchanged":
				if len(unchangedNodes) == 0 {
					op = "add-foreign"
				}
			case "swap-for-unchanged":
				if len(linkedUnchanged) == 0 || len(h.Nodes) < 2 {
					op = "replace-foreign"
				}
			}
			if strings.HasPrefix(op, "fork-") && !forkUsable {
				op = "wrong-hash"
			}
			switch op {
			case "drop":
				i := rapid.IntRange(0, len(h.Nodes)-1).Draw(t, "i")
				variant = c28nodeKind(h.Nodes[i])
				if bytes.Equal(h.Nodes[i].GetHashBytes(), h.Hash) {
					variant = "root-" + variant
				}
				h.Nodes = append(h.Nodes[:i:i], h.Nodes[i+1:]...)
				h.DeadNodes = append(h.DeadNodes[:i:i], h.DeadNodes[i+1:]...)
			case "dup":
				i := rapid.IntRange(0, len(h.Nodes)-1).Draw(t, "i")
				variant = c28nodeKind(h.Nodes[i])
				h.Nodes = append(h.Nodes, h.Nodes[i])
				h.DeadNodes = append(h.DeadNodes, nil)
			case "add-foreign":
				f := c28foreign(t, last.Round)
				variant = c28nodeKind(f)
				h.Nodes = append(h.Nodes, f)
				h.DeadNodes = append(h.DeadNodes, nil)
			case "add-unchanged":
				f := rapid.SampledFrom(unchangedNodes).Draw(t, "unchangedNode")
				variant = c28nodeKind(f)
				h.Nodes = append(h.Nodes, f)
				h.DeadNodes = append(h.DeadNodes, nil)
			case "swap-for-unchanged":
				// a changed node is withheld and a node the receiver already has is sent in its place: count,
				// declared root and block hash still match and every node sent belongs to the new state
				expect = c28Either
				var idx []int
				for i, nd := range h.Nodes {
					if !bytes.Equal(nd.GetHashBytes(), h.Hash) {
						idx = append(idx, i)
					}
				}
				i := rapid.SampledFrom(idx).Draw(t, "i")
				variant = "withheld-" + c28nodeKind(h.Nodes[i])
				u := rapid.SampledFrom(linkedUnchanged).Draw(t, "unchangedNode").CloneNode()
				switch rapid.SampledFrom([]string{"as-stored", "origin", "version", "origin", "both"}).Draw(t, "restamp") {
				case "origin":
					// the sender stamps the old node with this block's round as origin (the origin is part
					// of what a node's hash covers, so the node then no longer is the one its parent links to)
					u.SetOrigin(util.Sequence(last.Round))
					variant += "-origin-restamped"
					op = "swap-for-unchanged-restamped"
				case "version":
					// the version stamp travels on the wire but is not covered by the node's hash
					u.SetVersion(util.Sequence(last.Round))
					variant += "-version-restamped"
				case "both":
					u.SetOrigin(util.Sequence(last.Round))
					u.SetVersion(util.Sequence(last.Round))
					variant += "-origin-and-version-restamped"
					op = "swap-for-unchanged-restamped"
				}
				h.Nodes[i] = u
			case "drop-and-dup":
				// one changed node is withheld and another changed node is sent twice: count, declared root and block
				// hash match and every node sent was created in this block
				expect = c28Either
				var idx []int
				for i, nd := range h.Nodes {
					if !bytes.Equal(nd.GetHashBytes(), h.Hash) {
						idx = append(idx, i)
					}
				}
				if len(idx) == 0 || len(h.Nodes) < 2 {
					op = "wrong-hash"
					break
				}
				i := rapid.SampledFrom(idx).Draw(t, "i")
				j := rapid.IntRange(0, len(h.Nodes)-2).Draw(t, "j")
				if j >= i {
					j++
				}
				variant = "withheld-" + c28nodeKind(h.Nodes[i]) + "-repeated-" + c28nodeKind(h.Nodes[j])
				h.Nodes[i] = h.Nodes[j]
			case "alter-leaf", "alter-inner", "replace-foreign":
				expect = c28Either // count, declared root and block hash still match
				var idx []int
				for i, nd := range h.Nodes {
					k := c28nodeKind(nd)
					if op == "replace-foreign" || (op == "alter-leaf") == (k == "leaf") {
						idx = append(idx, i)
					}
				}
				if len(idx) == 0 {
					op = "replace-foreign"
					for i := range h.Nodes {
						idx = append(idx, i)
					}
				}
				i := rapid.SampledFrom(idx).Draw(t, "i")
				variant = c28nodeKind(h.Nodes[i])
				switch op {
				case "replace-foreign":
					h.Nodes[i] = c28foreign(t, last.Round)
				case "alter-leaf":
					ln := h.Nodes[i].CloneNode().(*util.LeafNode)
					ln.SetValue(&util.SecureSerializableValue{Buffer: append(ln.GetValueBytes(), '!')})
					h.Nodes[i] = ln
				default:
					key, _ := hex.DecodeString(encryption.Hash("c28-elsewhere"))
					switch n := h.Nodes[i].CloneNode().(type) {
					case *util.FullNode:
						n.PutChild("0123456789abcdef"[rapid.IntRange(0, 15).Draw(t, "child")], key)
						h.Nodes[i] = n
					case *util.ExtensionNode:
						n.NodeKey = key
						h.Nodes[i] = n
					}
				}
			case "wrong-hash":
				switch v := rapid.IntRange(0, 3).Draw(t, "v"); {
				case v == 0 && len(gChain[nb-1].ClientStateHash) > 0:
					variant = "previous-root"
					h.Hash = append(util.Key{}, gChain[nb-1].ClientStateHash...)
				case v == 1:
					variant = "empty"
					h.Hash = nil
				case v == 2 && forkUsable && !forkSameRoot:
					variant = "fork-root"
					h.Hash = append(util.Key{}, fork.ClientStateHash...)
				default:
					variant = "bit-flip"
					x := append(util.Key{}, h.Hash...)
					bit := rapid.IntRange(0, len(x)*8-1).Draw(t, "bit")
					x[bit/8] ^= 1 << uint(bit%8)
					h.Hash = x
				}
			case "wrong-block":
				switch rapid.IntRange(0, 3).Draw(t, "v") {
				case 0:
					variant = "previous-block"
					h.Block = gChain[nb-1].Hash
				case 1:
					variant = "empty"
					h.Block = ""
				case 2:
					variant = "upper-case"
					h.Block = strings.ToUpper(h.Block)
					if h.Block == last.Hash {
						h.Block = "0" + h.Block[1:]
					}
				default:
					variant = "one-char"
					i := rapid.IntRange(0, len(h.Block)-1).Draw(t, "char")
					c := byte('0')
					if h.Block[i] == '0' {
						c = 'f'
					}
					h.Block = h.Block[:i] + string(c) + h.Block[i+1:]
				}
			case "block-count":
				d := rapid.SampledFrom([]int{-1, 1, 2, -changed, changed}).Draw(t, "delta")
				variant = fmt.Sprintf("%+d", d)
				if d == -changed {
					variant = "zero"
				} else if d == changed {
					variant = "double"
				}
				mutate = func(rb *Block) { rb.StateChangesCount += d }
			case "empty":
				h.Nodes, h.DeadNodes = nil, nil
			case "other-prev":
				h = publish(gChain[nb-1], "from-generator")
				variant = fmt.Sprintf("count-%v", len(h.Nodes) == changed)
			case "fork-verbatim", "fork-relabel-block", "fork-relabel-both":
				h = publish(fork, "from-generator")
				variant = fmt.Sprintf("count-%v", len(h.Nodes) == changed)
				if op != "fork-verbatim" {
					h.Block = last.Hash
				}
				if op == "fork-relabel-both" {
					h.Hash = append(util.Key{}, last.ClientStateHash...)
				}
				if forkSameRoot {
					// the fork happens to end in the same state: its nodes are the same change set
					variant = "same-state"
					expect = c28Either
					if op == "fork-verbatim" {
						expect = c28MustReject
					}
				}
			case "reorder":
				expect = c28MustAccept
				if len(h.Nodes) < 2 {
					variant = "single"
				} else {
					perm := rapid.Permutation(func() []int {
						p := make([]int, len(h.Nodes))
						for i := range p {
							p[i] = i
						}
						return p
					}()).Draw(t, "perm")
					nn, dd := make([]util.Node, len(perm)), make([]util.Node, len(perm))
					for i, j := range perm {
						nn[i], dd[i] = h.Nodes[j], h.DeadNodes[j]
					}
					h.Nodes, h.DeadNodes = nn, dd
				}
			case "dead-nodes":
				expect = c28Either
				if rapid.Bool().Draw(t, "v") {
					variant = "dropped"
					h.DeadNodes = nil
				} else {
					variant = "foreign"
					h.DeadNodes = append(h.DeadNodes, c28foreign(t, last.Round))
				}
			}
			label := op
			d := delivery{bsc: h, expect: expect, label: label, linkAs: prevLink, mutate: mutate, via: mode}
			switch mode {
			case "mutated-after-validation":
				// the struct as validated, then altered (what ApplyBlockStateChange is handed if
				// anything between decoder and apply goes wrong): its own checks must hold
			case "revalidated":
				res := c28guard(func() error { return h.ComputeProperties() })
				if res.panicked != "" || res.hung {
					t.Fatalf("%s", vkit.Violation("C28", "panic:validate:"+op, "ComputeProperties panics or hangs on a tampered change set (%s/%s): %s", op, variant, res.panicked))
				}
				if res.err != nil {
					d.bsc, d.decErr = nil, res.err
				}
			default:
				var out *StateChange
				res := c28guard(func() (err error) { out, err = c28send(h, mode); return err })
				if res.panicked != "" || res.hung {
					t.Fatalf("%s", vkit.Violation("C28", "panic:codec:"+op, "the %s codec panics or hangs on a tampered change set (%s/%s): %s", mode, op, variant, res.panicked))
				}
				d.bsc, d.decErr = out, res.err
				if res.err != nil {
					d.bsc = nil
				}
			}
			if d.expect == c28MustAccept && mode != "mutated-after-validation" && d.bsc == nil {
				t.Fatalf("%s", vkit.Violation("C28", "honest-refused-by-decoder:"+op, "a reordered change set is refused by %s: %v", mode, d.decErr))
			}
			st.Case()
			_, outcome := judge(nb, d)
			st.Class("tamper/" + op)
			st.Class("delivery/" + mode)
			st.Class("outcome/" + op + "/" + outcome)
			if nontrivial {
				st.NonTrivial(hex.EncodeToString(last.ClientStateHash), op, variant, mode)
			}
			if st.WantSample(nontrivial) {
				st.Sample(nontrivial, map[string]interface{}{"key_length": klen, "keys": len(pool), "blocks": nb, "changed_nodes": changed,
					"committed_deletion": hasDelete[nb-1], "previous_on_receiver": prevLink, "tamper": op, "variant": variant, "delivery": mode, "outcome": outcome,
					"values_after": len(lastModel)})
			}
		}
	})
}
