package block

import (
	"fmt"
	"testing"

	"0chain.net/chaincore/transaction"
	"0chain.net/core/common"
	"github.com/0chain/common/core/util"
	"verifharness/checks/c44kit"
)

// C44 part (b): one published block.Block shared by generated concurrent
// programs, race detector as oracle. Only exported Block operations that the
// miner/sharder workers and handlers call on a block they share (a block that
// is in the chain's block map or in a round) are used; operations that real code
// only applies to a block before it is published (SetRoundRandomSeed,
// SetStateChangesCount, HashBlock, ...) are applied in Fresh only.

func TestC44_Block(t *testing.T) {
	var (
		b, pb  *Block
		states []util.MerklePatriciaTrieI
	)
	verifier := func(i int) string { return fmt.Sprintf("%064x", 0xa0+i%6) }
	ticket := func(i int) *VerificationTicket {
		return &VerificationTicket{VerifierID: verifier(i), Signature: fmt.Sprintf("sig-%d", i)}
	}
	tickets := func(a int) []*VerificationTicket {
		return []*VerificationTicket{ticket(a), ticket(a + 1), ticket(a + 2)}
	}
	ext := func(i int) *Block {
		e := &Block{}
		e.MinerID = verifier(i)
		return e
	}
	fresh := func() {
		pb = &Block{}
		pb.Hash = fmt.Sprintf("%064x", 1)
		pb.Round = 4
		pb.VerificationTickets = tickets(0)
		b = &Block{}
		b.Hash = fmt.Sprintf("%064x", 2)
		b.PrevHash = pb.Hash
		b.Round = 5
		b.MinerID = verifier(0)
		b.SetRoundRandomSeed(77)
		b.VerificationTickets = []*VerificationTicket{ticket(0)}
		for i := 0; i < 3; i++ {
			txn := &transaction.Transaction{}
			txn.Hash = fmt.Sprintf("%064x", 0x70+i)
			txn.ClientID = verifier(i)
			b.Txns = append(b.Txns, txn)
		}
		b.ComputeTxnMap()
		states = states[:0]
		for i := 0; i < 2; i++ {
			s := &Block{}
			s.Round = 5
			s.CreateState(util.NewMemoryNodeDB(), nil)
			states = append(states, s.ClientState)
		}
	}
	ops := []c44kit.Op{
		// miner: verification-ticket messages (per-message goroutines) -> chain.AddVerificationTicket
		{Name: "AddVerificationTicket", Role: "miner", W: []string{"tickets"}, Weight: 3, Fn: func(g, a int) { b.AddVerificationTicket(ticket(a)) }},
		// chain.MergeVerificationTickets (addBlock for a second copy, verify workers, notarization process), round.AddNotarizedBlock
		{Name: "MergeVerificationTickets", W: []string{"tickets"}, Weight: 3, Fn: func(g, a int) { b.MergeVerificationTickets(tickets(a)) }},
		{Name: "GetVerificationTickets", R: []string{"tickets"}, Weight: 2, Fn: func(g, a int) {
			_ = b.GetVerificationTickets()
			_ = b.VerificationTicketsSize()
		}},
		// notarization process (miner), merge of a notarization
		{Name: "UnknownTickets", R: []string{"tickets"}, Fn: func(g, a int) { _ = b.UnknownTickets(tickets(a)) }},
		// chain.UpdateBlockNotarization, round.AddNotarizedBlock
		{Name: "SetBlockNotarized", W: []string{"notarized"}, Weight: 2, Fn: func(g, a int) { b.SetBlockNotarized() }},
		{Name: "IsBlockNotarized", R: []string{"notarized"}, Fn: func(g, a int) { _ = b.IsBlockNotarized() }},
		// N2N senders and responders (SendBlock, SendNotarization, notarized-block handlers) encode the live block
		{Name: "ToMsgpack", R: []string{"tickets", "notarized", "prev", "seed"}, Weight: 2, Fn: func(g, a int) { _ = common.ToMsgpack(b) }},
		// chain.GetPreviousBlock / addBlock / finalize paths link the block to its predecessor
		{Name: "SetPreviousBlock", W: []string{"prev", "prevtickets"}, R: []string{"pb.tickets"}, Weight: 2, Fn: func(g, a int) { b.SetPreviousBlock(pb) }},
		// the predecessor keeps collecting tickets (updatePriorBlock)
		{Name: "pb.MergeVerificationTickets", W: []string{"pb.tickets"}, Fn: func(g, a int) { pb.MergeVerificationTickets(tickets(a)) }},
		// chain.DeleteBlocks / DeleteBlocksBelowRound (finalize goroutines)
		{Name: "Clear", W: []string{"prev"}, Fn: func(g, a int) { b.Clear() }},
		// miner updatePriorBlock
		{Name: "PrevBlockVerificationTickets", W: []string{"prevtickets"}, Role: "miner", Fn: func(g, a int) {
			if b.PrevBlockVerificationTicketsSize() < 3 {
				b.SetPrevBlockVerificationTickets(tickets(a))
			}
			_ = b.GetPrevBlockVerificationTickets()
		}},
		// ComputeState outcome, addBlock adopting the state of another copy, state sync
		{Name: "SetStateStatus", W: []string{"stateStatus"}, Weight: 2, Fn: func(g, a int) { b.SetStateStatus(int8(a % 5)) }},
		{Name: "GetStateStatus", R: []string{"stateStatus"}, Weight: 2, Fn: func(g, a int) {
			_ = b.GetStateStatus()
			_ = b.IsStateComputed()
		}},
		// addBlock adopting the client state of another copy of the block
		{Name: "SetClientState", W: []string{"clientState"}, Fn: func(g, a int) { b.SetClientState(states[a%len(states)]) }},
		// round.AddNotarizedBlock, miner AddNotarizedBlock, CollectBlocksForVerification, AddToRoundVerification
		{Name: "SetBlockState", W: []string{"blockState"}, Weight: 2, Fn: func(g, a int) { b.SetBlockState(int8(a % 4)) }},
		// addBlock, kickSharders, CollectBlocksForVerification
		{Name: "GetBlockState", R: []string{"blockState"}, Weight: 2, Fn: func(g, a int) { _ = b.GetBlockState() }},
		// miner CollectBlocksForVerification / visualizer handler
		{Name: "SetVerificationStatus", Role: "miner", W: []string{"verificationStatus"}, Fn: func(g, a int) { b.SetVerificationStatus(a % 3) }},
		{Name: "GetVerificationStatus", Role: "miner", R: []string{"verificationStatus"}, Fn: func(g, a int) { _ = b.GetVerificationStatus() }},
		// addBlock for every descendant / IsFinalizedDeterministically
		{Name: "AddUniqueBlockExtension", W: []string{"ext"}, Weight: 2, Fn: func(g, a int) { b.AddUniqueBlockExtension(ext(a)) }},
		{Name: "GetUniqueBlockExtensions", R: []string{"ext"}, Fn: func(g, a int) { _ = b.GetUniqueBlockExtensions() }},
		// chain handlers, ComputeProperties on receipt of another copy
		{Name: "HasTransaction", R: []string{"txnsMap"}, Fn: func(g, a int) { _ = b.HasTransaction(fmt.Sprintf("%064x", 0x70+a)) }},
		// handlers: GetBlockClone (any cached block), PutTransaction's LFB clone; sharder: Round.Clone
		{Name: "Clone", R: []string{"tickets", "notarized", "prev", "prevtickets", "stateStatus", "blockState", "verificationStatus", "ext", "txnsMap", "clientState", "seed"}, Weight: 3, Fn: func(g, a int) { _ = b.Clone() }},
		// round.AddNotarizedBlock sorts by weight
		{Name: "Weight", R: []string{"rank"}, Fn: func(g, a int) { _ = b.Weight() }},
	}
	c44kit.Run(t, c44kit.Object{
		Name:  "block",
		Ops:   ops,
		Fresh: fresh,
		Known: c44blockKnown,
	})
}

// open known findings of this part: while listed open in known_findings.json the
// two operations are never put into different goroutines of one program
var c44blockKnown = []c44kit.KnownPair{
	// the N2N encoder reads ClientStateHash under ticketsMutex while SetClientState writes it under stateMutex
	{Key: "block-state-hash-written-while-serialised", A: "ToMsgpack", B: "SetClientState"},
	// Block.Clone copies tickets, notarization flag, previous-block link, state status, block state,
	// verification status and state hash without the mutexes their setters use
	{Key: "block-clone-unguarded-fields", A: "Clone", B: "AddVerificationTicket"},
	{Key: "block-clone-unguarded-fields", A: "Clone", B: "MergeVerificationTickets"},
	{Key: "block-clone-unguarded-fields", A: "Clone", B: "SetBlockNotarized"},
	{Key: "block-clone-unguarded-fields", A: "Clone", B: "SetPreviousBlock"},
	{Key: "block-clone-unguarded-fields", A: "Clone", B: "Clear"},
	{Key: "block-clone-unguarded-fields", A: "Clone", B: "PrevBlockVerificationTickets"},
	{Key: "block-clone-unguarded-fields", A: "Clone", B: "SetStateStatus"},
	{Key: "block-clone-unguarded-fields", A: "Clone", B: "SetClientState"},
	{Key: "block-clone-unguarded-fields", A: "Clone", B: "SetBlockState"},
	{Key: "block-clone-unguarded-fields", A: "Clone", B: "SetVerificationStatus"},
	// blockState and verificationStatus are plain fields with unsynchronised setters and getters
	{Key: "block-state-flags-plain-fields", A: "SetBlockState", B: "SetBlockState"},
	{Key: "block-state-flags-plain-fields", A: "SetBlockState", B: "GetBlockState"},
	{Key: "block-state-flags-plain-fields", A: "SetVerificationStatus", B: "SetVerificationStatus"},
	{Key: "block-state-flags-plain-fields", A: "SetVerificationStatus", B: "GetVerificationStatus"},
	// Block.Clear resets PrevBlock without the mutex SetPreviousBlock writes it under
	{Key: "block-clear-without-lock", A: "Clear", B: "Clear"},
	{Key: "block-clear-without-lock", A: "Clear", B: "SetPreviousBlock"},
}
