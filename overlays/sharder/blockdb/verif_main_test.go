package blockdb

import (
	"testing"

	"verifharness/vkit"
)

func TestMain(m *testing.M) { vkit.Main(m) }
