package blockdb

import (
	"bytes"
	"encoding/binary"
	"fmt"
	"io"
	"os"
	"path/filepath"
	"sort"
	"testing"
	"time"

	"pgregory.net/rapid"
	"verifharness/vkit"
)

// C26 (block database part): after reopening, the database returns the record
// written under each key; a lookup of a key that was never written returns
// not-found instead of hanging or returning another record; with a process
// crash at any point of a write a read returns an error or the exact record.

type c26rec struct {
	K Key
	P []byte
}

func (r *c26rec) GetKey() Key { return r.K }
func (r *c26rec) Encode(w io.Writer) error {
	if err := binary.Write(w, binary.LittleEndian, int32(len(r.K))); err != nil {
		return err
	}
	if _, err := w.Write([]byte(r.K)); err != nil {
		return err
	}
	if err := binary.Write(w, binary.LittleEndian, int32(len(r.P))); err != nil {
		return err
	}
	_, err := w.Write(r.P)
	return err
}
func (r *c26rec) Decode(rd io.Reader) error {
	var n int32
	if err := binary.Read(rd, binary.LittleEndian, &n); err != nil {
		return err
	}
	if n < 0 || n > 1<<20 {
		return fmt.Errorf("bad key length %d", n)
	}
	k := make([]byte, n)
	if _, err := io.ReadFull(rd, k); err != nil {
		return err
	}
	r.K = Key(k)
	if err := binary.Read(rd, binary.LittleEndian, &n); err != nil {
		return err
	}
	if n < 0 || n > 1<<24 {
		return fmt.Errorf("bad payload length %d", n)
	}
	r.P = make([]byte, n)
	_, err := io.ReadFull(rd, r.P)
	return err
}

type c26prov struct{}

func (c26prov) NewRecord() Record { return &c26rec{} }

const c26LookupTimeout = 10 * time.Second

// c26read runs a lookup under a watchdog: it is a loop over at most 64 keys.
func c26read(db *BlockDB, k Key) (rec *c26rec, err error, hung bool) {
	type res struct {
		r   *c26rec
		err error
	}
	ch := make(chan res, 1)
	go func() {
		defer func() {
			if p := recover(); p != nil {
				ch <- res{nil, fmt.Errorf("PANIC: %v", p)}
			}
		}()
		r := &c26rec{}
		e := db.Read(k, r)
		ch <- res{r, e}
	}()
	select {
	case x := <-ch:
		return x.r, x.err, false
	case <-time.After(c26LookupTimeout):
		return nil, nil, true
	}
}

func TestC26_BlockDB(t *testing.T) {
	st := vkit.For("C26").SetRule("(a) block databases: key length 1..32, 0..64 records with keys over a 3-letter alphabet (so absent keys fall below, between and above stored keys), payload 0..4 KiB, compression on/off, records written in drawn order, optional stale data file left by an earlier crashed attempt; Save, reopen, read every written key, look up absent keys under a watchdog, ReadAll; then the crash model: the data file or the index file truncated at a drawn offset (a write that stopped there) -> every read returns an error or exactly the written record; (b) block store: generated blocks written, read back and compared field by field, block file truncated at drawn offsets, rewrite over a truncated file; non-trivial = a lookup of an absent key strictly between two stored keys, or a read after a truncation, or a block with transactions and a magic block read back; distinct by case fingerprint")
	base := t.TempDir()
	caseNo := 0
	rapid.Check(t, func(t *rapid.T) {
		caseNo++
		dir := filepath.Join(base, fmt.Sprintf("c%d", caseNo))
		_ = os.MkdirAll(dir, 0o755)
		defer os.RemoveAll(dir)
		klen := rapid.IntRange(1, 32).Draw(t, "keyLength")
		compress := rapid.Bool().Draw(t, "compress")
		keyGen := rapid.Custom(func(t *rapid.T) Key {
			b := make([]byte, klen)
			for i := range b {
				b[i] = "bdf"[rapid.IntRange(0, 2).Draw(t, "c")]
			}
			// vary mostly at the tail so that neighbours exist
			return Key(b)
		})
		n := rapid.IntRange(0, 64).Draw(t, "records")
		written := map[Key][]byte{}
		var order []Key
		for i := 0; i < n; i++ {
			k := keyGen.Draw(t, "key")
			if _, dup := written[k]; dup {
				continue
			}
			sz := rapid.SampledFrom([]int{0, 1, 7, 64, 700, 4096}).Draw(t, "payloadSize")
			p := make([]byte, sz)
			for j := range p {
				p[j] = byte(i*31 + j)
			}
			written[k] = p
			order = append(order, k)
		}
		file := filepath.Join(dir, "blk")
		stale := rapid.IntRange(0, 3).Draw(t, "staleDataFile") == 0
		if stale {
			// an earlier attempt crashed after writing data and before Save
			junk := bytes.Repeat([]byte{0xEE, 0x01, 0x00, 0x00}, rapid.IntRange(1, 3000).Draw(t, "staleLen"))
			_ = os.WriteFile(file+"."+FileExtData, junk, 0o644)
		}
		db, _ := NewBlockDB(file, int8(klen), compress)
		if err := db.Create(); err != nil {
			t.Fatalf("%s", vkit.Violation("C26", "create", "Create failed: %v", err))
		}
		for _, k := range order {
			if err := db.WriteData(&c26rec{K: k, P: written[k]}); err != nil {
				t.Fatalf("%s", vkit.Violation("C26", "write", "WriteData failed: %v", err))
			}
		}
		if err := db.Save(); err != nil {
			t.Fatalf("%s", vkit.Violation("C26", "save", "Save failed: %v", err))
		}
		what := fmt.Sprintf("keylen=%d records=%d compress=%v stale=%v", klen, len(order), compress, stale)
		open := func() *BlockDB {
			d, _ := NewBlockDB(file, int8(klen), compress)
			if err := d.Open(); err != nil {
				return nil
			}
			return d
		}
		rdb := open()
		if rdb == nil {
			t.Fatalf("%s", vkit.Violation("C26", "reopen", "a saved database does not open :: %s", what))
		}
		for _, k := range order {
			r, err, hung := c26read(rdb, k)
			if hung {
				t.Fatalf("%s", vkit.Violation("C26", "present-key-hangs", "lookup of written key %q did not return :: %s", k, what))
			}
			if err != nil || r.K != k || !bytes.Equal(r.P, written[k]) {
				t.Fatalf("%s", vkit.Violation("C26", "read-differs", "key %q reads back err=%v key=%q payload %d bytes (written %d) :: %s", k, err, r.K, len(r.P), len(written[k]), what))
			}
		}
		// absent keys: below, between, above, drawn
		sorted := append([]Key{}, order...)
		sort.Slice(sorted, func(i, j int) bool { return sorted[i] < sorted[j] })
		var absent []Key
		mk := func(s string) Key {
			b := []byte(s)
			for len(b) < klen {
				b = append(b, 'a')
			}
			return Key(b[:klen])
		}
		absent = append(absent, mk("a"), mk("z"), mk("c"), mk("e"))
		for i := 0; i < 6; i++ {
			absent = append(absent, keyGen.Draw(t, "absent"))
		}
		for _, k := range sorted {
			b := []byte(k)
			b[len(b)-1]++ // immediate successor: between k and the next stored key
			absent = append(absent, Key(b))
		}
		between := false
		for _, k := range absent {
			if _, ok := written[k]; ok {
				continue
			}
			if len(sorted) >= 2 && k > sorted[0] && k < sorted[len(sorted)-1] {
				between = true
			}
			r, err, hung := c26read(rdb, k)
			if hung {
				if st.Known("absent-key-lookup-hangs") {
					t.Skip("known finding")
				}
				t.Fatalf("%s", vkit.Violation("C26", "absent-key-lookup-hangs", "lookup of the never-written key %q did not return within %v (stored keys %d) :: %s", k, c26LookupTimeout, len(sorted), what))
			}
			if err == nil {
				t.Fatalf("%s", vkit.Violation("C26", "absent-key-returns-record", "lookup of the never-written key %q returned record %q :: %s", k, r.K, what))
			}
			if err != ErrKeyNotFound {
				t.Fatalf("%s", vkit.Violation("C26", "absent-key-wrong-error", "lookup of the never-written key %q returned %v instead of not-found :: %s", k, err, what))
			}
		}
		// full scan returns exactly the written records
		// (on a freshly opened handle: ReadAll scans from the handle's current file position)
		_ = rdb.Close()
		rdb = open()
		if rdb == nil {
			t.Fatalf("%s", vkit.Violation("C26", "reopen", "a saved database does not open a second time :: %s", what))
		}
		all, err := rdb.ReadAll(c26prov{})
		if err != nil {
			t.Fatalf("%s", vkit.Violation("C26", "readall-error", "ReadAll failed: %v :: %s", err, what))
		}
		if len(all) != len(order) {
			t.Fatalf("%s", vkit.Violation("C26", "readall-count", "ReadAll returned %d records, %d written :: %s", len(all), len(order), what))
		}
		for i, rec := range all {
			r := rec.(*c26rec)
			if p, ok := written[r.K]; !ok || !bytes.Equal(p, r.P) {
				t.Fatalf("%s", vkit.Violation("C26", "readall-foreign-record", "ReadAll record %d has key %q which was not written in this database (or another payload) :: %s", i, r.K, what))
			}
		}
		_ = rdb.Close()
		// ---- crash model: one of the files stops at a drawn offset
		truncated := false
		if len(order) > 0 && rapid.Bool().Draw(t, "crash") {
			target := file + "." + rapid.SampledFrom([]string{FileExtData, FileExtHeader}).Draw(t, "file")
			fi, _ := os.Stat(target)
			if fi != nil && fi.Size() > 0 {
				off := rapid.Int64Range(0, fi.Size()-1).Draw(t, "truncateAt")
				if err := os.Truncate(target, off); err != nil {
					t.Fatalf("VERIF-HARNESS-ERROR %v", err)
				}
				truncated = true
				if cdb := open(); cdb != nil {
					for _, k := range order {
						r, err, hung := c26read(cdb, k)
						if hung {
							if st.Known("absent-key-lookup-hangs") {
								t.Skip("known finding")
							}
							t.Fatalf("%s", vkit.Violation("C26", "lookup-hangs-after-crash", "lookup of %q hangs on a database whose %s stops at byte %d :: %s", k, filepath.Ext(target), off, what))
						}
						if err != nil {
							if len(err.Error()) > 6 && err.Error()[:6] == "PANIC:" {
								t.Fatalf("%s", vkit.Violation("C26", "panic-after-crash", "%v reading %q after %s was cut at %d :: %s", err, k, filepath.Ext(target), off, what))
							}
							continue
						}
						if r.K != k || !bytes.Equal(r.P, written[k]) {
							t.Fatalf("%s", vkit.Violation("C26", "wrong-record-after-crash", "after %s was cut at byte %d key %q reads back as key %q with %d payload bytes (written %d) without an error :: %s", filepath.Ext(target), off, k, r.K, len(r.P), len(written[k]), what))
						}
					}
					_ = cdb.Close()
				}
			}
		}
		st.Case()
		nt := between || truncated
		if between {
			st.Class("absent_key_between_stored_keys")
		}
		if truncated {
			st.Class("file_truncated")
		}
		if stale {
			st.Class("stale_data_file")
		}
		if nt {
			st.NonTrivial("db", what, fmt.Sprint(order), truncated)
		}
		if st.WantSample(nt) {
			st.Sample(nt, map[string]interface{}{"kind": "blockdb", "case": what, "absent_lookups": len(absent), "truncated": truncated})
		}
	})
}
