package blockstore

import (
	"encoding/hex"
	"fmt"
	"os"
	"path/filepath"
	"testing"

	"0chain.net/chaincore/block"
	"0chain.net/chaincore/node"
	"0chain.net/chaincore/transaction"
	"0chain.net/core/common"
	"0chain.net/core/datastore"
	"0chain.net/core/encryption"
	"github.com/0chain/common/core/currency"
	"pgregory.net/rapid"
	"verifharness/vkeys"
	"verifharness/vkit"
)

// C26 (block store part): a block saved to the sharder block store reads back
// with the same hash, header, transactions, outputs and magic block; with a
// crash at any point of a write, a read returns an error or exactly the block.

func c26txn(t *rapid.T, i int) *transaction.Transaction {
	s := vkeys.BLS(vkit.Seed(), "storetxn", i%5)
	b, _ := hex.DecodeString(s.GetPublicKey())
	txn := transaction.Provider().(*transaction.Transaction)
	txn.ClientID = encryption.Hash(b)
	txn.PublicKey = s.GetPublicKey()
	txn.ToClientID = encryption.Hash(fmt.Sprintf("to-%d", i))
	txn.Nonce = int64(i + 1)
	txn.Value = currency.Coin(rapid.Uint64().Draw(t, "value"))
	txn.Fee = currency.Coin(rapid.Uint64Range(0, 1e9).Draw(t, "fee"))
	txn.TransactionType = rapid.SampledFrom([]int{transaction.TxnTypeSend, transaction.TxnTypeData, transaction.TxnTypeSmartContract}).Draw(t, "type")
	txn.TransactionData = rapid.SampledFrom([]string{"", `{"name":"pour","input":{}}`, "plain data", "é世界"}).Draw(t, "data")
	txn.CreationDate = common.Now()
	_, _ = txn.Sign(s)
	txn.TransactionOutput = rapid.SampledFrom([]string{"", "ok", `{"a":[1,2,3]}`, "failed: \"quoted\"\n"}).Draw(t, "output")
	txn.OutputHash = txn.ComputeOutputHash()
	txn.Status = rapid.SampledFrom([]int{transaction.TxnSuccess, transaction.TxnError}).Draw(t, "status")
	return txn
}

func c26block(t *rapid.T) *block.Block {
	gs := vkeys.BLS(vkit.Seed(), "storeminer", rapid.IntRange(0, 3).Draw(t, "gen"))
	gb, _ := hex.DecodeString(gs.GetPublicKey())
	b := &block.Block{}
	b.Version = "1.0"
	b.CreationDate = common.Now()
	b.MinerID = encryption.Hash(gb)
	b.PrevHash = encryption.Hash(fmt.Sprint(rapid.IntRange(0, 99).Draw(t, "prev")))
	b.Round = rapid.Int64Range(1, 1<<40).Draw(t, "round")
	b.RoundRandomSeed = rapid.Int64().Draw(t, "rrs")
	b.RoundTimeoutCount = rapid.IntRange(0, 4).Draw(t, "toc")
	b.StateChangesCount = rapid.IntRange(0, 999).Draw(t, "changes")
	b.RunningTxnCount = rapid.Int64Range(0, 1<<30).Draw(t, "running")
	b.LatestFinalizedMagicBlockHash = encryption.Hash("lfmb")
	b.LatestFinalizedMagicBlockRound = rapid.Int64Range(0, 500).Draw(t, "lfmbr")
	csh, _ := hex.DecodeString(encryption.Hash(fmt.Sprint(rapid.IntRange(0, 99).Draw(t, "state"))))
	b.ClientStateHash = csh
	n := rapid.IntRange(0, 20).Draw(t, "txns")
	for i := 0; i < n; i++ {
		b.Txns = append(b.Txns, c26txn(t, i))
	}
	nt := rapid.IntRange(0, 3).Draw(t, "tickets")
	for i := 0; i < nt; i++ {
		b.VerificationTickets = append(b.VerificationTickets, &block.VerificationTicket{VerifierID: encryption.Hash(fmt.Sprint("v", i)), Signature: encryption.Hash(fmt.Sprint("s", i))})
	}
	if rapid.IntRange(0, 2).Draw(t, "withMB") == 0 {
		mb := block.NewMagicBlock()
		mb.Miners = node.NewPool(node.NodeTypeMiner)
		mb.Sharders = node.NewPool(node.NodeTypeSharder)
		for i := 0; i < rapid.IntRange(1, 3).Draw(t, "mbMiners"); i++ {
			nd := node.Provider()
			nd.Type = node.NodeTypeMiner
			nd.PublicKey = vkeys.BLS(vkit.Seed(), "storeminer", i).GetPublicKey()
			nd.Host, nd.Port = fmt.Sprintf("host%d", i), 7000+i
			_ = mb.Miners.AddNode(nd)
		}
		mb.MagicBlockNumber = rapid.Int64Range(1, 50).Draw(t, "mbNum")
		mb.StartingRound = b.Round
		if rapid.Bool().Draw(t, "mbOtherRound") {
			mb.StartingRound = b.Round - 1
		}
		mb.T, mb.N, mb.K = 2, 3, 3
		mb.PreviousMagicBlockHash = encryption.Hash("pmb")
		mb.Hash = mb.GetHash()
		b.MagicBlock = mb
	}
	b.HashBlock()
	b.Signature, _ = gs.Sign(b.Hash)
	return b
}

func c26diff(a, b *block.Block) string {
	switch {
	case a.Hash != b.Hash:
		return "hash"
	case b.ComputeHash() != a.Hash:
		return "recomputed hash"
	case a.Signature != b.Signature || a.MinerID != b.MinerID || a.PrevHash != b.PrevHash || a.Round != b.Round ||
		a.RoundRandomSeed != b.RoundRandomSeed || a.RoundTimeoutCount != b.RoundTimeoutCount || a.CreationDate != b.CreationDate ||
		a.StateChangesCount != b.StateChangesCount || a.RunningTxnCount != b.RunningTxnCount ||
		hex.EncodeToString(a.ClientStateHash) != hex.EncodeToString(b.ClientStateHash) ||
		a.LatestFinalizedMagicBlockHash != b.LatestFinalizedMagicBlockHash || a.LatestFinalizedMagicBlockRound != b.LatestFinalizedMagicBlockRound:
		return "header"
	case len(a.Txns) != len(b.Txns):
		return "transaction count"
	case len(a.VerificationTickets) != len(b.VerificationTickets):
		return "ticket count"
	}
	for i := range a.Txns {
		x, y := a.Txns[i], b.Txns[i]
		if x.Hash != y.Hash || x.ClientID != y.ClientID || x.PublicKey != y.PublicKey || x.ToClientID != y.ToClientID || x.Value != y.Value ||
			x.Fee != y.Fee || x.Nonce != y.Nonce || x.TransactionType != y.TransactionType || x.TransactionData != y.TransactionData ||
			x.Signature != y.Signature || x.CreationDate != y.CreationDate {
			return fmt.Sprintf("transaction %d", i)
		}
		if x.TransactionOutput != y.TransactionOutput || x.OutputHash != y.OutputHash || x.Status != y.Status {
			return fmt.Sprintf("output of transaction %d", i)
		}
	}
	for i := range a.VerificationTickets {
		if *a.VerificationTickets[i] != *b.VerificationTickets[i] {
			return fmt.Sprintf("ticket %d", i)
		}
	}
	if (a.MagicBlock == nil) != (b.MagicBlock == nil) {
		return "magic block presence"
	}
	if a.MagicBlock != nil {
		x, y := a.MagicBlock, b.MagicBlock
		if x.Hash != y.Hash || y.GetHash() != x.Hash || x.StartingRound != y.StartingRound || x.MagicBlockNumber != y.MagicBlockNumber ||
			x.T != y.T || x.N != y.N || x.K != y.K || x.PreviousMagicBlockHash != y.PreviousMagicBlockHash || x.Miners.Size() != y.Miners.Size() {
			return "magic block"
		}
		for _, k := range x.Miners.Keys() {
			nx, ny := x.Miners.GetNode(k), y.Miners.GetNode(k)
			if ny == nil || nx.PublicKey != ny.PublicKey || nx.Host != ny.Host || nx.Port != ny.Port {
				return "magic block miner " + k[:8]
			}
		}
	}
	return ""
}

func TestC26_BlockStore(t *testing.T) {
	st := vkit.For("C26")
	md := datastore.MetadataProvider()
	md.Name = "block"
	md.Provider = block.Provider
	base := t.TempDir()
	caseNo := 0
	rapid.Check(t, func(t *rapid.T) {
		caseNo++
		dir := filepath.Join(base, fmt.Sprintf("s%d", caseNo))
		defer os.RemoveAll(dir)
		bs := &BlockStore{basePath: dir, blockMetadataProvider: md, cache: noOpCache{}}
		b := c26block(t)
		bp, _ := getBlockFilePath(b.Hash)
		path := filepath.Join(dir, bp)
		// an earlier attempt to store this block may have crashed: its file stops at a drawn length
		leftover := rapid.IntRange(0, 3).Draw(t, "leftoverOfCrashedWrite") == 0
		if leftover {
			other := c26block(t)
			other.Hash = b.Hash
			if err := bs.Write(other); err != nil {
				t.Fatalf("VERIF-HARNESS-ERROR %v", err)
			}
			if fi, err := os.Stat(path); err == nil && fi.Size() > 1 {
				_ = os.Truncate(path, rapid.Int64Range(0, fi.Size()-1).Draw(t, "leftoverLen"))
			}
		}
		if err := bs.Write(b); err != nil {
			t.Fatalf("%s", vkit.Violation("C26", "store-write", "Write failed: %v", err))
		}
		what := fmt.Sprintf("block round=%d txns=%d tickets=%d magic_block=%v leftover=%v", b.Round, len(b.Txns), len(b.VerificationTickets), b.MagicBlock != nil, leftover)
		got, err := bs.Read(b.Hash)
		if err != nil {
			t.Fatalf("%s", vkit.Violation("C26", "store-read", "a stored block does not read back: %v :: %s", err, what))
		}
		if d := c26diff(b, got); d != "" {
			t.Fatalf("%s", vkit.Violation("C26", "store-read-differs", "stored block reads back with a different %s :: %s", d, what))
		}
		if b.MagicBlock != nil && b.Round == b.MagicBlock.StartingRound {
			mbb, err := bs.Read(b.MagicBlock.Hash)
			if err != nil || c26diff(b, mbb) != "" {
				t.Fatalf("%s", vkit.Violation("C26", "store-magic-block-copy", "block of a magic block does not read back under the magic block hash: %v :: %s", err, what))
			}
			st.Class("stored_under_magic_block_hash")
		}
		// crash model: the file stops at a drawn offset
		truncated := false
		if fi, err := os.Stat(path); err == nil && fi.Size() > 0 && rapid.Bool().Draw(t, "crash") {
			off := rapid.Int64Range(0, fi.Size()-1).Draw(t, "truncateAt")
			_ = os.Truncate(path, off)
			truncated = true
			var rb *block.Block
			var rerr error
			func() {
				defer func() {
					if p := recover(); p != nil {
						rerr = fmt.Errorf("PANIC: %v", p)
					}
				}()
				rb, rerr = bs.Read(b.Hash)
			}()
			if rerr != nil {
				if len(rerr.Error()) > 6 && rerr.Error()[:6] == "PANIC:" {
					t.Fatalf("%s", vkit.Violation("C26", "store-panic-after-crash", "%v reading a block file cut at byte %d of %d :: %s", rerr, off, fi.Size(), what))
				}
			} else if d := c26diff(b, rb); d != "" {
				t.Fatalf("%s", vkit.Violation("C26", "store-wrong-block-after-crash", "block file cut at byte %d of %d reads back without error but with a different %s :: %s", off, fi.Size(), d, what))
			}
		}
		st.Case()
		nt := (len(b.Txns) > 0 && b.MagicBlock != nil) || truncated || leftover
		if truncated {
			st.Class("block_file_truncated")
		}
		if leftover {
			st.Class("leftover_of_crashed_write")
		}
		if nt {
			st.NonTrivial("store", b.Hash, truncated, leftover)
		}
		if st.WantSample(false) {
			st.Sample(false, map[string]interface{}{"kind": "blockstore", "case": what, "truncated": truncated})
		}
	})
}
