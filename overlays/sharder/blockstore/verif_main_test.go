package blockstore

import (
	"testing"

	"0chain.net/chaincore/client"
	"0chain.net/chaincore/transaction"
	"0chain.net/core/config"
	"0chain.net/core/datastore"
	"verifharness/vkit"
	"verifharness/vlog"
)

func TestMain(m *testing.M) {
	vlog.Quiet()
	config.SetServerChainID("")
	transaction.SetTxnTimeout(600)
	md := datastore.MetadataProvider()
	md.Name = "client"
	md.Provider = client.Provider
	datastore.RegisterEntityMetadata("client", md)
	vkit.Main(m)
}
