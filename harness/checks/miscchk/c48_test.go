package miscchk

import (
	"strings"
	"fmt"
	"sort"
	"testing"

	chainstate "0chain.net/chaincore/chain/state"
	"0chain.net/smartcontract/faucetsc"
	"0chain.net/smartcontract/minersc"
	"0chain.net/smartcontract/storagesc"
	"0chain.net/smartcontract/vestingsc"
	"0chain.net/smartcontract/zcnsc"
	"pgregory.net/rapid"
	"verifharness/sim"
	"verifharness/simmisc"
	"verifharness/vkit"
)

func validateStored(t simmisc.Target, ctx chainstate.StateContextI) error {
	switch t {
	case simmisc.MinerSettings:
		return minersc.VerifValidateStoredConfig(ctx)
	case simmisc.StorageSettings:
		return storagesc.VerifValidateStoredConfig(ctx)
	case simmisc.FaucetSettings:
		return faucetsc.VerifValidateStoredConfig(ctx)
	case simmisc.ZcnSettings:
		return zcnsc.VerifValidateStoredConfig(ctx)
	case simmisc.VestingSettings:
		return vestingsc.VerifValidateStoredConfig(ctx)
	}
	return nil // chain globals have no validate of their own
}

// C48: settings change only through a transaction from the configured owner, only for settings marked mutable, and
// only to values that parse and pass validation; a rejected change leaves all settings as they were.
func TestC48_GovernanceSettings(t *testing.T) {
	s := boot(t)
	st := vkit.For("C48").SetRule("for each of the six settings functions (minersc update_settings, update_globals, storagesc update_settings + commit_settings_changes, faucetsc, zcnsc, vestingsc) sequences of 2..6 updates, each a map of 1..6 entries mixing: valid examples taken from the contracts' own settings tables, unknown names, names the contract marks immutable, unparsable values for the setting's type, extreme values (0, -1, huge); sent by the owner or by a stranger; optionally after the demeter hard fork was recorded; oracle on the contract's own rendering of its active settings: refused update (and any update by a stranger) => the rendering is identical; accepted => only named keys differ (for the staged storage settings: named by this update or by an earlier accepted owner update whose commit was refused and which the stage therefore still holds), and no unknown / immutable / unparsable entry was in the map; the contract's own validate() still accepts the stored configuration; non-trivial = map with >= 1 valid and >= 1 invalid entry, or an accepted multi-key update; distinct by (target, maps)")
	rapid.Check(t, func(t *rapid.T) {
		h := s.NewHistory(s.Genesis)
		l := simmisc.New(h)
		target := rapid.SampledFrom(simmisc.Targets()).Draw(t, "target")
		specs := simmisc.Specs(target)
		var mutable []simmisc.SettingSpec
		names := map[string]simmisc.SettingSpec{}
		for _, sp := range specs {
			names[sp.Name] = sp
			if !sp.Immutable {
				mutable = append(mutable, sp)
			}
		}
		immutable := simmisc.ImmutableNames(target)
		if rapid.IntRange(0, 3).Draw(t, "afterDemeter") == 0 {
			if o, err := h.Do(l.MinerAddHardfork(s.Owner, "demeter", 1)); err != nil || o.Failed || o.Rejected {
				t.Fatalf("VERIF-HARNESS-ERROR add_hardfork: %+v %v", o, err)
			}
			st.Class("after_demeter_fork")
		}
		h.NextBlock(1, 2)
		readCtx := func() chainstate.StateContextI { return simmisc.StateContext(h.Cur.B, h.Now) }
		if err := validateStored(target, readCtx()); err != nil && target != simmisc.ZcnSettings {
			t.Fatalf("VERIF-HARNESS-ERROR shipped configuration of %v does not validate: %v", target, err)
		}
		nUpd := rapid.IntRange(2, 6).Draw(t, "updates")
		nontrivial := false
		pending := map[string]bool{} // storage settings staged by accepted owner updates whose commit was refused
		var descr []string
		for u := 0; u < nUpd; u++ {
			from := s.Owner
			stranger := rapid.IntRange(0, 4).Draw(t, "stranger") == 0
			if stranger {
				from = s.Clients[3]
			}
			fields := map[string]string{}
			nValid, nInvalid := 0, 0
			invalidWhy := ""
			n := rapid.IntRange(1, 6).Draw(t, "entries")
			for i := 0; i < n; i++ {
				switch rapid.IntRange(0, 10).Draw(t, "entryKind") {
				case 10:
					// a known name spelled with a surrounding blank (possibly next to its exact spelling, with another
					// value): an unknown name as far as the settings table goes
					sp := mutable[rapid.IntRange(0, len(mutable)-1).Draw(t, "which")]
					for k, v := range sp.Fields() {
						if strings.HasPrefix(k, "cost.") {
							continue // the cost tables are open maps: any name after the prefix is a legitimate entry
						}
						if _, dup := fields[k]; !dup && rapid.Bool().Draw(t, "alsoExact") {
							fields[k] = v
						}
						// whether such a spelling names the setting is the contract's call (the storage contract trims
						// names, the miner contract does not): it is judged neither as valid nor as invalid, only by what an
						// accepted update changes
						bk := rapid.SampledFrom([]string{" " + k, k + " ", "\t" + k}).Draw(t, "blankSpelling")
						fields[bk] = v
						st.Class("entry_spelled_with_a_blank")
					}
				case 0:
					fields[fmt.Sprintf("no_such_setting_%d", i)] = "1"
					nInvalid++
					invalidWhy = "unknown name"
				case 1:
					if len(immutable) > 0 {
						nm := immutable[rapid.IntRange(0, len(immutable)-1).Draw(t, "immutable")]
						if _, dup := fields[nm]; !dup {
							fields[nm] = names[nm].Example
							nInvalid++
							invalidWhy = "immutable name " + nm
						}
					}
				case 2:
					sp := mutable[rapid.IntRange(0, len(mutable)-1).Draw(t, "which")]
					if _, dup := fields[sp.Name]; !dup && sp.Kind != "string" && sp.Kind != "[]string" && sp.Kind != "datastore.Key" {
						fields[sp.Name] = rapid.SampledFrom([]string{"x", "1.2.3", "--", "ten"}).Draw(t, "garbage")
						nInvalid++
						invalidWhy = "unparsable value for " + sp.Name + " (" + sp.Kind + ")"
					}
				case 3:
					// extreme but parsable: validity is the contract's call (judged through its own validate())
					sp := mutable[rapid.IntRange(0, len(mutable)-1).Draw(t, "which")]
					if _, dup := fields[sp.Name]; !dup && sp.Kind != "string" && sp.Kind != "[]string" && sp.Kind != "datastore.Key" && sp.Kind != "bool" && sp.Kind != "time.duration" {
						fields[sp.Name] = rapid.SampledFrom([]string{"0", "-1", "1000000000", "0.0000000001"}).Draw(t, "extreme")
					}
				default:
					sp := mutable[rapid.IntRange(0, len(mutable)-1).Draw(t, "which")]
					for k, v := range sp.Fields() {
						if _, dup := fields[k]; !dup {
							fields[k] = v
						}
					}
					nValid++
				}
			}
			if len(fields) == 0 {
				continue
			}
			before, err := l.Settings(target)
			if err != nil {
				t.Fatalf("VERIF-HARNESS-ERROR settings view: %v", err)
			}
			o, err := h.Do(l.UpdateSettings(target, from, fields))
			if err != nil {
				t.Fatalf("%s", err.Error())
			}
			accepted := !o.Failed && !o.Rejected
			what := fmt.Sprintf("%v by %s: %v", target, map[bool]string{true: "a stranger", false: "the owner"}[stranger], fields)
			descr = append(descr, what+" -> "+map[bool]string{true: "accepted", false: "refused: " + o.Output}[accepted])
			// names an accepted update may change: its own, plus - for the staged storage settings - the names of
			// earlier accepted owner updates that are still waiting in the stage because their commit was refused
			// (the stage survives a refused commit and the next successful commit applies all of it)
			mayChange := map[string]bool{}
			for k := range fields {
				mayChange[k] = true
				mayChange[strings.TrimSpace(k)] = true
			}
			if target.NeedsCommit() {
				// (before the demeter fork update_settings only stages the change; after it the contract applies it at once - both are judged on the result)
				if accepted {
					co, err := h.Do(l.StorageCommitSettings(s.Clients[0]))
					if err != nil {
						t.Fatalf("%s", err.Error())
					}
					committed := !co.Failed && !co.Rejected
					descr = append(descr, "commit -> "+map[bool]string{true: "ok", false: "refused: " + co.Output}[committed])
					if committed {
						for k := range pending {
							mayChange[k] = true
						}
						if len(pending) > 0 {
							st.Class("commit_applied_earlier_staged_updates")
						}
						pending = map[string]bool{}
					} else {
						for k := range fields {
							pending[k] = true
							pending[strings.TrimSpace(k)] = true
						}
						st.Class("commit_refused_update_stays_staged")
					}
				}
			}
			after, err := l.Settings(target)
			if err != nil {
				t.Fatalf("VERIF-HARNESS-ERROR settings view: %v", err)
			}
			var changed []string
			for k, v := range after {
				if before[k] != v {
					changed = append(changed, k)
				}
			}
			for k := range before {
				if _, ok := after[k]; !ok {
					changed = append(changed, k+"(removed)")
				}
			}
			sort.Strings(changed)
			if stranger {
				if accepted {
					t.Fatalf("%s", viol("C48", "stranger-accepted", h, "a settings update by a wallet that is not the owner was accepted :: %s", what))
				}
				if len(changed) > 0 {
					t.Fatalf("%s", viol("C48", "stranger-changed-settings", h, "a stranger's update changed %v :: %s", changed, what))
				}
				st.Class("by_stranger")
				continue
			}
			if !accepted {
				st.Class("refused")
				if len(changed) > 0 {
					t.Fatalf("%s", viol("C48", "refused-update-changed-settings", h, "a refused update changed %v :: %s", changed, what))
				}
				if nValid >= 1 && nInvalid >= 1 {
					nontrivial = true
				}
				continue
			}
			st.Class("accepted")
			if nInvalid > 0 {
				key := "invalid-entry-accepted"
				if !st.Known(key) {
					t.Fatalf("%s", viol("C48", key, h, "an update containing an invalid entry (%s) was accepted :: %s", invalidWhy, what))
				}
			}
			for _, k := range changed {
				if !mayChange[k] {
					t.Fatalf("%s", viol("C48", "unnamed-setting-changed", h, "setting %s changed although the update did not name it (changed: %v) :: %s", k, changed, what))
				}
			}
			if err := validateStored(target, readCtx()); err != nil {
				key := "accepted-update-fails-validation:" + target.String()
				if !st.Known(key) {
					t.Fatalf("%s", viol("C48", key, h, "after an accepted update the contract's own validate() rejects the configuration in force: %v :: %s", err, what))
				}
			}
			if len(fields) >= 2 {
				nontrivial = true
			}
		}
		st.Case()
		st.Class("target/" + target.String())
		if nontrivial {
			st.NonTrivial(target.String(), fmt.Sprint(descr))
		}
		if st.WantSample(nontrivial) {
			st.Sample(nontrivial, descr)
		}
	})
}

var _ = sim.MinerSC
