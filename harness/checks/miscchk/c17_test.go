package miscchk

import (
	"fmt"
	"sync"
	"testing"
	"time"

	"github.com/0chain/common/core/currency"
	"pgregory.net/rapid"
	"verifharness/sim"
	"verifharness/simmisc"
	"verifharness/vkit"
)

func TestMain(m *testing.M) { vkit.Main(m) }

var (
	bootOnce sync.Once
	theSim   *sim.Sim
	bootErr  error
)

func boot(t *testing.T) *sim.Sim {
	bootOnce.Do(func() { theSim, bootErr = sim.Boot(sim.Options{EventDb: true, ClientFunds: 1e17}) })
	if bootErr != nil {
		t.Fatalf("VERIF-HARNESS-ERROR boot: %v", bootErr)
	}
	return theSim
}

func viol(prop, key string, h *sim.History, format string, a ...interface{}) string {
	return vkit.Violation(prop, key, "%s :: last steps %v", fmt.Sprintf(format, a...), h.Render(10))
}

const zcn = uint64(1e10)

// C17: within one reset window the tokens poured to any client never exceed the periodic limit, the tokens poured to
// all clients never exceed the global limit, and a pour never exceeds the faucet's balance.
func TestC17_FaucetLimits(t *testing.T) {
	s := boot(t)
	st := vkit.For("C17").SetRule("per case a valid faucet configuration set through the owner's update-settings (pour_amount <= max_pour_amount <= periodic_limit <= global_limit, incl. the shipped one and ones with max_pour_amount >> pour_amount; individual/global reset 1 min .. 48 h), then 10..60 pours by 1..4 clients with requested values 0, in (0,pour), in (pour,max), >= max, timestamps advancing by 0 s .. more than the global reset; model: per-client and global window sums kept as the contract documents its windows (a window restarts when now - start >= reset) and fed with the OBSERVED amounts (balance deltas); oracle after every successful pour: client window sum <= periodic_limit, global window sum <= global_limit, poured <= faucet balance before; non-trivial = history with a pour request pour_amount < value < max_pour_amount made while the remaining allowance of the client or of the global window was < value but >= pour_amount (the request that separates 'limit checked with the configured amount' from 'limit checked with the paid amount'); distinct by (config, history)")
	rapid.Check(t, func(t *rapid.T) {
		h := s.NewHistory(s.Genesis)
		l := simmisc.New(h)
		type cfg struct {
			pour, max, periodic, global float64
			ireset, greset              time.Duration
		}
		c := rapid.SampledFrom([]cfg{
			{1, 100, 1000, 100000, 3 * time.Hour, 48 * time.Hour}, // shipped
			{1, 100, 150, 400, time.Hour, 2 * time.Hour},
			{2, 3, 10, 25, time.Minute, 10 * time.Minute},
			{5, 50, 50, 120, 30 * time.Minute, time.Hour},
			{1, 1, 3, 5, time.Hour, time.Hour},
			{10, 1000, 2500, 5000, 2 * time.Hour, 5 * time.Hour},
			{2, 3, 10, 20, 1500 * time.Millisecond, 2500 * time.Millisecond}, // durations that are not whole seconds
			{1, 5, 20, 1000, 4 * time.Hour, 5 * time.Hour},                   // individual windows straddle the global rollover
		}).Draw(t, "config")
		fields := map[string]string{
			"pour_amount": fmt.Sprint(c.pour), "max_pour_amount": fmt.Sprint(c.max), "periodic_limit": fmt.Sprint(c.periodic),
			"global_limit": fmt.Sprint(c.global), "individual_reset": c.ireset.String(), "global_rest": c.greset.String(),
		}
		// limits must be raised before they are lowered (the contract validates the whole config): two steps
		for _, f := range []map[string]string{{"global_limit": "10000000", "periodic_limit": "1000000", "max_pour_amount": "100000"}, fields} {
			if o, err := h.Do(l.FaucetUpdateSettings(s.Owner, f)); err != nil || o.Rejected || o.Failed {
				t.Fatalf("VERIF-HARNESS-ERROR faucet settings %v: %+v %v", f, o, err)
			}
		}
		g, err := l.FaucetGlobal()
		if err != nil {
			t.Fatalf("VERIF-HARNESS-ERROR %v", err)
		}
		what := fmt.Sprintf("pour=%v max=%v periodic=%v global=%v ireset=%v greset=%v", c.pour, c.max, c.periodic, c.global, c.ireset, c.greset)
		type win struct {
			start int64
			sum   uint64
			init  bool
		}
		users := map[string]*win{}
		gw := &win{start: g.StartTime, sum: g.Used, init: true}
		nclients := rapid.IntRange(1, 4).Draw(t, "clients")
		steps := rapid.IntRange(10, 60).Draw(t, "steps")
		nontrivial := false
		for i := 0; i < steps; i++ {
			if rapid.IntRange(0, 3).Draw(t, "advance") == 0 {
				secs := rapid.SampledFrom([]int64{1, 2, 3, 59, 60, int64(c.ireset/time.Second) / 2, int64(c.ireset / time.Second), int64(c.ireset/time.Second) + 1, int64(c.greset / time.Second), int64(c.greset/time.Second) + 7}).Draw(t, "seconds")
				h.NextBlock(1, secs)
			}
			if rapid.IntRange(0, 9).Draw(t, "changeLimits") == 6 {
				// the owner changes the limits in the middle of the windows (also below what was already poured)
				np := rapid.SampledFrom([]float64{c.max, c.periodic, c.max * 2, c.periodic / 2, c.periodic * 3}).Draw(t, "newPeriodic")
				if np < c.max {
					np = c.max
				}
				ng := rapid.SampledFrom([]float64{np, c.global, np * 2, c.global / 2, c.global * 3}).Draw(t, "newGlobal")
				if ng < np {
					ng = np
				}
				f := map[string]string{"periodic_limit": fmt.Sprint(np), "global_limit": fmt.Sprint(ng)}
				if o, err := h.Do(l.FaucetUpdateSettings(s.Owner, f)); err == nil && !o.Failed && !o.Rejected {
					// every faucet transaction that is applied, not only a pour, starts a new global window when the old
					// one has run out (the contract loads and saves its global record in each of them)
					if now := int64(h.Now); time.Duration(now-gw.start)*time.Second >= c.greset {
						gw.start, gw.sum = now, 0
					}
					if np < c.periodic || ng < c.global {
						st.Class("limits_lowered_mid_window")
					}
					c.periodic, c.global = np, ng
					what = fmt.Sprintf("pour=%v max=%v periodic=%v global=%v ireset=%v greset=%v (limits changed mid-history)", c.pour, c.max, c.periodic, c.global, c.ireset, c.greset)
				} else if err != nil {
					t.Fatalf("%s", err.Error())
				}
			}
			cl := s.Clients[rapid.IntRange(0, nclients-1).Draw(t, "client")]
			var value uint64
			switch rapid.IntRange(0, 5).Draw(t, "valueKind") {
			case 0:
				value = 0
			case 1:
				value = uint64(rapid.Uint64Range(1, uint64(c.pour*float64(zcn))).Draw(t, "v"))
			case 2, 3:
				lo, hi := uint64(c.pour*float64(zcn)), uint64(c.max*float64(zcn))
				if hi > lo+1 {
					value = rapid.Uint64Range(lo+1, hi-1).Draw(t, "v")
					if rapid.Bool().Draw(t, "nearMax") {
						value = hi - 1
					}
				}
			case 4:
				value = uint64(c.max * float64(zcn))
			default:
				value = uint64(c.max*float64(zcn)) + rapid.Uint64Range(1, 1e12).Draw(t, "v")
			}
			now := int64(h.Now)
			// windows as documented: restart when now - start >= reset
			u := users[cl.ID]
			if u == nil {
				u = &win{}
				users[cl.ID] = u
			}
			uStart, uSum := u.start, u.sum
			if !u.init || time.Duration(now-u.start)*time.Second >= c.ireset || time.Duration(now-u.start)*time.Second >= c.greset {
				uStart, uSum = now, 0
			}
			gStart, gSum := gw.start, gw.sum
			if time.Duration(now-gw.start)*time.Second >= c.greset {
				gStart, gSum = now, 0
			}
			before := sim.ViewOf(h.Cur.B)
			faucetBefore, clientBefore := before.Balance(sim.FaucetSC), before.Balance(cl.ID)
			o, err := h.Do(l.FaucetPour(cl, currency.Coin(value)))
			if err != nil {
				t.Fatalf("%s", err.Error())
			}
			st.Class("pour_" + map[bool]string{true: "ok", false: "refused"}[!o.Failed && !o.Rejected])
			{
				remU := uint64(c.periodic*float64(zcn)) - min64(uSum, uint64(c.periodic*float64(zcn)))
				remG := uint64(c.global*float64(zcn)) - min64(gSum, uint64(c.global*float64(zcn)))
				if value > uint64(c.pour*float64(zcn)) && value < uint64(c.max*float64(zcn)) && (remU < value || remG < value) && (remU >= uint64(c.pour*float64(zcn)) && remG >= uint64(c.pour*float64(zcn))) {
					// the request asks for more than the window still allows although pour_amount itself would fit
					nontrivial = true
					st.Class("request_between_pour_and_max_exceeding_allowance")
				}
			}
			if o.Failed || o.Rejected {
				continue
			}
			poured := sim.ViewOf(h.Cur.B).Balance(cl.ID) - clientBefore
			if poured > faucetBefore {
				t.Fatalf("%s", viol("C17", "poured-more-than-balance", h, "poured %d with faucet balance %d :: %s", poured, faucetBefore, what))
			}
			uSum += poured
			gSum += poured
			u.start, u.sum, u.init = uStart, uSum, true
			gw.start, gw.sum = gStart, gSum
			if uSum > uint64(c.periodic*float64(zcn)) {
				key := "periodic-limit-exceeded"
				if !st.Known(key) {
					t.Fatalf("%s", viol("C17", key, h, "client %s received %d in one %v window, periodic limit %d (this pour paid %d for a requested value %d) :: %s", h.Label(cl.ID), uSum, c.ireset, uint64(c.periodic*float64(zcn)), poured, value, what))
				}
			}
			if gSum > uint64(c.global*float64(zcn)) {
				key := "global-limit-exceeded"
				if !st.Known(key) {
					t.Fatalf("%s", viol("C17", key, h, "all clients received %d in one %v window, global limit %d (this pour paid %d) :: %s", gSum, c.greset, uint64(c.global*float64(zcn)), poured, what))
				}
			}
		}
		st.Case()
		if nontrivial {
			st.NonTrivial(what, fmt.Sprint(h.Render(0)))
		}
		if st.WantSample(nontrivial) {
			st.Sample(nontrivial, map[string]interface{}{"config": what, "history": h.Render(25)})
		}
	})
}

func min64(a, b uint64) uint64 {
	if a < b {
		return a
	}
	return b
}
