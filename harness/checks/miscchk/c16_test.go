package miscchk

import (
	"fmt"
	"math/big"
	"testing"
	"time"

	"0chain.net/chaincore/transaction"
	"0chain.net/core/common"
	"github.com/0chain/common/core/currency"
	"pgregory.net/rapid"
	"verifharness/sim"
	"verifharness/simmisc"
	"verifharness/vkit"
)

// C16: tokens vested to a destination never exceed its amount, never decrease, never run ahead of the linear schedule;
// by expiry the destination can receive exactly its amount; the pool always holds at least the unvested remainder and
// its owner can always withdraw the excess or delete the pool.
func TestC16_VestingSchedule(t *testing.T) {
	s := boot(t)
	st := vkit.For("C16").SetRule("vesting pools created through real transactions: 1..3 destinations, amounts from {1, 7, 1 ZCN, 2^53-1, 2^53+1, 2^53+3, 3e16+1, ...} (explicitly beyond 2^53 where float64 stops being exact), start now or in the future, duration between the configured minimum and maximum, value == sum or sum + excess; then 6..25 operations at generated times (before start, exactly start, inside, exactly expiry, after expiry): trigger, unlock by a destination, unlock by the owner, stop of a destination, delete, and the same by a stranger; oracle after every operation, per destination: vested is monotone, <= amount, <= amount*(t-start)/(expiry-start) + tolerance (exact rational; tolerance 1 + amount*2^-50 for the contract's float ratio); pool balance >= sum(amount - vested); at t >= expiry at most three unlocks bring vested to exactly amount and pay the destination exactly that; the owner's unlock of a non-zero excess and delete succeed and pay the owner; strangers change nothing; non-trivial = pool with an amount > 2^53 or >= 3 vesting events on one destination; distinct by (pool, operations)")
	st.Assume("schedule tolerance per destination: 1 unit + amount * 2^-50 (the contract multiplies by a float64 ratio)")
	rapid.Check(t, func(t *rapid.T) {
		h := s.NewHistory(s.Genesis)
		l := simmisc.New(h)
		owner := s.Clients[rapid.IntRange(0, 1).Draw(t, "owner")]
		nd := rapid.IntRange(1, 3).Draw(t, "destinations")
		var dests []simmisc.VestingDest
		var sum uint64
		big53 := false
		for i := 0; i < nd; i++ {
			amt := rapid.SampledFrom([]uint64{1, 7, 1e10, 123456789012, 1<<53 - 1, 1<<53 + 1, 1<<53 + 3, 30000000000000001, 20000000000000003}).Draw(t, "amount")
			if amt > 1<<53 {
				big53 = true
			}
			dests = append(dests, simmisc.VestingDest{ID: s.Clients[2+i].ID, Amount: currency.Coin(amt)})
			sum += amt
		}
		excess := rapid.SampledFrom([]uint64{0, 0, 1, 5e9, 1e10}).Draw(t, "excess")
		value := sum + excess
		if value < 1e8 {
			value = 1e8 // min_lock of the shipped config
			excess = value - sum
		}
		startDelay := rapid.SampledFrom([]int64{0, 0, 30, 600}).Draw(t, "startDelay")
		dur := time.Duration(rapid.SampledFrom([]int64{120, 121, 600, 3600, 7200}).Draw(t, "durationSeconds")) * time.Second
		start := common.Timestamp(0)
		if startDelay > 0 {
			start = h.Now + common.Timestamp(startDelay)
		}
		add := l.VestingAdd(owner, simmisc.VestingAddReq{Description: "verif", StartTime: start, Duration: dur, Destinations: dests}, currency.Coin(value))
		o, err := h.Do(add)
		if err != nil {
			t.Fatalf("%s", err.Error())
		}
		if o.Rejected || o.Failed {
			t.Fatalf("VERIF-HARNESS-ERROR vesting add refused: %v %s (value %d, balance %d)", o.Err, o.Output, value, sim.ViewOf(h.Cur.B).Balance(owner.ID))
		}
		pid := simmisc.VestingPoolID(add)
		pool, err := l.VestingPool(pid)
		if err != nil {
			t.Fatalf("VERIF-HARNESS-ERROR pool view: %v", err)
		}
		startT, endT := pool.StartTime, pool.ExpireAt
		what := fmt.Sprintf("pool of %s: amounts %v excess %d start +%ds duration %v", h.Label(owner.ID), dests, excess, startDelay, dur)
		vested := map[string]uint64{}
		amount := map[string]uint64{}
		events := map[string]int{}
		live := map[string]bool{}
		for _, d := range dests {
			amount[d.ID], live[d.ID] = uint64(d.Amount), true
		}
		deleted := false
		check := func(when string) {
			if deleted {
				return
			}
			p, err := l.VestingPool(pid)
			if err != nil {
				t.Fatalf("%s", viol("C16", "pool-unreadable", h, "%s: pool cannot be read: %v :: %s", when, err, what))
			}
			now := int64(h.Now)
			tt := now
			if tt > endT {
				tt = endT
			}
			if tt < startT {
				tt = startT
			}
			var need uint64
			seen := map[string]bool{}
			for _, d := range p.Destinations {
				seen[d.ID] = true
				if d.Vested < vested[d.ID] {
					t.Fatalf("%s", viol("C16", "vested-decreased", h, "%s: vested of %s went %d -> %d :: %s", when, h.Label(d.ID), vested[d.ID], d.Vested, what))
				}
				if d.Vested > d.Amount {
					t.Fatalf("%s", viol("C16", "vested-above-amount", h, "%s: %s vested %d of an amount of %d :: %s", when, h.Label(d.ID), d.Vested, d.Amount, what))
				}
				// schedule: amount * (tt-start)/(end-start)
				lim := new(big.Int).Mul(new(big.Int).SetUint64(d.Amount), big.NewInt(tt-startT))
				lim.Div(lim, big.NewInt(endT-startT))
				tol := new(big.Int).Add(big.NewInt(1), new(big.Int).Rsh(new(big.Int).SetUint64(d.Amount), 50))
				lim.Add(lim, tol)
				if new(big.Int).SetUint64(d.Vested).Cmp(lim) > 0 {
					t.Fatalf("%s", viol("C16", "ahead-of-schedule", h, "%s: %s vested %d at %d s of %d s, the linear schedule allows %v :: %s", when, h.Label(d.ID), d.Vested, tt-startT, endT-startT, lim, what))
				}
				vested[d.ID] = d.Vested
				need += d.Amount - d.Vested
			}
			for id := range live {
				if live[id] && !seen[id] {
					t.Fatalf("%s", viol("C16", "destination-vanished", h, "%s: destination %s disappeared from the pool :: %s", when, h.Label(id), what))
				}
			}
			if p.Balance < need {
				t.Fatalf("%s", viol("C16", "pool-underfunded", h, "%s: pool holds %d, unvested remainder is %d :: %s", when, p.Balance, need, what))
			}
		}
		check("after add")
		nops := rapid.IntRange(6, 25).Draw(t, "operations")
		for i := 0; i < nops && !deleted; i++ {
			// clock
			switch rapid.IntRange(0, 6).Draw(t, "clock") {
			case 0:
				if d := startT - int64(h.Now); d > 0 {
					h.NextBlock(1, d) // exactly start
				}
			case 1:
				if d := endT - int64(h.Now); d > 0 {
					h.NextBlock(1, d) // exactly expiry
				}
			case 2:
				h.NextBlock(1, int64(rapid.IntRange(1, int(dur/time.Second)/2+1).Draw(t, "seconds")))
			case 3:
				if d := endT - int64(h.Now); d > 0 {
					h.NextBlock(1, d+int64(rapid.IntRange(1, 500).Draw(t, "past")))
				}
			}
			op := rapid.SampledFrom([]string{"trigger", "unlock-dest", "unlock-dest", "unlock-owner", "stop", "stranger", "delete"}).Draw(t, "op")
			if op == "delete" && rapid.IntRange(0, 2).Draw(t, "reallyDelete") != 0 {
				op = "trigger"
			}
			before := h.Snap()
			switch op {
			case "trigger":
				o, err = h.Do(l.VestingTrigger(owner, pid))
			case "unlock-dest":
				d := dests[rapid.IntRange(0, nd-1).Draw(t, "dest")]
				w := walletOf(s, d.ID)
				o, err = h.Do(l.VestingUnlock(w, pid))
				if err == nil && !o.Failed && !o.Rejected {
					events[d.ID]++
				}
			case "unlock-owner":
				p0, _ := l.VestingPool(pid)
				o, err = h.Do(l.VestingUnlock(owner, pid))
				if err == nil && p0 != nil && p0.Excess > 0 && p0.Excess <= p0.Balance && (o.Failed || o.Rejected) {
					t.Fatalf("%s", viol("C16", "owner-cannot-unlock-excess", h, "the owner's unlock of %d excess tokens failed: %s %v :: %s", p0.Excess, o.Output, o.Err, what))
				}
			case "stop":
				d := dests[rapid.IntRange(0, nd-1).Draw(t, "dest")]
				o, err = h.Do(l.VestingStop(owner, pid, d.ID))
				if err == nil && !o.Failed && !o.Rejected {
					live[d.ID] = false
				}
			case "stranger":
				str := s.Clients[7]
				var txn *transaction.Transaction
				switch rapid.IntRange(0, 3).Draw(t, "strangerOp") {
				case 0:
					txn = l.VestingTrigger(str, pid)
				case 1:
					txn = l.VestingUnlock(str, pid)
				case 2:
					txn = l.VestingStop(str, pid, dests[0].ID)
				default:
					txn = l.VestingDelete(str, pid)
				}
				o, err = h.Do(txn)
				if err == nil && !o.Failed && !o.Rejected {
					t.Fatalf("%s", viol("C16", "stranger-accepted", h, "a stranger's vesting operation was accepted :: %s", what))
				}
			case "delete":
				pBefore, _ := l.VestingPool(pid)
				o, err = h.Do(l.VestingDelete(owner, pid))
				if err == nil {
					if o.Failed || o.Rejected {
						t.Fatalf("%s", viol("C16", "owner-cannot-delete", h, "the owner's delete failed: %s %v :: %s", o.Output, o.Err, what))
					}
					deleted = true
					// a delete at or after expiry settles every live destination in full: it is the last chance for a
					// destination to receive its amount, the owner gets the excess only
					if int64(h.Now) >= endT && pBefore != nil {
						aft := h.Snap()
						for _, d := range pBefore.Destinations {
							if !live[d.ID] {
								continue
							}
							want := uint64(d.Amount) - uint64(d.Vested)
							got := aft.Bal[d.ID] - before.Bal[d.ID]
							if d.ID == owner.ID {
								continue // owner and destination at once: its gain mixes both
							}
							if got != want {
								t.Fatalf("%s", viol("C16", "delete-after-expiry-shortchanges-destination", h, "delete after expiry paid %s %d, its amount is %d of which %d were vested before (it is owed %d) :: %s", h.Label(d.ID), got, uint64(d.Amount), uint64(d.Vested), want, what))
							}
						}
						st.Class("delete_at_or_after_expiry")
					}
				}
			}
			if err != nil {
				t.Fatalf("%s", err.Error())
			}
			after := h.Snap()
			// nobody but the pool's parties gains
			for id, b := range after.Bal {
				if b > before.Bal[id] && id != owner.ID && id != sim.MinerSC {
					if _, isDest := amount[id]; !isDest {
						t.Fatalf("%s", viol("C16", "foreign-account-paid", h, "%s gained %d from a vesting operation :: %s", h.Label(id), b-before.Bal[id], what))
					}
				}
			}
			check("after " + op)
		}
		// by expiry the destination can receive exactly its amount
		if !deleted {
			if d := endT - int64(h.Now); d >= 0 {
				h.NextBlock(1, d+1)
			}
			for _, d := range dests {
				if !live[d.ID] {
					continue
				}
				w := walletOf(s, d.ID)
				for try := 0; try < 3 && vested[d.ID] < amount[d.ID]; try++ {
					b0 := sim.ViewOf(h.Cur.B).Balance(d.ID)
					v0 := vested[d.ID]
					o, err := h.Do(l.VestingUnlock(w, pid))
					if err != nil {
						t.Fatalf("%s", err.Error())
					}
					if o.Failed || o.Rejected {
						t.Fatalf("%s", viol("C16", "cannot-unlock-at-expiry", h, "after expiry %s (vested %d of %d) cannot unlock: %s %v :: %s", h.Label(d.ID), vested[d.ID], amount[d.ID], o.Output, o.Err, what))
					}
					check("unlock at expiry")
					events[d.ID]++
					if got := sim.ViewOf(h.Cur.B).Balance(d.ID) - b0; got != vested[d.ID]-v0 {
						t.Fatalf("%s", viol("C16", "paid-differs-from-vested", h, "%s was paid %d while its vested counter grew by %d :: %s", h.Label(d.ID), got, vested[d.ID]-v0, what))
					}
				}
				if vested[d.ID] != amount[d.ID] {
					t.Fatalf("%s", viol("C16", "amount-not-reached-at-expiry", h, "after expiry and three unlocks %s has vested %d of %d :: %s", h.Label(d.ID), vested[d.ID], amount[d.ID], what))
				}
			}
			if o, err := h.Do(l.VestingDelete(owner, pid)); err != nil || o.Failed || o.Rejected {
				t.Fatalf("%s", viol("C16", "owner-cannot-delete", h, "delete after expiry failed: %s %v %v :: %s", o.Output, o.Err, err, what))
			}
		}
		st.Case()
		three := false
		for _, n := range events {
			if n >= 3 {
				three = true
			}
		}
		nt := big53 || three
		if big53 {
			st.Class("amount_above_2^53")
		}
		if three {
			st.Class("three_vesting_events_on_one_destination")
		}
		if nt {
			st.NonTrivial(what, fmt.Sprint(h.Render(0)))
		}
		if st.WantSample(nt) {
			st.Sample(nt, map[string]interface{}{"pool": what, "history": h.Render(20)})
		}
	})
}

func walletOf(s *sim.Sim, id string) *sim.Wallet {
	for _, c := range s.Clients {
		if c.ID == id {
			return c
		}
	}
	panic("unknown wallet")
}
