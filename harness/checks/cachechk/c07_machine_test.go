package cachechk

import (
	"bytes"
	"fmt"
	"reflect"
	"sort"
	"strings"
	"testing"
	"time"

	"0chain.net/chaincore/block"
	"0chain.net/chaincore/chain"
	cstate "0chain.net/chaincore/chain/state"
	"0chain.net/chaincore/transaction"
	"0chain.net/core/encryption"
	"github.com/0chain/common/core/statecache"
	"github.com/0chain/common/core/util"
	"pgregory.net/rapid"
	"verifharness/checks/valgen"
	"verifharness/vkit"
)

// C07: a value read through the transaction / block state cache always equals the value currently stored in the state
// trie at that key; mutating a value returned by a read never changes what later reads return; a failed transaction
// leaves no trace in the cache.
//
// The machine drives the real cstate.StateContext over the real MPT and the real cache stack
// (StateCache -> BlockCache -> TransactionCache, QueryBlockCache for REST-style reads) exactly the way
// chain.updateState / block.ComputeState / the generator / the REST handlers wire them, over a tree of blocks.

// findingWalk is the finding key of the one class the check knows how to exclude by construction (see readAllowed).
const findingWalk = "stale-value-after-ancestor-walk"

// findingPool: node.Pool.UnmarshalMsg does not restore NodesMap / Type, so the double encode/decode of the cached copy
// loses the nodes of GlobalNode.PrevMagicBlock that a trie read still shows in Pool.Nodes.
const findingPool = "node-pool-lost-in-cached-copy"

type cblock struct {
	id    int
	hash  string
	prev  *cblock
	round int64
	state util.MerklePatriciaTrieI // closed state (as Block.ClientState)
	model map[string][]byte        // key -> stored bytes
}

func (b *cblock) isAncestorOrSelfOf(x *cblock) bool {
	for c := x; c != nil; c = c.prev {
		if c == b {
			return true
		}
	}
	return false
}

type oblock struct {
	id       int
	prev     *cblock
	round    int64
	hash     string // hash the block cache was created with ("" for the generator flavour)
	final    string // hash the block is committed under
	bc       *statecache.BlockCache
	state    util.MerklePatriciaTrieI
	model    map[string][]byte
	touched  map[string]bool // keys with an entry in the block cache (committed txns: insert/delete/read)
	written  map[string]bool // keys inserted / deleted by committed txns of this block (certainly in the block cache)
	blk      *block.Block
	nTxn     int
	hasWrite bool
}

type otxn struct {
	ob      *oblock
	tc      *statecache.TransactionCache
	mpt     util.MerklePatriciaTrieI
	sctx    *cstate.StateContext
	over    map[string][]byte // nil slice = deleted
	written map[string]bool   // inserted / deleted in this txn
	touched map[string]bool   // read / inserted / deleted
}

type held struct {
	kind   int
	obj    entity
	key    string // key it was read from / inserted at
	origin string // "read" | "insert" | "new"
}

type ckey struct {
	name string
	kind int
}

type machine struct {
	t      *rapid.T
	st     *vkit.Stats
	g      *valgen.Gen
	sc     *statecache.StateCache
	blocks []*cblock
	open   []*oblock
	txn    *otxn
	keys   []ckey
	pool   []*held
	hist   []string
	seq    int
	cmp    *valgen.Cmp
	soft   bool // inside a compound step: a declined operation is dropped instead of skipping the step
	known  bool // the ancestor-walk finding is listed as open: its class is excluded by construction
	// ever[key] = committed blocks (and read bases) that may hold a cache entry for key (over-approximation)
	ever   map[string]map[*cblock]bool
	byHash map[string]*cblock

	// non-triviality bookkeeping
	scrambledKeys map[string]bool // keys whose read/inserted object was scrambled
	readAfterScr  bool
	discardedKeys map[string]bool // cacheable keys written by a discarded txn
	readAfterDisc bool
	classes       map[string]int
	skippedKnown  int
}

func (m *machine) logf(f string, a ...interface{}) {
	m.hist = append(m.hist, fmt.Sprintf(f, a...))
}

func (m *machine) class(c string) { m.classes[c]++ }

func (m *machine) render() string {
	h := m.hist
	if len(h) > 60 {
		h = h[len(h)-60:]
	}
	return strings.Join(h, " | ")
}

func (m *machine) harness(f string, a ...interface{}) {
	m.t.Fatalf("VERIF-HARNESS-ERROR %s :: %s", fmt.Sprintf(f, a...), m.render())
}

func (m *machine) violation(key, f string, a ...interface{}) {
	m.t.Fatalf("%s", vkit.Violation("C07", key, "%s :: history: %s", fmt.Sprintf(f, a...), m.render()))
}

func enc(e entity) ([]byte, error) { return e.MarshalMsg(nil) }

// watchdog runs f and reports a hang (every operation here is pure memory work).
func (m *machine) guarded(what string, f func()) {
	done := make(chan interface{}, 1)
	go func() {
		defer func() { done <- recover() }()
		f()
	}()
	select {
	case r := <-done:
		if r != nil {
			m.violation("panic:"+what, "%s panicked: %v", what, r)
		}
	case <-time.After(60 * time.Second):
		m.t.Fatalf("VERIF-HANG %s did not return within 60s :: %s", what, m.render())
	}
}

func newCtx(b *block.Block, mpt util.MerklePatriciaTrieI, n int) *cstate.StateContext {
	t := &transaction.Transaction{}
	t.Hash = encryption.Hash(fmt.Sprintf("c07-txn-%d", n))
	t.ClientID = encryption.Hash("c07-client")
	t.ToClientID = encryption.Hash("c07-contract")
	return cstate.NewStateContext(b, mpt, t,
		func(int64) *block.MagicBlock { return nil },
		func() *block.Block { return nil },
		func() *block.MagicBlock { return nil },
		func() encryption.SignatureScheme { return nil },
		func() *block.Block { return nil },
		nil)
}

// freshRead reads key from a trie opened on (db, root) with an empty cache: the uncached reference.
func freshRead(db util.NodeDB, root util.Key, version util.Sequence, key string, dst entity) ([]byte, error) {
	ref := util.NewMerklePatriciaTrie(db, version, root, statecache.NewEmpty())
	raw, err := ref.GetNodeValueRaw(util.Path(encryption.Hash(key)))
	if err != nil {
		return nil, err
	}
	_, err = dst.UnmarshalMsg(raw)
	return raw, err
}

func absent(err error) bool { return err == util.ErrValueNotPresent }

// compare is the oracle: the outcome of a read through the cache stack against the uncached trie read at the same
// root, and the harness model against the trie (a mismatch there is a harness problem, not a verdict).
func (m *machine) compare(where string, k ckey, base *cblock, gotErr error, got entity, db util.NodeDB, root util.Key, ver util.Sequence, want []byte, wantPresent bool) {
	kd := &kinds[k.kind]
	ref := kd.fresh()
	raw, refErr := freshRead(db, root, ver, k.name, ref)
	if refErr != nil && !absent(refErr) {
		m.harness("uncached reference read of %s failed: %v", k.name, refErr)
	}
	// model vs trie
	if wantPresent != (refErr == nil) || (wantPresent && !bytes.Equal(raw, want)) {
		m.harness("the trie does not hold what the harness model expects for %s (%s): model present=%v, trie err=%v", k.name, where, wantPresent, refErr)
	}
	stale := func() string {
		// is what the cache returned the value this key has in an ancestor of the read base?
		if got == nil || gotErr != nil {
			return ""
		}
		gb, err := enc(got)
		if err != nil {
			return ""
		}
		for c := base; c != nil; c = c.prev {
			if v, ok := c.model[k.name]; ok {
				probe := kd.fresh()
				if _, e := probe.UnmarshalMsg(v); e == nil {
					if pb, e2 := enc(probe); e2 == nil && bytes.Equal(pb, gb) {
						return fmt.Sprintf("block#%d", c.id)
					}
				}
			}
		}
		return ""
	}
	switch {
	case gotErr != nil && !absent(gotErr):
		m.violation("cached-read-error:"+kd.name, "%s: GetTrieNode(%s) failed with %v, the uncached trie read gives err=%v", where, k.name, gotErr, refErr)
	case absent(gotErr) && refErr == nil:
		m.violation("cache-hides-stored-value:"+kd.name, "%s: GetTrieNode(%s) says value not present, the trie holds %d bytes", where, k.name, len(raw))
	case gotErr == nil && absent(refErr):
		key := "cache-returns-deleted-or-absent-value:" + kd.name
		if s := stale(); s != "" {
			if m.reportWalk(where, k, s) {
				return
			}
			key = findingWalk
		}
		m.violation(key, "%s: GetTrieNode(%s) returned a value, the trie (uncached read at the same root) has none", where, k.name)
	case gotErr == nil && refErr == nil:
		gb, err1 := enc(got)
		rb, err2 := enc(ref)
		if err1 != nil || err2 != nil {
			m.violation("reencode-error:"+kd.name, "%s: values read for %s do not encode: %v / %v", where, k.name, err1, err2)
		}
		if !bytes.Equal(gb, rb) {
			key := "cache-differs-from-trie:" + kd.name
			s := stale()
			if s != "" {
				if m.reportWalk(where, k, s) {
					return
				}
				key = findingWalk
			}
			_, diff := m.cmp.Equiv(got, ref)
			m.violation(key, "%s: GetTrieNode(%s) differs from the uncached trie read at the same root (first difference %s; equals the value of %s: %q); cached %d bytes, trie %d bytes", where, k.name, diff, "an ancestor block", s, len(gb), len(rb))
		}
		if ok, diff := m.cmp.Equiv(got, ref); !ok {
			if strings.Contains(diff, ".PrevMagicBlock.Miners") || strings.Contains(diff, ".PrevMagicBlock.Sharders") {
				if m.st.Known(findingPool) {
					m.harness("the excluded class %s still occurred (%s, %s)", findingPool, where, diff)
				}
				m.violation(findingPool, "%s: GetTrieNode(%s) encodes like the trie value but the object differs from the uncached read at %s (the cached copy went through two more msgp round trips, and node.Pool.UnmarshalMsg does not restore NodesMap)", where, k.name, diff)
			}
			m.violation("cached-object-differs-structurally:"+kd.name, "%s: GetTrieNode(%s) encodes like the trie value but the object differs from the uncached read at %s", where, k.name, diff)
		}
	}
}

// reportWalk handles a stale value that equals an ancestor block's value: when the class is a listed open finding it is
// counted and the case ends (the generator excludes the class by construction, so this only happens if the exclusion
// rule is incomplete - which is reported as a harness error to be looked at).
func (m *machine) reportWalk(where string, k ckey, s string) bool {
	if m.st.Known(findingWalk) {
		m.harness("the excluded class %s still occurred (%s, key %s, value of %s): the exclusion rule is incomplete", findingWalk, where, k.name, s)
		return true
	}
	return false
}

// readAllowed implements the exclusion by construction of the known ancestor-walk class: a read that could reach the
// global StateCache (key neither written in the open transaction nor in the open block) is only generated when every
// block that holds an entry for the key lies on the ancestor line of the read base; then the walk cannot drop an entry
// that a later read needs (by induction the nearest entry on any ancestor line stays the correct one). The entry set
// is read from the cache itself (read-only peek, no effect on its recency order); if the cache's layout is not the
// expected one the rule falls back to an over-approximation kept by the harness.
func (m *machine) readAllowed(k ckey, base *cblock, ob *oblock, x *otxn) bool {
	if !m.known || !kinds[k.kind].cacheable {
		return true
	}
	if x != nil && x.written[k.name] {
		return true
	}
	if ob != nil && ob.written[k.name] {
		return true
	}
	if hashes, ok := entryBlocks(m.sc, k.name); ok {
		for _, h := range hashes {
			b := m.byHash[h]
			if b == nil || !b.isAncestorOrSelfOf(base) {
				return false
			}
		}
		return true
	}
	m.class("exclusion_rule_fallback")
	for b := range m.ever[k.name] {
		if !b.isAncestorOrSelfOf(base) {
			return false
		}
	}
	return true
}

// entryBlocks peeks into the global state cache: the hashes of the blocks that hold an entry for key. The LRU's Peek
// and Keys methods (which leave the recency order alone) are called through reflection so that the harness module does
// not need a direct dependency on the LRU package.
func entryBlocks(sc *statecache.StateCache, key string) (hashes []string, ok bool) {
	defer func() {
		if recover() != nil {
			hashes, ok = nil, false
		}
	}()
	f := reflect.ValueOf(sc).Elem().FieldByName("cache")
	if !f.IsValid() {
		return nil, false
	}
	c := valgen.Access(f)
	peek := c.MethodByName("Peek")
	if !peek.IsValid() {
		return nil, false
	}
	out := peek.Call([]reflect.Value{reflect.ValueOf(key)})
	if len(out) != 2 {
		return nil, false
	}
	if !out[1].Bool() {
		return nil, true
	}
	per := out[0]
	if per.Kind() == reflect.Interface {
		per = per.Elem()
	}
	keys := per.MethodByName("Keys")
	if !keys.IsValid() {
		return nil, false
	}
	ks := keys.Call(nil)
	if len(ks) != 1 || ks[0].Kind() != reflect.Slice {
		return nil, false
	}
	for i := 0; i < ks[0].Len(); i++ {
		h := ks[0].Index(i)
		if h.Kind() == reflect.Interface {
			h = h.Elem()
		}
		if h.Kind() != reflect.String {
			return nil, false
		}
		hashes = append(hashes, h.String())
	}
	return hashes, true
}

func (m *machine) cacheableKey(name string) bool {
	for _, k := range m.keys {
		if k.name == name {
			return kinds[k.kind].cacheable
		}
	}
	return false
}

func (m *machine) noteEntry(key string, b *cblock) {
	if m.ever[key] == nil {
		m.ever[key] = map[*cblock]bool{}
	}
	m.ever[key][b] = true
}

// ---------------------------------------------------------------------------
// actions

func (m *machine) pickKey(label string) ckey {
	return m.keys[rapid.IntRange(0, len(m.keys)-1).Draw(m.t, label)]
}

func (m *machine) openBlock() {
	if len(m.open) >= 2 {
		m.t.Skip("two blocks open")
	}
	// parent: mostly the newest committed block, sometimes an older one (sibling / fork)
	pi := len(m.blocks) - 1
	if rapid.IntRange(0, 3).Draw(m.t, "forkParent") == 0 {
		pi = rapid.IntRange(0, len(m.blocks)-1).Draw(m.t, "parent")
	}
	prev := m.blocks[pi]
	m.seq++
	ob := &oblock{id: m.seq, prev: prev, round: prev.round + 1, touched: map[string]bool{}, written: map[string]bool{}}
	ob.final = encryption.Hash(fmt.Sprintf("c07-block-%d", m.seq))
	ob.hash = ob.final
	generator := rapid.IntRange(0, 3).Draw(m.t, "generatorFlavour") == 0
	if generator {
		ob.hash = "" // a generator creates the block cache before the block has a hash (miner/protocol_block.go) and sets it before the commit
	}
	// as block.CreateStateWithPreviousBlock
	ob.state = util.NewMerklePatriciaTrie(util.NewLevelNodeDB(util.NewMemoryNodeDB(), prev.state.GetNodeDB(), false), util.Sequence(ob.round), prev.state.GetRoot(), statecache.NewEmpty())
	ob.bc = statecache.NewBlockCache(m.sc, statecache.Block{Round: ob.round, Hash: ob.hash, PrevHash: prev.hash})
	ob.model = make(map[string][]byte, len(prev.model))
	for k, v := range prev.model {
		ob.model[k] = v
	}
	ob.blk = &block.Block{}
	ob.blk.Round = ob.round
	ob.blk.Hash = ob.hash
	ob.blk.PrevHash = prev.hash
	m.open = append(m.open, ob)
	if pi != len(m.blocks)-1 {
		m.class("block_opened_on_older_parent")
	}
	siblings := 0
	for _, b := range m.blocks {
		if b.prev == prev {
			siblings++
		}
	}
	if siblings > 0 {
		m.class("block_opened_as_sibling")
	}
	m.logf("open B%d on #%d gen=%v", ob.id, prev.id, generator)
}

func (m *machine) beginTxn() {
	if m.txn != nil || len(m.open) == 0 {
		m.t.Skip("txn open or no block")
	}
	ob := m.open[rapid.IntRange(0, len(m.open)-1).Draw(m.t, "txnBlock")]
	ob.nTxn++
	x := &otxn{ob: ob, over: map[string][]byte{}, written: map[string]bool{}, touched: map[string]bool{}}
	// as chain.updateState
	x.tc = statecache.NewTransactionCache(ob.bc)
	x.mpt = chain.CreateTxnMPT(ob.state, x.tc)
	x.sctx = newCtx(ob.blk, x.mpt, m.seq*100+ob.nTxn)
	m.txn = x
	m.logf("begin T(B%d)", ob.id)
}

func (m *machine) needTxn() *otxn {
	if m.txn == nil {
		m.t.Skip("no txn")
	}
	return m.txn
}

func (x *otxn) expect(key string) ([]byte, bool) {
	if v, ok := x.over[key]; ok {
		return v, v != nil
	}
	v, ok := x.ob.model[key]
	return v, ok
}

// checkedRead reads key through the open transaction's state context and applies the oracle.
func (m *machine) checkedRead(x *otxn, k ckey, why string) (entity, bool) {
	if !m.readAllowed(k, x.ob.prev, x.ob, x) {
		m.skippedKnown++
		return nil, false
	}
	kd := &kinds[k.kind]
	dst := kd.fresh()
	var err error
	m.guarded("GetTrieNode", func() { err = x.sctx.GetTrieNode(k.name, dst) })
	want, present := x.expect(k.name)
	m.compare(why+" in T(B"+fmt.Sprint(x.ob.id)+")", k, x.ob.prev, err, dst, x.mpt.GetNodeDB(), x.mpt.GetRoot(), x.mpt.GetVersion(), want, present)
	x.touched[k.name] = true
	if m.known && kd.cacheable && !x.written[k.name] && !x.ob.written[k.name] {
		// the read may have walked: an entry for the read base may exist now
		m.noteEntry(k.name, x.ob.prev)
	}
	if m.scrambledKeys[k.name] {
		m.readAfterScr = true
	}
	if m.discardedKeys[k.name] {
		m.readAfterDisc = true
		m.class("read_after_discard_of_same_key")
	}
	if err != nil {
		return nil, true
	}
	return dst, true
}

func (m *machine) get() {
	x := m.needTxn()
	k := m.pickKey("getKey")
	obj, done := m.checkedRead(x, k, "get")
	if !done {
		if m.soft {
			return
		}
		m.t.Skip("read excluded (known finding class)")
	}
	m.class("get:" + kinds[k.kind].name)
	m.logf("get %s -> present=%v", k.name, obj != nil)
	if obj != nil {
		m.pool = append(m.pool, &held{kind: k.kind, obj: obj, key: k.name, origin: "read"})
	}
}

func (m *machine) insert() {
	x := m.needTxn()
	k := m.pickKey("insKey")
	kd := &kinds[k.kind]
	var obj entity
	src := "new"
	// sometimes a held object of the same kind (read earlier, possibly from another key), modified in place
	var cands []int
	for i, h := range m.pool {
		if h.kind == k.kind {
			cands = append(cands, i)
		}
	}
	if len(cands) > 0 && rapid.Bool().Draw(m.t, "reuseHeld") {
		h := m.pool[cands[rapid.IntRange(0, len(cands)-1).Draw(m.t, "heldIdx")]]
		obj = h.obj
		src = "held(" + h.origin + ":" + h.key + ")"
		if rapid.IntRange(0, 3).Draw(m.t, "modifyHeld") > 0 {
			regen(m.t, m.g, obj)
			src += "+modified"
		}
	} else {
		obj = genValue(m.t, m.g, kd)
	}
	b, err := enc(obj)
	if err != nil {
		m.harness("generated %s does not encode: %v", kd.name, err)
	}
	var ierr error
	m.guarded("InsertTrieNode", func() { _, ierr = x.sctx.InsertTrieNode(k.name, obj) })
	if ierr != nil {
		m.harness("InsertTrieNode(%s) failed: %v", k.name, ierr)
	}
	x.over[k.name] = b
	x.written[k.name] = true
	x.touched[k.name] = true
	m.class("insert:" + kd.name)
	m.logf("insert %s <- %s (%d bytes)", k.name, src, len(b))
	if src == "new" {
		m.pool = append(m.pool, &held{kind: k.kind, obj: obj, key: k.name, origin: "insert"})
	}
	// the key just written is read back through the stack (hits the transaction cache: no side effect)
	m.checkedRead(x, k, "read-after-insert")
}

func (m *machine) del() {
	x := m.needTxn()
	k := m.pickKey("delKey")
	_, present := x.expect(k.name)
	var derr error
	m.guarded("DeleteTrieNode", func() { _, derr = x.sctx.DeleteTrieNode(k.name) })
	if derr != nil {
		if present {
			m.harness("DeleteTrieNode(%s) of a stored key failed: %v", k.name, derr)
		}
		m.logf("delete %s (absent) -> %v", k.name, derr)
		m.class("delete_absent")
	} else {
		x.over[k.name] = nil
		x.written[k.name] = true
		x.touched[k.name] = true
		m.class("delete:" + kinds[k.kind].name)
		m.logf("delete %s (present=%v)", k.name, present)
	}
	m.checkedRead(x, k, "read-after-delete")
}

func (m *machine) scramble() {
	if len(m.pool) == 0 {
		m.t.Skip("nothing held")
	}
	i := rapid.IntRange(0, len(m.pool)-1).Draw(m.t, "scrambleIdx")
	h := m.pool[i]
	m.guarded("scramble", func() { valgen.Scramble(reflect.ValueOf(h.obj).Elem()) })
	m.pool = append(m.pool[:i], m.pool[i+1:]...)
	m.scrambledKeys[h.key] = true
	m.class("scramble_of_" + h.origin + ":" + kinds[h.kind].name)
	m.logf("scramble object of %s (%s)", h.key, h.origin)
	if m.txn != nil {
		// a later read of the same key must be unaffected
		for _, k := range m.keys {
			if k.kind == h.kind {
				m.checkedRead(m.txn, k, "read-after-scramble")
			}
		}
	}
}

func (m *machine) commitTxn() {
	x := m.needTxn()
	ob := x.ob
	// as chain.updateState on success: merge the trie changes, then (deferred) commit the transaction cache
	if err := ob.state.MergeMPTChanges(x.mpt); err != nil {
		m.harness("MergeMPTChanges: %v", err)
	}
	m.guarded("TransactionCache.Commit", func() { x.tc.Commit() })
	for k, v := range x.over {
		if v == nil {
			delete(ob.model, k)
		} else {
			ob.model[k] = v
		}
	}
	for k := range x.touched {
		ob.touched[k] = true
	}
	for k := range x.written {
		ob.written[k] = true
		ob.hasWrite = true
	}
	m.txn = nil
	m.class("txn_committed")
	m.logf("commit T(B%d)", ob.id)
}

func (m *machine) discardTxn() {
	x := m.needTxn()
	// as chain.updateState on failure: neither the trie changes nor the transaction cache are kept
	if len(x.written) > 0 {
		m.class("txn_discarded_after_write")
		for k := range x.written {
			if m.cacheableKey(k) {
				m.discardedKeys[k] = true
			}
		}
	} else {
		m.class("txn_discarded_without_write")
	}
	ob := x.ob
	m.txn = nil
	m.logf("discard T(B%d) writes=%d", ob.id, len(x.written))
	if len(x.written) > 0 && rapid.IntRange(0, 2).Draw(m.t, "probeAfterDiscard") > 0 {
		// as updateState does after a chargeable failure: a new transaction cache / trie on the same block
		ob.nTxn++
		y := &otxn{ob: ob, over: map[string][]byte{}, written: map[string]bool{}, touched: map[string]bool{}}
		y.tc = statecache.NewTransactionCache(ob.bc)
		y.mpt = chain.CreateTxnMPT(ob.state, y.tc)
		y.sctx = newCtx(ob.blk, y.mpt, m.seq*100+ob.nTxn)
		m.txn = y
		keys := make([]string, 0, len(x.written))
		for k := range x.written {
			keys = append(keys, k)
		}
		sort.Strings(keys)
		for _, name := range keys {
			for _, k := range m.keys {
				if k.name == name {
					m.checkedRead(y, k, "read-after-discard")
				}
			}
		}
		m.logf("begin T(B%d) after discard", ob.id)
	}
}

func (m *machine) commitBlock() {
	if len(m.open) == 0 {
		m.t.Skip("no open block")
	}
	i := rapid.IntRange(0, len(m.open)-1).Draw(m.t, "commitIdx")
	ob := m.open[i]
	if m.txn != nil && m.txn.ob == ob {
		m.t.Skip("txn open on that block")
	}
	m.commitOpen(i)
}

func (m *machine) commitOpen(i int) {
	ob := m.open[i]
	if ob.hash != ob.final {
		ob.bc.SetBlockHash(ob.final)
	}
	m.guarded("BlockCache.Commit", func() { ob.bc.Commit() })
	m.seq++
	cb := &cblock{id: len(m.blocks), hash: ob.final, prev: ob.prev, round: ob.round, state: ob.state, model: ob.model}
	m.blocks = append(m.blocks, cb)
	m.byHash[cb.hash] = cb
	for k := range ob.touched {
		m.noteEntry(k, cb)
	}
	m.open = append(m.open[:i], m.open[i+1:]...)
	m.class("block_committed")
	m.logf("commit B%d as #%d (prev #%d)", ob.id, cb.id, cb.prev.id)
}

func (m *machine) abandonBlock() {
	if len(m.open) == 0 {
		m.t.Skip("no open block")
	}
	i := rapid.IntRange(0, len(m.open)-1).Draw(m.t, "abandonIdx")
	ob := m.open[i]
	if m.txn != nil && m.txn.ob == ob {
		m.t.Skip("txn open on that block")
	}
	m.open = append(m.open[:i], m.open[i+1:]...)
	if ob.hasWrite {
		m.class("block_abandoned_after_write")
	}
	m.logf("abandon B%d", ob.id)
}

// query reads like the REST handlers do: QueryBlockCache on a committed block (the LFB in the node), never committed.
func (m *machine) query() {
	bi := len(m.blocks) - 1 - rapid.IntRange(0, 3).Draw(m.t, "queryDepth")
	if bi < 0 {
		bi = 0
	}
	if rapid.IntRange(0, 4).Draw(m.t, "queryAny") == 0 {
		bi = rapid.IntRange(0, len(m.blocks)-1).Draw(m.t, "queryBlock")
	}
	b := m.blocks[bi]
	qbc := statecache.NewQueryBlockCache(m.sc, b.hash)
	tc := statecache.NewTransactionCache(qbc)
	mpt := chain.CreateTxnMPT(b.state, tc)
	blk := &block.Block{}
	blk.Round = b.round
	blk.Hash = b.hash
	sctx := newCtx(blk, mpt, 0)
	n := rapid.IntRange(1, 3).Draw(m.t, "queryReads")
	did := 0
	for j := 0; j < n; j++ {
		k := m.pickKey("queryKey")
		if !m.readAllowed(k, b, nil, nil) {
			m.skippedKnown++
			continue
		}
		kd := &kinds[k.kind]
		dst := kd.fresh()
		var err error
		m.guarded("GetTrieNode(query)", func() { err = sctx.GetTrieNode(k.name, dst) })
		want, present := b.model[k.name]
		m.compare(fmt.Sprintf("query at #%d", b.id), k, b, err, dst, mpt.GetNodeDB(), mpt.GetRoot(), mpt.GetVersion(), want, present)
		if m.known && kd.cacheable {
			m.noteEntry(k.name, b)
		}
		if m.scrambledKeys[k.name] {
			m.readAfterScr = true
		}
		if err == nil {
			m.pool = append(m.pool, &held{kind: k.kind, obj: dst, key: k.name, origin: "read"})
		}
		did++
		m.logf("query #%d %s -> present=%v", b.id, k.name, err == nil)
	}
	if did == 0 {
		m.t.Skip("all query reads excluded")
	}
	if bi != len(m.blocks)-1 {
		m.class("query_at_older_block")
	} else {
		m.class("query_at_newest_block")
	}
}

// fastBlock executes a whole block in one step (open, 0..2 transactions with 0..2 operations each, commit), so that
// histories reach chains and forks of several committed blocks.
func (m *machine) fastBlock() {
	if m.txn != nil || len(m.open) >= 2 {
		m.t.Skip("txn open / two blocks open")
	}
	m.openBlock()
	ob := m.open[len(m.open)-1]
	nt := rapid.IntRange(0, 2).Draw(m.t, "fastTxns")
	for i := 0; i < nt; i++ {
		ob.nTxn++
		x := &otxn{ob: ob, over: map[string][]byte{}, written: map[string]bool{}, touched: map[string]bool{}}
		x.tc = statecache.NewTransactionCache(ob.bc)
		x.mpt = chain.CreateTxnMPT(ob.state, x.tc)
		x.sctx = newCtx(ob.blk, x.mpt, m.seq*100+ob.nTxn)
		m.txn = x
		m.logf("begin T(B%d)", ob.id)
		no := rapid.IntRange(0, 2).Draw(m.t, "fastOps")
		for j := 0; j < no; j++ {
			switch rapid.IntRange(0, 4).Draw(m.t, "fastOp") {
			case 0, 1:
				m.tryOp(m.get)
			case 2, 3:
				m.tryOp(m.insert)
			default:
				m.tryOp(m.del)
			}
		}
		if rapid.IntRange(0, 4).Draw(m.t, "fastDiscard") == 0 {
			m.discardTxn()
			if m.txn != nil {
				m.commitTxn()
			}
		} else {
			m.commitTxn()
		}
	}
	// commit that block
	for i, o := range m.open {
		if o == ob {
			m.commitOpen(i)
			break
		}
	}
}

// tryOp runs an action that may decline (excluded read) without abandoning the compound step.
func (m *machine) tryOp(f func()) {
	m.soft = true
	defer func() { m.soft = false }()
	f()
}

func TestC07_CacheVsTrie(t *testing.T) {
	if err := checkKinds(); err != nil {
		t.Fatalf("VERIF-HARNESS-ERROR %v", err)
	}
	st := vkit.For("C07").SetRule("rapid state machine over the real cstate.StateContext / MPT / statecache stack wired as chain.updateState, block.ComputeState, the generator and the REST handlers do: per case 2..4 entity kinds (7 cacheable types + 2 non-cacheable controls) with 2 keys each; actions: open a block on the newest or an older committed block (siblings, forks; generator flavour sets the block hash late), begin a transaction, get / insert (new value, or an object read earlier and modified in place) / delete, scramble (deep in-place change of every leaf of an object returned by a read or handed to an insert), commit or discard the transaction (discard followed by a fresh transaction on the same block as after a chargeable failure), commit or abandon the block, REST-style query reads at committed blocks; oracle after every read: outcome and canonical encoding equal to an uncached trie opened at the same root, objects structurally equal; non-trivial = history with a read of a key after an object of that key was scrambled AND a read of a cacheable key after a transaction that wrote it was discarded; distinct by history fingerprint")
	st.Assume("one key always holds one entity type (keys are derived per type in the contracts)")
	st.Assume("at most one transaction is open at a time (Chain.UpdateState holds the chain's state mutex); REST-style reads interleave freely")
	st.Assume("read destinations are fresh objects built the way the contracts build them (new(GlobalNode), NewMinerNode(), newConfig(), &StorageAllocation{}, &partition{}, ...)")
	st.Assume("cache capacity effects (per-key history of 200 blocks, 2000 block hashes) are outside the generated sizes")
	known := st.IsKnown(findingWalk)
	knownPool := st.IsKnown(findingPool)
	runProbes(t, st)
	rapid.Check(t, func(t *rapid.T) {
		m := &machine{t: t, st: st, g: newGen(knownPool), sc: statecache.NewStateCache(), known: known,
			ever: map[string]map[*cblock]bool{}, byHash: map[string]*cblock{}, scrambledKeys: map[string]bool{}, discardedKeys: map[string]bool{}, classes: map[string]int{}}
		m.cmp = &valgen.Cmp{}
		// kinds of this case
		nk := rapid.IntRange(1, 3).Draw(t, "kinds")
		perm := rapid.Permutation(seqInts(len(kinds))).Draw(t, "kindOrder")
		for _, ki := range perm[:nk] {
			nkeys := rapid.IntRange(1, 2).Draw(t, "keysOfKind")
			for j := 0; j < nkeys; j++ {
				m.keys = append(m.keys, ckey{name: fmt.Sprintf("c07:%s:%d", kinds[ki].name, j), kind: ki})
			}
		}
		// genesis: an empty committed block
		gdb := util.NewMemoryNodeDB()
		g := &cblock{id: 0, hash: encryption.Hash("c07-genesis"), round: 0, model: map[string][]byte{}}
		g.state = util.NewMerklePatriciaTrie(util.NewLevelNodeDB(util.NewMemoryNodeDB(), gdb, false), 0, nil, statecache.NewEmpty())
		gbc := statecache.NewBlockCache(m.sc, statecache.Block{Round: 0, Hash: g.hash})
		gbc.Commit()
		m.blocks = append(m.blocks, g)
		m.byHash[g.hash] = g

		t.Repeat(map[string]func(*rapid.T){
			"openBlock":    func(t *rapid.T) { m.t = t; m.openBlock() },
			"beginTxn":     func(t *rapid.T) { m.t = t; m.beginTxn() },
			"get":          func(t *rapid.T) { m.t = t; m.get() },
			"get2":         func(t *rapid.T) { m.t = t; m.get() },
			"insert":       func(t *rapid.T) { m.t = t; m.insert() },
			"insert2":      func(t *rapid.T) { m.t = t; m.insert() },
			"delete":       func(t *rapid.T) { m.t = t; m.del() },
			"scramble":     func(t *rapid.T) { m.t = t; m.scramble() },
			"commitTxn":    func(t *rapid.T) { m.t = t; m.commitTxn() },
			"discardTxn":   func(t *rapid.T) { m.t = t; m.discardTxn() },
			"commitBlock":  func(t *rapid.T) { m.t = t; m.commitBlock() },
			"abandonBlock": func(t *rapid.T) { m.t = t; m.abandonBlock() },
			"query":        func(t *rapid.T) { m.t = t; m.query() },
			"query2":       func(t *rapid.T) { m.t = t; m.query() },
			"fastBlock":    func(t *rapid.T) { m.t = t; m.fastBlock() },
			"fastBlock2":   func(t *rapid.T) { m.t = t; m.fastBlock() },
		})

		st.Case()
		for c, n := range m.classes {
			st.ClassN(c, n)
		}
		if m.skippedKnown > 0 {
			st.ClassN("reads_not_generated_because_of_known_finding", m.skippedKnown)
		}
		nontrivial := m.readAfterScr && m.readAfterDisc
		if m.readAfterScr {
			st.Class("case_with_read_after_scramble")
		}
		if m.readAfterDisc {
			st.Class("case_with_read_after_discarded_write")
		}
		forks := 0
		for _, b := range m.blocks {
			for _, c := range m.blocks {
				if b != c && b.prev != nil && b.prev == c.prev && b.id < c.id {
					forks++
				}
			}
		}
		if forks > 0 {
			st.Class("case_with_sibling_blocks")
		}
		if nontrivial {
			st.NonTrivial(strings.Join(m.hist, "|"))
		}
		if st.WantSample(nontrivial) {
			h := m.hist
			if len(h) > 40 {
				h = h[:40]
			}
			st.Sample(nontrivial, h)
		}
	})
}

func seqInts(n int) []int {
	out := make([]int, n)
	for i := range out {
		out[i] = i
	}
	return out
}
