package cachechk

import (
	"fmt"
	"reflect"
	"testing"

	"0chain.net/chaincore/block"
	"0chain.net/chaincore/node"
	"0chain.net/smartcontract/minersc"
	"0chain.net/smartcontract/partitions"
	"0chain.net/smartcontract/stakepool"
	"0chain.net/smartcontract/storagesc"
	"github.com/0chain/common/core/statecache"
	"github.com/0chain/common/core/util"
	"pgregory.net/rapid"
	"verifharness/checks/valgen"
	"verifharness/checks/valgen/wrapgen"
	"verifharness/vkeys"
	"verifharness/vkit"
	"verifharness/vlog"
)

func TestMain(m *testing.M) {
	vlog.Quiet()
	vkit.Main(m)
}

// entity is anything the contracts store in the state trie.
type entity = util.MPTSerializable

// kind describes one stored entity type: how the contracts build the destination object of a read, and a generator of
// valid values.
type kind struct {
	name      string
	cacheable bool
	fresh     func() entity
}

// the seven cacheable entity types (everything with `Clone() statecache.Value` in the working tree) plus two
// non-cacheable controls that must bypass the value cache.
var kinds = []kind{
	{"partitions.Partitions", true, func() entity { return partitions.VerifC07NewPartitions() }},
	{"partitions.partition", true, func() entity { return partitions.VerifC07NewPartition() }},
	{"partitions.location", true, func() entity { return partitions.VerifC07NewLocation() }},
	{"minersc.GlobalNode", true, func() entity { return new(minersc.GlobalNode) }},
	{"minersc.MinerNode", true, func() entity { return minersc.NewMinerNode() }},
	{"storagesc.StorageAllocation", true, func() entity { return &storagesc.StorageAllocation{} }},
	{"storagesc.Config", true, func() entity { return storagesc.VerifC07NewConfig() }},
	{"control:stakepool.StakePool", false, func() entity { return stakepool.NewStakePool() }},
	{"control:storagesc.StorageNode", false, func() entity { return &storagesc.StorageNode{} }},
}

// checkKinds verifies the table against the types: every kind marked cacheable implements statecache.Value and the
// controls do not (otherwise the table is stale: harness error, not a verdict).
func checkKinds() error {
	for _, k := range kinds {
		_, ok := statecache.Cacheable(k.fresh())
		if ok != k.cacheable {
			return fmt.Errorf("kind %s: cacheable=%v in the table, %v in the code", k.name, k.cacheable, ok)
		}
	}
	return nil
}

var (
	poolPtrType = reflect.TypeOf(&node.Pool{})
	mbPtrType   = reflect.TypeOf(&block.MagicBlock{})
	configType  = reflect.TypeOf(storagesc.Config{})
	partsType   = reflect.TypeOf(partitions.Partitions{})
)

// newGen builds the reflective generator with the invariants every stored value has in the repository:
//   - versioned wrappers always carry an entity of a registered version (wrapgen.Hook);
//   - node pools are built through the pool API from nodes with valid public keys (Pool.UnmarshalMsg re-derives the
//     signature scheme from the key and fails on garbage, so no stored pool can hold one);
//   - Partitions.Last is never nil (newPartitions), the sub-configurations of storagesc.Config are never nil
//     (newConfig);
//   - embedded pointers (MinerNode.SimpleNode / StakePool) and container elements are never nil.
func newGen(noPoolNodes bool) *valgen.Gen {
	g := &valgen.Gen{MaxLen: 3, MaxDepth: 9}
	g.StructHook = wrapgen.Hook
	g.Hooks = map[reflect.Type]valgen.Hook{
		poolPtrType: func(t *rapid.T, g *valgen.Gen, v reflect.Value, depth int) bool {
			if rapid.IntRange(0, 3).Draw(t, "nilPool") == 0 {
				v.Set(reflect.Zero(poolPtrType))
				return true
			}
			tp := node.NodeType(rapid.SampledFrom([]int{int(node.NodeTypeMiner), int(node.NodeTypeSharder)}).Draw(t, "poolType"))
			p := node.NewPool(tp)
			n := rapid.IntRange(0, 3).Draw(t, "poolNodes")
			if noPoolNodes {
				n = 0 // known finding node-pool-lost-in-cached-copy: the class is excluded by construction
			}
			for i := 0; i < n; i++ {
				nd := node.Provider()
				nd.Type = tp
				sch := vkeys.BLS(vkit.Seed(), "c07-node", rapid.IntRange(0, 7).Draw(t, "nodeKey"))
				nd.PublicKey = sch.GetPublicKey()
				nd.ID = vkeys.ID(nd.PublicKey)
				nd.Host = g.String(t)
				nd.N2NHost = g.String(t)
				nd.Port = rapid.IntRange(0, 65535).Draw(t, "port")
				nd.Description = g.String(t)
				nd.Status = rapid.IntRange(0, 1).Draw(t, "nodeStatus")
				nd.InPrevMB = rapid.Bool().Draw(t, "inPrevMB")
				if err := p.AddNode(nd); err != nil {
					t.Fatalf("VERIF-HARNESS-ERROR AddNode: %v", err)
				}
			}
			v.Set(reflect.ValueOf(p))
			return true
		},
		mbPtrType: func(t *rapid.T, g *valgen.Gen, v reflect.Value, depth int) bool {
			if rapid.IntRange(0, 2).Draw(t, "nilMB") == 0 {
				v.Set(reflect.Zero(mbPtrType))
				return true
			}
			mb := block.NewMagicBlock()
			// all plain fields reflectively (the struct holds a lock, so it is filled in place)
			g.FillAt(t, reflect.ValueOf(mb).Elem(), depth+1, false)
			v.Set(reflect.ValueOf(mb))
			return true
		},
	}
	g.NonNil = func(owner reflect.Type, f reflect.StructField) bool {
		switch owner {
		case configType:
			return f.Type.Kind() == reflect.Ptr || f.Type.Kind() == reflect.Map
		case partsType:
			return f.Name == "Last"
		}
		return false
	}
	return g
}

// genValue draws a valid value of a kind.
func genValue(t *rapid.T, g *valgen.Gen, k *kind) entity {
	e := k.fresh()
	g.Fill(t, reflect.ValueOf(e).Elem())
	return e
}

// regen redraws a drawn subset of the top-level fields of a held value in place (read-modify-write as contracts do it).
// For a versioned wrapper the fields of the entity it carries are redrawn.
func regen(t *rapid.T, g *valgen.Gen, e entity) {
	v := reflect.ValueOf(e).Elem()
	target := v
	if w, ok := wrapgen.IsWrapper(v); ok {
		if w.Entity() == nil {
			g.Fill(t, v)
			return
		}
		target = reflect.ValueOf(w.Entity()).Elem()
	}
	if target.Kind() != reflect.Struct || target.NumField() == 0 {
		g.Fill(t, v)
		return
	}
	n := target.NumField()
	cnt := rapid.IntRange(1, 3).Draw(t, "regenFields")
	for i := 0; i < cnt; i++ {
		fi := rapid.IntRange(0, n-1).Draw(t, "regenField")
		sf := target.Type().Field(fi)
		if valgen.Opaque(sf.Type) {
			continue
		}
		fv := valgen.Access(target.Field(fi))
		if !fv.CanSet() {
			continue
		}
		nn := sf.Anonymous && sf.Type.Kind() == reflect.Ptr
		if g.NonNil != nil && g.NonNil(target.Type(), sf) {
			nn = true
		}
		g.FillAt(t, fv, 1, nn)
	}
}
