package cachechk

import (
	"bytes"
	"fmt"
	"sync"
	"testing"

	"0chain.net/chaincore/block"
	"0chain.net/chaincore/chain"
	"0chain.net/chaincore/node"
	"0chain.net/core/encryption"
	"0chain.net/smartcontract/minersc"
	"0chain.net/smartcontract/partitions"
	"github.com/0chain/common/core/statecache"
	"github.com/0chain/common/core/util"
	"verifharness/checks/valgen"
	"verifharness/vkeys"
	"verifharness/vkit"
)

// Fixed minimal scenarios of the two finding classes. They never decide anything: they only tell (for the evidence file)
// whether a listed known finding still reproduces on the tree under test.

type pblock struct {
	hash  string
	round int64
	state util.MerklePatriciaTrieI
}

func probeLoc(n int) entity {
	e := partitions.VerifC07NewLocation()
	// location{Location int}: set through the codec to stay independent of the field layout
	raw := []byte{0x81, 0xa8, 'L', 'o', 'c', 'a', 't', 'i', 'o', 'n', byte(n)}
	if _, err := e.UnmarshalMsg(raw); err != nil {
		panic(err)
	}
	return e
}

// probeWalk: K=1 written in block 1; block 2 does not touch K; block 3 (on 2) writes K=5; a REST-style read of K at
// block 2; block 4 (on 3) reads K. Returns what block 4 read through the cache and through the uncached trie.
func probeWalk() (cached, trie []byte, err error) {
	sc := statecache.NewStateCache()
	const key = "c07:probe:location"
	g := &pblock{hash: encryption.Hash("probe-g")}
	g.state = util.NewMerklePatriciaTrie(util.NewLevelNodeDB(util.NewMemoryNodeDB(), util.NewMemoryNodeDB(), false), 0, nil, statecache.NewEmpty())
	statecache.NewBlockCache(sc, statecache.Block{Hash: g.hash}).Commit()
	mk := func(prev *pblock, name string, write int) (*pblock, error) {
		b := &pblock{hash: encryption.Hash("probe-" + name), round: prev.round + 1}
		b.state = util.NewMerklePatriciaTrie(util.NewLevelNodeDB(util.NewMemoryNodeDB(), prev.state.GetNodeDB(), false), util.Sequence(b.round), prev.state.GetRoot(), statecache.NewEmpty())
		bc := statecache.NewBlockCache(sc, statecache.Block{Round: b.round, Hash: b.hash, PrevHash: prev.hash})
		if write > 0 {
			tc := statecache.NewTransactionCache(bc)
			mpt := chain.CreateTxnMPT(b.state, tc)
			blk := &block.Block{}
			blk.Round, blk.Hash = b.round, b.hash
			ctx := newCtx(blk, mpt, write)
			if _, err := ctx.InsertTrieNode(key, probeLoc(write)); err != nil {
				return nil, err
			}
			if err := b.state.MergeMPTChanges(mpt); err != nil {
				return nil, err
			}
			tc.Commit()
		}
		bc.Commit()
		return b, nil
	}
	b1, err := mk(g, "1", 1)
	if err != nil {
		return nil, nil, err
	}
	b2, err := mk(b1, "2", 0)
	if err != nil {
		return nil, nil, err
	}
	b3, err := mk(b2, "3", 5)
	if err != nil {
		return nil, nil, err
	}
	// REST-style read at block 2
	{
		tc := statecache.NewTransactionCache(statecache.NewQueryBlockCache(sc, b2.hash))
		mpt := chain.CreateTxnMPT(b2.state, tc)
		blk := &block.Block{}
		blk.Round, blk.Hash = b2.round, b2.hash
		if err := newCtx(blk, mpt, 0).GetTrieNode(key, partitions.VerifC07NewLocation()); err != nil {
			return nil, nil, fmt.Errorf("query read: %v", err)
		}
	}
	// block 4 on block 3 reads K
	b4 := &pblock{hash: encryption.Hash("probe-4"), round: b3.round + 1}
	b4.state = util.NewMerklePatriciaTrie(util.NewLevelNodeDB(util.NewMemoryNodeDB(), b3.state.GetNodeDB(), false), util.Sequence(b4.round), b3.state.GetRoot(), statecache.NewEmpty())
	bc := statecache.NewBlockCache(sc, statecache.Block{Round: b4.round, Hash: b4.hash, PrevHash: b3.hash})
	tc := statecache.NewTransactionCache(bc)
	mpt := chain.CreateTxnMPT(b4.state, tc)
	blk := &block.Block{}
	blk.Round, blk.Hash = b4.round, b4.hash
	got := partitions.VerifC07NewLocation()
	if err := newCtx(blk, mpt, 9).GetTrieNode(key, got); err != nil {
		return nil, nil, fmt.Errorf("read in block 4: %v", err)
	}
	ref := partitions.VerifC07NewLocation()
	if _, err := freshRead(mpt.GetNodeDB(), mpt.GetRoot(), mpt.GetVersion(), key, ref); err != nil {
		return nil, nil, fmt.Errorf("uncached read in block 4: %v", err)
	}
	cached, _ = enc(got)
	trie, _ = enc(ref)
	return cached, trie, nil
}

// probePool: a GlobalNode whose previous magic block has one miner is inserted and read back in the same transaction
// (served by the transaction cache) and compared with the uncached trie read.
func probePool() (differs bool, where string, err error) {
	sc := statecache.NewStateCache()
	const key = "c07:probe:globalnode"
	st := util.NewMerklePatriciaTrie(util.NewLevelNodeDB(util.NewMemoryNodeDB(), util.NewMemoryNodeDB(), false), 1, nil, statecache.NewEmpty())
	bc := statecache.NewBlockCache(sc, statecache.Block{Round: 1, Hash: encryption.Hash("probe-pool")})
	tc := statecache.NewTransactionCache(bc)
	mpt := chain.CreateTxnMPT(st, tc)
	blk := &block.Block{}
	blk.Round = 1
	ctx := newCtx(blk, mpt, 1)
	gn := new(minersc.GlobalNode)
	mb := block.NewMagicBlock()
	mb.Miners = node.NewPool(node.NodeTypeMiner)
	nd := node.Provider()
	nd.Type = node.NodeTypeMiner
	nd.PublicKey = vkeys.BLS(vkit.Seed(), "c07-node", 0).GetPublicKey()
	nd.ID = vkeys.ID(nd.PublicKey)
	if err := mb.Miners.AddNode(nd); err != nil {
		return false, "", err
	}
	gn.PrevMagicBlock = mb
	if _, err := ctx.InsertTrieNode(key, gn); err != nil {
		return false, "", err
	}
	got := new(minersc.GlobalNode)
	if err := ctx.GetTrieNode(key, got); err != nil {
		return false, "", err
	}
	ref := new(minersc.GlobalNode)
	if _, err := freshRead(mpt.GetNodeDB(), mpt.GetRoot(), mpt.GetVersion(), key, ref); err != nil {
		return false, "", err
	}
	ok, diff := (&valgen.Cmp{}).Equiv(got, ref)
	return !ok, diff, nil
}

// runProbes records, once per process, whether the listed open findings of this property still reproduce.
func runProbes(t *testing.T, st *vkit.Stats) {
	probeOnce.Do(func() {
		if st.IsKnown(findingWalk) {
			c, tr, err := probeWalk()
			switch {
			case err != nil:
				t.Fatalf("VERIF-HARNESS-ERROR probe %s: %v", findingWalk, err)
			case !bytes.Equal(c, tr):
				st.Known(findingWalk)
			default:
				st.Class("known_finding_no_longer_reproduces:" + findingWalk)
			}
		}
		if st.IsKnown(findingPool) {
			d, _, err := probePool()
			switch {
			case err != nil:
				t.Fatalf("VERIF-HARNESS-ERROR probe %s: %v", findingPool, err)
			case d:
				st.Known(findingPool)
			default:
				st.Class("known_finding_no_longer_reproduces:" + findingPool)
			}
		}
	})
}

var probeOnce sync.Once
