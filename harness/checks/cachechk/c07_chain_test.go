package cachechk

import (
	"bytes"
	"fmt"
	"reflect"
	"sort"
	"strings"
	"testing"

	"0chain.net/chaincore/block"
	"0chain.net/chaincore/chain"
	"0chain.net/chaincore/transaction"
	"0chain.net/smartcontract/storagesc"
	"github.com/0chain/common/core/currency"
	"github.com/0chain/common/core/statecache"
	"pgregory.net/rapid"
	"verifharness/checks/valgen"
	"verifharness/gen"
	"verifharness/sim"
	"verifharness/simminer"
	"verifharness/simmisc"
	"verifharness/vkit"
)

// Second part of C07: the real commit / discard path. Generated transaction histories (settings updates that write the
// cached GlobalNode / Config, add_validator calls that write the validator partitions and then fail on their stake
// pool settings, node registration, fee payments, garbage calls, sends) run through Chain.UpdateState on the booted
// chain; after every transaction - applied, failed or rejected - every key the cache stack holds is read the way the
// next transaction would read it (a new TransactionCache over the block cache, chain.CreateTxnMPT, a real state
// context) and compared with the uncached trie of the block.

// blockCacheOf digs the block cache out of the simulator's open block (the simulator keeps it private; this is
// harness-to-harness plumbing, not an access to the code under test).
func blockCacheOf(b *sim.Block) (*statecache.BlockCache, error) {
	f := reflect.ValueOf(b).Elem().FieldByName("cache")
	if !f.IsValid() {
		return nil, fmt.Errorf("sim.Block has no field cache")
	}
	bc := f.FieldByName("bc")
	if !bc.IsValid() {
		return nil, fmt.Errorf("sim.Block.cache has no field bc")
	}
	p, ok := valgen.Access(bc).Interface().(*statecache.BlockCache)
	if !ok || p == nil {
		return nil, fmt.Errorf("sim.Block.cache.bc is not a block cache")
	}
	return p, nil
}

var kindByType = func() map[reflect.Type]*kind {
	m := map[reflect.Type]*kind{}
	for i := range kinds {
		m[reflect.TypeOf(kinds[i].fresh())] = &kinds[i]
	}
	return m
}()

// keyTypes remembers, per process, the entity type seen under a state key (keys are global strings; a deletion marker
// in the cache carries no type).
var keyTypes = map[string]reflect.Type{}

// dataType extracts the dynamic type of the value a cache entry (statecache.valueNode) holds.
func dataType(entry reflect.Value) reflect.Type {
	tmp := reflect.New(entry.Type()).Elem()
	tmp.Set(entry)
	d := valgen.Access(tmp.FieldByName("data"))
	if !d.IsValid() || d.Kind() != reflect.Interface || d.IsNil() {
		return nil
	}
	return d.Elem().Type()
}

// cachedKeys lists the state keys (not the trie-node keys) that the block cache and the global state cache hold, with
// the entity type cached under them. unknown lists cached types that are neither trie nodes nor in the kind table.
func cachedKeys(bc *statecache.BlockCache, sc *statecache.StateCache) (keys map[string]reflect.Type, unknown []string, err error) {
	defer func() {
		if r := recover(); r != nil {
			err = fmt.Errorf("cache layout not as expected: %v", r)
		}
	}()
	keys = map[string]reflect.Type{}
	note := func(k string, tp reflect.Type) {
		if tp == nil {
			return
		}
		if tp.Kind() == reflect.Ptr && tp.Elem().PkgPath() == "github.com/0chain/common/core/util" {
			return // trie node, keyed by its hash
		}
		if tp.Kind() == reflect.Ptr && tp.Elem().PkgPath() == "github.com/0chain/common/core/statecache" {
			return // deletion marker
		}
		if _, ok := kindByType[tp]; !ok {
			unknown = append(unknown, tp.String())
			return
		}
		keys[k] = tp
		keyTypes[k] = tp
	}
	bm := valgen.Access(reflect.ValueOf(bc).Elem().FieldByName("cache"))
	it := bm.MapRange()
	for it.Next() {
		k := it.Key().String()
		tp := dataType(it.Value())
		if tp != nil && tp.Kind() == reflect.Ptr && tp.Elem().PkgPath() == "github.com/0chain/common/core/statecache" {
			if kt, ok := keyTypes[k]; ok {
				keys[k] = kt // deleted in this block: the cached read must say "absent" like the trie
			}
			continue
		}
		note(k, tp)
	}
	c := valgen.Access(reflect.ValueOf(sc).Elem().FieldByName("cache"))
	all := c.MethodByName("Keys").Call(nil)[0]
	for i := 0; i < all.Len(); i++ {
		kv := all.Index(i)
		if kv.Kind() == reflect.Interface {
			kv = kv.Elem()
		}
		k := kv.String()
		if len(k) == 32 && !printable(k) {
			continue // trie node hash
		}
		out := c.MethodByName("Peek").Call([]reflect.Value{kv})
		if !out[1].Bool() {
			continue
		}
		per := out[0].Elem()
		hs := per.MethodByName("Keys").Call(nil)[0]
		for j := 0; j < hs.Len(); j++ {
			e := per.MethodByName("Peek").Call([]reflect.Value{hs.Index(j)})
			if !e[1].Bool() {
				continue
			}
			note(k, dataType(e[0].Elem()))
			break
		}
	}
	return keys, unknown, nil
}

func printable(s string) bool {
	for i := 0; i < len(s); i++ {
		if s[i] < 0x20 || s[i] > 0x7e {
			return false
		}
	}
	return true
}

type chainCase struct {
	t       *rapid.T
	st      *vkit.Stats
	s       *sim.Sim
	hist    []*sim.History
	envs    []*gen.Env
	libs    []*simmisc.Lib
	cmp     *valgen.Cmp
	log     []string
	watched map[string]reflect.Type
	reads   int
	classes map[string]int
}

func (c *chainCase) render(h *sim.History) string {
	l := c.log
	if len(l) > 30 {
		l = l[len(l)-30:]
	}
	return strings.Join(l, " | ") + " :: last transactions " + fmt.Sprint(h.Render(8))
}

// audit reads every watched key through a fresh transaction cache over the open block's cache and compares with the
// uncached trie; every value read is scrambled and read again (the cached copy must not be affected).
func (c *chainCase) audit(h *sim.History, why string) {
	t := c.t
	bc, err := blockCacheOf(h.Cur)
	if err != nil {
		t.Fatalf("VERIF-HARNESS-ERROR %v", err)
	}
	keys, unknown, err := cachedKeys(bc, c.s.Chain.GetStateCache())
	if err != nil {
		t.Fatalf("VERIF-HARNESS-ERROR %v", err)
	}
	if len(unknown) > 0 {
		sort.Strings(unknown)
		t.Fatalf("VERIF-HARNESS-ERROR the cache holds entity types that are not in the kind table of this check (table stale): %v", unknown)
	}
	for k, tp := range keys {
		c.watched[k] = tp
	}
	names := make([]string, 0, len(c.watched))
	for k := range c.watched {
		names = append(names, k)
	}
	sort.Strings(names)
	b := h.Cur.B
	view := sim.ViewOf(b)
	for _, name := range names {
		kd := kindByType[c.watched[name]]
		for pass := 0; pass < 2; pass++ {
			tc := statecache.NewTransactionCache(bc)
			mpt := chain.CreateTxnMPT(b.ClientState, tc)
			sctx := c.s.Chain.NewStateContext(b, mpt, &transaction.Transaction{}, nil)
			got := kd.fresh()
			var gerr error
			func() {
				defer func() {
					if r := recover(); r != nil {
						t.Fatalf("%s", vkit.Violation("C07", "panic:GetTrieNode:"+kd.name, "%s: reading %q through the cache stack panicked: %v :: %s", why, name, r, c.render(h)))
					}
				}()
				gerr = sctx.GetTrieNode(name, got)
			}()
			ref := kd.fresh()
			rerr := view.Node(name, ref)
			c.reads++
			switch {
			case gerr != nil && !absent(gerr):
				t.Fatalf("%s", vkit.Violation("C07", "cached-read-error:"+kd.name, "%s: GetTrieNode(%q) failed: %v (uncached: %v) :: %s", why, name, gerr, rerr, c.render(h)))
			case rerr != nil && !absent(rerr):
				t.Fatalf("VERIF-HARNESS-ERROR uncached read of %q: %v", name, rerr)
			case absent(gerr) != absent(rerr):
				key := "cache-returns-deleted-or-absent-value:" + kd.name
				if absent(gerr) {
					key = "cache-hides-stored-value:" + kd.name
				}
				t.Fatalf("%s", vkit.Violation("C07", key, "%s: GetTrieNode(%q) through the cache stack: err=%v, uncached trie read: err=%v :: %s", why, name, gerr, rerr, c.render(h)))
			case gerr == nil:
				gb, e1 := enc(got)
				rb, e2 := enc(ref)
				if e1 != nil || e2 != nil {
					t.Fatalf("%s", vkit.Violation("C07", "reencode-error:"+kd.name, "%s: values of %q do not encode: %v / %v", why, name, e1, e2))
				}
				if !bytes.Equal(gb, rb) {
					_, diff := c.cmp.Equiv(got, ref)
					t.Fatalf("%s", vkit.Violation("C07", "cache-differs-from-trie:"+kd.name, "%s (pass %d): GetTrieNode(%q) through the cache stack differs from the uncached trie read of the same block state; first difference %s :: %s", why, pass, name, diff, c.render(h)))
				}
				if ok, diff := c.cmp.Equiv(got, ref); !ok {
					key := "cached-object-differs-structurally:" + kd.name
					if strings.Contains(diff, ".PrevMagicBlock.Miners") || strings.Contains(diff, ".PrevMagicBlock.Sharders") {
						key = findingPool
					}
					t.Fatalf("%s", vkit.Violation("C07", key, "%s: GetTrieNode(%q) encodes like the trie value but differs at %s :: %s", why, name, diff, c.render(h)))
				}
				// mutate what the read returned; the second pass must see the same thing
				valgen.Scramble(reflect.ValueOf(got).Elem())
			}
			if gerr != nil {
				break
			}
		}
	}
}

// query is a REST-style read at a closed block (QueryBlockCache), as Chain.GetStateContextI builds it.
func (c *chainCase) query(b *block.Block, h *sim.History) {
	t := c.t
	names := make([]string, 0, len(c.watched))
	for k := range c.watched {
		names = append(names, k)
	}
	if len(names) == 0 {
		return
	}
	sort.Strings(names)
	name := names[rapid.IntRange(0, len(names)-1).Draw(t, "queryKey")]
	kd := kindByType[c.watched[name]]
	qbc := statecache.NewQueryBlockCache(c.s.Chain.GetStateCache(), b.Hash)
	tc := statecache.NewTransactionCache(qbc)
	mpt := chain.CreateTxnMPT(b.ClientState, tc)
	sctx := c.s.Chain.NewStateContext(b, mpt, &transaction.Transaction{}, nil)
	got := kd.fresh()
	gerr := sctx.GetTrieNode(name, got)
	ref := kd.fresh()
	rerr := sim.ViewOf(b).Node(name, ref)
	if absent(gerr) != absent(rerr) || (gerr != nil && !absent(gerr)) {
		t.Fatalf("%s", vkit.Violation("C07", "query-presence-differs:"+kd.name, "REST-style read of %q at block %s round %d: cache stack err=%v, trie err=%v :: %s", name, b.Hash[:8], b.Round, gerr, rerr, c.render(h)))
	}
	if gerr == nil {
		gb, _ := enc(got)
		rb, _ := enc(ref)
		if !bytes.Equal(gb, rb) {
			_, diff := c.cmp.Equiv(got, ref)
			t.Fatalf("%s", vkit.Violation("C07", "cache-differs-from-trie:"+kd.name, "REST-style read of %q at block round %d differs from the trie of that block; first difference %s :: %s", name, b.Round, diff, c.render(h)))
		}
	}
	c.classes["rest_query_at_closed_block"]++
}

// lateValidator: storagesc add_validator stores the validator node and the validator partitions (cacheable
// Partitions / partition / location nodes) before it validates the stake pool settings.
func lateValidator(t *rapid.T, h *sim.History, from, delegate *sim.Wallet) *transaction.Transaction {
	settings := map[string]interface{}{
		"delegate_wallet": delegate.ID,
		"num_delegates":   rapid.SampledFrom([]int{-1, 0, 1, 5, 1000000}).Draw(t, "numDelegates"),
		"service_charge":  rapid.SampledFrom([]float64{-0.5, 0, 0.1, 0.9, 2}).Draw(t, "serviceCharge"),
	}
	input := map[string]interface{}{
		"url":                 fmt.Sprintf("https://validator%d.c07.test", rapid.IntRange(0, 5).Draw(t, "url")),
		"stake_pool_settings": settings,
	}
	return h.Call(from, sim.StorageSC, "add_validator", input, 0, currency.Coin(rapid.SampledFrom([]uint64{0, 1, 1e6}).Draw(t, "fee")))
}

func settingsUpdate(t *rapid.T, l *simmisc.Lib, s *sim.Sim) (*transaction.Transaction, string) {
	target := rapid.SampledFrom([]simmisc.Target{simmisc.MinerSettings, simmisc.MinerSettings, simmisc.StorageSettings}).Draw(t, "settingsTarget")
	var mutable []simmisc.SettingSpec
	for _, sp := range simmisc.Specs(target) {
		if !sp.Immutable {
			mutable = append(mutable, sp)
		}
	}
	fields := map[string]string{}
	n := rapid.IntRange(1, 4).Draw(t, "entries")
	for i := 0; i < n; i++ {
		sp := mutable[rapid.IntRange(0, len(mutable)-1).Draw(t, "which")]
		switch rapid.IntRange(0, 5).Draw(t, "entryKind") {
		case 0:
			fields[fmt.Sprintf("no_such_setting_%d", i)] = "1"
		case 1:
			// Parsable odd values (0, -1, huge) are only sent to the storage settings, which are validated when they
			// are committed. minersc update_settings accepts e.g. epoch=0 or num_sharders_rewarded=0, and the next
			// payFees then divides by them (GlobalNode.setLastRound, currency.DistributeCoin in
			// payShardersAndDelegates): a panic in the contract goroutine that takes the whole process down. That is
			// a governance-validation matter (C48), not this property; it is reported separately and kept out of
			// this generator.
			if sp.Kind != "string" && sp.Kind != "[]string" && sp.Kind != "datastore.Key" {
				if target == simmisc.StorageSettings {
					fields[sp.Name] = rapid.SampledFrom([]string{"x", "-1", "0", "1000000000"}).Draw(t, "odd")
				} else {
					fields[sp.Name] = "x"
				}
			}
		default:
			for k, v := range sp.Fields() {
				fields[k] = v
			}
		}
	}
	from := s.Owner
	if rapid.IntRange(0, 5).Draw(t, "stranger") == 0 {
		from = s.Clients[2]
	}
	return l.UpdateSettings(target, from, fields), target.String()
}

func TestC07_ChainPath(t *testing.T) {
	if err := checkKinds(); err != nil {
		t.Fatalf("VERIF-HARNESS-ERROR %v", err)
	}
	s, err := sim.Boot(sim.Options{})
	if err != nil {
		t.Fatalf("VERIF-HARNESS-ERROR boot: %v", err)
	}
	st := vkit.For("C07")
	st.SetRule("chain part: generated transaction histories (minersc / storagesc settings updates with valid and invalid entries by owner or stranger, commit_settings_changes, add_validator with valid / invalid stake pool settings (writes the validator partitions before it fails), registration of all magic block nodes and payFees at block ends in a third of the cases, sends, faucet, garbage calls, nonce games) through Chain.UpdateState over 1..2 interleaved forks of blocks; after every transaction every key the block cache or the global cache holds is read through a new transaction cache over the block cache exactly as the next transaction would, compared with the uncached trie, the returned object scrambled and the read repeated; non-trivial = history in which a failed or rejected transaction that had written a cacheable entity is followed by such an audit; distinct by history fingerprint")
	knownWalk := st.IsKnown(findingWalk)
	runProbes(t, st)
	storageCfgKey := storagesc.VerifC07ConfigKey()
	rapid.Check(t, func(t *rapid.T) {
		// every case starts with an empty global state cache (as a node does after a start): a case must not depend on
		// what earlier cases left behind (replayability), and block hashes repeat across cases
		s.Chain.SetupStateCache()
		c := &chainCase{t: t, st: st, s: s, cmp: &valgen.Cmp{}, watched: map[string]reflect.Type{}, classes: map[string]int{}}
		c.watched[storageCfgKey] = reflect.TypeOf(storagesc.VerifC07NewConfig())
		h0 := s.NewHistory(s.Genesis)
		c.hist = append(c.hist, h0)
		c.envs = append(c.envs, gen.NewEnv(h0))
		c.libs = append(c.libs, simmisc.New(h0))
		withNodes := rapid.IntRange(0, 2).Draw(t, "registerNodes") == 0
		if withNodes {
			if _, err := simminer.Setup(h0); err != nil {
				t.Fatalf("VERIF-HARNESS-ERROR node registration: %v", err)
			}
			c.classes["case_with_registered_nodes"]++
			c.audit(h0, "after node registration")
		}
		var closed []*block.Block
		steps := rapid.IntRange(6, vkit.Scale(30, 60)).Draw(t, "steps")
		lateWrites := 0
		for i := 0; i < steps; i++ {
			hi := 0
			if len(c.hist) > 1 {
				hi = rapid.IntRange(0, len(c.hist)-1).Draw(t, "fork")
			}
			h, e, l := c.hist[hi], c.envs[hi], c.libs[hi]
			action := rapid.SampledFrom([]string{"basic", "basic", "settings", "settings", "settings", "validator", "validator", "validator", "commitSettings", "garbage", "block", "block", "fork", "query"}).Draw(t, "action")
			var txn *transaction.Transaction
			what := action
			switch action {
			case "basic":
				txn = e.Basic(t)
			case "garbage":
				txn = e.FailingCall(t)
			case "settings":
				txn, what = settingsUpdate(t, l, s)
			case "commitSettings":
				txn = l.StorageCommitSettings(s.Clients[1])
			case "validator":
				ws := e.Wallets()
				from := ws[rapid.IntRange(0, len(ws)-1).Draw(t, "from")]
				if rapid.IntRange(0, 3).Draw(t, "poorSender") == 0 {
					// a wallet without tokens: the call itself can succeed, the fee transfer after it cannot, so the
					// transaction is rejected after the contract wrote
					from = sim.NewWallet("c07poor", rapid.IntRange(0, 3).Draw(t, "poor"))
					h.Know(from.ID, from.Name)
					what = "validator(poor sender)"
				}
				txn = lateValidator(t, h, from, ws[rapid.IntRange(0, len(ws)-1).Draw(t, "delegate")])
			case "block":
				rounds := int64(rapid.IntRange(1, 2).Draw(t, "rounds"))
				if withNodes && hi == 0 {
					if _, err := simminer.CloseBlock(h, rounds, 2); err != nil {
						t.Fatalf("%s", err.Error())
					}
				} else {
					h.NextBlock(rounds, 2)
				}
				closed = append(closed, h.Cur.B.PrevBlock)
				c.log = append(c.log, fmt.Sprintf("h%d: next block (round %d)", hi, h.Round))
				c.classes["block_closed"]++
				c.audit(h, "first read in a new block")
				continue
			case "fork":
				// a second line of blocks on a closed block (or genesis): sibling / fork execution on the same node.
				// Not generated while the ancestor-walk finding is open (its class is excluded by construction).
				if knownWalk || len(c.hist) > 1 {
					continue
				}
				base := s.Genesis
				if len(closed) > 0 {
					base = closed[rapid.IntRange(0, len(closed)-1).Draw(t, "forkBase")]
				}
				h2 := s.NewHistory(base)
				c.hist = append(c.hist, h2)
				c.envs = append(c.envs, gen.NewEnv(h2))
				c.libs = append(c.libs, simmisc.New(h2))
				c.log = append(c.log, fmt.Sprintf("fork h1 on round %d", base.Round))
				c.classes["fork_opened"]++
				c.audit(h2, "first read on a fork")
				continue
			case "query":
				if knownWalk || len(closed) == 0 {
					continue
				}
				c.query(closed[rapid.IntRange(0, len(closed)-1).Draw(t, "queryBlock")], h)
				continue
			}
			wroteBeforeError, wroteOK := false, false
			if action == "validator" || action == "settings" || action == "commitSettings" {
				// instrumented dry run on a scratch fork of the pre-state: does the call write and then fail?
				dr := h.Cur.DryRun(txn)
				wroteBeforeError = dr.Err != nil && dr.Writes > 0
				wroteOK = dr.Err == nil && dr.Writes > 0
			}
			o, err := h.Do(txn)
			if err != nil {
				t.Fatalf("%s", err.Error())
			}
			outcome := "ok"
			switch {
			case o.Rejected:
				outcome = "rejected"
			case o.Failed:
				outcome = "failed"
			}
			c.log = append(c.log, fmt.Sprintf("h%d: %s -> %s", hi, what, outcome))
			c.classes["txn_"+outcome+":"+strings.SplitN(what, ".", 2)[0]]++
			wroteLate := outcome != "ok" && wroteBeforeError
			if o.Rejected && action == "validator" {
				// rejected after the call: the dry run of the call alone succeeds
				if dr := wroteOK; dr {
					wroteLate = true
				}
			}
			c.audit(h, "after "+what+" ("+outcome+")")
			if wroteLate {
				lateWrites++
				c.classes["audit_after_"+outcome+"_call_that_wrote_state:"+action]++
			}
		}
		st.Case()
		for k, n := range c.classes {
			st.ClassN("chain/"+k, n)
		}
		st.ClassN("chain/audit_reads", c.reads)
		for _, tp := range c.watched {
			st.Class("chain/watched:" + kindByType[tp].name)
		}
		nontrivial := lateWrites > 0
		if nontrivial {
			st.NonTrivial("chain", strings.Join(c.log, "|"))
		}
		if st.WantSample(nontrivial) {
			l := c.log
			if len(l) > 30 {
				l = l[:30]
			}
			st.Sample(nontrivial, append([]string{"chain part"}, l...))
		}
	})
}
