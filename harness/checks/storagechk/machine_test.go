package storagechk

import (
	"0chain.net/core/common"
	"fmt"
	"sort"
	"sync"
	"testing"

	"0chain.net/chaincore/transaction"
	"github.com/0chain/common/core/currency"
	"pgregory.net/rapid"
	"verifharness/sim"
	"verifharness/simstorage"
	"verifharness/vkit"
)

func TestMain(m *testing.M) { vkit.Main(m) }

var (
	baseOnce  sync.Once
	baseW     *simstorage.World
	baseFreeW *simstorage.World // baseW plus storage settings that admit free allocations, plus assigner wallets
	assignerW []*sim.Wallet
	baseErr   error
)

// base boots the chain and sets up 6 blobbers and 4 validators once per process; every case forks from that block.
func base(t *testing.T) *simstorage.World {
	baseOnce.Do(func() {
		s, err := sim.Boot(sim.Options{EventDb: true})
		if err != nil {
			baseErr = err
			return
		}
		h := s.NewHistory(s.Genesis)
		baseW, baseErr = simstorage.SetupWith(h, simstorage.DefaultOptions(6, 4))
		if baseErr != nil {
			return
		}
		// second base: the shipped free-allocation price range (read max 0) admits no blobber of this world
		f := baseW.Fork()
		if _, baseErr = f.Exec(f.UpdateSettings(nil, map[string]string{"free_allocation_settings.read_price_range.max": "1"})); baseErr != nil {
			return
		}
		if _, baseErr = f.Exec(f.CommitSettingsChanges()); baseErr != nil {
			return
		}
		for i := 0; i < 3; i++ {
			var a *sim.Wallet
			if a, baseErr = f.NewClient("assigner", i, simstorage.ZCN); baseErr != nil {
				return
			}
			assignerW = append(assignerW, a)
		}
		f.SetupBlock = f.H.NextBlock(1, 2)
		baseFreeW = f
	})
	if baseErr != nil {
		t.Fatalf("VERIF-HARNESS-ERROR storage base: %v", baseErr)
	}
	base0 = baseW
	return baseW
}

const zcn = uint64(1e10)

// alloc is what the machine remembers about an allocation it created.
type alloc struct {
	id         string
	owner      *sim.Wallet
	open       bool
	uploads    map[string]int64 // blobber id -> bytes stored through our markers
	closedBy   string
	thirdParty bool
}

// machine is one generated storage history.
type machine struct {
	t       *rapid.T
	w       *simstorage.World
	h       *sim.History
	prop    string
	allocs  []*alloc
	readers map[string]int64 // "blobber|client|alloc" -> last redeemed counter (model of C15)
	extra   []*simstorage.Provider
	// after is run after every executed (not rejected) transaction
	after    func(m *machine, txn *transaction.Transaction, o sim.Outcome, before *snapshot) error
	classes  map[string]int
	ops      int
	lastRead *readAttempt
	// onApplied updates the model for the transaction being executed before the oracle runs
	onApplied func(o sim.Outcome)
	// opsList overrides the default operation mix of step()
	opsList []string
	// cur describes the operation being executed (what the generator meant), for the oracles
	cur       curOp
	assigners []*assigner
	lastRead2 *readAttempt2
	triples   []tripleRef // (allocation, blobber, reader) triples with a successful redemption
	lastFree  *freeAttempt
}

// curOp is the generator's description of the operation in flight.
type curOp struct {
	op       string
	alloc    *alloc               // the allocation the operation names (nil if none)
	provider *simstorage.Provider // the provider the operation names (nil if none)
	from     *sim.Wallet
	wasOpen  bool // alloc was open in the model when the operation was issued
}

type assigner struct {
	name      string
	w         *sim.Wallet
	indiv     float64
	total     float64
	nextNonce int64
	used      map[int64]bool // nonces redeemed successfully
	redeemed  uint64         // tokens granted (model)
	accepted  int
	rejected  int
}

func newMachine(t *rapid.T, prop string) *machine {
	w := base0.Fork()
	if freeWorld[prop] {
		w = baseFreeW.Fork()
	}
	return &machine{t: t, w: w, h: w.H, prop: prop, readers: map[string]int64{}, classes: map[string]int{}}
}

var base0 *simstorage.World

// freeWorld lists the properties whose machines start from the base that admits free allocations.
var freeWorld = map[string]bool{"C24": true, "C14": true, "C09": true, "C04": true}

func (m *machine) viol(key, format string, a ...interface{}) string {
	return vkit.Violation(m.prop, key, "%s :: last steps %v", fmt.Sprintf(format, a...), m.h.Render(vkit.EnvInt("VERIF_HISTORY", 8)))
}

func (m *machine) fail(key, format string, a ...interface{}) {
	m.t.Fatalf("%s", m.viol(key, format, a...))
}

// snapshot is the contract-level state the oracles compare.
type snapshot struct {
	bal    *sim.Snapshot
	allocs map[string]simstorage.Allocation
	cpool  map[string]uint64 // challenge pool per allocation (absent = no node)
	blob   map[string]simstorage.Blobber
	spool  map[string]simstorage.StakePool // stake pools of blobbers and validators by provider id
	rpool  map[string]uint64               // read pool balance per client id (absent = no node)
	scBal  uint64                          // balance of the storage contract's wallet
}

func (m *machine) providers() []*simstorage.Provider {
	ps := append([]*simstorage.Provider{}, m.w.Blobbers...)
	ps = append(ps, m.w.Validators...)
	return append(ps, m.extra...)
}

func (m *machine) snap() *snapshot {
	v := m.w.View()
	s := &snapshot{bal: m.h.Snap(), allocs: map[string]simstorage.Allocation{}, cpool: map[string]uint64{}, blob: map[string]simstorage.Blobber{}, spool: map[string]simstorage.StakePool{}, rpool: map[string]uint64{}}
	s.scBal = v.Balance(sim.StorageSC)
	for _, c := range m.w.S.Clients {
		if bal, ok, err := v.ReadPool(c.ID); err != nil {
			m.t.Fatalf("VERIF-HARNESS-ERROR read pool view: %v", err)
		} else if ok {
			s.rpool[c.ID] = bal
		}
	}
	for _, a := range m.allocs {
		if al, ok, err := v.Allocation(a.id); err != nil {
			m.t.Fatalf("VERIF-HARNESS-ERROR allocation view: %v", err)
		} else if ok {
			s.allocs[a.id] = al
		}
		if cp, ok, err := v.ChallengePool(a.id); err != nil {
			m.t.Fatalf("VERIF-HARNESS-ERROR challenge pool view: %v", err)
		} else if ok {
			s.cpool[a.id] = cp
		}
	}
	for _, p := range m.providers() {
		if sp, ok, err := v.StakePool(p); err != nil {
			m.t.Fatalf("VERIF-HARNESS-ERROR stake pool view: %v", err)
		} else if ok {
			s.spool[p.ID()] = sp
		}
	}
	for _, b := range m.w.Blobbers {
		if bl, ok, _ := v.Blobber(b.ID()); ok {
			s.blob[b.ID()] = bl
		}
	}
	return s
}

// do executes a transaction and runs the property's oracle.
func (m *machine) do(txn *transaction.Transaction) sim.Outcome {
	var before *snapshot
	if m.after != nil {
		before = m.snap()
	}
	o, err := m.h.Do(txn)
	if err != nil {
		m.t.Fatalf("%s", err.Error())
	}
	m.ops++
	if o.Rejected {
		m.classes["rejected"]++
		m.onApplied = nil
		m.cur = curOp{}
		return o
	}
	defer func() { m.cur = curOp{} }()
	if o.Failed {
		m.classes["failed/"+txn.FunctionName]++
	} else {
		m.classes["ok/"+txn.FunctionName]++
	}
	if m.onApplied != nil {
		m.onApplied(o)
		m.onApplied = nil
	}
	if m.after != nil {
		if err := m.after(m, txn, o, before); err != nil {
			m.t.Fatalf("%s", err.Error())
		}
	}
	return o
}

func ok(o sim.Outcome) bool { return !o.Rejected && !o.Failed }

func (m *machine) client(label string) *sim.Wallet {
	return m.w.S.Clients[rapid.IntRange(0, 3).Draw(m.t, label)]
}

func (m *machine) openAllocs() []*alloc {
	var out []*alloc
	for _, a := range m.allocs {
		if a.open {
			out = append(out, a)
		}
	}
	return out
}

func (m *machine) pickAlloc(openOnly bool) *alloc {
	list := m.allocs
	if openOnly {
		list = m.openAllocs()
	}
	if len(list) == 0 {
		return nil
	}
	return list[rapid.IntRange(0, len(list)-1).Draw(m.t, "alloc")]
}

func (m *machine) blobberOf(a *alloc) *simstorage.Provider {
	al, ok, _ := m.w.View().Allocation(a.id)
	if !ok || len(al.Blobbers) == 0 {
		return m.w.Blobbers[0]
	}
	id := al.Blobbers[rapid.IntRange(0, len(al.Blobbers)-1).Draw(m.t, "blobberOfAlloc")].BlobberID
	return m.w.Blobber(id)
}

// advance moves the clock; long jumps are followed by health checks so that providers stay eligible.
func (m *machine) advance() {
	secs := rapid.SampledFrom([]int64{2, 2, 60, 600, 3000, 4000, 86400, 31 * 86400}).Draw(m.t, "seconds")
	rounds := int64(rapid.IntRange(1, 40).Draw(m.t, "rounds"))
	m.h.NextBlock(rounds, secs)
	if secs >= 3000 {
		if err := m.w.KeepAlive(); err != nil {
			// a provider may have been killed; health checks of dead providers fail - not a problem
			_ = err
		}
	}
}

var defaultOps = []string{
	"newAlloc", "newAlloc", "upload", "upload", "upload", "delete", "challenge", "challenge", "respond", "respond", "respond",
	"writeLock", "readLock", "readRedeem", "readRedeem", "readUnlock", "extend", "grow", "addBlobber", "replaceBlobber",
	"cancel", "finalize", "stake", "unstake", "collect", "kill", "shutdown", "blobberSettings", "blockRewards", "advance", "advance",
}

// step draws and executes one operation.
func (m *machine) step() {
	t, w := m.t, m.w
	ops := m.opsList
	if ops == nil {
		ops = defaultOps
	}
	op := rapid.SampledFrom(ops).Draw(t, "op")
	switch op {
	case "advance":
		m.advance()
	case "newAlloc":
		owner := m.client("owner")
		data, parity := 2, 1
		switch rapid.IntRange(0, 3).Draw(t, "shards") {
		case 0:
			data, parity = 1, 1
		case 1:
			data, parity = 2, 2
		case 2:
			data, parity = 3, 1
		}
		ids := rapid.Permutation(w.BlobberIDs(len(w.Blobbers))).Draw(t, "candidates")
		lock := currency.Coin(rapid.SampledFrom([]uint64{1 * zcn, 5 * zcn, 10 * zcn, 100 * zcn, 1}).Draw(t, "lock"))
		size := rapid.SampledFrom([]int64{simstorage.GB, 2 * simstorage.GB, simstorage.GB / 2, 10 * simstorage.GB, 700 * simstorage.GB}).Draw(t, "size")
		txn := w.NewAllocation(simstorage.AllocParams{Owner: owner, DataShards: data, ParityShards: parity, Size: size, Blobbers: ids, Lock: &lock})
		m.onApplied = func(o sim.Outcome) {
			if ok(o) {
				m.allocs = append(m.allocs, &alloc{id: txn.Hash, owner: owner, open: true, uploads: map[string]int64{}})
			}
		}
		m.do(txn)
	case "upload", "delete":
		a := m.pickAlloc(rapid.IntRange(0, 9).Draw(t, "alsoClosed") != 0)
		if a == nil {
			return
		}
		b := m.blobberOf(a)
		size := rapid.SampledFrom([]int64{64 * 1024, 1 << 20, 100 << 20, simstorage.GB / 3, 1}).Draw(t, "bytes")
		if op == "delete" {
			have := a.uploads[b.ID()]
			if have == 0 {
				return
			}
			size = -rapid.Int64Range(1, have).Draw(t, "deleteBytes")
		}
		m.cur = curOp{op: op, alloc: a, provider: b, from: b.Op, wasOpen: a.open}
		p := simstorage.WriteParams{AllocID: a.id, Blobber: b, Signer: a.owner, Size: size, V2: rapid.IntRange(0, 4).Draw(t, "v2") == 0}
		if rapid.IntRange(0, 14).Draw(t, "badMarker") == 0 {
			p.BadSignature = true
		}
		m.onApplied = func(o sim.Outcome) {
			if ok(o) {
				a.uploads[b.ID()] += size
			}
		}
		m.do(w.CommitConnection(p))
	case "challenge":
		if len(m.openAllocs()) == 0 {
			return
		}
		if rapid.IntRange(0, 2).Draw(t, "freshBlock") == 0 {
			m.h.NextBlock(int64(rapid.IntRange(1, 3).Draw(t, "rounds")), 2)
		}
		gtxn := w.GenerateChallenge()
		cid := w.ChallengeIDOf(gtxn)
		if o := m.do(gtxn); ok(o) && rapid.IntRange(0, 3).Draw(t, "respondNow") != 0 {
			if ch, found, _ := w.View().Challenge(cid); found {
				if rapid.IntRange(0, 5).Draw(t, "late") == 0 {
					m.h.NextBlock(int64(rapid.SampledFrom([]int{1, 50, 500, 2000}).Draw(t, "lateRounds")), 30)
				}
				switch rapid.IntRange(0, 4).Draw(t, "responseKind") {
				case 0:
					m.do(w.FailingResponse(ch))
				case 1:
					m.do(w.MixedResponse(ch, rapid.IntRange(0, len(ch.ValidatorIDs)).Draw(t, "successes")))
				default:
					m.do(w.PassingResponse(ch))
				}
			}
		}
	case "respond":
		a := m.pickAlloc(true)
		if a == nil {
			return
		}
		chs, _, err := w.View().OpenChallenges(a.id)
		if err != nil || len(chs) == 0 {
			return
		}
		ch := chs[rapid.IntRange(0, len(chs)-1).Draw(t, "challenge")]
		switch rapid.IntRange(0, 3).Draw(t, "responseKind") {
		case 0:
			m.do(w.FailingResponse(ch))
		case 1:
			m.do(w.MixedResponse(ch, rapid.IntRange(0, len(ch.ValidatorIDs)).Draw(t, "successes")))
		default:
			m.do(w.PassingResponse(ch))
		}
	case "writeLock":
		if a := m.pickAlloc(rapid.IntRange(0, 5).Draw(t, "alsoClosed") != 0); a != nil {
			m.cur = curOp{op: op, alloc: a, wasOpen: a.open}
			m.do(w.WritePoolLock(m.client("locker"), a.id, currency.Coin(rapid.SampledFrom([]uint64{1, zcn, 20 * zcn}).Draw(t, "amount"))))
		}
	case "readLock":
		c := m.client("reader")
		m.do(w.ReadPoolLock(c, c.ID, currency.Coin(rapid.SampledFrom([]uint64{zcn / 10, zcn, 5 * zcn}).Draw(t, "amount"))))
	case "readUnlock":
		m.do(w.ReadPoolUnlock(m.client("reader")))
	case "readRedeem":
		m.readRedeem()
	case "extend", "grow":
		if a := m.pickAlloc(true); a != nil {
			p := simstorage.UpdateParams{From: a.owner, AllocID: a.id, Extend: true, Lock: currency.Coin(rapid.SampledFrom([]uint64{0, zcn, 50 * zcn}).Draw(t, "lock"))}
			if op == "grow" {
				p.SizeDelta = rapid.SampledFrom([]int64{simstorage.GB / 4, simstorage.GB, 5 * simstorage.GB}).Draw(t, "delta")
			}
			if rapid.IntRange(0, 7).Draw(t, "byStranger") == 0 {
				p.From = m.w.S.Clients[5]
			}
			m.cur = curOp{op: op, alloc: a, from: p.From, wasOpen: a.open}
			m.do(w.UpdateAllocation(p))
		}
	case "addBlobber", "replaceBlobber":
		a := m.pickAlloc(true)
		if a == nil {
			return
		}
		al, okk, _ := w.View().Allocation(a.id)
		if !okk {
			return
		}
		in := map[string]bool{}
		for _, b := range al.Blobbers {
			in[b.BlobberID] = true
		}
		var cand []*simstorage.Provider
		for _, b := range w.Blobbers {
			if !in[b.ID()] {
				cand = append(cand, b)
			}
		}
		if len(cand) == 0 {
			return
		}
		p := simstorage.UpdateParams{From: a.owner, AllocID: a.id, AddBlobber: cand[rapid.IntRange(0, len(cand)-1).Draw(t, "add")], Lock: currency.Coin(rapid.SampledFrom([]uint64{0, 5 * zcn}).Draw(t, "lock"))}
		if op == "replaceBlobber" {
			p.RemoveBlobber = m.blobberOf(a)
		}
		m.cur = curOp{op: op, alloc: a, from: p.From, provider: p.RemoveBlobber, wasOpen: a.open}
		m.onApplied = func(o sim.Outcome) {
			if ok(o) && p.RemoveBlobber != nil {
				delete(a.uploads, p.RemoveBlobber.ID())
			}
		}
		m.do(w.UpdateAllocation(p))
	case "cancel", "finalize":
		a := m.pickAlloc(rapid.IntRange(0, 3).Draw(t, "alsoClosed") != 0)
		if a == nil {
			return
		}
		from := a.owner
		switch rapid.IntRange(0, 5).Draw(t, "closer") {
		case 0:
			from = m.w.S.Clients[5] // stranger
		case 1:
			from = m.blobberOf(a).Op
		}
		if op == "finalize" && a.open && rapid.Bool().Draw(t, "waitForExpiry") {
			if al, found, _ := w.View().Allocation(a.id); found {
				if d := al.Expiration - int64(m.h.Now); d >= 0 {
					m.h.NextBlock(int64(rapid.IntRange(1, 30).Draw(t, "rounds")), d+int64(rapid.SampledFrom([]int{1, 100, 700000}).Draw(t, "past")))
					_ = m.w.KeepAlive()
				}
			}
		}
		var txn *transaction.Transaction
		if op == "cancel" {
			txn = w.CancelAllocation(from, a.id)
		} else {
			txn = w.FinalizeAllocation(from, a.id)
		}
		m.cur = curOp{op: op, alloc: a, from: from, wasOpen: a.open}
		m.onApplied = func(o sim.Outcome) {
			if ok(o) {
				a.open, a.closedBy = false, op
			}
		}
		m.do(txn)
	case "stake":
		ps := m.providers()
		p := ps[rapid.IntRange(0, len(ps)-1).Draw(t, "provider")]
		staker := m.client("staker")
		m.cur = curOp{op: op, provider: p, from: staker}
		m.do(w.StakeLock(staker, p, currency.Coin(rapid.SampledFrom([]uint64{zcn, 10 * zcn, 1, 150 * zcn}).Draw(t, "stake"))))
	case "unstake":
		ps := m.providers()
		p := ps[rapid.IntRange(0, len(ps)-1).Draw(t, "provider")]
		from := m.client("staker")
		if rapid.IntRange(0, 3).Draw(t, "delegateItself") == 0 {
			from = p.Delegate
		}
		m.cur = curOp{op: op, provider: p, from: from}
		m.do(w.StakeUnlock(from, p))
	case "collect":
		ps := m.providers()
		p := ps[rapid.IntRange(0, len(ps)-1).Draw(t, "provider")]
		from := p.Delegate
		if rapid.Bool().Draw(t, "byStaker") {
			from = m.client("staker")
		}
		m.cur = curOp{op: op, provider: p, from: from}
		m.do(w.CollectReward(from, p))
	case "kill", "shutdown":
		if rapid.IntRange(0, 2).Draw(t, "really") != 0 {
			return
		}
		ps := m.providers()
		p := ps[rapid.IntRange(0, len(ps)-1).Draw(t, "provider")]
		isBlobber := false
		for _, b := range w.Blobbers {
			if b == p {
				isBlobber = true
			}
		}
		from := m.w.S.Owner
		switch rapid.IntRange(0, 4).Draw(t, "caller") {
		case 0:
			from = p.Delegate
		case 1:
			from = p.Op
		case 2:
			from = m.w.S.Clients[5]
		}
		m.cur = curOp{op: op, provider: p, from: from}
		switch {
		case op == "kill" && isBlobber:
			m.do(w.KillBlobber(from, p))
		case op == "kill":
			m.do(w.KillValidator(from, p))
		case isBlobber:
			m.do(w.ShutdownBlobber(from, p))
		default:
			m.do(w.ShutdownValidator(from, p))
		}
	case "blobberSettings":
		b := w.Blobbers[rapid.IntRange(0, len(w.Blobbers)-1).Draw(t, "blobber")]
		u := simstorage.BlobberUpdate{}
		capv := rapid.SampledFrom([]int64{500 * simstorage.GB, 2000 * simstorage.GB, 2 * simstorage.GB}).Draw(t, "capacity")
		u.Capacity = &capv
		m.do(w.UpdateBlobberSettings(b.Delegate, b, u))
	case "blockRewards":
		m.do(w.BlobberBlockRewards())
	case "unstake2", "collect2":
		// aim at a delegate pool that has accrued a reward (if there is one)
		type cand struct {
			p  *simstorage.Provider
			id string
		}
		var cands []cand
		v := w.View()
		for _, p := range m.providers() {
			if sp, found, _ := v.StakePool(p); found {
				for _, dp := range sp.Pools {
					if dp.Reward > 0 && w.Wallet(dp.ID) != nil {
						cands = append(cands, cand{p, dp.ID})
					}
				}
			}
		}
		if len(cands) == 0 {
			return
		}
		c := cands[rapid.IntRange(0, len(cands)-1).Draw(t, "rewardedPool")]
		from := w.Wallet(c.id)
		m.cur = curOp{op: op, provider: c.p, from: from}
		if op == "unstake2" {
			m.do(w.StakeUnlock(from, c.p))
		} else {
			m.do(w.CollectReward(from, c.p))
		}
	case "newAlloc2":
		owner := m.client("owner")
		data, parity := 2, 1
		switch rapid.IntRange(0, 3).Draw(t, "shards") {
		case 0:
			data, parity = 1, 1
		case 1:
			data, parity = 2, 2
		case 2:
			data, parity = 3, 1
		}
		ids := rapid.Permutation(w.BlobberIDs(len(w.Blobbers))).Draw(t, "candidates")
		size := rapid.SampledFrom([]int64{simstorage.GB, 2 * simstorage.GB, simstorage.GB / 2, 10 * simstorage.GB, 700 * simstorage.GB}).Draw(t, "size")
		// the cost of the allocation at the world's write price 0.1 per GB: sum over the blobbers of ceil(size/data) GB x price
		per := (size + int64(data) - 1) / int64(data)
		cost := uint64(float64(per) / float64(simstorage.GB) * float64(zcn/10) * float64(data+parity))
		lock := currency.Coin(rapid.SampledFrom([]uint64{5 * zcn, cost, cost + 1, 1 * zcn, 100 * zcn, cost - 1, 2 * cost}).Draw(t, "lock"))
		p := simstorage.AllocParams{Owner: owner, DataShards: data, ParityShards: parity, Size: size, Blobbers: ids, Lock: &lock,
			ThirdPartyExtendable: rapid.IntRange(0, 2).Draw(t, "thirdParty") == 1}
		txn := w.NewAllocation(p)
		m.cur = curOp{op: op, from: owner}
		m.onApplied = func(o sim.Outcome) {
			if ok(o) {
				m.allocs = append(m.allocs, &alloc{id: txn.Hash, owner: owner, open: true, uploads: map[string]int64{}, thirdParty: p.ThirdPartyExtendable})
			}
		}
		m.do(txn)
	case "extend2":
		// extension / growth by the owner or by a third party, with or without tokens attached
		if a := m.pickAlloc(true); a != nil {
			p := simstorage.UpdateParams{From: a.owner, AllocID: a.id, Extend: true, Lock: currency.Coin(rapid.SampledFrom([]uint64{0, zcn, 50 * zcn, 1}).Draw(t, "lock"))}
			switch rapid.IntRange(0, 3).Draw(t, "what") {
			case 1:
				p.SizeDelta = rapid.SampledFrom([]int64{simstorage.GB / 4, simstorage.GB, 5 * simstorage.GB}).Draw(t, "delta")
			case 2:
				p.SetThirdPartyExtendable = true
			}
			if rapid.IntRange(0, 2).Draw(t, "byThirdParty") == 1 {
				p.From = m.client("thirdParty")
			}
			m.cur = curOp{op: op, alloc: a, from: p.From, wasOpen: a.open}
			m.do(w.UpdateAllocation(p))
		}
	case "blobberSettings2":
		// delegate limit, prices and service charge of a blobber change while it serves allocations and holds delegates
		b := w.Blobbers[rapid.IntRange(0, len(w.Blobbers)-1).Draw(t, "blobber")]
		u := simstorage.BlobberUpdate{}
		switch rapid.IntRange(0, 4).Draw(t, "setting") {
		case 4:
			// another delegate wallet (one of the clients, or back to the original one)
			id := rapid.SampledFrom([]string{w.S.Clients[0].ID, w.S.Clients[1].ID, b.Delegate.ID}).Draw(t, "delegateWallet")
			u.DelegateWallet = &id
		case 0:
			n := rapid.SampledFrom([]int{2, 1, 3, 10}).Draw(t, "numDelegates")
			u.NumDelegates = &n
		case 1:
			wp := currency.Coin(rapid.SampledFrom([]uint64{zcn / 10, zcn / 5, zcn / 20, zcn}).Draw(t, "writePrice"))
			u.WritePrice = &wp
		case 2:
			rp := currency.Coin(rapid.SampledFrom([]uint64{zcn / 100, zcn / 50, 0, zcn / 10}).Draw(t, "readPrice"))
			u.ReadPrice = &rp
		default:
			sc := rapid.SampledFrom([]float64{0.1, 0, 0.3, 0.05}).Draw(t, "serviceCharge")
			u.ServiceCharge = &sc
		}
		from := b.Delegate
		if bl, found, _ := w.View().Blobber(b.ID()); found && bl.DelegateWallet != from.ID {
			if cur := w.Wallet(bl.DelegateWallet); cur != nil {
				from = cur
			}
		}
		m.cur = curOp{op: op, provider: b, from: from}
		m.do(w.UpdateBlobberSettings(from, b, u))
	case "storageSettings":
		// the contract owner changes one of the economic parameters (the oracles read the configuration from the state)
		name := rapid.SampledFrom([]string{"blobber_slash", "stakepool.kill_slash", "cancellation_charge", "validator_reward", "blobber_slash", "stakepool.kill_slash", "max_stake", "free_allocation_settings.read_pool_fraction"}).Draw(t, "setting")
		val := rapid.SampledFrom([]string{"0", "0.1", "0.5", "1", "0.025"}).Draw(t, "value")
		if name == "max_stake" {
			// (in tokens) low enough for two ordinary locks of one delegate to exceed it together
			val = rapid.SampledFrom([]string{"160", "25", "20000", "300"}).Draw(t, "maxStake")
		}
		if o := m.do(w.UpdateSettings(nil, map[string]string{name: val})); ok(o) {
			m.do(w.CommitSettingsChanges())
		}
	case "fillAlloc", "datedFill":
		// one marker that fills what is left of a blobber's share of an allocation; datedFill: the marker carries a
		// time of the client's choosing inside the allocation's life (the contract prices the upload from the marker's
		// time to the expiration, so a marker dated at the start of an allocation that was extended since costs more
		// than the allocation was funded for)
		a := m.pickAlloc(true)
		if a == nil {
			return
		}
		al, found, _ := w.View().Allocation(a.id)
		if !found || len(al.Blobbers) == 0 {
			return
		}
		ba := al.Blobbers[rapid.IntRange(0, len(al.Blobbers)-1).Draw(t, "blobberOfAlloc")]
		b := w.Blobber(ba.BlobberID)
		free := ba.Size - ba.Stats.UsedSize
		if b == nil || free <= 0 {
			return
		}
		size := free / int64(rapid.SampledFrom([]int{1, 2, 1, 3}).Draw(t, "part"))
		if size <= 0 {
			return
		}
		m.cur = curOp{op: op, alloc: a, provider: b, from: b.Op, wasOpen: a.open}
		p := simstorage.WriteParams{AllocID: a.id, Blobber: b, Signer: a.owner, Size: size}
		if op == "datedFill" {
			switch rapid.SampledFrom([]string{"start", "start", "between", "expiration", "before-start"}).Draw(t, "markerTime") {
			case "start":
				p.Timestamp = common.Timestamp(al.StartTime)
			case "between":
				p.Timestamp = common.Timestamp(al.StartTime + (al.Expiration-al.StartTime)/int64(rapid.IntRange(2, 5).Draw(t, "fraction")))
			case "expiration":
				p.Timestamp = common.Timestamp(al.Expiration)
			case "before-start":
				p.Timestamp = common.Timestamp(al.StartTime - 1)
			}
		}
		m.onApplied = func(o sim.Outcome) {
			if ok(o) {
				a.uploads[b.ID()] += size
			}
		}
		m.do(w.CommitConnection(p))
	case "replaceChallenged":
		// replace (or just remove funds from) a blobber that has open or failed challenges on an allocation
		var cands []struct {
			a *alloc
			b *simstorage.Provider
		}
		v := w.View()
		for _, a := range m.openAllocs() {
			al, found, _ := v.Allocation(a.id)
			if !found {
				continue
			}
			for _, ba := range al.Blobbers {
				if ba.Stats.OpenChallenges > 0 || ba.Stats.FailedChallenges > 0 || ba.ChallengePoolIntegralValue > 0 {
					if b := w.Blobber(ba.BlobberID); b != nil {
						cands = append(cands, struct {
							a *alloc
							b *simstorage.Provider
						}{a, b})
					}
				}
			}
		}
		if len(cands) == 0 {
			return
		}
		c := cands[rapid.IntRange(0, len(cands)-1).Draw(t, "challenged")]
		al, _, _ := v.Allocation(c.a.id)
		in := map[string]bool{}
		for _, b := range al.Blobbers {
			in[b.BlobberID] = true
		}
		var repl []*simstorage.Provider
		for _, b := range w.Blobbers {
			if !in[b.ID()] {
				repl = append(repl, b)
			}
		}
		if len(repl) == 0 {
			return
		}
		p := simstorage.UpdateParams{From: c.a.owner, AllocID: c.a.id, AddBlobber: repl[rapid.IntRange(0, len(repl)-1).Draw(t, "add")], RemoveBlobber: c.b,
			Lock: currency.Coin(rapid.SampledFrom([]uint64{0, 5 * zcn}).Draw(t, "lock"))}
		m.cur = curOp{op: op, alloc: c.a, from: p.From, provider: c.b, wasOpen: c.a.open}
		m.onApplied = func(o sim.Outcome) {
			if ok(o) {
				delete(c.a.uploads, c.b.ID())
			}
		}
		m.do(w.UpdateAllocation(p))
	case "missThenPass":
		// several challenges in a row on allocations that hold data: early ones are failed, left unanswered or answered
		// late, later ones are passed - the contract then settles the missed ones (penalty path) while paying the pass
		if len(m.openAllocs()) == 0 {
			return
		}
		k := rapid.IntRange(2, 4).Draw(t, "challenges")
		for i := 0; i < k; i++ {
			m.h.NextBlock(int64(rapid.IntRange(1, 3).Draw(t, "rounds")), int64(rapid.SampledFrom([]int{2, 30, 600}).Draw(t, "seconds")))
			gtxn := w.GenerateChallenge()
			cid := w.ChallengeIDOf(gtxn)
			if o := m.do(gtxn); !ok(o) {
				continue
			}
			ch, found, _ := w.View().Challenge(cid)
			if !found {
				continue
			}
			kind := rapid.SampledFrom([]string{"pass", "none", "fail", "pass", "mixed", "late-pass"}).Draw(t, "response")
			if i == k-1 && rapid.IntRange(0, 3).Draw(t, "lastPasses") != 0 {
				kind = "pass"
			}
			switch kind {
			case "fail":
				m.do(w.FailingResponse(ch))
			case "mixed":
				m.do(w.MixedResponse(ch, rapid.IntRange(0, len(ch.ValidatorIDs)).Draw(t, "successes")))
			case "late-pass":
				m.h.NextBlock(int64(rapid.SampledFrom([]int{50, 500, 2000}).Draw(t, "lateRounds")), 30)
				m.do(w.PassingResponse(ch))
			case "pass":
				m.do(w.PassingResponse(ch))
			}
		}
	case "extendBackdate":
		// an allocation lives for a good part of its time unit, is extended (its expiration moves to now + one time
		// unit, its start stays), and then every blobber's share is filled with markers the client dated at the start
		// of the allocation: the contract prices them for more than one time unit, more than the allocation's funding
		// was computed for
		a := m.pickAlloc(true)
		if a == nil {
			return
		}
		al, found, _ := w.View().Allocation(a.id)
		if !found || !a.open {
			return
		}
		left := al.Expiration - int64(m.h.Now)
		if left < 100 {
			return
		}
		secs := left * int64(rapid.SampledFrom([]int{50, 90, 25, 99}).Draw(t, "livedPercent")) / 100
		m.h.NextBlock(int64(rapid.IntRange(1, 20).Draw(t, "rounds")), secs)
		_ = m.w.KeepAlive()
		p := simstorage.UpdateParams{From: a.owner, AllocID: a.id, Extend: true, Lock: currency.Coin(rapid.SampledFrom([]uint64{0, 0, zcn, 50 * zcn}).Draw(t, "lock"))}
		m.cur = curOp{op: op, alloc: a, from: p.From, wasOpen: a.open}
		if o := m.do(w.UpdateAllocation(p)); !ok(o) {
			return
		}
		al, found, _ = w.View().Allocation(a.id)
		if !found {
			return
		}
		for _, ba := range al.Blobbers {
			b := w.Blobber(ba.BlobberID)
			free := ba.Size - ba.Stats.UsedSize
			if b == nil || free <= 0 || rapid.IntRange(0, 5).Draw(t, "skip") == 0 {
				continue
			}
			size := free
			wp := simstorage.WriteParams{AllocID: a.id, Blobber: b, Signer: a.owner, Size: size}
			if rapid.IntRange(0, 4).Draw(t, "datedNow") != 0 {
				wp.Timestamp = common.Timestamp(al.StartTime)
			}
			m.cur = curOp{op: op, alloc: a, provider: b, from: b.Op, wasOpen: a.open}
			m.onApplied = func(o sim.Outcome) {
				if ok(o) {
					a.uploads[b.ID()] += size
				}
			}
			m.do(w.CommitConnection(wp))
		}
	case "repriceExtend":
		// blobbers of an allocation that holds data change their write prices in opposite directions, then the owner
		// extends the allocation (the challenge pool is re-priced per blobber)
		a := m.pickAlloc(true)
		if a == nil {
			return
		}
		al, found, _ := w.View().Allocation(a.id)
		if !found {
			return
		}
		for _, ba := range al.Blobbers {
			b := w.Blobber(ba.BlobberID)
			if b == nil {
				continue
			}
			wp := currency.Coin(rapid.SampledFrom([]uint64{zcn / 5, zcn / 20, zcn / 10, zcn / 4, zcn / 40}).Draw(t, "writePrice"))
			if rapid.IntRange(0, 3).Draw(t, "skip") == 3 {
				continue
			}
			from := b.Delegate
			if bl, ok2, _ := w.View().Blobber(b.ID()); ok2 && bl.DelegateWallet != from.ID {
				if cur := w.Wallet(bl.DelegateWallet); cur != nil {
					from = cur
				}
			}
			m.cur = curOp{op: op, provider: b, from: from}
			m.do(w.UpdateBlobberSettings(from, b, simstorage.BlobberUpdate{WritePrice: &wp}))
		}
		if rapid.Bool().Draw(t, "timePasses") {
			m.h.NextBlock(int64(rapid.IntRange(1, 30).Draw(t, "rounds")), int64(rapid.SampledFrom([]int{60, 86400, 10 * 86400}).Draw(t, "seconds")))
			_ = m.w.KeepAlive()
		}
		p := simstorage.UpdateParams{From: a.owner, AllocID: a.id, Extend: true, Lock: currency.Coin(rapid.SampledFrom([]uint64{50 * zcn, 0, zcn}).Draw(t, "lock"))}
		m.cur = curOp{op: op, alloc: a, from: a.owner, wasOpen: a.open}
		m.do(w.UpdateAllocation(p))
	case "replaceGrow":
		// one request that replaces a blobber AND grows / extends the allocation
		a := m.pickAlloc(true)
		if a == nil {
			return
		}
		al, found, _ := w.View().Allocation(a.id)
		if !found || len(al.Blobbers) == 0 {
			return
		}
		in := map[string]bool{}
		for _, b := range al.Blobbers {
			in[b.BlobberID] = true
		}
		var cand []*simstorage.Provider
		for _, b := range w.Blobbers {
			if !in[b.ID()] {
				cand = append(cand, b)
			}
		}
		if len(cand) == 0 {
			return
		}
		p := simstorage.UpdateParams{From: a.owner, AllocID: a.id, Extend: true,
			AddBlobber:    cand[rapid.IntRange(0, len(cand)-1).Draw(t, "add")],
			RemoveBlobber: w.Blobber(al.Blobbers[rapid.IntRange(0, len(al.Blobbers)-1).Draw(t, "remove")].BlobberID),
			SizeDelta:     rapid.SampledFrom([]int64{simstorage.GB, simstorage.GB / 4, 0, 5 * simstorage.GB}).Draw(t, "delta"),
			Lock:          currency.Coin(rapid.SampledFrom([]uint64{50 * zcn, 5 * zcn, 0}).Draw(t, "lock"))}
		if p.RemoveBlobber == nil {
			return
		}
		m.cur = curOp{op: op, alloc: a, from: p.From, provider: p.RemoveBlobber, wasOpen: a.open}
		m.onApplied = func(o sim.Outcome) {
			if ok(o) {
				delete(a.uploads, p.RemoveBlobber.ID())
			}
		}
		m.do(w.UpdateAllocation(p))
	case "blockRewards2":
		// move to the next round at which the contract pays block rewards, then trigger them
		period := int64(30)
		if conf, found, _ := w.View().Config(); found && conf.BlockRewardTriggerPeriod > 0 {
			period = conf.BlockRewardTriggerPeriod
		}
		if d := period - m.h.Round%period; d != period {
			m.h.NextBlock(d, 2*d)
		}
		m.do(w.BlobberBlockRewards())
	case "freeWithReadShare":
		// the owner sets the share of a free-storage grant that goes to the recipient's read pool, then grants follow
		val := rapid.SampledFrom([]string{"0.5", "0.1", "1", "0.025"}).Draw(t, "readPoolFraction")
		if o := m.do(w.UpdateSettings(nil, map[string]string{"free_allocation_settings.read_pool_fraction": val})); ok(o) {
			m.do(w.CommitSettingsChanges())
		}
		for i, k := 0, rapid.IntRange(1, 3).Draw(t, "grants"); i < k; i++ {
			m.freeAlloc()
		}
	case "readRedeem2":
		m.readRedeem2()
	case "addAssigner":
		m.addAssigner()
	case "freeAlloc":
		m.freeAlloc()
	}
}

func (m *machine) readRedeem() {
	t, w := m.t, m.w
	a := m.pickAlloc(rapid.IntRange(0, 6).Draw(t, "alsoClosed") != 0)
	if a == nil {
		return
	}
	b := m.blobberOf(a)
	reader := a.owner
	key := b.ID() + "|" + reader.ID + "|" + a.id
	last := m.readers[key]
	if bal, found, _ := w.View().ReadPool(reader.ID); (!found || bal < zcn/100) && rapid.IntRange(0, 4).Draw(t, "fundReadPool") != 0 {
		m.do(w.ReadPoolLock(reader, reader.ID, currency.Coin(rapid.SampledFrom([]uint64{zcn / 10, zcn, 5 * zcn}).Draw(t, "readLock"))))
	}
	var ctr int64
	kind := rapid.IntRange(0, 5).Draw(t, "counterKind")
	if last == 0 && kind <= 1 {
		kind = 3
	}
	switch kind {
	case 0:
		ctr = last // replay
	case 1:
		if last > 0 {
			ctr = rapid.Int64Range(0, last).Draw(t, "older")
		}
	case 2:
		ctr = last + 1
	default:
		ctr = last + rapid.Int64Range(1, 400).Draw(t, "newBlocks")
	}
	p := simstorage.ReadParams{AllocID: a.id, Blobber: b, Client: reader, Counter: ctr}
	if rapid.IntRange(0, 9).Draw(t, "foreignSigner") == 0 {
		p.Signer = m.w.S.Clients[5]
	}
	m.lastRead = &readAttempt{key: key, counter: ctr, last: last, badSigner: p.Signer != nil, reader: reader, blobber: b, alloc: a}
	m.onApplied = func(o sim.Outcome) {
		if ok(o) && ctr > last {
			m.readers[key] = ctr
		}
	}
	m.do(w.ReadRedeem(p))
	m.lastRead = nil
}

type readAttempt struct {
	key       string
	counter   int64
	last      int64
	badSigner bool
	reader    *sim.Wallet
	blobber   *simstorage.Provider
	alloc     *alloc
}

func sortedKeys(m map[string]int) []string {
	k := make([]string, 0, len(m))
	for x := range m {
		k = append(k, x)
	}
	sort.Strings(k)
	return k
}
