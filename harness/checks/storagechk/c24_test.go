package storagechk

import (
	"fmt"
	"math"
	"testing"

	"0chain.net/chaincore/transaction"
	"pgregory.net/rapid"
	"verifharness/sim"
	"verifharness/simstorage"
	"verifharness/vkit"
)

// freeAttempt is the generator's knowledge about the free_allocation_request in flight.
type freeAttempt struct {
	as          *assigner // assigner record named by the marker (nil: unknown name)
	name        string
	tokens      float64
	coins       uint64
	nonce       int64
	signedByKey bool // the marker carries a signature of the key registered for the named assigner, over the marker as sent
	senderIsRcp bool
	recipient   *sim.Wallet
	sender      *sim.Wallet
	nonceUsed   bool // the nonce was redeemed successfully before (model)
	stateBefore simstorage.Assigner
	hadState    bool
	txnHash     string
}

// addAssigner registers a free-storage assigner or re-registers one with other limits / another key.
func (m *machine) addAssigner() {
	t, w := m.t, m.w
	idx := rapid.IntRange(0, 1).Draw(t, "assigner")
	name := assignerW[idx].ID
	var as *assigner
	for _, a := range m.assigners {
		if a.name == name {
			as = a
		}
	}
	key := assignerW[idx]
	if as != nil && rapid.IntRange(0, 3).Draw(t, "rotateKey") == 2 {
		key = assignerW[2]
	}
	indiv := rapid.SampledFrom([]float64{2, 5, 1, 100, 101}).Draw(t, "individualLimit")
	total := rapid.SampledFrom([]float64{8, 5, 20, 2, 10000, 10001}).Draw(t, "totalLimit")
	var from *sim.Wallet
	if rapid.IntRange(0, 7).Draw(t, "byStranger") == 5 {
		from = m.w.S.Clients[5]
	}
	m.cur = curOp{op: "addAssigner", from: from}
	m.onApplied = func(o sim.Outcome) {
		if !ok(o) {
			return
		}
		if as == nil {
			as = &assigner{name: name, used: map[int64]bool{}, nextNonce: 1}
			m.assigners = append(m.assigners, as)
		}
		as.w, as.indiv, as.total = key, indiv, total
	}
	m.do(w.AddFreeStorageAssigner(from, name, key, indiv, total))
}

// freeAlloc redeems a generated free-storage marker.
func (m *machine) freeAlloc() {
	t, w := m.t, m.w
	idx := rapid.IntRange(0, 1).Draw(t, "assigner")
	name := assignerW[idx].ID
	var as *assigner
	for _, a := range m.assigners {
		if a.name == name {
			as = a
		}
	}
	if as == nil && rapid.IntRange(0, 5).Draw(t, "registerFirst") != 0 {
		// most markers name a registered assigner
		indiv := rapid.SampledFrom([]float64{1, 2, 5, 100}).Draw(t, "individualLimit")
		total := rapid.SampledFrom([]float64{2, 5, 8, 20, 10000}).Draw(t, "totalLimit")
		key := assignerW[idx]
		m.onApplied = func(o sim.Outcome) {
			if ok(o) {
				as = &assigner{name: name, used: map[int64]bool{}, nextNonce: 1, w: key, indiv: indiv, total: total}
				m.assigners = append(m.assigners, as)
			}
		}
		m.do(w.AddFreeStorageAssigner(nil, name, key, indiv, total))
	}
	rcp := m.client("recipient")
	sender := rcp
	if rapid.IntRange(0, 9).Draw(t, "foreignSender") == 6 {
		sender = m.client("sender")
	}
	tokens := rapid.SampledFrom([]float64{1, 0.5, 1, 2, 1, 3, 0.5, 5, 6, 0.0000000001, 150}).Draw(t, "tokens")
	var nonce int64
	nonceUsed := false
	switch k := rapid.SampledFrom([]int{5, 5, 5, 0, 5, 1, 5, 5}).Draw(t, "nonceKind"); {
	case as != nil && k == 0 && len(as.used) > 0:
		// replay of a redeemed nonce
		var used []int64
		for n := int64(1); n < as.nextNonce; n++ {
			if as.used[n] {
				used = append(used, n)
			}
		}
		nonce, nonceUsed = used[rapid.IntRange(0, len(used)-1).Draw(t, "usedNonce")], true
	case as != nil && k == 1 && as.nextNonce > 1:
		nonce = rapid.Int64Range(1, as.nextNonce-1).Draw(t, "earlierNonce")
		nonceUsed = as.used[nonce]
	case as != nil:
		nonce = as.nextNonce
		as.nextNonce++
	default:
		nonce = rapid.Int64Range(1, 5).Draw(t, "nonce")
	}
	signer := assignerW[idx]
	if as != nil {
		signer = as.w
	}
	signedByKey := as != nil
	switch rapid.SampledFrom([]int{9, 9, 9, 9, 9, 0, 9, 1, 9, 2, 9, 9}).Draw(t, "signer") {
	case 0:
		signer, signedByKey = m.w.S.Clients[5], false
	case 1:
		other := assignerW[(idx+1)%3]
		if as == nil || other != as.w {
			signer, signedByKey = other, false
		}
	case 2:
		if as != nil && as.w != assignerW[idx] {
			signer, signedByKey = assignerW[idx], false // the key registered before a rotation
		}
	}
	p := simstorage.FreeParams{Recipient: rcp, AssignerName: name, Signer: signer, FreeTokens: tokens, Nonce: nonce}
	if rapid.IntRange(0, 9).Draw(t, "fewerBlobbers") == 6 {
		p.Blobbers = w.BlobberIDs(rapid.IntRange(1, 5).Draw(t, "nBlobbers"))
	}
	txn := w.FreeAllocation(p)
	if sender != rcp {
		// the same signed marker, submitted by somebody else
		txn = w.FreeAllocationFrom(sender, p)
	}
	st, had, err := w.View().Assigner(name)
	if err != nil {
		t.Fatalf("VERIF-HARNESS-ERROR assigner view: %v", err)
	}
	m.lastFree = &freeAttempt{as: as, name: name, tokens: tokens, coins: uint64(math.Round(tokens * 1e10)), nonce: nonce, signedByKey: signedByKey, senderIsRcp: sender == rcp,
		recipient: rcp, sender: sender, nonceUsed: nonceUsed, stateBefore: st, hadState: had, txnHash: txn.Hash}
	m.cur = curOp{op: "freeAlloc", from: sender}
	m.onApplied = func(o sim.Outcome) {
		if !ok(o) {
			if as != nil {
				as.rejected++
			}
			return
		}
		m.allocs = append(m.allocs, &alloc{id: txn.Hash, owner: rcp, open: true, uploads: map[string]int64{}})
		if as != nil {
			as.used[nonce] = true
			as.redeemed += uint64(math.Round(tokens * 1e10))
			as.accepted++
		}
	}
	m.do(txn)
	m.lastFree = nil
}

// C24: a free-storage marker creates an allocation only for its recipient, only with a valid signature of a registered
// assigner, once per nonce, within the individual limit, and the assigner's total stays within its total limit.
func TestC24_FreeStorageGrants(t *testing.T) {
	st := vkit.For("C24")
	grants := 0
	caseReset["C24"] = func() { grants = 0 }
	ops := []string{"addAssigner", "addAssigner", "freeAlloc", "freeAlloc", "freeAlloc", "freeAlloc", "freeAlloc", "freeAlloc", "freeAlloc", "freeAlloc",
		"newAlloc2", "upload", "cancel", "finalize", "advance", "kill", "writeLock", "readRedeem2", "storageSettings", "storageSettings"}
	runMachineOps(t, "C24", ops, "generated storage histories biased to free storage: the contract owner (or a stranger) registers and re-registers two assigners with generated individual / total limits and key rotation; free_allocation_request markers with tokens 1e-10 .. 150, nonces fresh / replayed after success / replayed after refusal, signed by the registered key / the key registered before a rotation / another assigner / a stranger, submitted by the recipient or by somebody else, with the full or a shortened blobber list, across both assigners, interleaved with ordinary allocation operations and owner updates of the settings (among them free_allocation_settings.read_pool_fraction 0 .. 1, which splits a grant between write and read pool); oracle (model: redeemed nonces and granted total per assigner, limits read from the state before the transaction): an accepted request needs a registered assigner, a signature of its currently registered key over the marker as sent, sender == recipient, a nonce never granted before, tokens <= individual limit and total after <= total limit; it debits the contract owner's wallet by at most the marker's tokens, creates an allocation owned by the recipient, and records nonce and total; a refused request leaves the assigner record and every balance untouched; non-trivial = history in which some assigner saw >= 2 grants and >= 1 refusal; distinct by history", 40, 90,
		func(m *machine, txn *transaction.Transaction, o sim.Outcome, before *snapshot) error {
			fa := m.lastFree
			if txn.FunctionName != "free_allocation_request" || fa == nil {
				return nil
			}
			v := m.w.View()
			after, hasAfter, err := v.Assigner(fa.name)
			if err != nil {
				return fmt.Errorf("VERIF-HARNESS-ERROR %v", err)
			}
			snap := m.h.Snap()
			ownerID := m.w.S.Owner.ID
			if o.Failed {
				st.Class("refused/" + refusalClass(fa))
				if hasAfter != fa.hadState || after.CurrentRedeemed != fa.stateBefore.CurrentRedeemed || len(after.RedeemedNonces) != len(fa.stateBefore.RedeemedNonces) {
					return fmt.Errorf("%s", m.viol("refused-request-changed-assigner", "refused free_allocation_request changed the assigner record from %+v to %+v", fa.stateBefore, after))
				}
				if snap.Bal[ownerID] != before.bal.Bal[ownerID] || snap.Bal[sim.StorageSC] != before.scBal {
					return fmt.Errorf("%s", m.viol("refused-request-moved-tokens", "refused free_allocation_request moved tokens: owner wallet %d -> %d, contract wallet %d -> %d", before.bal.Bal[ownerID], snap.Bal[ownerID], before.scBal, snap.Bal[sim.StorageSC]))
				}
				return nil
			}
			grants++
			st.Class("granted")
			if !fa.hadState {
				return fmt.Errorf("%s", m.viol("grant-without-assigner", "free_allocation_request naming assigner %s was accepted but no such assigner is registered", fa.name[:8]))
			}
			if !fa.signedByKey {
				return fmt.Errorf("%s", m.viol("grant-with-foreign-signature", "free_allocation_request was accepted although the marker is not signed by the key registered for assigner %s", m.h.Label(fa.name)))
			}
			if !fa.senderIsRcp {
				return fmt.Errorf("%s", m.viol("grant-to-non-recipient", "free_allocation_request sent by %s was accepted, the marker names recipient %s", m.h.Label(fa.sender.ID), m.h.Label(fa.recipient.ID)))
			}
			if fa.nonceUsed {
				return fmt.Errorf("%s", m.viol("nonce-redeemed-twice", "free_allocation_request with nonce %d of assigner %s was accepted a second time", fa.nonce, m.h.Label(fa.name)))
			}
			for _, n := range fa.stateBefore.RedeemedNonces {
				if n == fa.nonce {
					return fmt.Errorf("%s", m.viol("nonce-redeemed-twice", "nonce %d was already in the assigner's redeemed list", fa.nonce))
				}
			}
			if fa.coins > fa.stateBefore.IndividualLimit {
				return fmt.Errorf("%s", m.viol("grant-above-individual-limit", "grant of %d accepted, individual limit %d", fa.coins, fa.stateBefore.IndividualLimit))
			}
			if after.CurrentRedeemed > after.TotalLimit || fa.stateBefore.CurrentRedeemed+fa.coins > fa.stateBefore.TotalLimit {
				return fmt.Errorf("%s", m.viol("total-limit-exceeded", "assigner %s: redeemed %d + grant %d, total limit %d (after: %d)", m.h.Label(fa.name), fa.stateBefore.CurrentRedeemed, fa.coins, fa.stateBefore.TotalLimit, after.CurrentRedeemed))
			}
			if after.CurrentRedeemed != fa.stateBefore.CurrentRedeemed+fa.coins {
				return fmt.Errorf("%s", m.viol("redeemed-total-not-advanced", "assigner %s: redeemed total %d -> %d after a grant of %d", m.h.Label(fa.name), fa.stateBefore.CurrentRedeemed, after.CurrentRedeemed, fa.coins))
			}
			if fa.as != nil && after.CurrentRedeemed != fa.as.redeemed {
				return fmt.Errorf("%s", m.viol("redeemed-total-differs-from-model", "assigner %s: state says %d redeemed, the grants of this history add up to %d", m.h.Label(fa.name), after.CurrentRedeemed, fa.as.redeemed))
			}
			found := false
			for _, n := range after.RedeemedNonces {
				if n == fa.nonce {
					found = true
				}
			}
			if !found {
				return fmt.Errorf("%s", m.viol("nonce-not-recorded", "granted nonce %d is not in the assigner's redeemed list %v", fa.nonce, after.RedeemedNonces))
			}
			// the grant is funded by the contract owner: never more than the marker's tokens. (With a read pool
			// fraction > 0 the contract credits the read-pool share without moving tokens for it; whether pools are
			// backed is C09's subject, the statement of C24 is about who is granted how much.)
			if paid := int64(before.bal.Bal[ownerID]) - int64(snap.Bal[ownerID]); paid > int64(fa.coins) {
				return fmt.Errorf("%s", m.viol("owner-wallet-debit-differs", "grant of %d tokens debited the contract owner's wallet by %d", fa.coins, paid))
			} else if paid < int64(fa.coins) {
				vkit.For("C24").Class("grant-with-read-pool-share")
			}
			al, aok, _ := v.Allocation(fa.txnHash)
			if !aok || al.Owner != fa.recipient.ID {
				return fmt.Errorf("%s", m.viol("allocation-not-for-recipient", "granted free allocation exists=%v owner=%s, recipient is %s", aok, m.h.Label(al.Owner), m.h.Label(fa.recipient.ID)))
			}
			return nil
		},
		func(m *machine) (bool, string) {
			nt := false
			for _, a := range m.assigners {
				if a.accepted >= 2 && a.rejected >= 1 {
					nt = true
				}
			}
			grants = 0
			return nt, "c24"
		})
}

func refusalClass(fa *freeAttempt) string {
	switch {
	case !fa.hadState:
		return "unknown-assigner"
	case !fa.signedByKey:
		return "foreign-signature"
	case !fa.senderIsRcp:
		return "wrong-sender"
	case fa.nonceUsed:
		return "replayed-nonce"
	case fa.coins > fa.stateBefore.IndividualLimit:
		return "above-individual-limit"
	case fa.stateBefore.CurrentRedeemed+fa.coins > fa.stateBefore.TotalLimit:
		return "above-total-limit"
	}
	return "other"
}
