package storagechk

import (
	"fmt"
	"math/big"
	"reflect"
	"testing"

	"0chain.net/chaincore/transaction"
	"verifharness/sim"
	"verifharness/simstorage"
	"verifharness/vkit"
)

// ---------------------------------------------------------------------------
// C09 (storage contract part)

// liabilities adds up what the storage contract records as owed in a snapshot: delegate stakes, unpaid delegate and
// provider rewards, write pools, challenge pools and read pools.
func liabilities(s *snapshot) (total uint64, parts map[string]uint64) {
	parts = map[string]uint64{}
	for _, sp := range s.spool {
		for _, p := range sp.Pools {
			parts["stake"] += p.Balance
			parts["rewards"] += p.Reward
		}
		parts["rewards"] += sp.Reward
	}
	for _, a := range s.allocs {
		parts["write-pools"] += a.WritePool
	}
	for _, c := range s.cpool {
		parts["challenge-pools"] += c
	}
	for _, r := range s.rpool {
		parts["read-pools"] += r
	}
	for _, v := range parts {
		total += v
	}
	return
}

// C09: across any transaction the tokens the storage contract records as owed never grow by more than what the
// transaction moved into the contract's wallet plus the block reward it newly accrued.
func TestC09_StorageLiabilitiesBacked(t *testing.T) {
	st := vkit.For("C09")
	st.Assume("storage contract: liabilities = delegate stakes + unpaid delegate and provider rewards + write pools + challenge pools + read pools over every stake pool, allocation and client of the history; newly accrued reward = block_reward.block_reward (plus one unit per blobber for rounding) for blobber_block_rewards, nothing otherwise")
	grew := map[string]bool{}
	caseReset["C09"] = func() { grew = map[string]bool{} }
	ops := []string{"newAlloc2", "newAlloc2", "fillAlloc", "fillAlloc", "upload", "delete", "missThenPass", "missThenPass", "missThenPass", "repriceExtend", "repriceExtend", "replaceChallenged", "replaceChallenged",
		"extend2", "extend2", "extendBackdate", "freeWithReadShare", "freeAlloc", "addAssigner", "readLock", "readRedeem2", "readRedeem2", "writeLock", "stake", "unstake", "unstake2", "collect", "collect2", "kill", "shutdown", "blockRewards2", "cancel", "finalize",
		"storageSettings", "blobberSettings2", "advance", "respond"}
	runMachineOps(t, "C09", ops, storageDomain+" plus free-storage grants and read markers of several readers; oracle after every applied transaction: (liabilities after - liabilities before) <= (contract wallet after - before) + newly accrued block reward, where liabilities = all delegate stakes + unpaid rewards + write pools + challenge pools + read pools; non-trivial = history in which pools grew in >= 3 different kinds of transaction; distinct by history", 40, 90,
		func(m *machine, txn *transaction.Transaction, o sim.Outcome, before *snapshot) error {
			after := m.snap()
			lb, pb := liabilities(before)
			la, pa := liabilities(after)
			dL := new(big.Int).Sub(new(big.Int).SetUint64(la), new(big.Int).SetUint64(lb))
			dW := new(big.Int).Sub(new(big.Int).SetUint64(after.scBal), new(big.Int).SetUint64(before.scBal))
			accrued := big.NewInt(0)
			if txn.FunctionName == "blobber_block_rewards" && !o.Failed {
				conf, _, _ := m.w.View().Config()
				accrued.SetUint64(conf.BlockReward + uint64(len(m.w.Blobbers)))
			}
			bound := new(big.Int).Add(dW, accrued)
			if dL.Cmp(bound) > 0 {
				detail := ""
				for _, k := range []string{"stake", "rewards", "write-pools", "challenge-pools", "read-pools"} {
					if pa[k] != pb[k] {
						detail += fmt.Sprintf(" %s %d->%d", k, pb[k], pa[k])
					}
				}
				return fmt.Errorf("%s", m.viol("liabilities-grew-without-backing/"+txn.FunctionName, "%s (%s): liabilities grew by %s, the contract wallet by %s, newly accrued reward %s;%s", txn.FunctionName, outcome(o), dL, dW, accrued, detail))
			}
			if dL.Sign() > 0 {
				grew[txn.FunctionName] = true
				st.Class("pools-grew/" + txn.FunctionName)
			}
			if dL.Sign() > 0 && dL.Cmp(dW) > 0 {
				st.Class("covered-by-accrued-reward/" + txn.FunctionName)
			}
			return nil
		},
		func(m *machine) (bool, string) {
			nt := len(grew) >= 3
			grew = map[string]bool{}
			return nt, "c09"
		})
}

// ---------------------------------------------------------------------------
// C11 (blobber and validator stake pools)

func poolOf(sp simstorage.StakePool, id string) (simstorage.DelegatePool, bool) { return sp.Pool(id) }

// otherPoolsEqual compares every delegate pool except the one of `except`.
func otherPoolsEqual(a, b simstorage.StakePool, except string) (string, bool) {
	am, bm := map[string]simstorage.DelegatePool{}, map[string]simstorage.DelegatePool{}
	for _, p := range a.Pools {
		if p.ID != except {
			am[p.ID] = p
		}
	}
	for _, p := range b.Pools {
		if p.ID != except {
			bm[p.ID] = p
		}
	}
	if len(am) != len(bm) {
		return fmt.Sprintf("%d pools before, %d after", len(am), len(bm)), false
	}
	for id, p := range am {
		q, ok := bm[id]
		if !ok || p.Balance != q.Balance || p.Reward != q.Reward || p.DelegateID != q.DelegateID {
			return fmt.Sprintf("pool %s: %+v -> %+v", id[:8], p, q), false
		}
	}
	return "", true
}

// C11: locking moves exactly the value from the staker into the contract and into the staker's own delegate pool within
// the configured bounds; unlocking returns exactly that pool's balance plus its rewards to its owner and removes it.
func TestC11_StakeLockUnlockExact(t *testing.T) {
	st := vkit.For("C11")
	st.Assume("this check covers blobber and validator stake pools of the storage contract; miner, sharder and authorizer pools use the same stakepool package code (LockPool / UnlockPool / Empty) through their own contracts and are exercised by the miner and bridge checks without this exact per-pool oracle")
	chains := 0
	type life struct{ locked, rewarded bool }
	lives := map[string]*life{}
	caseReset["C11"] = func() { chains, lives = 0, map[string]*life{} }
	ops := []string{"stake", "stake", "stake", "unstake", "unstake", "unstake", "collect", "collect", "newAlloc2", "newAlloc2", "upload", "upload", "upload", "challenge", "challenge", "challenge", "respond",
		"readRedeem2", "readRedeem2", "readRedeem2", "readRedeem2", "blockRewards2", "blockRewards2", "kill", "shutdown", "cancel", "finalize", "advance", "blobberSettings2", "blobberSettings2", "unstake2", "unstake2", "collect2", "storageSettings", "storageSettings"}
	runMachineOps(t, "C11", ops, "generated storage histories biased to staking on 6 blobbers and 4 validators: stake_pool_lock of 1 unit .. 150 tokens by four clients (repeated locks into the same pool, up to max_delegates), stake_pool_unlock by stakers, non-stakers and delegate wallets, collect_reward by delegate wallets and stakers, interleaved with allocations (offers), uploads, challenges, read markers and block rewards (which accrue rewards), kills / shutdowns, closes; oracle: a successful lock debits the staker and credits the contract wallet by exactly the value, raises exactly the staker's own delegate pool of that provider by the value, respects min_stake / max_stake / max_delegates of the state, and changes no other pool; a refused lock or unlock changes no pool; a successful unlock needs an own pool, pays its owner exactly the pool's balance + its reward (+ the provider's service-charge reward when the owner is the delegate wallet), removes the pool, leaves the others untouched and (alive blobbers) leaves stake >= offers; collect_reward pays exactly the accrued reward; non-trivial = pool that was locked, received a reward and was unlocked by its owner; distinct by history", 40, 90,
		func(m *machine, txn *transaction.Transaction, o sim.Outcome, before *snapshot) error {
			fn := txn.FunctionName
			if fn != "stake_pool_lock" && fn != "stake_pool_unlock" && fn != "collect_reward" {
				// remember which pools accrued a reward
				if !o.Failed {
					after := m.snap()
					for id, sp := range after.spool {
						for _, p := range sp.Pools {
							if q, ok := before.spool[id].Pool(p.ID); ok && p.Reward > q.Reward {
								if l := lives[id+"|"+p.ID]; l != nil {
									l.rewarded = true
								}
							}
						}
					}
				}
				return nil
			}
			c := m.cur
			if c.provider == nil {
				return nil
			}
			after := m.snap()
			pid := c.provider.ID()
			sb, sa := before.spool[pid], after.spool[pid]
			_, hadSP := before.spool[pid]
			sender := txn.ClientID
			// nobody else's stake pool changes in any of these three functions
			for id, x := range before.spool {
				if id == pid {
					continue
				}
				if y, ok := after.spool[id]; !ok || !reflect.DeepEqual(x, y) {
					return fmt.Errorf("%s", m.viol("foreign-stake-pool-changed", "%s on provider %s changed the stake pool of provider %s", fn, m.h.Label(pid), m.h.Label(id)))
				}
			}
			paid := int64(after.bal.Bal[sender]) - int64(before.bal.Bal[sender]) + int64(txn.Fee)
			scDelta := int64(after.scBal) - int64(before.scBal)
			mine, hadMine := sb.Pool(sender)
			mineAfter, haveMine := sa.Pool(sender)
			if o.Failed {
				st.Class("refused/" + fn)
				if hadSP && !reflect.DeepEqual(sb, sa) {
					return fmt.Errorf("%s", m.viol("refused-call-changed-stake-pool", "refused %s changed the stake pool of %s: %+v -> %+v", fn, m.h.Label(pid), sb, sa))
				}
				if paid != 0 || scDelta != 0 {
					return fmt.Errorf("%s", m.viol("refused-call-moved-tokens", "refused %s moved tokens: sender %+d, contract %+d", fn, paid, scDelta))
				}
				return nil
			}
			switch fn {
			case "stake_pool_lock":
				v := int64(txn.Value)
				st.Class(map[bool]string{true: "lock/adds-to-own-pool", false: "lock/new-pool"}[hadMine])
				if paid != -v || scDelta != v {
					return fmt.Errorf("%s", m.viol("lock-moved-wrong-amount", "stake_pool_lock of %d: staker %+d, contract wallet %+d", v, paid, scDelta))
				}
				if !haveMine || int64(mineAfter.Balance)-int64(mine.Balance) != v || mineAfter.DelegateID != sender {
					return fmt.Errorf("%s", m.viol("lock-not-in-own-pool", "stake_pool_lock of %d by %s: own delegate pool %+v -> %+v", v, m.h.Label(sender), mine, mineAfter))
				}
				if mineAfter.Reward != mine.Reward {
					return fmt.Errorf("%s", m.viol("lock-changed-reward", "stake_pool_lock changed the pool's reward %d -> %d", mine.Reward, mineAfter.Reward))
				}
				if d, same := otherPoolsEqual(sb, sa, sender); !same {
					return fmt.Errorf("%s", m.viol("lock-changed-other-pool", "stake_pool_lock by %s on %s changed another delegate pool: %s", m.h.Label(sender), m.h.Label(pid), d))
				}
				conf, _, _ := m.w.View().Config()
				if uint64(v) < conf.MinStake || mineAfter.Balance > conf.MaxStake {
					return fmt.Errorf("%s", m.viol("lock-outside-stake-bounds", "stake_pool_lock of %d accepted, pool now %d, bounds [%d, %d]", v, mineAfter.Balance, conf.MinStake, conf.MaxStake))
				}
				if !hadMine && len(sb.Pools) >= sb.NumDelegates {
					return fmt.Errorf("%s", m.viol("lock-above-max-delegates", "stake_pool_lock created delegate pool number %d, max_delegates of the provider is %d", len(sa.Pools), sb.NumDelegates))
				}
				k := pid + "|" + sender
				if lives[k] == nil {
					lives[k] = &life{}
				}
				lives[k].locked = true
			case "stake_pool_unlock":
				if !hadMine {
					return fmt.Errorf("%s", m.viol("unlock-without-own-pool", "stake_pool_unlock by %s on %s succeeded although the sender has no delegate pool there", m.h.Label(sender), m.h.Label(pid)))
				}
				want := int64(mine.Balance + mine.Reward)
				if sender == sb.DelegateWallet {
					want += int64(sb.Reward)
				}
				if paid != want || scDelta != -want {
					return fmt.Errorf("%s", m.viol("unlock-paid-wrong-amount", "stake_pool_unlock by %s on %s: pool balance %d + reward %d (+ service charge %d if delegate wallet=%v) but sender %+d, contract wallet %+d", m.h.Label(sender), m.h.Label(pid), mine.Balance, mine.Reward, sb.Reward, sender == sb.DelegateWallet, paid, scDelta))
				}
				if haveMine && (mineAfter.Balance != 0 || mineAfter.Reward != 0) {
					return fmt.Errorf("%s", m.viol("unlock-left-pool", "after stake_pool_unlock the delegate pool still holds %+v", mineAfter))
				}
				if haveMine {
					return fmt.Errorf("%s", m.viol("unlock-left-pool", "after stake_pool_unlock the emptied delegate pool is still listed: %+v", mineAfter))
				}
				if d, same := otherPoolsEqual(sb, sa, sender); !same {
					return fmt.Errorf("%s", m.viol("unlock-changed-other-pool", "stake_pool_unlock by %s on %s changed another delegate pool: %s", m.h.Label(sender), m.h.Label(pid), d))
				}
				if bl, isB := after.blob[pid]; isB && !bl.Killed && !bl.ShutDown && sa.TotalStake < sa.TotalOffers {
					return fmt.Errorf("%s", m.viol("unlock-below-offers", "stake_pool_unlock left blobber %s with stake %d below its offers %d", m.h.Label(pid), sa.TotalStake, sa.TotalOffers))
				}
				if l := lives[pid+"|"+sender]; (l != nil && l.rewarded) || mine.Reward > 0 {
					chains++ // every pool was created by a stake_pool_lock transaction (of this history or of the base state)
				}
				delete(lives, pid+"|"+sender)
				st.Class(map[bool]string{true: "unlock/with-reward", false: "unlock/no-reward"}[mine.Reward > 0])
			case "collect_reward":
				want := int64(mine.Reward)
				if sender == sb.DelegateWallet {
					want += int64(sb.Reward)
				}
				if paid != want || scDelta != -want {
					return fmt.Errorf("%s", m.viol("collect-paid-wrong-amount", "collect_reward by %s on %s: accrued %d (+ service charge %d if delegate wallet=%v) but sender %+d, contract wallet %+d", m.h.Label(sender), m.h.Label(pid), mine.Reward, sb.Reward, sender == sb.DelegateWallet, paid, scDelta))
				}
				if hadMine && (!haveMine || mineAfter.Balance != mine.Balance || mineAfter.Reward != 0) {
					return fmt.Errorf("%s", m.viol("collect-changed-stake", "collect_reward changed the delegate pool %+v -> %+v", mine, mineAfter))
				}
				if d, same := otherPoolsEqual(sb, sa, sender); !same {
					return fmt.Errorf("%s", m.viol("collect-changed-other-pool", "collect_reward by %s on %s changed another delegate pool: %s", m.h.Label(sender), m.h.Label(pid), d))
				}
				if want > 0 {
					st.Class("collect/paid")
				}
			}
			return nil
		},
		func(m *machine) (bool, string) {
			nt := chains >= 1
			chains = 0
			lives = map[string]*life{}
			return nt, "c11"
		})
}

// ---------------------------------------------------------------------------
// C23 (blobbers and validators)

func isBlobberProvider(m *machine, p *simstorage.Provider) bool {
	for _, b := range m.w.Blobbers {
		if b == p {
			return true
		}
	}
	return false
}

// C23: an authorised kill / shutdown marks exactly that provider's own stake pool dead and slashes it once; afterwards it
// earns nothing; unauthorised callers change nothing; no other provider's records are created or altered.
func TestC23_KillDisablesExactlyThatProvider(t *testing.T) {
	st := vkit.For("C23")
	st.Assume("covers blobbers and validators of the storage contract; slash = stake_pool.kill_slash for a kill and half of it for a shutdown, read from the state; a delegate balance after the slash is floor(balance * (1 - slash)) within 1 unit + 2^-50 relative")
	dead := map[string]string{} // provider id -> how it died (model)
	interesting := 0
	caseReset["C23"] = func() { interesting, dead = 0, map[string]string{} }
	ops := []string{"kill", "kill", "kill", "shutdown", "shutdown", "shutdown", "shutdown", "stake", "stake", "unstake", "collect", "newAlloc2", "newAlloc2", "upload", "upload", "challenge", "challenge", "respond", "storageSettings", "blobberSettings2", "blobberSettings2", "fillAlloc",
		"readRedeem2", "blockRewards2", "blockRewards2", "cancel", "finalize", "advance", "replaceBlobber"}
	runMachineOps(t, "C23", ops, "generated storage histories biased to kill_blobber / kill_validator / shutdown_blobber / shutdown_validator sent by the contract owner, the provider's delegate wallet, the provider's own wallet and a stranger, repeated on dead providers, on providers with and without allocations, data and extra delegates, followed by reward-bearing operations (challenge responses, read markers, block rewards, closes); oracle: an authorised call on a live provider (kill: contract owner; shutdown: contract owner or delegate wallet) marks that provider's own stake pool dead and multiplies every delegate balance by (1 - slash) once (or removes an empty provider); any other call changes no stake pool and no provider node; no stake pool node ever exists under a wallet id that is not a registered provider; no other provider's stake pool or node changes; a dead provider's unpaid rewards never grow again; non-trivial = history with an authorised shutdown by a delegate wallet or a kill followed by a reward-bearing transaction; distinct by history", 40, 90,
		func(m *machine, txn *transaction.Transaction, o sim.Outcome, before *snapshot) error {
			after := m.snap()
			// a dead provider never earns again
			for id, how := range dead {
				if a, ok := after.spool[id]; ok && rewardsOf(a) > rewardsOf(before.spool[id]) {
					return fmt.Errorf("%s", m.viol("dead-provider-rewarded", "provider %s (%s earlier) had unpaid rewards %d, after %s they are %d", m.h.Label(id), how, rewardsOf(before.spool[id]), txn.FunctionName, rewardsOf(a)))
				}
			}
			fn := txn.FunctionName
			isKill := fn == "kill_blobber" || fn == "kill_validator"
			isShut := fn == "shutdown_blobber" || fn == "shutdown_validator"
			if !isKill && !isShut {
				if len(dead) > 0 && !o.Failed && (fn == "challenge_response" || fn == "blobber_block_rewards" || fn == "read_redeem" || fn == "cancel_allocation" || fn == "finalize_allocation") {
					interesting++
					st.Class("reward-bearing-after-death/" + fn)
				}
				return nil
			}
			c := m.cur
			if c.provider == nil {
				return nil
			}
			p := c.provider
			pid := p.ID()
			v := m.w.View()
			// no stake pool may exist under an id that is not a provider of that kind
			for _, id := range m.h.KnownIDs() {
				isProv := false
				for _, q := range m.providers() {
					if q.ID() == id {
						isProv = true
					}
				}
				if isProv {
					continue
				}
				if _, exists, _ := v.StakePoolOf(p.Kind, id); exists {
					return fmt.Errorf("%s", m.viol("stake-pool-under-foreign-id", "after %s of %s by %s a stake pool node exists under the id of %s, which is not a provider", fn, m.h.Label(pid), m.h.Label(txn.ClientID), m.h.Label(id)))
				}
			}
			for id, x := range before.spool {
				if id == pid {
					continue
				}
				if y, ok := after.spool[id]; !ok || !reflect.DeepEqual(x, y) {
					return fmt.Errorf("%s", m.viol("other-provider-changed", "%s of %s changed the stake pool of %s", fn, m.h.Label(pid), m.h.Label(id)))
				}
			}
			for id, x := range before.blob {
				if id == pid {
					continue
				}
				if y, ok := after.blob[id]; !ok || !reflect.DeepEqual(x, y) {
					return fmt.Errorf("%s", m.viol("other-provider-changed", "%s of %s changed the blobber node of %s", fn, m.h.Label(pid), m.h.Label(id)))
				}
			}
			sb, hadSP := before.spool[pid]
			sa, haveSP := after.spool[pid]
			owner := m.w.S.Owner.ID
			// "its delegate wallet" is the one named in the provider's own record (update_blobber_settings can change it)
			delegate := sb.DelegateWallet
			if bb, isB := before.blob[pid]; isB && bb.DelegateWallet != "" {
				delegate = bb.DelegateWallet
				if hadSP && sb.DelegateWallet != bb.DelegateWallet {
					return fmt.Errorf("%s", m.viol("delegate-wallet-of-stake-pool-differs", "blobber %s names delegate wallet %s, its stake pool %s", m.h.Label(pid), m.h.Label(bb.DelegateWallet), m.h.Label(sb.DelegateWallet)))
				}
			}
			authorised := txn.ClientID == owner || (isShut && hadSP && txn.ClientID == delegate)
			_, wasDead := dead[pid]
			caller := "stranger"
			switch txn.ClientID {
			case owner:
				caller = "owner"
			case delegate:
				caller = "delegate"
			case p.Delegate.ID:
				caller = "former-delegate"
			case p.Op.ID:
				caller = "provider"
			}
			st.Class(fmt.Sprintf("%s/by-%s/dead-before=%v/%s", fn, caller, wasDead, outcome(o)))
			if !authorised || wasDead || !hadSP {
				// nothing may change (a repeat must not slash again)
				if hadSP != haveSP || !stakesEqual(sb, sa) {
					key := "unauthorised-call-changed-stake-pool"
					if authorised {
						key = "repeated-call-changed-stakes"
					}
					return fmt.Errorf("%s", m.viol(key, "%s of %s by %s (authorised=%v, dead before=%v, %s) changed its stake pool: %+v -> %+v", fn, m.h.Label(pid), caller, authorised, wasDead, outcome(o), sb, sa))
				}
				if !authorised && hadSP && !reflect.DeepEqual(sb, sa) {
					return fmt.Errorf("%s", m.viol("unauthorised-call-changed-stake-pool", "%s of %s by %s (%s) changed its stake pool record: %+v -> %+v", fn, m.h.Label(pid), caller, outcome(o), sb, sa))
				}
				if bb, ok := before.blob[pid]; ok && !authorised && !reflect.DeepEqual(bb, after.blob[pid]) {
					return fmt.Errorf("%s", m.viol("unauthorised-call-changed-provider", "%s of %s by %s (%s) changed the blobber node: %+v -> %+v", fn, m.h.Label(pid), caller, outcome(o), bb, after.blob[pid]))
				}
				return nil
			}
			// authorised call on a live provider
			if o.Failed {
				st.Class("authorised-call-refused/" + fn)
				return nil
			}
			conf, _, _ := v.Config()
			slash := conf.KillSlash
			if isShut {
				slash /= 2
			}
			dead[pid] = fn
			if isShut && caller == "delegate" {
				interesting++
			}
			if !haveSP {
				// an empty provider is removed together with its stake pool
				if len(sb.Pools) != 0 {
					return fmt.Errorf("%s", m.viol("stake-pool-removed-with-delegates", "%s of %s removed a stake pool that still had %d delegate pools", fn, m.h.Label(pid), len(sb.Pools)))
				}
				return nil
			}
			if !sa.Killed {
				return fmt.Errorf("%s", m.viol("own-stake-pool-not-marked-dead", "%s of %s by %s succeeded but the provider's own stake pool is not marked dead", fn, m.h.Label(pid), caller))
			}
			for _, dp := range sb.Pools {
				q, ok := sa.Pool(dp.ID)
				if !ok {
					return fmt.Errorf("%s", m.viol("delegate-pool-lost", "%s of %s: delegate pool %s disappeared", fn, m.h.Label(pid), m.h.Label(dp.ID)))
				}
				want := uint64(float64(dp.Balance) * (1 - slash))
				tol := want>>50 + 1
				if q.Balance+tol < want || q.Balance > want+tol {
					return fmt.Errorf("%s", m.viol("wrong-slash", "%s of %s: delegate %s had %d, slash %v, expected about %d, has %d", fn, m.h.Label(pid), m.h.Label(dp.ID), dp.Balance, slash, want, q.Balance))
				}
			}
			if isBlobberProvider(m, p) {
				if bl, ok := after.blob[pid]; ok && !(bl.Killed || bl.ShutDown) {
					return fmt.Errorf("%s", m.viol("provider-not-marked", "%s of %s succeeded but the blobber is neither killed nor shut down", fn, m.h.Label(pid)))
				}
			}
			return nil
		},
		func(m *machine) (bool, string) {
			nt := interesting >= 1 && len(dead) >= 1
			interesting = 0
			dead = map[string]string{}
			return nt, "c23"
		})
}

// stakesEqual compares what a slash or a reward would change: delegate balances, rewards and the dead mark.
func stakesEqual(a, b simstorage.StakePool) bool {
	if a.Killed != b.Killed || a.Reward != b.Reward || len(a.Pools) != len(b.Pools) {
		return false
	}
	for _, p := range a.Pools {
		q, ok := b.Pool(p.ID)
		if !ok || p.Balance != q.Balance || p.Reward != q.Reward {
			return false
		}
	}
	return true
}
