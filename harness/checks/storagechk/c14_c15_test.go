package storagechk

import (
	"fmt"
	"math/big"
	"testing"

	"0chain.net/chaincore/transaction"
	"0chain.net/core/common"
	"github.com/0chain/common/core/currency"
	"pgregory.net/rapid"
	"verifharness/sim"
	"verifharness/simstorage"
	"verifharness/vkit"
)

// ---------------------------------------------------------------------------
// richer read-marker generation (used by the newer checks only: the draws of the default operation mix stay as they
// were, so saved regression inputs of C12 keep decoding to the same histories)

type readAttempt2 struct {
	key        string
	alloc      *alloc
	blobber    *simstorage.Provider
	reader     *sim.Wallet
	counter    int64
	stateLast  int64 // counter of the last redeemed marker in state before the attempt (0 = none)
	hadLast    bool
	validSig   bool // the marker as sent carries a signature of the reader's key over its own content
	inAlloc    bool // the blobber serves the allocation
	price      uint64
	wasOpen    bool
	tsKind     string
	counterCls string
}

func (m *machine) readRedeem2() {
	t, w := m.t, m.w
	var a *alloc
	var b *simstorage.Provider
	var reader *sim.Wallet
	inAlloc := true
	if len(m.triples) > 0 && rapid.IntRange(0, 9).Draw(t, "reuseTriple") < 6 {
		// come back to a triple that was redeemed before: replays, older counters and increments need a history
		tr := m.triples[rapid.IntRange(0, len(m.triples)-1).Draw(t, "triple")]
		a, b, reader = tr.alloc, tr.blobber, tr.reader
	} else {
		a = m.pickAlloc(rapid.IntRange(0, 6).Draw(t, "alsoClosed") != 0)
		if a == nil {
			return
		}
		b = m.blobberOf(a)
		if rapid.IntRange(0, 11).Draw(t, "foreignBlobber") == 7 {
			b = w.Blobbers[rapid.IntRange(0, len(w.Blobbers)-1).Draw(t, "anyBlobber")]
		}
		reader = a.owner
		if rapid.IntRange(0, 2).Draw(t, "otherReader") == 0 {
			reader = m.client("reader")
		}
	}
	v := w.View()
	al, aok, _ := v.Allocation(a.id)
	var price uint64
	if aok {
		ba, has := al.Blobber(b.ID())
		inAlloc = has
		price = ba.Terms.ReadPrice
	} else {
		inAlloc = false
	}
	if bal, found, _ := v.ReadPool(reader.ID); (!found || bal < zcn/100) && rapid.IntRange(0, 5).Draw(t, "fundReadPool") != 0 {
		m.do(w.ReadPoolLock(reader, reader.ID, currency.Coin(rapid.SampledFrom([]uint64{zcn / 10, zcn, 5 * zcn}).Draw(t, "readLock"))))
	}
	lastRM, hadLast, err := w.View().LastReadMarker(b.ID(), reader.ID, a.id)
	if err != nil {
		t.Fatalf("VERIF-HARNESS-ERROR last read marker: %v", err)
	}
	last := lastRM.Counter
	key := b.ID() + "|" + reader.ID + "|" + a.id
	if m.readers[key] != last {
		m.fail("redeemed-counter-differs-from-model", "triple %s: the state holds counter %d as last redeemed, the successful redemptions of this history end at %d", shortKey(m, key), last, m.readers[key])
	}
	var ctr int64
	// (rapid favours the first entries of a list, so the common classes come first)
	cls := rapid.SampledFrom([]string{"forward", "forward", "forward", "next", "replay", "replay", "forward", "older-or-equal", "forward", "huge", "non-positive"}).Draw(t, "counterKind")
	if last == 0 && (cls == "replay" || cls == "older-or-equal") {
		cls = "forward"
	}
	switch cls {
	case "replay":
		ctr = last
	case "older-or-equal":
		ctr = rapid.Int64Range(1, last).Draw(t, "older")
	case "next":
		ctr = last + 1
	case "huge":
		ctr = last + rapid.Int64Range(1<<20, 1<<40).Draw(t, "hugeJump")
	case "non-positive":
		ctr = rapid.SampledFrom([]int64{0, -1, -last - 5}).Draw(t, "nonPositive")
	default:
		ctr = last + rapid.Int64Range(1, 400).Draw(t, "newBlocks")
	}
	p := simstorage.ReadParams{AllocID: a.id, Blobber: b, Client: reader, Counter: ctr}
	if reader != a.owner {
		p.OwnerID = a.owner.ID
	}
	validSig := true
	switch rapid.SampledFrom([]int{9, 9, 9, 9, 9, 9, 9, 9, 0, 9, 1, 9, 2, 9, 3, 9, 3}).Draw(t, "signature") {
	case 3:
		// a marker that names the reader but carries, and is properly signed with, somebody else's key pair
		if other := m.client("foreignKeyPair"); other != reader {
			p.Signer, p.CarriedKey, validSig = other, other, false
		}
	case 0:
		p.Signer, validSig = m.w.S.Clients[5], false
	case 1:
		sc := ctr + rapid.SampledFrom([]int64{-1, 1, 7}).Draw(t, "signedCounterOffset")
		p.SignedCounter, validSig = &sc, false // altered after signing
	case 2:
		if other := m.client("otherSigner"); other != reader {
			p.Signer, validSig = other, false
		}
	}
	tsKind := "now"
	if aok {
		switch rapid.SampledFrom([]int{9, 9, 9, 9, 9, 9, 9, 2, 9, 0, 9, 1, 9, 9}).Draw(t, "timestamp") {
		case 0:
			p.Timestamp, tsKind = common.Timestamp(al.StartTime-rapid.Int64Range(1, 1000).Draw(t, "early")), "before-start"
		case 1:
			p.Timestamp, tsKind = common.Timestamp(al.Expiration+rapid.Int64Range(1, 1000).Draw(t, "late")), "after-expiry"
		case 2:
			p.Timestamp, tsKind = common.Timestamp(al.StartTime), "at-start"
		}
	}
	if rapid.IntRange(0, 9).Draw(t, "strangerSends") == 7 {
		p.Sender = m.w.S.Clients[5]
	}
	m.lastRead2 = &readAttempt2{key: key, alloc: a, blobber: b, reader: reader, counter: ctr, stateLast: last, hadLast: hadLast,
		validSig: validSig, inAlloc: inAlloc, price: price, wasOpen: a.open, tsKind: tsKind, counterCls: cls}
	m.cur = curOp{op: "readRedeem", alloc: a, provider: b, from: reader, wasOpen: a.open}
	m.onApplied = func(o sim.Outcome) {
		if ok(o) && ctr > last {
			if m.readers[key] == 0 {
				m.triples = append(m.triples, tripleRef{a, b, reader})
			}
			m.readers[key] = ctr
		}
	}
	m.do(w.ReadRedeem(p))
	m.lastRead2 = nil
}

type tripleRef struct {
	alloc   *alloc
	blobber *simstorage.Provider
	reader  *sim.Wallet
}

func shortKey(m *machine, key string) string {
	out := ""
	start := 0
	for i := 0; i <= len(key); i++ {
		if i == len(key) || key[i] == '|' {
			if out != "" {
				out += "|"
			}
			out += m.h.Label(key[start:i])
			start = i + 1
		}
	}
	return out
}

// expectedReadCharge is floor(price * blocks * 64 KiB / 1 GiB) in exact arithmetic, with the tolerance the contract's
// float64 product can deviate by.
func expectedReadCharge(price uint64, blocks int64) (exact *big.Int, tol *big.Int) {
	n := new(big.Int).Mul(new(big.Int).SetUint64(price), big.NewInt(blocks))
	exact = new(big.Int).Div(n, big.NewInt(16384)) // 64 KiB / 1 GiB = 1/16384
	tol = new(big.Int).Rsh(exact, 50)
	tol.Add(tol, big.NewInt(1))
	return
}

// C15: redeeming a read marker debits the reader's read pool by exactly price x newly read size, counters only move
// forward, replays and older markers charge nothing more, markers not signed by the reader's key are rejected.
func TestC15_ReadMarkersChargeOnce(t *testing.T) {
	st := vkit.For("C15")
	st.Assume("'exactly the read price times the newly read size' is floor(price * blocks / 16384) with a tolerance of 1 unit + 2^-50 relative for the contract's float64 product")
	redeems, replays := map[string]int{}, map[string]int{}
	caseReset["C15"] = func() { redeems, replays = map[string]int{}, map[string]int{} }
	ops := []string{"newAlloc2", "newAlloc2", "readLock", "readRedeem2", "readRedeem2", "readRedeem2", "readRedeem2", "readRedeem2", "readRedeem2", "readRedeem2",
		"readUnlock", "upload", "advance", "advance", "extend2", "replaceBlobber", "cancel", "finalize", "kill", "unstake", "blobberSettings", "writeLock", "blobberSettings2", "blobberSettings2"}
	runMachineOps(t, "C15", ops, "generated storage histories biased to read markers on a chain with 6 blobbers and 4 validators: markers for (blobber, reader, allocation) triples where the reader is the owner or another client and the blobber serves the allocation or not; counters replayed, older, next, forward by 1..400 blocks, huge, non-positive; signed by the reader, by another key, by another key pair whose public key the marker then carries, or altered after signing; blobbers re-price their reads while allocations keep their agreed terms; timestamps now / at start / before start / after expiry; sent by the blobber or a stranger; interleaved with read pool locks and unlocks, new allocations sharing blobbers and readers, uploads, clock jumps, blobber replacement, cancel / finalize, kills, unstaking; oracle after every applied transaction: a read pool decreases only through a successful read_redeem of a marker of that very client (by floor(price x new blocks / 16384) within the stated tolerance, nothing for a replay) or through the client's own unlock; a successful redeem needs a valid signature of the reader's key, a counter not below the last redeemed one, and leaves exactly its counter as last redeemed; a failed redeem changes neither pool nor counter; non-trivial = history in which some triple was redeemed successfully >= 3 times including >= 1 replay charging nothing; distinct by history", 40, 90,
		func(m *machine, txn *transaction.Transaction, o sim.Outcome, before *snapshot) error {
			v := m.w.View()
			ra := m.lastRead2
			isRedeem := txn.FunctionName == "read_redeem" && ra != nil
			for _, c := range m.w.S.Clients {
				now, _, err := v.ReadPool(c.ID)
				if err != nil {
					return fmt.Errorf("VERIF-HARNESS-ERROR %v", err)
				}
				was := before.rpool[c.ID]
				if now >= was {
					continue
				}
				switch {
				case isRedeem && !o.Failed && ra.reader.ID == c.ID:
				case txn.FunctionName == "read_pool_unlock" && !o.Failed && txn.ClientID == c.ID:
				default:
					return fmt.Errorf("%s", m.viol("read-pool-debited-without-redeem", "read pool of %s fell from %d to %d in %s (%s) sent by %s", m.h.Label(c.ID), was, now, txn.FunctionName, outcome(o), m.h.Label(txn.ClientID)))
				}
			}
			if !isRedeem {
				return nil
			}
			st.Class("redeem/counter=" + ra.counterCls + "/" + outcome(o))
			if !ra.validSig {
				st.Class("redeem/bad-signature/" + outcome(o))
			}
			if ra.tsKind != "now" {
				st.Class("redeem/ts=" + ra.tsKind + "/" + outcome(o))
			}
			after, hasAfter, err := v.LastReadMarker(ra.blobber.ID(), ra.reader.ID, ra.alloc.id)
			if err != nil {
				return fmt.Errorf("VERIF-HARNESS-ERROR %v", err)
			}
			was, now := before.rpool[ra.reader.ID], uint64(0)
			if bal, found, _ := v.ReadPool(ra.reader.ID); found {
				now = bal
			}
			if o.Failed {
				if now != was {
					return fmt.Errorf("%s", m.viol("failed-redeem-moved-read-pool", "refused read_redeem changed the read pool of %s from %d to %d", m.h.Label(ra.reader.ID), was, now))
				}
				if hasAfter != ra.hadLast || after.Counter != ra.stateLast {
					return fmt.Errorf("%s", m.viol("failed-redeem-moved-counter", "refused read_redeem changed the last redeemed counter of %s from %d to %d", shortKey(m, ra.key), ra.stateLast, after.Counter))
				}
				return nil
			}
			// accepted
			if !ra.validSig {
				return fmt.Errorf("%s", m.viol("accepted-marker-not-signed-by-reader", "read_redeem accepted a marker for %s (counter %d) that does not carry a signature of the reader's key over its content", shortKey(m, ra.key), ra.counter))
			}
			if ra.counter < ra.stateLast {
				return fmt.Errorf("%s", m.viol("counter-moved-back", "read_redeem accepted counter %d for %s although %d was already redeemed", ra.counter, shortKey(m, ra.key), ra.stateLast))
			}
			if !hasAfter || after.Counter != ra.counter {
				return fmt.Errorf("%s", m.viol("redeemed-counter-not-recorded", "after an accepted read_redeem with counter %d the last redeemed counter of %s is %d (present=%v)", ra.counter, shortKey(m, ra.key), after.Counter, hasAfter))
			}
			if !ra.inAlloc || !ra.wasOpen {
				return fmt.Errorf("%s", m.viol("redeem-on-foreign-or-closed-allocation", "read_redeem accepted for %s: blobber serves the allocation=%v, allocation open=%v", shortKey(m, ra.key), ra.inAlloc, ra.wasOpen))
			}
			exact, tol := expectedReadCharge(ra.price, ra.counter-ra.stateLast)
			paid := new(big.Int).Sub(new(big.Int).SetUint64(was), new(big.Int).SetUint64(now))
			diff := new(big.Int).Sub(paid, exact)
			if diff.Abs(diff).Cmp(tol) > 0 {
				return fmt.Errorf("%s", m.viol("wrong-read-charge", "read_redeem for %s: counter %d -> %d (%d new blocks) at read price %d/GB debited %s from the read pool (was %d), expected %s (+-%s)", shortKey(m, ra.key), ra.stateLast, ra.counter, ra.counter-ra.stateLast, ra.price, paid, was, exact, tol))
			}
			redeems[ra.key]++
			if ra.counter == ra.stateLast {
				replays[ra.key]++
				st.Class("replay-accepted-charging-nothing")
			}
			return nil
		},
		func(m *machine) (bool, string) {
			nt := false
			for k, n := range redeems {
				if n >= 3 && replays[k] >= 1 {
					nt = true
				}
			}
			shared := map[string]int{}
			for k := range redeems {
				// blobber|client shared by several allocations
				bc := k[:129]
				shared[bc]++
			}
			for _, n := range shared {
				if n >= 2 {
					st.Class("history-with-reader-and-blobber-sharing-allocations")
					break
				}
			}
			redeems, replays = map[string]int{}, map[string]int{}
			return nt, "c15"
		})
}

func outcome(o sim.Outcome) string {
	switch {
	case o.Rejected:
		return "rejected"
	case o.Failed:
		return "failed"
	}
	return "ok"
}

// ---------------------------------------------------------------------------
// C14

// C14: an allocation is closed at most once, only by an entitled caller at the right side of its expiry; closing pays
// the blobbers at most the challenge pool plus the capped cancellation charge, refunds the rest of the write pool to the
// owner, removes the allocation, and nothing can touch it afterwards.
func TestC14_CloseRefundsOnce(t *testing.T) {
	st := vkit.For("C14")
	st.Assume("the configured cancellation charge is cancellation_charge x sum of the blobbers' offers (size in GB x write price), as storageAllocationBase.cancellationCharge computes it; 2 units of slack per blobber for float rounding")
	closes, richCloses, afterClose := 0, 0, 0
	caseReset["C14"] = func() { closes, richCloses, afterClose = 0, 0, 0 }
	ops := []string{"newAlloc2", "newAlloc2", "upload", "upload", "upload", "delete", "challenge", "challenge", "respond", "respond", "writeLock", "writeLock", "readRedeem2",
		"extend2", "extend2", "replaceBlobber", "cancel", "cancel", "cancel", "finalize", "finalize", "finalize", "kill", "stake", "collect", "advance", "advance", "freeAlloc", "addAssigner", "fillAlloc", "fillAlloc", "fillAlloc", "storageSettings", "replaceChallenged", "advance", "missThenPass", "missThenPass", "extendBackdate"}
	runMachineOps(t, "C14", ops, "generated storage histories biased to closing: allocations (incl. free-storage ones) receive uploads, challenges, write pool locks and updates and are then cancelled / finalized by the owner, one of their blobbers or a stranger, before and after expiry, repeatedly, followed by locks, markers, updates and closes naming the closed allocation; oracle: a close succeeds only for an open allocation, cancel only by the owner not after expiry, finalize only by the owner or one of its blobbers not before expiry; on a successful close the owner's balance grows by exactly what leaves the contract wallet, that refund is at least write pool - min(write pool, cancellation charge) and, together with all reward increments of stake pools, exactly write pool + challenge pool (nothing more, nothing lost; series of challenges of which some are missed give blobbers pass rates between 0 and 1 at the close); reward increments of the allocation's blobbers are at most challenge pool + min(write pool, cancellation charge); allocation and challenge pool nodes are gone; any later transaction naming the closed allocation fails and moves no balance; non-trivial = close with non-zero challenge pool and non-zero write pool; distinct by history", 40, 90,
		func(m *machine, txn *transaction.Transaction, o sim.Outcome, before *snapshot) error {
			c := m.cur
			fn := txn.FunctionName
			isClose := fn == "cancel_allocation" || fn == "finalize_allocation"
			if c.alloc == nil {
				return nil
			}
			after := m.h.Snap()
			if !c.wasOpen {
				// the allocation was closed before: nothing may succeed and nothing may move
				afterClose++
				st.Class("on-closed/" + fn + "/" + outcome(o))
				if !o.Failed {
					return fmt.Errorf("%s", m.viol("operation-on-closed-allocation-succeeded", "%s naming allocation %s succeeded although the allocation was closed (%s) earlier", fn, c.alloc.id[:8], c.alloc.closedBy))
				}
				for _, id := range m.h.KnownIDs() {
					if before.bal.Bal[id] != after.Bal[id] && uint64(txn.Fee) == 0 {
						return fmt.Errorf("%s", m.viol("closed-allocation-moved-tokens", "failed %s on closed allocation %s changed the balance of %s from %d to %d", fn, c.alloc.id[:8], m.h.Label(id), before.bal.Bal[id], after.Bal[id]))
					}
				}
				return nil
			}
			if !isClose || o.Failed {
				if isClose {
					st.Class("close-refused/" + fn)
				}
				return nil
			}
			// a successful close of an allocation that was open
			al, had := before.allocs[c.alloc.id]
			if !had {
				return fmt.Errorf("%s", m.viol("closed-allocation-without-node", "%s succeeded for %s which had no allocation node", fn, c.alloc.id[:8]))
			}
			closes++
			isOwner := txn.ClientID == al.Owner
			_, isBlobber := al.Blobber(txn.ClientID)
			now := int64(txn.CreationDate)
			switch fn {
			case "cancel_allocation":
				if !isOwner {
					return fmt.Errorf("%s", m.viol("cancel-by-non-owner", "cancel_allocation of %s succeeded for sender %s, the owner is %s", c.alloc.id[:8], m.h.Label(txn.ClientID), m.h.Label(al.Owner)))
				}
				if al.Expiration < now {
					return fmt.Errorf("%s", m.viol("cancel-after-expiry", "cancel_allocation of %s succeeded at %d, it expired at %d", c.alloc.id[:8], now, al.Expiration))
				}
			default:
				if !isOwner && !isBlobber {
					return fmt.Errorf("%s", m.viol("finalize-by-stranger", "finalize_allocation of %s succeeded for sender %s who is neither the owner nor one of its blobbers", c.alloc.id[:8], m.h.Label(txn.ClientID)))
				}
				if al.Expiration > now {
					return fmt.Errorf("%s", m.viol("finalize-before-expiry", "finalize_allocation of %s succeeded at %d, it expires at %d", c.alloc.id[:8], now, al.Expiration))
				}
				st.Class(map[bool]string{true: "finalize-by-owner", false: "finalize-by-blobber"}[isOwner])
			}
			wp, cp := al.WritePool, before.cpool[c.alloc.id]
			// what left the contract wallet must be what the owner received
			left := int64(before.scBal) - int64(after.Bal[sim.StorageSC])
			got := int64(after.Bal[al.Owner]) - int64(before.bal.Bal[al.Owner])
			if txn.ClientID == al.Owner {
				got += int64(txn.Fee)
			}
			if left != got || got < 0 {
				return fmt.Errorf("%s", m.viol("refund-not-to-owner", "%s of %s: the contract wallet paid out %d, the owner %s received %d", fn, c.alloc.id[:8], left, m.h.Label(al.Owner), got))
			}
			for _, id := range m.h.KnownIDs() {
				if id == al.Owner || id == sim.StorageSC || id == txn.ClientID || id == sim.MinerSC {
					continue
				}
				if before.bal.Bal[id] != after.Bal[id] {
					return fmt.Errorf("%s", m.viol("close-paid-third-party", "%s of %s changed the balance of %s from %d to %d", fn, c.alloc.id[:8], m.h.Label(id), before.bal.Bal[id], after.Bal[id]))
				}
			}
			conf, _, _ := m.w.View().Config()
			var offers uint64
			for _, b := range al.Blobbers {
				offers += b.Offer
			}
			// the configured charge; it is paid out of the write pool after the unearned part of the challenge pool has
			// been moved back into it, so it can never exceed write pool + challenge pool
			charge := uint64(float64(offers)*conf.CancellationCharge) + 2*uint64(len(al.Blobbers))
			if charge > wp+cp {
				charge = wp + cp
			}
			if uint64(got)+charge < wp {
				return fmt.Errorf("%s", m.viol("refund-too-small", "%s of %s: write pool %d, challenge pool %d, configured cancellation charge at most %d, but the owner got back only %d", fn, c.alloc.id[:8], wp, cp, charge, got))
			}
			// reward increments
			ns := m.snap()
			var allRew, blobRew uint64
			for id, sp := range ns.spool {
				d := rewardsOf(sp) - min64(rewardsOf(sp), rewardsOf(before.spool[id]))
				allRew += d
				if _, serves := al.Blobber(id); serves {
					blobRew += d
				}
			}
			slack := 2 * uint64(len(al.Blobbers)+1)
			if uint64(got)+allRew > wp+cp+slack {
				return fmt.Errorf("%s", m.viol("close-paid-more-than-pools", "%s of %s: write pool %d + challenge pool %d, but refund %d + reward increments %d", fn, c.alloc.id[:8], wp, cp, got, allRew))
			}
			// ... and nothing may be lost: the two pools are deleted by the close, so every token they held must have
			// gone to the owner or into a stake pool's rewards
			if uint64(got)+allRew+slack < wp+cp {
				key := "close-lost-tokens"
				if !st.Known(key) {
					return fmt.Errorf("%s", m.viol(key, "%s of %s: write pool %d + challenge pool %d are gone, but the owner got %d and all stake pools' rewards grew by %d (%d tokens unaccounted for)", fn, c.alloc.id[:8], wp, cp, got, allRew, wp+cp-uint64(got)-allRew))
				}
			}
			if blobRew > cp+charge+slack {
				return fmt.Errorf("%s", m.viol("blobbers-paid-more-than-earned", "%s of %s: blobbers' rewards grew by %d, challenge pool was %d and the cancellation charge is at most %d", fn, c.alloc.id[:8], blobRew, cp, charge))
			}
			// earned challenge rewards: a blobber's outstanding value pays for the time from its last settled challenge to
			// the allocation's expiry; at the moment of closing it has earned at most the share of that period that lies
			// before now
			var earned uint64
			for _, b := range al.Blobbers {
				l := b.LatestFinalizedChallCreatedAt
				if b.ChallengePoolIntegralValue == 0 || l == 0 || now <= l {
					continue
				}
				frac := 1.0
				if al.Expiration > l && now < al.Expiration {
					frac = float64(now-l) / float64(al.Expiration-l)
				}
				earned += uint64(float64(b.ChallengePoolIntegralValue)*frac) + 1
			}
			if blobRew > earned+charge+slack {
				return fmt.Errorf("%s", m.viol("blobbers-paid-more-than-earned", "%s of %s at %d (expiry %d): blobbers' rewards grew by %d; for the time served since their last settled challenge they have earned at most %d of the challenge pool (%d), and the cancellation charge is at most %d", fn, c.alloc.id[:8], now, al.Expiration, blobRew, earned, cp, charge))
			}
			if fn == "cancel_allocation" && cp > 0 && earned < cp {
				st.Class("cancel-with-unearned-challenge-pool")
				if cp > charge {
					st.Class("cancel-with-unearned-challenge-pool-above-the-charge")
				}
			}
			if _, still := ns.allocs[c.alloc.id]; still {
				return fmt.Errorf("%s", m.viol("allocation-node-left", "%s of %s succeeded but the allocation node is still there", fn, c.alloc.id[:8]))
			}
			if _, still := ns.cpool[c.alloc.id]; still {
				return fmt.Errorf("%s", m.viol("challenge-pool-left", "%s of %s succeeded but the challenge pool node is still there", fn, c.alloc.id[:8]))
			}
			if wp > 0 && cp > 0 {
				richCloses++
			}
			if blobRew > 0 {
				st.Class("close-paying-blobbers")
			}
			return nil
		},
		func(m *machine) (bool, string) {
			nt := richCloses >= 1
			if afterClose > 0 && closes > 0 {
				st.Class("history-with-operations-after-close")
			}
			closes, richCloses, afterClose = 0, 0, 0
			return nt, "c14"
		})
}

func rewardsOf(sp simstorage.StakePool) uint64 {
	s := sp.Reward
	for _, p := range sp.Pools {
		s += p.Reward
	}
	return s
}

func min64(a, b uint64) uint64 {
	if a < b {
		return a
	}
	return b
}
