package storagechk

import (
	"fmt"
	"testing"

	"0chain.net/chaincore/transaction"
	"pgregory.net/rapid"
	"verifharness/sim"
	"verifharness/simminer"
	"verifharness/vkit"
)

func runMachine(t *testing.T, prop, rule string, stepsQuick, stepsThorough int, after func(m *machine, txn *transaction.Transaction, o sim.Outcome, before *snapshot) error,
	finish func(m *machine) (nontrivial bool, fp string)) {
	runMachineOps(t, prop, nil, rule, stepsQuick, stepsThorough, after, finish)
}

// caseReset holds, per property, a function that clears the oracle's per-case state.
var caseReset = map[string]func(){}

// runMachineOps is runMachine with the property's own operation mix.
func runMachineOps(t *testing.T, prop string, ops []string, rule string, stepsQuick, stepsThorough int, after func(m *machine, txn *transaction.Transaction, o sim.Outcome, before *snapshot) error,
	finish func(m *machine) (nontrivial bool, fp string)) {
	base(t)
	st := vkit.For(prop).SetRule(rule)
	rapid.Check(t, func(t *rapid.T) {
		if reset := caseReset[prop]; reset != nil {
			reset() // per-case oracle state must not survive a failing case (rapid re-runs the property while shrinking)
		}
		m := newMachine(t, prop)
		m.opsList = ops
		if ops != nil {
			// world variant: which of the two recorded hard forks are active (they gate 31 code paths of the contracts)
			forks := rapid.SampledFrom([]string{"none", "demeter", "demeter+electra", "none", "demeter"}).Draw(t, "forks")
			if forks != "none" {
				m.do(simminer.AddHardfork(m.h, m.w.S.Owner, "demeter", m.h.Round, 0))
			}
			if forks == "demeter+electra" {
				m.do(simminer.AddHardfork(m.h, m.w.S.Owner, "electra", m.h.Round, 0))
			}
			m.ops = 0
			vkit.For(prop).Class("forks=" + forks)
		}
		m.after = after
		n := rapid.IntRange(10, vkit.Scale(stepsQuick, stepsThorough)).Draw(t, "steps")
		if ops == nil {
			for i := 0; i < n; i++ {
				m.step()
			}
		} else {
			// the newer checks count executed transactions, not drawn operations (many operations are no-ops while
			// there is no allocation yet)
			for i := 0; i < 3*n && m.ops < n; i++ {
				m.step()
			}
		}
		nt, fp := finish(m)
		st.Case()
		st.ExtraAdd("transactions", int64(m.ops))
		for k, v := range m.classes {
			st.ClassN(k, v)
		}
		if nt {
			st.NonTrivial(fp, fmt.Sprint(m.h.Render(0)))
		}
		if st.WantSample(nt) {
			st.Sample(nt, m.h.Render(30))
		}
	})
}

const storageDomain = "generated storage histories on a chain with 6 blobbers and 4 validators set up through real transactions: new allocations (1+1 .. 3+1 shards, 0.5 .. 700 GiB, generated candidate blobbers and locks), write markers of positive and negative size (v1 and v2, occasionally badly signed), challenge generation and passing / failing / mixed responses, write and read pool locks, read markers, extend / grow / add blobber / replace blobber, cancel and finalize by owner / blobber / stranger (also repeated, also on closed allocations), stake lock / unlock / collect, kill and shutdown of blobbers and validators by owner / delegate / provider / stranger, blobber capacity updates, block rewards, clock jumps from seconds to beyond expiry with health checks"

// C12: for every open allocation the challenge pool balance equals the sum of the per-blobber outstanding challenge
// values; closing the allocation empties and removes the pool.
var c12Changed = 0

func c12After(m *machine, txn *transaction.Transaction, o sim.Outcome, before *snapshot) error {
	v := m.w.View()
	for _, a := range m.allocs {
		al, aok, err := v.Allocation(a.id)
		if err != nil {
			return fmt.Errorf("VERIF-HARNESS-ERROR %v", err)
		}
		cp, cok, _ := v.ChallengePool(a.id)
		if !a.open {
			if aok || cok {
				return fmt.Errorf("%s", m.viol("closed-allocation-left-nodes", "allocation %s was closed (%s) but its allocation node exists=%v, challenge pool node exists=%v (balance %d)", a.id[:8], a.closedBy, aok, cok, cp))
			}
			continue
		}
		if !aok {
			return fmt.Errorf("%s", m.viol("open-allocation-vanished", "allocation %s is open in the model but has no node", a.id[:8]))
		}
		sum := al.SumChallengePoolIntegral()
		if !cok {
			cp = 0
		}
		if cp != sum {
			per := ""
			for _, b := range al.Blobbers {
				per += fmt.Sprintf(" %s:%d", b.BlobberID[:6], b.ChallengePoolIntegralValue)
			}
			return fmt.Errorf("%s", m.viol("challenge-pool-differs", "allocation %s: challenge pool %d, sum of blobber values %d (difference %d;%s) after %s (%s)", a.id[:8], cp, sum, int64(cp)-int64(sum), per, txn.FunctionName, map[bool]string{true: "failed", false: "ok"}[o.Failed]))
		}
		if txn.FunctionName == "commit_connection" && !o.Failed && al.WritePool == 0 && before.allocs[a.id].WritePool > 0 && cp > before.cpool[a.id] {
			vkit.For("C12").Class("upload-took-the-whole-write-pool")
		}
		if cp != before.cpool[a.id] && cp > 0 {
			c12Changed++
			vkit.For("C12").Class("pool-changed-by/" + txn.FunctionName)
		}
	}
	return nil
}

func c12Finish(m *machine) (bool, string) {
	nt := c12Changed >= 2
	c12Changed = 0
	return nt, "c12"
}

const c12Oracle = "; oracle after every applied transaction, for every allocation the history created: open => challenge pool balance == sum of the allocation's per-blobber ChallengePoolIntegralValue (exact), closed => neither the allocation nor its challenge pool node exists; non-trivial = history in which a non-zero challenge pool changed in >= 2 transactions; distinct by history"

func TestC12_ChallengePoolEqualsBlobberValues(t *testing.T) {
	caseReset["C12"] = func() { c12Changed = 0 }
	runMachine(t, "C12", storageDomain+c12Oracle, 40, 90, c12After, c12Finish)
}

// TestC12_Scripts runs the same oracle over histories made of longer scripted steps that reach the paths the statement
// names: filling markers, deletes, series of challenges of which early ones are missed and later ones passed (penalty
// settlement), blobbers re-pricing in opposite directions followed by an extension, replacement of exactly the blobber
// that has open or failed challenges, kills, owner changes of the economic settings (slash 0 .. 1), hard-fork variants.
func TestC12_Scripts(t *testing.T) {
	caseReset["C12"] = func() { c12Changed = 0 }
	ops := []string{"newAlloc2", "newAlloc2", "fillAlloc", "fillAlloc", "datedFill", "extendBackdate", "extendBackdate", "upload", "upload", "delete", "missThenPass", "missThenPass", "missThenPass", "repriceExtend", "repriceExtend",
		"replaceChallenged", "replaceChallenged", "extend2", "kill", "shutdown", "cancel", "finalize", "storageSettings", "advance", "blobberSettings2", "writeLock", "respond"}
	runMachineOps(t, "C12", ops, "scripted storage histories (6 blobbers, 4 validators, fork variants none / demeter / demeter+electra): allocations with tight or generous locks, markers that fill a blobber's share (also dated by the client anywhere in the allocation's life, which after an extension makes an upload cost more than the write pool holds), deletes, series of 2..4 challenges on allocations with data of which early ones are failed / unanswered / answered late and later ones passed, write price changes of an allocation's blobbers in opposite directions followed by an extension, replacement of a blobber that has open or failed challenges or an outstanding value, extensions by third parties, kills and shutdowns, owner updates of blobber_slash / kill_slash / cancellation_charge / validator_reward to 0 .. 1, closes"+c12Oracle, 30, 60, c12After, c12Finish)
}

// C13: a blobber's allocated size equals the sum of its per-blobber sizes over the open allocations it serves and never
// exceeds its capacity when an allocation is assigned to it; its stake pool's total offers equal the sum of those offers.
var c13ClosedShared = 0

var c13After = func(m *machine, txn *transaction.Transaction, o sim.Outcome, before *snapshot) error {
	v := m.w.View()
	size := map[string]int64{}
	offers := map[string]uint64{}
	serving := map[string]int{}
	for _, a := range m.allocs {
		al, aok, _ := v.Allocation(a.id)
		if !aok {
			continue
		}
		for _, b := range al.Blobbers {
			size[b.BlobberID] += b.Size
			offers[b.BlobberID] += b.Offer
			serving[b.BlobberID]++
		}
	}
	for _, b := range m.w.Blobbers {
		bl, bok, _ := v.Blobber(b.ID())
		if !bok {
			continue
		}
		if bl.Allocated != size[b.ID()] {
			return fmt.Errorf("%s", m.viol("allocated-differs", "blobber %s: Allocated %d, sum of its sizes over open allocations %d (after %s)", m.h.Label(b.ID()), bl.Allocated, size[b.ID()], txn.FunctionName))
		}
		if sp, sok, _ := v.StakePool(b); sok && sp.TotalOffers != offers[b.ID()] {
			key := "offers-differ"
			if bl.Killed || bl.ShutDown || sp.Killed {
				key = "offers-differ-after-kill"
			}
			if !vkit.For("C13").Known(key) {
				return fmt.Errorf("%s", m.viol(key, "blobber %s (killed=%v shutdown=%v): stake pool TotalOffers %d, sum of the offers of its open allocations %d (after %s)", m.h.Label(b.ID()), bl.Killed, bl.ShutDown, sp.TotalOffers, offers[b.ID()], txn.FunctionName))
			}
		}
		if pb, had := before.blob[b.ID()]; had && !o.Failed && bl.Allocated > pb.Allocated && bl.Allocated > bl.Capacity {
			return fmt.Errorf("%s", m.viol("allocated-above-capacity", "blobber %s: Allocated %d > Capacity %d right after %s assigned more to it", m.h.Label(b.ID()), bl.Allocated, bl.Capacity, txn.FunctionName))
		}
	}
	if !o.Failed && (txn.FunctionName == "cancel_allocation" || txn.FunctionName == "finalize_allocation") {
		for id, n := range serving {
			_ = id
			if n >= 1 {
				c13ClosedShared++
				break
			}
		}
	}
	return nil
}

var c13Finish = func(m *machine) (bool, string) {
	// liveness consequence: every open allocation can still be cancelled by its owner on a scratch fork
	for _, a := range m.openAllocs() {
		f := m.h.Cur.Fork()
		txn := m.w.CancelAllocation(a.owner, a.id)
		o := f.Exec(txn)
		if o.Failed && containsAny(o.Output, "offer", "underflow", "negative") {
			if !vkit.For("C13").Known("close-blocked-by-offers") {
				m.fail("close-blocked-by-offers", "the owner cannot cancel allocation %s any more: %s", a.id[:8], o.Output)
			}
		}
	}
	nt := c13ClosedShared >= 1 && len(m.allocs) >= 2
	c13ClosedShared = 0
	return nt, "c13"
}

const c13Oracle = "; oracle after every applied transaction, per blobber: Allocated == sum over the open allocations of its per-blobber Size; stake pool TotalOffers == sum of those allocations' offers; Allocated <= Capacity right after a transaction that assigned an allocation to it; and every open allocation's owner can still close it: a dry-run cancel on a scratch fork must not fail for lack of offers; non-trivial = history that created >= 2 allocations and in which a cancel / finalize succeeded while some blobber still served another open allocation of the history; distinct by history"

func TestC13_CapacityAndOffers(t *testing.T) {
	caseReset["C13"] = func() { c13ClosedShared = 0 }
	runMachine(t, "C13", storageDomain+c13Oracle, 40, 90, c13After, c13Finish)
}

// TestC13_Scripts runs the same oracle over scripted histories: blobbers re-pricing followed by extensions (the offer of
// the existing size is re-priced), one request that replaces a blobber and grows the allocation, filling markers,
// replacement of dead blobbers, repeated kills, settings changes, fork variants.
func TestC13_Scripts(t *testing.T) {
	caseReset["C13"] = func() { c13ClosedShared = 0 }
	ops := []string{"newAlloc2", "newAlloc2", "newAlloc2", "fillAlloc", "upload", "repriceExtend", "repriceExtend", "repriceExtend", "replaceGrow", "replaceGrow", "replaceChallenged", "replaceBlobber",
		"extend2", "extend2", "blobberSettings2", "blobberSettings2", "kill", "kill", "shutdown", "cancel", "cancel", "finalize", "stake", "unstake", "storageSettings", "advance", "missThenPass"}
	runMachineOps(t, "C13", ops, "scripted storage histories (6 blobbers, 4 validators, fork variants): allocations with tight or generous locks, write-price / read-price / capacity-independent settings changes of blobbers followed by extensions, single requests that replace a blobber and grow or extend the allocation at once, replacement of blobbers with open challenges and of dead blobbers, repeated kills and shutdowns, stake changes, closes"+c13Oracle, 30, 60, c13After, c13Finish)
}

func containsAny(s string, subs ...string) bool {
	for _, x := range subs {
		if len(x) > 0 && len(s) >= len(x) {
			for i := 0; i+len(x) <= len(s); i++ {
				if s[i:i+len(x)] == x {
					return true
				}
			}
		}
	}
	return false
}
