package storagechk

import (
	"fmt"
	"testing"

	"0chain.net/chaincore/transaction"
	"verifharness/sim"
	"verifharness/vkit"
)

// C04 (storage contract part): a transaction debits only its sender (by at most value + fee), the called contract's own
// wallet, or - for a free-storage grant with a valid assigner marker - the contract owner's wallet by at most the grant.
func TestC04_StorageDebitsOnlyAuthorised(t *testing.T) {
	st := vkit.For("C04")
	others := 0
	caseReset["C04"] = func() { others = 0 }
	ops := append([]string{"newAlloc2", "newAlloc2", "extend2", "extend2", "extend2", "freeAlloc", "freeAlloc", "addAssigner", "readRedeem2", "readRedeem2", "unstake2", "collect2", "blockRewards2"}, defaultOps...)
	runMachineOps(t, "C04", ops, storageDomain+", with third-party-extendable allocations extended by third parties with tokens attached, free-storage grants (valid, forged, replayed), hard-fork variants none / demeter / demeter+electra; oracle for every applied transaction over every account the history knows (clients, providers, delegate wallets, contract wallets, contract owner): an account whose balance decreased is the sender (by at most value + fee), the storage contract's own wallet, or the contract owner's wallet during an accepted free_allocation_request carrying a marker signed by the registered assigner (by at most the marker's tokens); non-trivial = history with >= 3 transactions in which an account other than the sender decreased; distinct by history", 40, 90,
		func(m *machine, txn *transaction.Transaction, o sim.Outcome, before *snapshot) error {
			after := m.h.Snap()
			for _, id := range m.h.KnownIDs() {
				was, now := before.bal.Bal[id], after.Bal[id]
				if now >= was {
					continue
				}
				dec := was - now
				switch {
				case id == txn.ClientID:
					if dec > uint64(txn.Value)+uint64(txn.Fee) {
						return fmt.Errorf("%s", m.viol("sender-debited-beyond-value-and-fee", "%s (%s): sender %s lost %d, value %d + fee %d", txn.FunctionName, outcome(o), m.h.Label(id), dec, txn.Value, txn.Fee))
					}
				case id == txn.ToClientID && id == sim.StorageSC:
					others++
					st.Class("contract-wallet-paid/" + txn.FunctionName)
				case id == m.w.S.Owner.ID && txn.FunctionName == "free_allocation_request" && !o.Failed && m.lastFree != nil && m.lastFree.signedByKey && m.lastFree.senderIsRcp && !m.lastFree.nonceUsed:
					if dec > m.lastFree.coins {
						return fmt.Errorf("%s", m.viol("owner-wallet-debited-beyond-grant", "free_allocation_request of %d tokens debited the contract owner's wallet by %d", m.lastFree.coins, dec))
					}
					others++
					st.Class("owner-wallet-paid-grant")
				default:
					return fmt.Errorf("%s", m.viol("third-party-debited/"+txn.FunctionName, "%s (%s) sent by %s with value %d lowered the balance of %s by %d: that account neither sent the transaction nor is the called contract", txn.FunctionName, outcome(o), m.h.Label(txn.ClientID), txn.Value, m.h.Label(id), dec))
				}
			}
			if m.cur.op == "extend2" && m.cur.alloc != nil && m.cur.from != m.cur.alloc.owner && !o.Failed && txn.Value > 0 {
				st.Class("third-party-update-with-tokens-accepted")
			}
			return nil
		},
		func(m *machine) (bool, string) {
			return others >= 3, "c04"
		})
}
