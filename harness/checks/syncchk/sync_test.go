// Package syncchk checks C28 on blocks produced by real contract execution: generated
// histories of storage / miner / faucet / plain transactions run on the full-chain
// simulator; every closed block's change set is published with the real
// NewBlockStateChange, sent over a node-to-node codec and applied to a fresh block
// object that has never executed the block.
package syncchk

import (
	"bytes"
	"encoding/hex"
	"encoding/json"
	"fmt"
	"sort"
	"strings"
	"sync"
	"testing"

	"0chain.net/chaincore/block"
	"0chain.net/chaincore/transaction"
	"0chain.net/core/datastore"
	"github.com/0chain/common/core/currency"
	"github.com/0chain/common/core/util"
	"pgregory.net/rapid"
	"verifharness/gen"
	"verifharness/sim"
	"verifharness/simminer"
	"verifharness/simstorage"
	"verifharness/vkit"
)

func TestMain(m *testing.M) { vkit.Main(m) }

const (
	zcn         = uint64(1e10)
	keyLost     = "cannot-publish:removal-of-recreated-node-not-recorded"
	keyWithheld = "accepted-incomplete:changed-node-withheld"
)

var (
	baseOnce sync.Once
	baseW    *simstorage.World
	baseErr  error
)

// base boots the chain once, registers the magic-block miners and sharders in the miner
// contract and 5 blobbers + 3 validators in the storage contract; every case forks from there.
func base(t *testing.T) *simstorage.World {
	baseOnce.Do(func() {
		s, err := sim.Boot(sim.Options{EventDb: true})
		if err != nil {
			baseErr = err
			return
		}
		h := s.NewHistory(s.Genesis)
		if _, baseErr = simminer.Setup(h); baseErr != nil {
			return
		}
		baseW, baseErr = simstorage.SetupWith(h, simstorage.DefaultOptions(5, 3))
	})
	if baseErr != nil {
		t.Fatalf("VERIF-HARNESS-ERROR base: %v", baseErr)
	}
	return baseW
}

type allocRef struct {
	id      string
	owner   *sim.Wallet
	uploads map[string]int64
}

type machine struct {
	t      *rapid.T
	w      *simstorage.World
	mw     *simminer.World
	h      *sim.History
	e      *gen.Env
	allocs []*allocRef
	ops    map[string]int
}

func (m *machine) do(op string, txn *transaction.Transaction) sim.Outcome {
	o, err := m.h.Do(txn)
	if err != nil {
		m.t.Fatalf("VERIF-HARNESS-ERROR monitor: %v", err)
	}
	switch {
	case o.Rejected:
		m.ops[op+"/rejected"]++
	case o.Failed:
		m.ops[op+"/failed"]++
	default:
		m.ops[op+"/ok"]++
	}
	return o
}

func ok(o sim.Outcome) bool { return !o.Rejected && !o.Failed }

func (m *machine) client(label string) *sim.Wallet {
	return m.w.S.Clients[rapid.IntRange(0, 3).Draw(m.t, label)]
}

func (m *machine) alloc() *allocRef {
	if len(m.allocs) == 0 {
		return nil
	}
	return m.allocs[rapid.IntRange(0, len(m.allocs)-1).Draw(m.t, "alloc")]
}

func (m *machine) blobberOf(a *allocRef) *simstorage.Provider {
	al, found, _ := m.w.View().Allocation(a.id)
	if !found || len(al.Blobbers) == 0 {
		return m.w.Blobbers[0]
	}
	return m.w.Blobber(al.Blobbers[rapid.IntRange(0, len(al.Blobbers)-1).Draw(m.t, "blobberOfAlloc")].BlobberID)
}

func (m *machine) providers() []*simstorage.Provider {
	return append(append([]*simstorage.Provider{}, m.w.Blobbers...), m.w.Validators...)
}

var opMix = []string{"newAlloc", "newAlloc", "upload", "upload", "upload", "delete", "challenge", "challenge", "respond",
	"writeLock", "readLock", "readUnlock", "extend", "grow", "addBlobber", "replaceBlobber", "cancel", "finalize", "stake", "unstake",
	"collect", "kill", "blockRewards", "basic", "basic", "basic", "basic", "minerStake", "minerUnstake", "minerCollect", "minerHealth",
	"closeWithFees", "closeWithFees", "advance", "advance"}

func (m *machine) step() {
	t, w := m.t, m.w
	op := rapid.SampledFrom(opMix).Draw(t, "op")
	switch op {
	case "advance":
		secs := rapid.SampledFrom([]int64{2, 2, 60, 600, 3000, 86400, 31 * 86400}).Draw(t, "seconds")
		m.h.NextBlock(int64(rapid.IntRange(1, 40).Draw(t, "rounds")), secs)
		if secs >= 3000 {
			_ = w.KeepAlive()
		}
	case "closeWithFees":
		if _, err := simminer.CloseBlock(m.h, int64(rapid.IntRange(1, 3).Draw(t, "rounds")), 2); err != nil {
			t.Fatalf("VERIF-HARNESS-ERROR %v", err)
		}
		m.ops["payFees"]++
	case "basic":
		m.do("basic", m.e.Basic(t))
	case "newAlloc":
		owner := m.client("owner")
		data, parity := 2, 1
		if rapid.Bool().Draw(t, "small") {
			data, parity = 1, 1
		}
		lock := currency.Coin(rapid.SampledFrom([]uint64{1 * zcn, 5 * zcn, 10 * zcn, 100 * zcn}).Draw(t, "lock"))
		size := rapid.SampledFrom([]int64{simstorage.GB, 2 * simstorage.GB, simstorage.GB / 2, 10 * simstorage.GB}).Draw(t, "size")
		ids := rapid.Permutation(w.BlobberIDs(len(w.Blobbers))).Draw(t, "candidates")
		txn := w.NewAllocation(simstorage.AllocParams{Owner: owner, DataShards: data, ParityShards: parity, Size: size, Blobbers: ids, Lock: &lock})
		if ok(m.do(op, txn)) {
			m.allocs = append(m.allocs, &allocRef{id: txn.Hash, owner: owner, uploads: map[string]int64{}})
		}
	case "upload", "delete":
		a := m.alloc()
		if a == nil {
			return
		}
		b := m.blobberOf(a)
		size := rapid.SampledFrom([]int64{64 * 1024, 1 << 20, 100 << 20, simstorage.GB / 3}).Draw(t, "bytes")
		if op == "delete" {
			if a.uploads[b.ID()] == 0 {
				return
			}
			size = -rapid.Int64Range(1, a.uploads[b.ID()]).Draw(t, "deleteBytes")
		}
		p := simstorage.WriteParams{AllocID: a.id, Blobber: b, Signer: a.owner, Size: size, V2: rapid.IntRange(0, 4).Draw(t, "v2") == 0}
		if ok(m.do(op, w.CommitConnection(p))) {
			a.uploads[b.ID()] += size
		}
	case "challenge":
		if len(m.allocs) == 0 {
			return
		}
		if rapid.IntRange(0, 2).Draw(t, "freshBlock") == 0 {
			m.h.NextBlock(int64(rapid.IntRange(1, 3).Draw(t, "rounds")), 2)
		}
		gtxn := w.GenerateChallenge()
		cid := w.ChallengeIDOf(gtxn)
		if o := m.do(op, gtxn); ok(o) && rapid.IntRange(0, 3).Draw(t, "respondNow") != 0 {
			if ch, found, _ := w.View().Challenge(cid); found {
				if rapid.IntRange(0, 2).Draw(t, "responseKind") == 0 {
					m.do("respond", w.FailingResponse(ch))
				} else {
					m.do("respond", w.PassingResponse(ch))
				}
			}
		}
	case "respond":
		a := m.alloc()
		if a == nil {
			return
		}
		chs, _, err := w.View().OpenChallenges(a.id)
		if err != nil || len(chs) == 0 {
			return
		}
		ch := chs[rapid.IntRange(0, len(chs)-1).Draw(t, "challenge")]
		if rapid.IntRange(0, 2).Draw(t, "responseKind") == 0 {
			m.do(op, w.FailingResponse(ch))
		} else {
			m.do(op, w.PassingResponse(ch))
		}
	case "writeLock":
		if a := m.alloc(); a != nil {
			m.do(op, w.WritePoolLock(m.client("locker"), a.id, currency.Coin(rapid.SampledFrom([]uint64{1, zcn, 20 * zcn}).Draw(t, "amount"))))
		}
	case "readLock":
		c := m.client("reader")
		m.do(op, w.ReadPoolLock(c, c.ID, currency.Coin(rapid.SampledFrom([]uint64{zcn / 10, zcn, 5 * zcn}).Draw(t, "amount"))))
	case "readUnlock":
		m.do(op, w.ReadPoolUnlock(m.client("reader")))
	case "extend", "grow":
		if a := m.alloc(); a != nil {
			p := simstorage.UpdateParams{From: a.owner, AllocID: a.id, Extend: true, Lock: currency.Coin(rapid.SampledFrom([]uint64{0, zcn, 50 * zcn}).Draw(t, "lock"))}
			if op == "grow" {
				p.SizeDelta = rapid.SampledFrom([]int64{simstorage.GB / 4, simstorage.GB}).Draw(t, "delta")
			}
			m.do(op, w.UpdateAllocation(p))
		}
	case "addBlobber", "replaceBlobber":
		a := m.alloc()
		if a == nil {
			return
		}
		al, found, _ := w.View().Allocation(a.id)
		if !found {
			return
		}
		in := map[string]bool{}
		for _, b := range al.Blobbers {
			in[b.BlobberID] = true
		}
		var cand []*simstorage.Provider
		for _, b := range w.Blobbers {
			if !in[b.ID()] {
				cand = append(cand, b)
			}
		}
		if len(cand) == 0 {
			return
		}
		p := simstorage.UpdateParams{From: a.owner, AllocID: a.id, AddBlobber: cand[rapid.IntRange(0, len(cand)-1).Draw(t, "add")], Lock: currency.Coin(5 * zcn)}
		if op == "replaceBlobber" {
			p.RemoveBlobber = m.blobberOf(a)
		}
		if ok(m.do(op, w.UpdateAllocation(p))) && p.RemoveBlobber != nil {
			delete(a.uploads, p.RemoveBlobber.ID())
		}
	case "cancel", "finalize":
		a := m.alloc()
		if a == nil {
			return
		}
		if op == "finalize" && rapid.Bool().Draw(t, "waitForExpiry") {
			if al, found, _ := w.View().Allocation(a.id); found {
				if d := al.Expiration - int64(m.h.Now); d >= 0 {
					m.h.NextBlock(int64(rapid.IntRange(1, 30).Draw(t, "rounds")), d+100)
					_ = w.KeepAlive()
				}
			}
		}
		if op == "cancel" {
			m.do(op, w.CancelAllocation(a.owner, a.id))
		} else {
			m.do(op, w.FinalizeAllocation(a.owner, a.id))
		}
	case "stake":
		ps := m.providers()
		m.do(op, w.StakeLock(m.client("staker"), ps[rapid.IntRange(0, len(ps)-1).Draw(t, "provider")], currency.Coin(rapid.SampledFrom([]uint64{zcn, 10 * zcn, 150 * zcn}).Draw(t, "stake"))))
	case "unstake":
		ps := m.providers()
		p := ps[rapid.IntRange(0, len(ps)-1).Draw(t, "provider")]
		from := m.client("staker")
		if rapid.IntRange(0, 3).Draw(t, "delegateItself") == 0 {
			from = p.Delegate
		}
		m.do(op, w.StakeUnlock(from, p))
	case "collect":
		ps := m.providers()
		p := ps[rapid.IntRange(0, len(ps)-1).Draw(t, "provider")]
		m.do(op, w.CollectReward(p.Delegate, p))
	case "kill":
		if rapid.IntRange(0, 3).Draw(t, "really") != 0 {
			return
		}
		if rapid.Bool().Draw(t, "validator") {
			m.do(op, w.KillValidator(w.S.Owner, w.Validators[rapid.IntRange(0, len(w.Validators)-1).Draw(t, "provider")]))
		} else {
			m.do(op, w.KillBlobber(w.S.Owner, w.Blobbers[rapid.IntRange(0, len(w.Blobbers)-1).Draw(t, "provider")]))
		}
	case "blockRewards":
		m.do(op, w.BlobberBlockRewards())
	case "minerStake", "minerUnstake", "minerCollect", "minerHealth":
		nodes := append(append([]*simminer.Node{}, m.mw.Miners...), m.mw.Sharders...)
		n := nodes[rapid.IntRange(0, len(nodes)-1).Draw(t, "node")]
		c := m.client("staker")
		switch op {
		case "minerStake":
			m.do(op, simminer.Stake(m.h, c, n.Type, n.ID(), currency.Coin(rapid.SampledFrom([]uint64{zcn, 10 * zcn, 50 * zcn}).Draw(t, "stake")), 0))
		case "minerUnstake":
			m.do(op, simminer.Unstake(m.h, c, n.Type, n.ID(), 0))
		case "minerCollect":
			from := c
			if rapid.Bool().Draw(t, "delegate") {
				from = n.Delegate
			}
			m.do(op, simminer.CollectReward(m.h, from, n.Type, n.ID(), 0))
		default:
			m.do(op, simminer.HealthCheck(m.h, n, 0))
		}
	}
}

// offWire is the block as a node that never executed it holds it.
func offWire(t *rapid.T, b *block.Block) *block.Block {
	wire, err := json.Marshal(b)
	if err != nil {
		t.Fatalf("VERIF-HARNESS-ERROR block encode: %v", err)
	}
	rb := block.Provider().(*block.Block)
	if err := json.Unmarshal(wire, rb); err != nil {
		t.Fatalf("VERIF-HARNESS-ERROR block decode: %v", err)
	}
	if rb.Hash != b.Hash || !bytes.Equal(rb.ClientStateHash, b.ClientStateHash) || rb.StateChangesCount != b.StateChangesCount {
		t.Fatalf("VERIF-HARNESS-ERROR block header lost on the wire")
	}
	return rb
}

func send(bsc *block.StateChange, codec string) (*block.StateChange, error) {
	out := datastore.GetEntityMetadata("block_state_change").Instance().(*block.StateChange)
	var err error
	if codec == "json" {
		err = datastore.FromJSON(datastore.ToJSON(bsc).Bytes(), out)
	} else {
		err = datastore.FromMsgpack(datastore.ToMsgpack(bsc).Bytes(), out)
	}
	if err != nil {
		return nil, err
	}
	return out, nil
}

func guard(f func() error) (err error, panicked string) {
	defer func() {
		if p := recover(); p != nil {
			panicked = fmt.Sprint(p)
		}
	}()
	return f(), ""
}

func leavesDiff(a, b map[string][]byte) string {
	if len(a) != len(b) {
		return fmt.Sprintf("%d values after sync, %d after execution", len(a), len(b))
	}
	ks := make([]string, 0, len(b))
	for k := range b {
		ks = append(ks, k)
	}
	sort.Strings(ks)
	for _, k := range ks {
		if !bytes.Equal(a[k], b[k]) {
			return fmt.Sprintf("value at %s differs", k)
		}
	}
	return ""
}

func TestC28_RealBlocks(t *testing.T) {
	st := vkit.For("C28")
	st.SetRule("full-chain simulator: generated histories (storage allocations / uploads / deletes / challenges and responses / pools / allocation updates / close, provider stake and kill, miner-contract stake / rewards / health checks / payFees, faucet, sends, malformed and replayed transactions) over several blocks, executed by the real Chain.UpdateState with real contracts; for every closed block whose state changed: NewBlockStateChange, JSON or msgpack n2n codec, ApplyBlockStateChange on a fresh wire copy of the block linked to the executed or to the previously synced parent (real Chain as Chainer); oracle: accepted, root == declared == executed root, every value of the full state equal to the executed state's, every changed node carries the block round as origin; then tamperings (drop, swap a changed node for an unchanged one, wrong root hash, wrong count) must be rejected with the parent state untouched or give exactly the right state. Non-trivial = block with >= 10 changed nodes; distinct by state root")
	w0 := base(t)
	rapid.Check(t, func(t *rapid.T) {
		w := w0.Fork()
		mw, err := simminer.Attach(w.H)
		if err != nil {
			t.Fatalf("VERIF-HARNESS-ERROR attach: %v", err)
		}
		m := &machine{t: t, w: w, mw: mw, h: w.H, e: gen.NewEnv(w.H), ops: map[string]int{}}
		steps := rapid.IntRange(10, vkit.Scale(50, 90)).Draw(t, "steps")
		for i := 0; i < steps; i++ {
			m.step()
		}
		m.h.NextBlock(1, 2)
		// the closed blocks of this history, oldest first
		var blocks []*block.Block
		for b := m.h.Cur.B.PrevBlock; b != nil && b != w0.SetupBlock; b = b.PrevBlock {
			blocks = append([]*block.Block{b}, blocks...)
		}
		for op, n := range m.ops {
			st.ClassN("sim/txn/"+op, n)
		}
		var prevSynced *block.Block
		for _, b := range blocks {
			p := b.PrevBlock
			if bytes.Equal(b.ClientStateHash, p.ClientStateHash) {
				st.Class("sim/block/state-unchanged")
				prevSynced = nil
				continue
			}
			st.Case()
			bsc, err := block.NewBlockStateChange(b)
			if err != nil {
				if strings.Contains(err.Error(), "nodes_outside_tree") && st.Known(keyLost) {
					st.Class("known/" + keyLost)
					prevSynced = nil
					continue
				}
				t.Fatalf("%s", vkit.Violation("C28", "cannot-publish:real-block", "round %d (%d txns, %d changes): NewBlockStateChange fails on an executed block whose state changed: %v :: %v", b.Round, len(b.Txns), b.StateChangesCount, err, m.h.Render(12)))
			}
			changed := len(bsc.Nodes)
			if changed >= 10 {
				st.Class("sim/block/changed>=10")
				st.NonTrivial("sim", hex.EncodeToString(b.ClientStateHash))
			} else {
				st.Class("sim/block/changed<10")
			}
			for _, n := range bsc.Nodes {
				if n.GetOrigin() != util.Sequence(b.Round) {
					st.Class("sim/note/changed-node-origin-differs-from-round")
					t.Fatalf("%s", vkit.Violation("C28", "changed-node-origin", "round %d: a node of the published change set has origin %d", b.Round, n.GetOrigin()))
				}
			}
			st.Class("sim/changed-nodes-all-carry-block-round")
			executed, err := sim.ViewOf(b).Leaves()
			if err != nil {
				t.Fatalf("VERIF-HARNESS-ERROR executed state cannot be read: %v", err)
			}
			apply := func(label string, d *block.StateChange, mutate func(rb *block.Block), mustReject bool) *block.Block {
				rb := offWire(t, b)
				parent := p
				if prevSynced != nil && prevSynced.Hash == p.Hash {
					parent = prevSynced
				}
				rb.PrevBlock = parent // (not SetPreviousBlock: the simulator skips rounds, and that call renumbers the block)
				if mutate != nil {
					mutate(rb)
				}
				parentRoot := append([]byte{}, parent.ClientState.GetRoot()...)
				parentChanges := parent.ClientState.GetChangeCount()
				err, panicked := guard(func() error { return rb.ApplyBlockStateChange(d, m.w.S.Chain) })
				if panicked != "" {
					t.Fatalf("%s", vkit.Violation("C28", "panic:"+label, "ApplyBlockStateChange panics: %s", panicked))
				}
				if err != nil {
					if label == "honest" {
						t.Fatalf("%s", vkit.Violation("C28", "honest-rejected:real-block", "round %d (%d changed nodes): an untampered change set is rejected: %v", b.Round, changed, err))
					}
					if rb.GetStateStatus() != block.StatePending || rb.ClientState != nil || !bytes.Equal(parent.ClientState.GetRoot(), parentRoot) || parent.ClientState.GetChangeCount() != parentChanges {
						t.Fatalf("%s", vkit.Violation("C28", "rejected-but-touched:"+label, "round %d: change set rejected (%v) but the block or its parent state changed", b.Round, err))
					}
					st.Class("sim/outcome/" + label + "/rejected")
					return nil
				}
				if mustReject {
					t.Fatalf("%s", vkit.Violation("C28", "tampered-accepted:"+label, "round %d (%d changed nodes): accepted", b.Round, changed))
				}
				if rb.GetStateStatus() != block.StateSynched || !bytes.Equal(rb.ClientState.GetRoot(), b.ClientStateHash) {
					t.Fatalf("%s", vkit.Violation("C28", "accepted-wrong-state:"+label, "round %d: accepted but status %d / root %x, declared %x", b.Round, rb.GetStateStatus(), rb.ClientState.GetRoot(), b.ClientStateHash))
				}
				synced, err := sim.ViewOf(rb).Leaves()
				diff := ""
				if err != nil {
					diff = "the synced state cannot be read: " + err.Error()
				} else {
					diff = leavesDiff(synced, executed)
				}
				if diff != "" {
					if label == "swap-for-unchanged" && st.Known(keyWithheld) {
						st.Class("sim/outcome/" + label + "/accepted-incomplete(known)")
						return nil
					}
					key := "accepted-wrong-state:" + label
					if label == "swap-for-unchanged" {
						key = keyWithheld
					}
					t.Fatalf("%s", vkit.Violation("C28", key, "round %d (%d changed nodes): accepted with the declared root, but %s", b.Round, changed, diff))
				}
				st.Class("sim/outcome/" + label + "/accepted")
				return rb
			}
			codec := rapid.SampledFrom([]string{"json", "msgpack"}).Draw(t, "codec")
			got, err := send(bsc, codec)
			if err != nil {
				t.Fatalf("%s", vkit.Violation("C28", "honest-refused-by-decoder:real-block", "round %d: the %s decoder refuses an untampered change set: %v", b.Round, codec, err))
			}
			st.Class("sim/codec/" + codec)
			rbSynced := apply("honest", got, nil, false)

			// tamperings of the real change set, over the wire
			fresh := func() *block.StateChange {
				x, err := block.NewBlockStateChange(b)
				if err != nil {
					t.Fatalf("VERIF-HARNESS-ERROR second NewBlockStateChange: %v", err)
				}
				return x
			}
			deliver := func(label string, x *block.StateChange, mutate func(rb *block.Block), mustReject bool) {
				st.Case()
				y, err := send(x, codec)
				if err != nil {
					st.Class("sim/outcome/" + label + "/rejected-decode")
					return
				}
				apply(label, y, mutate, mustReject)
			}
			{
				x := fresh()
				i := rapid.IntRange(0, len(x.Nodes)-1).Draw(t, "drop")
				x.Nodes = append(x.Nodes[:i:i], x.Nodes[i+1:]...)
				x.DeadNodes = nil
				deliver("drop", x, nil, true)
			}
			{
				x := fresh()
				x.Hash = append(util.Key{}, p.ClientStateHash...)
				deliver("wrong-hash", x, nil, true)
			}
			deliver("block-count", fresh(), func(rb *block.Block) { rb.StateChangesCount++ }, true)
			{
				x := fresh()
				inSet := map[string]bool{}
				for _, n := range x.Nodes {
					inSet[n.GetHash()] = true
				}
				var linked []util.Node
				for _, nd := range x.Nodes {
					var ks []util.Key
					switch n := nd.(type) {
					case *util.ExtensionNode:
						ks = append(ks, n.NodeKey)
					case *util.FullNode:
						for _, pe := range util.PathElements {
							if ch := n.GetChild(pe); ch != nil {
								ks = append(ks, ch)
							}
						}
					}
					for _, k := range ks {
						if !inSet[hex.EncodeToString(k)] && len(linked) < 16 {
							if u, err := b.ClientState.GetNodeDB().GetNode(k); err == nil {
								linked = append(linked, u.CloneNode())
							}
						}
					}
				}
				var idx []int
				for i, n := range x.Nodes {
					if !bytes.Equal(n.GetHashBytes(), x.Hash) {
						idx = append(idx, i)
					}
				}
				if len(linked) > 0 && len(idx) > 0 && (!st.IsKnown(keyWithheld) || rapid.IntRange(0, 3).Draw(t, "skipKnown") == 0) {
					x.Nodes[rapid.SampledFrom(idx).Draw(t, "withheld")] = rapid.SampledFrom(linked).Draw(t, "unchanged")
					x.DeadNodes = nil
					deliver("swap-for-unchanged", x, nil, false)
				}
			}
			prevSynced = nil
			if rbSynced != nil && rapid.Bool().Draw(t, "chainOnSynced") {
				prevSynced = rbSynced
				st.Class("sim/next-parent/synced")
			}
		}
		if st.WantSample(false) {
			st.Sample(false, map[string]interface{}{"part": "real-blocks", "blocks": len(blocks), "applied": m.h.Applied, "failed": m.h.Failed, "rejected": m.h.Rejected})
		}
	})
}
