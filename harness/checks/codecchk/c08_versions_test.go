package codecchk

import (
	"bytes"
	"fmt"
	"reflect"
	"testing"

	"0chain.net/core/util/entitywrapper"
	"pgregory.net/rapid"
	"verifharness/checks/valgen"
	"verifharness/checks/valgen/wrapgen"
	"verifharness/vkit"
)

// Versioned entities (core/util/entitywrapper): data stored as version n decodes as version n, migrates to version n+1
// through Wrapper.Update without losing any field the two versions have in common, the migrated entity round-trips, and
// bytes naming an unregistered version are refused.

type wrapper interface {
	codec
	TypeName() string
	SetEntity(entitywrapper.EntityI)
	Entity() entitywrapper.EntityI
	Base() entitywrapper.EntityBaseI
	Update(entitywrapper.EntityI, func(entitywrapper.EntityI) error) error
}

func wrapperTypes() []ctype {
	var out []ctype
	for _, c := range allTypes() {
		x := c.ctor()
		if _, ok := x.(wrapper); !ok {
			continue
		}
		if _, ok := wrapgen.IsWrapper(reflect.ValueOf(x).Elem()); ok {
			out = append(out, c)
		}
	}
	return out
}

// commonFields compares the exported, encoded fields that both version structs declare with the same name and type.
func commonFields(cmp *valgen.Cmp, old, new reflect.Value) (n int, diff string) {
	ot, nt := old.Type(), new.Type()
	for i := 0; i < ot.NumField(); i++ {
		f := ot.Field(i)
		if !f.IsExported() || f.Name == "Version" || valgen.MsgSkipped(f) {
			continue
		}
		nf, ok := nt.FieldByName(f.Name)
		if !ok || nf.Type != f.Type || valgen.MsgSkipped(nf) {
			continue
		}
		n++
		if ok, d := cmp.EquivValues(old.Field(i), new.FieldByName(f.Name)); !ok {
			return n, f.Name + d
		}
	}
	return n, ""
}

func TestC08_VersionedEntities(t *testing.T) {
	st := vkit.For("C08").SetRule("versioned part: per case one wrapper type (every type of the registry that embeds entitywrapper.Wrapper) and one registered version n that has a successor; a reflectively generated entity of version n is stored (encoded through the wrapper), decoded through a fresh wrapper (must come back as version n and round-trip), migrated with Wrapper.Update to version n+1 (every exported encoded field that both version structs declare with the same name and type must be equal before and after, as must Wrapper.Base()), encoded and decoded again (version n+1, same common fields, idempotent), and finally the version string inside the bytes is replaced by an unregistered one, which the wrapper must refuse; non-trivial = entity with >= 3 non-zero leaves; distinct by (type, version, encoding)")
	ws := wrapperTypes()
	if len(ws) == 0 {
		t.Fatalf("VERIF-HARNESS-ERROR no versioned wrapper types in the registry")
	}
	var names []string
	for _, c := range ws {
		names = append(names, fmt.Sprintf("%s%v", c.key(), wrapgen.Versions(c.ctor().(wrapper).TypeName())))
	}
	st.Extra("versioned_wrapper_types", names)
	cmp := &valgen.Cmp{Ignore: func(owner reflect.Type, f reflect.StructField) bool { ex, _ := exempt(owner, f); return ex }}
	rapid.Check(t, func(t *rapid.T) {
		c := ws[rapid.IntRange(0, len(ws)-1).Draw(t, "wrapper")]
		w0 := c.ctor().(wrapper)
		vs := wrapgen.Versions(w0.TypeName())
		fail := func(key, f string, a ...interface{}) {
			t.Fatalf("%s", vkit.Violation("C08", key+":"+c.key(), "%s: %s", c.key(), fmt.Sprintf(f, a...)))
		}
		if len(vs) < 2 {
			t.Skip("single version")
		}
		i := rapid.IntRange(0, len(vs)-2).Draw(t, "fromVersion")
		from, to := vs[i], vs[i+1]
		g := newGen(rapid.IntRange(0, 3).Draw(t, "extreme") == 0)
		e := wrapgen.New(w0.TypeName(), from)
		g.Fill(t, reflect.ValueOf(e).Elem())
		w0.SetEntity(e)
		b0, err := enc(w0)
		if err != nil {
			fail("encode-error", "entity of version %s does not encode: %v", from, err)
		}
		// stored under the old version: decodes as the old version
		w := c.ctor().(wrapper)
		if _, err := dec(w, b0); err != nil {
			fail("decode-error", "bytes of version %s do not decode: %v", from, err)
		}
		if w.Entity() == nil || w.Entity().GetVersion() != from {
			fail("version-changed-by-decode", "bytes written as version %s decode as %v", from, w.Entity())
		}
		old := w.Entity()
		baseBefore := w.Base()
		// migrate
		newer := wrapgen.New(w0.TypeName(), to)
		var uerr error
		if r, hung := guard("Update", func() { uerr = w.Update(newer, func(entitywrapper.EntityI) error { return nil }) }); r != nil || hung {
			fail("migrate-panic", "Wrapper.Update %s -> %s panicked / hung: %v", from, to, r)
		}
		if uerr != nil {
			fail("migrate-error", "Wrapper.Update %s -> %s failed: %v", from, to, uerr)
		}
		if w.Entity().GetVersion() != to {
			fail("migrate-wrong-version", "after Update to %s the entity is %s", to, w.Entity().GetVersion())
		}
		nCommon, diff := commonFields(cmp, reflect.ValueOf(old).Elem(), reflect.ValueOf(w.Entity()).Elem())
		if diff != "" {
			fail("migration-loses-field", "migrating %s -> %s changed the common field %s", from, to, diff)
		}
		if ok, d := cmp.Equiv(baseBefore, w.Base()); !ok {
			fail("migration-changes-base", "Base() differs after migrating %s -> %s at %s", from, to, d)
		}
		// the migrated entity is stored and read again
		b1, err := enc(w)
		if err != nil {
			fail("encode-error", "migrated entity (%s) does not encode: %v", to, err)
		}
		w2 := c.ctor().(wrapper)
		if _, err := dec(w2, b1); err != nil {
			fail("decode-error", "migrated entity (%s) does not decode: %v", to, err)
		}
		if w2.Entity().GetVersion() != to {
			fail("version-changed-by-decode", "bytes written as version %s decode as %s", to, w2.Entity().GetVersion())
		}
		if _, d := commonFields(cmp, reflect.ValueOf(old).Elem(), reflect.ValueOf(w2.Entity()).Elem()); d != "" {
			fail("migration-loses-field", "after migrating %s -> %s and a store/load the common field %s differs from the original", from, to, d)
		}
		b2, err := enc(w2)
		if err != nil || !bytes.Equal(b1, b2) {
			fail("not-idempotent", "migrated entity (%s): enc(dec(enc(x))) differs (err %v)", to, err)
		}
		// an unregistered version must be refused, not defaulted
		pat := append([]byte{0xa7}, []byte("version")...)
		pat = append(pat, byte(0xa0|len(to)))
		pat = append(pat, []byte(to)...)
		if idx := bytes.Index(b1, pat); idx >= 0 {
			bad := append([]byte{}, b1...)
			copy(bad[idx+len(pat)-len(to):], []byte("v9")[:len(to)])
			w3 := c.ctor().(wrapper)
			if _, err := dec(w3, bad); err == nil {
				fail("unknown-version-accepted", "bytes naming version \"v9\" decode without error as %v", w3.Entity())
			}
			st.Class("versioned/unknown_version_refused")
		} else {
			fail("version-not-in-bytes", "the encoding of a %s entity does not carry its version", to)
		}
		st.Case()
		st.Class("versioned/" + w0.TypeName() + ":" + from + "->" + to)
		st.ClassN("versioned/common_fields_compared", nCommon)
		leaves, _ := valgen.NonZeroLeaves(reflect.ValueOf(e))
		if leaves >= 3 {
			st.NonTrivial("versioned", c.key(), from, string(b0))
		}
	})
}
