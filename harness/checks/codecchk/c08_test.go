package codecchk

import (
	"bytes"
	"encoding/binary"
	"fmt"
	"os"
	"reflect"
	"sort"
	"strings"
	"testing"
	"time"

	"0chain.net/chaincore/node"
	"0chain.net/chaincore/state"
	"0chain.net/core/util/entitywrapper"
	"github.com/0chain/common/core/util"
	"pgregory.net/rapid"
	"verifharness/checks/codecchk/scan"
	"verifharness/checks/valgen"
	"verifharness/checks/valgen/wrapgen"
	"verifharness/vkeys"
	"verifharness/vkit"
	"verifharness/vlog"
)

// C08: every value the contracts store in state decodes back to an equal value, and re-encoding the decoded value
// yields identical bytes; entities stored under an older schema version still decode and migrate without losing any of
// their common fields.

func TestMain(m *testing.M) {
	vlog.Quiet()
	vkit.Main(m)
}

type codec = util.MPTSerializable

type ctype struct {
	pkg, name string
	ctor      func() interface{}
}

func (c ctype) key() string { return c.pkg + "." + c.name }

// allTypes is the registry (generated from the working tree by ./gen), sorted.
func allTypes() []ctype {
	var out []ctype
	for pkg, m := range registry {
		for name, f := range m {
			out = append(out, ctype{pkg: pkg, name: name, ctor: f})
		}
	}
	sort.Slice(out, func(i, j int) bool { return out[i].key() < out[j].key() })
	return out
}

// coverage compares the registry with what the sources of the tree under test declare right now.
func coverage(t *testing.T, st *vkit.Stats) []ctype {
	found, err := scan.Types(scan.ModuleRoot())
	if err != nil {
		t.Fatalf("VERIF-HARNESS-ERROR source scan: %v", err)
	}
	types := allTypes()
	have := map[string]bool{}
	for _, c := range types {
		have[c.key()] = true
	}
	var missing, excluded, generic []string
	nFound := 0
	for _, f := range found {
		if ex, why := scan.Excluded(f.Dir); ex {
			excluded = append(excluded, f.Key()+" ("+why+")")
			continue
		}
		if f.Generic {
			generic = append(generic, f.Key())
			continue
		}
		nFound++
		if !have[f.Key()] {
			missing = append(missing, f.Key())
		}
	}
	// (text, not numbers: the driver adds numeric extras up over shards)
	st.Extra("types_covered_of_found", fmt.Sprintf("%d / %d", len(types)-len(notCodec(types)), nFound))
	st.Extra("types_excluded", excluded)
	st.Extra("types_generic_skipped", generic)
	if len(missing) > 0 {
		t.Fatalf("VERIF-HARNESS-ERROR the working tree declares codec types that the C08 registry does not cover; regenerate it (cd /verif/harness && go run ./checks/codecchk/gen -shims <overlay root> -registry checks/codecchk/registry_gen_test.go): %v", missing)
	}
	if bad := notCodec(types); len(bad) > 0 {
		t.Fatalf("VERIF-HARNESS-ERROR registry entries without MarshalMsg/UnmarshalMsg: %v", bad)
	}
	verifyDead(t, st, types)
	var live []ctype
	for _, c := range types {
		if deadTypes[c.key()] != "skip" {
			live = append(live, c)
		}
	}
	return live
}

func notCodec(types []ctype) []string {
	var bad []string
	for _, c := range types {
		if _, ok := c.ctor().(codec); !ok {
			bad = append(bad, c.key())
		}
	}
	return bad
}

// deadTypes: codec types that no code of the node references (verified against the sources at check time, see
// verifyDead). They cannot be "values the contracts store"; what the check does about each is stated here.
var deadTypes = map[string]string{
	// embeds the interface TokenLockInterface, for which the tree has no implementation besides test mocks, so no
	// value can be built; MarshalMsg dereferences the nil interface. Not generated at all.
	"0chain.net/chaincore/tokenpool.ZcnLockingPool": "skip",
	// "Deprecated" REST statistics shape; msgp generated an EMPTY codec for it (it cannot encode the map key type
	// datastore.Key of its only field), so the field is exempt from the equality oracle; everything else applies.
	"0chain.net/smartcontract/stakepool.UserPoolStat": "field:Pools",
}

func verifyDead(t *testing.T, st *vkit.Stats, types []ctype) {
	var notes []string
	for _, c := range types {
		how, ok := deadTypes[c.key()]
		if !ok {
			continue
		}
		dir := strings.TrimPrefix(c.pkg, "0chain.net/")
		refs, err := scan.References(scan.ModuleRoot(), dir, dir[strings.LastIndex(dir, "/")+1:], c.name)
		if err != nil {
			t.Fatalf("VERIF-HARNESS-ERROR reference scan: %v", err)
		}
		if len(refs) > 0 {
			t.Fatalf("VERIF-HARNESS-ERROR %s is exempted as dead code (%s) but is referenced by %v: the exemption is void, remove it and triage", c.key(), how, refs)
		}
		notes = append(notes, c.key()+": unreferenced in the tree -> "+how)
	}
	st.Extra("types_exempted_as_dead_code", notes)
}

var (
	poolType    = reflect.TypeOf(node.Pool{})
	poolPtrType = reflect.TypeOf(&node.Pool{})
	stateType   = reflect.TypeOf(state.State{})
	wrapperType = reflect.TypeOf(entitywrapper.Wrapper{})
)

// findingPoolCodec: node.Pool.UnmarshalMsg decodes into a temporary and never copies Type / NodesMap into the receiver:
// a decoded pool has lost its type and answers from an empty node map, and re-encodes as an empty miner pool. Affects
// every entity that holds a pool (MagicBlock, minersc GlobalNode.PrevMagicBlock). While it is listed as an open finding
// pools are generated as empty miner pools only (the one shape that survives).
const findingPoolCodec = "pool-decode-drops-type-and-nodes"

var safePools bool

func isPoolClass(c ctype, diff string) bool {
	return c.key() == "0chain.net/chaincore/node.Pool" || strings.Contains(diff, ".Miners.") || strings.Contains(diff, ".Sharders.")
}

func buildPool(t *rapid.T, g *valgen.Gen) *node.Pool {
	if safePools {
		return node.NewPool(node.NodeTypeMiner)
	}
	tp := node.NodeType(rapid.SampledFrom([]int{int(node.NodeTypeMiner), int(node.NodeTypeSharder), int(node.NodeTypeBlobber)}).Draw(t, "poolType"))
	p := node.NewPool(tp)
	n := rapid.IntRange(0, 3).Draw(t, "poolNodes")
	for i := 0; i < n; i++ {
		nd := node.Provider()
		nd.Type = tp
		nd.PublicKey = vkeys.BLS(vkit.Seed(), "c08-node", rapid.IntRange(0, 7).Draw(t, "nodeKey")).GetPublicKey()
		nd.ID = vkeys.ID(nd.PublicKey)
		nd.Host = g.String(t)
		nd.N2NHost = g.String(t)
		nd.Path = g.String(t)
		nd.Port = rapid.IntRange(0, 65535).Draw(t, "port")
		nd.Description = g.String(t)
		nd.Status = rapid.IntRange(0, 1).Draw(t, "nodeStatus")
		nd.InPrevMB = rapid.Bool().Draw(t, "inPrevMB")
		nd.Info.BuildTag = g.String(t)
		nd.Info.AvgBlockTxns = rapid.IntRange(0, 1000).Draw(t, "avgTxns")
		if err := p.AddNode(nd); err != nil {
			t.Fatalf("VERIF-HARNESS-ERROR AddNode: %v", err)
		}
	}
	return p
}

// newGen: the reflective generator with the invariants the codecs document:
//   - a versioned wrapper always carries an entity of a registered version (Wrapper.MarshalMsg refuses a nil entity);
//   - a node pool is built through the pool API from nodes with valid public keys (Pool.UnmarshalMsg derives the
//     signature scheme from the key and refuses garbage);
//   - state.State carries a 32-byte transaction hash (State.Encode: fixed layout, "can't be deserialized" otherwise);
//   - container elements are never nil (StorageAllocation.UnmarshalMsg indexes its blobber list by element).
func newGen(extreme bool) *valgen.Gen {
	g := &valgen.Gen{MaxLen: 3, MaxDepth: 9, Extreme: extreme}
	g.StructHook = wrapgen.Hook
	g.Hooks = map[reflect.Type]valgen.Hook{
		poolPtrType: func(t *rapid.T, g *valgen.Gen, v reflect.Value, depth int) bool {
			if rapid.IntRange(0, 3).Draw(t, "nilPool") == 0 {
				v.Set(reflect.Zero(poolPtrType))
				return true
			}
			v.Set(reflect.ValueOf(buildPool(t, g)))
			return true
		},
		poolType: func(t *rapid.T, g *valgen.Gen, v reflect.Value, depth int) bool {
			p := buildPool(t, g)
			v.FieldByName("Type").Set(reflect.ValueOf(p.Type))
			v.FieldByName("Nodes").Set(reflect.ValueOf(p.Nodes))
			v.FieldByName("NodesMap").Set(reflect.ValueOf(p.NodesMap))
			return true
		},
		stateType: func(t *rapid.T, g *valgen.Gen, v reflect.Value, depth int) bool {
			s := v.Addr().Interface().(*state.State)
			h := rapid.SliceOfN(rapid.Byte(), 32, 32).Draw(t, "txnHash")
			if err := s.SetTxnHash(fmt.Sprintf("%x", h)); err != nil {
				t.Fatalf("VERIF-HARNESS-ERROR SetTxnHash: %v", err)
			}
			gg := &valgen.Gen{Extreme: true}
			gg.FillAt(t, v.FieldByName("Round"), depth+1, false)
			gg.FillAt(t, v.FieldByName("Balance"), depth+1, false)
			gg.FillAt(t, v.FieldByName("Nonce"), depth+1, false)
			return true
		},
	}
	return g
}

// exempt: narrowly documented fields that a codec legitimately does not carry (reason from the code).
func exempt(owner reflect.Type, f reflect.StructField) (bool, string) {
	if valgen.MsgSkipped(f) {
		return true, "declared transient (msg:\"-\")"
	}
	if !f.IsExported() && owner != wrapperType {
		return true, "unexported field (msgp encodes exported fields only)"
	}
	if how := deadTypes[owner.PkgPath()+"."+owner.Name()]; how == "field:"+f.Name {
		return true, "dead code with an empty generated codec (see deadTypes)"
	}
	switch owner {
	case stateType:
		if f.Name == "TxnHash" {
			return true, "State.TxnHash is the hex form of TxnHashBytes, derived by ComputeProperties (tag msgpack:\"-\")"
		}
	}
	return false, ""
}

func guard(what string, f func()) (panicked interface{}, hung bool) {
	done := make(chan interface{}, 1)
	go func() {
		defer func() { done <- recover() }()
		f()
	}()
	select {
	case r := <-done:
		return r, false
	case <-time.After(60 * time.Second):
		return nil, true
	}
}

// category maps a type to the wording of the property's quantifier (for the class histogram).
func category(c ctype) string {
	n := strings.ToLower(c.name)
	p := c.pkg
	switch {
	case strings.HasSuffix(p, "chaincore/state"):
		return "balances_state"
	case strings.Contains(p, "stakepool") || strings.Contains(n, "stakepool") || strings.Contains(n, "delegatepool"):
		return "stake_pools"
	case strings.Contains(p, "partitions") || strings.Contains(n, "partition"):
		return "partitions"
	case strings.Contains(n, "magicblock") || strings.Contains(n, "mpk") || strings.Contains(n, "shareorsign") || strings.HasSuffix(p, "chaincore/node"):
		return "magic_blocks_and_node_pools"
	case strings.Contains(n, "phase") || strings.Contains(n, "dkg"):
		return "phase_dkg_records"
	case strings.Contains(p, "minersc"):
		return "miner_sharder_nodes_and_globals"
	case strings.Contains(n, "allocation"):
		return "allocations"
	case strings.Contains(n, "challenge"):
		return "challenges_and_challenge_pools"
	case strings.Contains(n, "blobber") || strings.Contains(n, "storagenode") || strings.Contains(n, "validat"):
		return "blobbers_validators"
	case strings.Contains(p, "vestingsc"):
		return "vesting_records"
	case strings.Contains(p, "zcnsc"):
		return "bridge_records"
	case strings.Contains(p, "storagesc"):
		return "other_storage_records"
	}
	return "other:" + p[strings.LastIndex(p, "/")+1:]
}

func enc(v interface{}) (b []byte, err error) {
	r, hung := guard("MarshalMsg", func() { b, err = v.(codec).MarshalMsg(nil) })
	if hung {
		return nil, fmt.Errorf("VERIF-HANG MarshalMsg")
	}
	if r != nil {
		return nil, fmt.Errorf("panic: %v", r)
	}
	return
}

func dec(v interface{}, b []byte) (left []byte, err error) {
	r, hung := guard("UnmarshalMsg", func() { left, err = v.(codec).UnmarshalMsg(b) })
	if hung {
		return nil, fmt.Errorf("VERIF-HANG UnmarshalMsg")
	}
	if r != nil {
		return nil, fmt.Errorf("panic: %v", r)
	}
	return
}

func TestC08_RoundTrip(t *testing.T) {
	st := vkit.For("C08").SetRule("per case one stored entity type drawn from the registry of ALL types of the working tree that have MarshalMsg and UnmarshalMsg (source scan at check time: types_covered / types_found), one value from a reflective generator (every exported and unexported field, nil / empty / 1..3-element containers, nested pointers, boundary and maximal numbers, empty / id-like / unicode / long strings; versioned wrappers carry an entity of a drawn registered version; node pools are built through the pool API; State carries a 32-byte hash); oracles: (1) dec(enc(x)) succeeds and consumes all bytes, enc(dec(enc(x))) == enc(x); (2) dec(enc(x)) equals x structurally on every exported field not declared transient (nil == empty container); (3) enc is repeatable and a deep copy whose maps were filled in the opposite insertion order encodes to the same bytes; non-trivial = value with >= 3 non-zero leaves and, if it has a container, a non-empty one; distinct by (type, encoding)")
	st.Assume("a stored versioned wrapper always carries an entity; pools hold nodes with valid public keys; State carries a 32-byte transaction hash; container elements are not nil")
	types := coverage(t, st)
	cmp := &valgen.Cmp{Ignore: func(owner reflect.Type, f reflect.StructField) bool { ex, _ := exempt(owner, f); return ex }}
	perType := map[string]int64{}
	safePools = st.IsKnown(findingPoolCodec)
	probePoolCodec(t, st)
	rapid.Check(t, func(t *rapid.T) {
		c := types[rapid.IntRange(0, len(types)-1).Draw(t, "type")]
		roundTrip(t, st, cmp, c, perType)
	})
	low := 0
	for _, c := range types {
		if perType[c.key()] == 0 {
			low++
		}
	}
	st.Extra("types_without_a_case_in_this_process", fmt.Sprint(low))
}

func typeHasContainer(tp reflect.Type, depth int) bool {
	if depth > 6 {
		return false
	}
	switch tp.Kind() {
	case reflect.Slice:
		return tp.Elem().Kind() != reflect.Uint8 || true
	case reflect.Map:
		return true
	case reflect.Ptr:
		return typeHasContainer(tp.Elem(), depth+1)
	case reflect.Struct:
		for i := 0; i < tp.NumField(); i++ {
			if typeHasContainer(tp.Field(i).Type, depth+1) {
				return true
			}
		}
	}
	return false
}

func roundTrip(t *rapid.T, st *vkit.Stats, cmp *valgen.Cmp, c ctype, perType map[string]int64) {
	g := newGen(rapid.IntRange(0, 3).Draw(t, "extreme") == 0)
	x := c.ctor()
	g.Fill(t, reflect.ValueOf(x).Elem())
	fail := func(key, f string, a ...interface{}) {
		t.Fatalf("%s", vkit.Violation("C08", key+":"+c.key(), "%s: %s", c.key(), fmt.Sprintf(f, a...)))
	}
	b1, err := enc(x)
	if err != nil {
		fail("encode-error", "a generated value does not encode: %v", err)
	}
	if sv, ok := x.(*state.State); ok {
		// the documented fixed layout (chaincore/state/state.go): 32 hash bytes, then round, balance, nonce as
		// little-endian 64-bit words
		want := append([]byte{}, sv.TxnHashBytes...)
		for _, w := range []uint64{uint64(sv.Round), uint64(sv.Balance), uint64(sv.Nonce)} {
			var le [8]byte
			binary.LittleEndian.PutUint64(le[:], w)
			want = append(want, le[:]...)
		}
		if !bytes.Equal(b1, want) {
			fail("state-layout", "State does not encode to hash(32) | round | balance | nonce (little endian): %d bytes %x", len(b1), b1)
		}
		st.Class("state_fixed_layout_checked")
	}
	y := c.ctor()
	left, err := dec(y, b1)
	if err != nil {
		fail("decode-error", "its own encoding (%d bytes) does not decode: %v", len(b1), err)
	}
	if len(left) != 0 {
		fail("decode-leaves-bytes", "decoding its own encoding leaves %d of %d bytes unread", len(left), len(b1))
	}
	b2, err := enc(y)
	if err != nil {
		fail("reencode-error", "the decoded value does not encode: %v", err)
	}
	if !bytes.Equal(b1, b2) {
		_, diff := cmp.Equiv(x, y)
		fail("not-idempotent", "enc(dec(enc(x))) differs from enc(x) (%d vs %d bytes); first structural difference: %s", len(b2), len(b1), diff)
	}
	if ok, diff := cmp.Equiv(x, y); !ok {
		fail("lossy", "dec(enc(x)) differs from x at %s", diff)
	}
	// (3) canonical: repeatable, independent of map insertion order
	b1b, err := enc(x)
	if err != nil || !bytes.Equal(b1, b1b) {
		fail("encoding-not-repeatable", "encoding the same value twice gives different bytes (err %v)", err)
	}
	for _, desc := range []bool{false, true} {
		x2 := valgen.CopyReordered(reflect.ValueOf(x), desc).Interface()
		b3, err := enc(x2)
		if err != nil {
			fail("encode-error", "a deep copy of the value does not encode: %v", err)
		}
		if !bytes.Equal(b1, b3) {
			_, diff := cmp.Equiv(x, x2)
			fail("map-order-dependent-encoding", "a deep copy with maps filled in another insertion order encodes differently (%d vs %d bytes; structural difference of the copy, if any: %s)", len(b3), len(b1), diff)
		}
	}
	st.Case()
	perType[c.key()]++
	st.Class(category(c))
	leaves, container := valgen.NonZeroLeaves(reflect.ValueOf(x))
	hasContainer := typeHasContainer(reflect.TypeOf(x).Elem(), 0)
	nontrivial := leaves >= 3 && (!hasContainer || container)
	if nontrivial {
		st.NonTrivial(c.key(), string(b1))
	}
	if st.WantSample(nontrivial) {
		st.Sample(nontrivial, map[string]interface{}{"type": c.key(), "bytes": len(b1), "non_zero_leaves": leaves})
	}
}

// TestC08_Survey (development aid, C08_SURVEY=1): the same oracles per type, so that one run lists every failing type.
func TestC08_Survey(t *testing.T) {
	if os.Getenv("C08_SURVEY") == "" {
		t.Skip("development aid")
	}
	st := vkit.For("C08-survey")
	types := allTypes()
	cmp := &valgen.Cmp{Ignore: func(owner reflect.Type, f reflect.StructField) bool { ex, _ := exempt(owner, f); return ex }}
	for _, c := range types {
		c := c
		t.Run(c.key(), func(t *testing.T) {
			rapid.Check(t, func(t *rapid.T) { roundTrip(t, st, cmp, c, map[string]int64{}) })
		})
	}
}

// probePoolCodec records whether the listed pool finding still reproduces (fixed minimal value; never decides).
func probePoolCodec(t *testing.T, st *vkit.Stats) {
	if !st.IsKnown(findingPoolCodec) {
		return
	}
	p := node.NewPool(node.NodeTypeSharder)
	b1, err1 := p.MarshalMsg(nil)
	q := &node.Pool{}
	_, err2 := q.UnmarshalMsg(b1)
	b2, err3 := q.MarshalMsg(nil)
	if err1 != nil || err2 != nil || err3 != nil {
		t.Fatalf("VERIF-HARNESS-ERROR pool probe: %v %v %v", err1, err2, err3)
	}
	if !bytes.Equal(b1, b2) {
		st.Known(findingPoolCodec)
	} else {
		st.Class("known_finding_no_longer_reproduces:" + findingPoolCodec)
	}
}
