package zcnchk

import (
	"0chain.net/core/common"
	"0chain.net/chaincore/transaction"
	"fmt"
	"testing"

	"github.com/0chain/common/core/currency"
	"pgregory.net/rapid"
	"verifharness/sim"
	"verifharness/simzcn"
	"verifharness/vkit"
)

// C21: a multisig transfer proposal is executed exactly once, and only after the required number of distinct
// registered signers have cast compatible, validly signed votes before it expired; repeated votes by one signer do
// not count; the executed transfer carries a valid threshold signature of the wallet.
func TestC21_MultisigExecutesOnce(t *testing.T) {
	s := boot(t)
	st := vkit.For("C21").SetRule("wallets with n in 2..6 signers and threshold t in 2..n (BLS threshold shares of the wallet key), registered and funded through real transactions; 8..30 votes over 1..3 proposal ids: signer index (repeats), valid or invalid share signature, a transfer that differs from the proposal's (incompatible), votes sent by a non-signer, time jumps beyond the one-week proposal lifetime, votes after execution; model: per proposal the set of distinct signers whose valid compatible votes were accepted within one lifetime window; oracle: the wallet's balance decreases only in a vote that brings that set to >= t, by exactly the proposal's amount, to the proposal's recipient, at most once per proposal id and window, and the stored wallet signature verifies under the wallet's key; non-trivial = proposal executed after >= 1 duplicate vote and >= 1 refused vote; distinct by history")
	rapid.Check(t, func(t *rapid.T) {
		h := s.NewHistory(s.Genesis)
		n := rapid.IntRange(2, 6).Draw(t, "n")
		th := rapid.IntRange(2, n).Draw(t, "t")
		owner := s.Clients[5]
		m, err := simzcn.NewMultiSig(owner, th, n)
		if err != nil {
			t.Fatalf("VERIF-HARNESS-ERROR %v", err)
		}
		if err := m.FundSigners(h, s.Owner, 5*simzcn.ZCN); err != nil {
			t.Fatalf("VERIF-HARNESS-ERROR %v", err)
		}
		if _, err := simzcn.Run(h, "register", m.Register(h)); err != nil {
			t.Fatalf("VERIF-HARNESS-ERROR %v", err)
		}
		h.NextBlock(1, 2)
		type prop struct {
			to       string
			amount   currency.Coin
			voters   map[int]bool
			created  int64
			live     bool
			executed bool
			dup, ref int
		}
		props := map[string]*prop{}
		ids := []string{"p1", "p2", "p3"}[:rapid.IntRange(1, 3).Draw(t, "proposals")]
		stranger := s.Clients[6]
		nv := rapid.IntRange(8, 30).Draw(t, "votes")
		nontrivial := false
		for i := 0; i < nv; i++ {
			switch rapid.IntRange(0, 12).Draw(t, "clock") {
			case 0:
				h.NextBlock(1, int64(simzcn.ProposalLifetime)+5)
			case 1, 2:
				h.NextBlock(1, 60)
			case 7:
				// move the chain's clock to the very end of a live proposal's lifetime (0..3 s past it)
				for _, id := range ids {
					if q := props[id]; q != nil && q.live {
						if d := q.created + int64(simzcn.ProposalLifetime) - int64(h.Now); d > 0 {
							h.NextBlock(1, d+int64(rapid.IntRange(0, 3).Draw(t, "pastExpiry")))
							st.Class("clock_moved_to_the_end_of_a_lifetime")
							break
						}
					}
				}
			}
			pid := ids[rapid.IntRange(0, len(ids)-1).Draw(t, "proposal")]
			p := props[pid]
			if p == nil {
				p = &prop{to: s.Clients[rapid.IntRange(0, 3).Draw(t, "to")].ID, amount: currency.Coin(rapid.SampledFrom([]uint64{1, 7e10, 123456789}).Draw(t, "amount")), voters: map[int]bool{}}
				props[pid] = p
			}
			now := int64(h.Now)
			if p.live && now-p.created >= int64(simzcn.ProposalLifetime) {
				// the lifetime window is over: whatever was collected no longer counts
				p.live, p.voters, p.executed = false, map[int]bool{}, false
			}
			signer := rapid.IntRange(0, n-1).Draw(t, "signer")
			kind := rapid.SampledFrom([]string{"valid", "valid", "valid", "bad-signature", "incompatible", "non-signer"}).Draw(t, "kind")
			to, amount := p.to, p.amount
			valid := kind != "bad-signature"
			if kind == "incompatible" && p.live {
				amount += 3
			}
			var txnOwnerBefore = sim.ViewOf(h.Cur.B).Balance(owner.ID)
			recvBefore := sim.ViewOf(h.Cur.B).Balance(to)
			var o sim.Outcome
			var vtxn *transaction.Transaction
			if kind == "non-signer" {
				v := m.NewVote(pid, to, amount, signer, true)
				vtxn = m.VoteRaw(h, stranger, v)
			} else {
				vtxn = m.Vote(h, pid, to, amount, signer, valid)
			}
			if sk := rapid.SampledFrom([]int64{0, 0, 0, 1, 5, 60}).Draw(t, "txnDatedEarlier"); sk > 0 {
				// the sender dates the transaction a little before the block that carries it (any date within the
				// chain's tolerance is admitted): expiry is a matter of the chain's clock, not of the sender's
				vtxn.CreationDate -= common.Timestamp(sk)
				vtxn.Hash = vtxn.ComputeHash()
				st.Class("vote_dated_before_its_block")
			}
			o, err = h.Do(vtxn)
			if err != nil {
				t.Fatalf("%s", err.Error())
			}
			if o.Rejected {
				// e.g. the executing vote finds the wallet without funds: nothing happened
				p.ref++
				continue
			}
			ownerAfter := sim.ViewOf(h.Cur.B).Balance(owner.ID)
			recvAfter := sim.ViewOf(h.Cur.B).Balance(to)
			what := fmt.Sprintf("wallet %d-of-%d, proposal %s (%d to %s), vote of signer %d kind %s", th, n, pid, p.amount, h.Label(p.to), signer, kind)
			counted := false
			countable := kind != "non-signer" && valid && amount == p.amount
			if !o.Failed && countable {
				if !p.live {
					p.live, p.created = true, now
				}
				if p.voters[signer] {
					p.dup++
				} else if !p.executed {
					p.voters[signer] = true
					counted = true
				}
			} else if o.Failed {
				p.ref++
			} else if !o.Failed && (kind == "bad-signature" || kind == "non-signer" || (kind == "incompatible" && amount != p.amount)) {
				// accepted without failing: it must at least not move anything (checked below) - e.g. "already executed" answers
			}
			moved := txnOwnerBefore - ownerAfter
			if ownerAfter > txnOwnerBefore {
				moved = 0
			}
			if moved > 0 {
				if p.executed {
					t.Fatalf("%s", viol("C21", "executed-twice", h, "the wallet paid %d again for an already executed proposal :: %s", moved, what))
				}
				if !counted || len(p.voters) < th {
					t.Fatalf("%s", viol("C21", "executed-without-quorum", h, "the wallet paid %d with %d distinct valid votes (threshold %d, this vote counted: %v) :: %s", moved, len(p.voters), th, counted, what))
				}
				if moved != uint64(p.amount) || recvAfter-recvBefore != uint64(p.amount) {
					t.Fatalf("%s", viol("C21", "wrong-transfer", h, "wallet lost %d, recipient gained %d, proposal amount %d :: %s", moved, recvAfter-recvBefore, p.amount, what))
				}
				pv, err := m.ProposalAt(s, h.Cur.B, pid)
				if err != nil || !pv.Executed {
					t.Fatalf("%s", viol("C21", "not-marked-executed", h, "the transfer was made but the proposal is not marked executed (err %v) :: %s", err, what))
				}
				if !m.WalletSignatureValid(pv) {
					t.Fatalf("%s", viol("C21", "invalid-wallet-signature", h, "the executed transfer's signature does not verify under the wallet's key :: %s", what))
				}
				p.executed = true
				st.Class("executed")
				if p.dup >= 1 && p.ref >= 1 {
					nontrivial = true
				}
			} else if counted && len(p.voters) >= th && !p.executed && uint64(p.amount) <= txnOwnerBefore {
				t.Fatalf("%s", viol("C21", "quorum-not-executed", h, "%d distinct valid votes reached the threshold %d but nothing was transferred (output %q) :: %s", len(p.voters), th, o.Output, what))
			}
		}
		st.Case()
		if nontrivial {
			st.NonTrivial(th, n, fmt.Sprint(h.Render(0)))
		}
		if st.WantSample(nontrivial) {
			st.Sample(nontrivial, map[string]interface{}{"t": th, "n": n, "history": h.Render(25)})
		}
	})
}
