package zcnchk

import (
	"fmt"
	"sort"
	"sync"
	"testing"

	"0chain.net/core/encryption"
	"github.com/0chain/common/core/currency"
	"pgregory.net/rapid"
	"verifharness/sim"
	"verifharness/simzcn"
	"verifharness/vkit"
)

func TestMain(m *testing.M) { vkit.Main(m) }

var (
	bootOnce sync.Once
	theSim   *sim.Sim
	bootErr  error
)

func boot(t *testing.T) *sim.Sim {
	bootOnce.Do(func() { theSim, bootErr = sim.Boot(sim.Options{EventDb: true}) })
	if bootErr != nil {
		t.Fatalf("VERIF-HARNESS-ERROR boot: %v", bootErr)
	}
	return theSim
}

func viol(prop, key string, h *sim.History, format string, a ...interface{}) string {
	return vkit.Violation(prop, key, "%s :: last steps %v", fmt.Sprintf(format, a...), h.Render(6))
}

// C18: tokens are minted only with valid signatures of at least the configured fraction of distinct registered
// authorizers over (burn reference, amount, nonce, receiver), submitted by the receiver; each nonce mints at most once;
// the client receives the amount minus the authorizer fee, which is credited to an authorizer.
func TestC18_MintNeedsQuorumOnce(t *testing.T) {
	s := boot(t)
	st := vkit.For("C18").SetRule("bridge worlds with 1..6 authorizers registered through real transactions and percent_authorizers in {0.3,0.5,0.7,1} (threshold = round-half-even(percent*k), the contract's documented rounding), optional deletion of an authorizer mid-history; 6..20 mint requests whose signature list is drawn from a grammar: per entry an authorizer index (repeats allowed, deleted ones included) and a kind in {valid, well-formed signature of that authorizer over another amount / nonce / receiver / eth txn, well-formed signature of an unregistered key under that id, garbage text, garbage hex, empty}; submitter = receiver or another client; amounts around min_mint / max_fee; nonces from a small set so they repeat; oracle on success: #distinct registered authorizers whose LAST listed signature verifies over the exact message >= threshold and no listed (deduplicated, truncated to the authorizer count) signature is invalid-but-counted, submitter == receiver, nonce not minted before, receiver gains amount - fee with 0 <= fee <= max_fee, the bridge wallet loses exactly that, nonce recorded; on failure the nonce stays un-minted and no balance but the fee moves; a request with a clean distinct quorum is accepted; non-trivial = request with >= threshold entries of which >= 1 is a well-formed forgery; distinct by (k, percent, request)")
	st.Assume("'configured fraction' is read as the contract's round-half-to-even(percent_authorizers * registered authorizers)")
	rapid.Check(t, func(t *rapid.T) {
		h := s.NewHistory(s.Genesis)
		k := rapid.IntRange(1, 6).Draw(t, "authorizers")
		percent := rapid.SampledFrom([]string{"0.3", "0.5", "0.7", "1"}).Draw(t, "percent")
		cfg := map[string]string{"percent_authorizers": percent, "min_stake": "0.0000000001", "min_stake_per_delegate": "0"}
		if rapid.Bool().Draw(t, "strictStake") {
			cfg["min_stake_per_delegate"] = "1"
		}
		b, err := simzcn.SetupBridgeWith(h, k, simzcn.Options{Config: cfg})
		if err != nil {
			t.Fatalf("VERIF-HARNESS-ERROR setup: %v", err)
		}
		h.NextBlock(1, 2)
		conf, err := simzcn.Config(s, h.Cur.B)
		if err != nil {
			t.Fatalf("VERIF-HARNESS-ERROR %v", err)
		}
		registered := map[int]bool{}
		for i := 0; i < k; i++ {
			registered[i] = true
		}
		minted := map[int64]bool{}
		nReq := rapid.IntRange(6, 32).Draw(t, "requests")
		var mintedOrder []int64
		var nextNonce int64
		nontrivial := 0
		for r := 0; r < nReq; r++ {
			if rapid.IntRange(0, 9).Draw(t, "deleteAuthorizer") == 0 && len(registered) > 1 {
				var live []int
				for i := range registered {
					live = append(live, i)
				}
				sort.Ints(live)
				d := live[rapid.IntRange(0, len(live)-1).Draw(t, "which")]
				if o, err := h.Do(b.DeleteAuthorizer(b.Auths[d].Delegate, b.Auths[d].ID())); err != nil {
					t.Fatalf("%s", err.Error())
				} else if !o.Failed && !o.Rejected {
					delete(registered, d)
				}
				continue
			}
			if rapid.IntRange(0, 5).Draw(t, "newBlock") == 0 {
				h.NextBlock(1, 3)
			}
			recv := s.Clients[rapid.IntRange(0, 3).Draw(t, "receiver")]
			sub := recv
			if rapid.IntRange(0, 5).Draw(t, "foreignSubmitter") == 0 {
				sub = s.Clients[4+rapid.IntRange(0, 2).Draw(t, "submitter")]
			}
			amount := currency.Coin(rapid.SampledFrom([]uint64{conf.MinMint, conf.MinMint - 1, conf.MaxFee, conf.MaxFee - 1, conf.MaxFee + 1, 5e12, 77777777777777, 1e15}).Draw(t, "amount"))
			// nonces: the next unused one, one that was minted already (replay; the contract packs minted nonces into
			// partitions of 5, so replays of early ones after >= 6 mints matter), or any small one
			var nonce int64
			switch nk := rapid.SampledFrom([]string{"next", "next", "minted", "any", "next", "minted"}).Draw(t, "nonceKind"); {
			case nk == "minted" && len(mintedOrder) > 0:
				nonce = mintedOrder[rapid.IntRange(0, len(mintedOrder)-1).Draw(t, "mintedNonce")]
			case nk == "any":
				nonce = int64(rapid.IntRange(1, 16).Draw(t, "nonce"))
			default:
				nextNonce++
				nonce = nextNonce
			}
			eth := fmt.Sprintf("0xeth%d", rapid.IntRange(0, 3).Draw(t, "eth"))
			n := rapid.IntRange(0, k+2).Draw(t, "sigs")
			clean := rapid.IntRange(0, 2).Draw(t, "cleanQuorum") == 1 // every authorizer once, all genuine: keeps successful mints coming
			if clean {
				n = k
			}
			specs := make([]simzcn.SigSpec, n)
			forged := false
			for i := range specs {
				kind := simzcn.SigValid
				if !clean && rapid.IntRange(0, 2).Draw(t, "invalid") == 0 {
					kind = rapid.SampledFrom(simzcn.SigKinds[1:]).Draw(t, "kind")
				}
				specs[i] = simzcn.SigSpec{Authorizer: rapid.IntRange(0, k-1).Draw(t, "auth"), Kind: kind}
				if clean {
					specs[i].Authorizer = i
				}
				if kind >= simzcn.SigOtherAmount && kind <= simzcn.SigForeignKey {
					forged = true
				}
			}
			regCount, err := simzcn.AuthorizerCount(s, h.Cur.B)
			if err != nil {
				t.Fatalf("VERIF-HARNESS-ERROR %v", err)
			}
			threshold := simzcn.MintThreshold(conf.PercentAuthorizers, regCount)
			// what the request really carries: entries beyond the authorizer count are dropped, the last entry per id counts
			eff := specs
			if len(eff) > regCount {
				eff = eff[:regCount]
			}
			last := map[int]simzcn.SigKind{}
			for _, sp := range eff {
				last[sp.Authorizer] = sp.Kind
			}
			validDistinct, forgedCounted, cleanAll := 0, 0, true
			for a, kd := range last {
				if !registered[a] {
					cleanAll = false
					continue
				}
				if kd.Genuine() {
					validDistinct++
				} else {
					cleanAll = false
					if kd >= simzcn.SigOtherAmount && kd <= simzcn.SigForeignKey {
						forgedCounted++
					}
				}
			}
			wasMinted := minted[nonce]
			before := h.Snap()
			o, err := h.Do(b.MintWith(sub, recv.ID, eth, amount, nonce, specs...))
			if err != nil {
				t.Fatalf("%s", err.Error())
			}
			if o.Rejected {
				continue
			}
			after := h.Snap()
			what := fmt.Sprintf("k=%d registered=%d percent=%s threshold=%d sigs=%v submitter=%s receiver=%s amount=%d nonce=%d (minted before: %v)", k, regCount, percent, threshold, specs, h.Label(sub.ID), h.Label(recv.ID), amount, nonce, wasMinted)
			nowMinted, err := simzcn.Minted(s, h.Cur.B, nonce)
			if err != nil {
				t.Fatalf("VERIF-HARNESS-ERROR %v", err)
			}
			if len(specs) >= threshold && threshold > 0 && forged {
				nontrivial++
				st.NonTrivial(what)
			}
			if o.Failed {
				st.Class("mint_refused")
				if nowMinted != wasMinted {
					t.Fatalf("%s", viol("C18", "failed-mint-recorded-nonce", h, "a refused mint left the nonce recorded :: %s", what))
				}
				for id, bal := range after.Bal {
					if bal != before.Bal[id] && !(id == sub.ID || id == sim.MinerSC) {
						t.Fatalf("%s", viol("C18", "failed-mint-moved-tokens", h, "a refused mint changed the balance of %s :: %s", h.Label(id), what))
					}
				}
				if cleanAll && validDistinct >= threshold && validDistinct > 0 && sub.ID == recv.ID && !wasMinted && uint64(amount) >= conf.MinMint && uint64(amount) >= conf.MaxFee {
					t.Fatalf("%s", viol("C18", "clean-quorum-refused", h, "a mint with %d valid distinct signatures (threshold %d) was refused: %s :: %s", validDistinct, threshold, o.Output, what))
				}
				continue
			}
			st.Class("mint_accepted")
			if sub.ID != recv.ID {
				t.Fatalf("%s", viol("C18", "foreign-submitter", h, "mint accepted from a submitter that is not the receiving client :: %s", what))
			}
			if wasMinted {
				t.Fatalf("%s", viol("C18", "nonce-minted-twice", h, "nonce %d minted a second time :: %s", nonce, what))
			}
			if validDistinct < threshold || threshold == 0 && validDistinct == 0 {
				key := "quorum-not-reached"
				if forgedCounted > 0 {
					key = "forged-signature-accepted"
				}
				if !st.Known(key) {
					t.Fatalf("%s", viol("C18", key, h, "mint accepted with %d valid signatures of distinct registered authorizers, threshold %d (%d well-formed forgeries were counted) :: %s", validDistinct, threshold, forgedCounted, what))
				}
			} else if forgedCounted > 0 {
				if !st.Known("forged-signature-accepted") {
					t.Fatalf("%s", viol("C18", "forged-signature-accepted", h, "mint accepted although %d of the listed signatures are well-formed forgeries :: %s", forgedCounted, what))
				}
			}
			if !nowMinted {
				t.Fatalf("%s", viol("C18", "nonce-not-recorded", h, "accepted mint did not record its nonce :: %s", what))
			}
			minted[nonce] = true
			mintedOrder = append(mintedOrder, nonce)
			if len(mintedOrder) > 5 {
				st.Class("history_with_more_than_5_mints")
			}
			gain := int64(after.Bal[recv.ID]) - int64(before.Bal[recv.ID])
			fee := int64(amount) - gain
			if fee < 0 || uint64(fee) > conf.MaxFee {
				t.Fatalf("%s", viol("C18", "wrong-amount-minted", h, "receiver gained %d for a mint of %d (fee %d, max fee %d) :: %s", gain, amount, fee, conf.MaxFee, what))
			}
			if lost := int64(before.Bal[sim.ZcnSC]) - int64(after.Bal[sim.ZcnSC]); lost != gain {
				t.Fatalf("%s", viol("C18", "bridge-wallet-mismatch", h, "bridge wallet lost %d, receiver gained %d :: %s", lost, gain, what))
			}
			for id, bal := range after.Bal {
				if bal != before.Bal[id] && id != recv.ID && id != sim.ZcnSC && id != sim.MinerSC {
					t.Fatalf("%s", viol("C18", "mint-moved-other-balance", h, "mint changed the balance of %s :: %s", h.Label(id), what))
				}
			}
		}
		st.Case()
		if st.WantSample(nontrivial > 0) {
			st.Sample(nontrivial > 0, map[string]interface{}{"authorizers": k, "percent": percent, "history": h.Render(14)})
		}
	})
}

// C19: a successful burn moves exactly the value from the burner to the bridge wallet and increases the burn nonce of
// the target Ethereum address by one; burns below the minimum or without a target change nothing.
func TestC19_BurnLocksAndAdvancesNonce(t *testing.T) {
	s := boot(t)
	st := vkit.For("C19").SetRule("6..25 burns by 1..4 clients with values around min_burn (0, min-1, min, min+1, large, more than the balance), ethereum addresses drawn from a small pool (repeated and new) or empty, fees 0..; model: burn nonce per address counted from the observed successes; oracle: success => burner loses exactly value+fee, bridge wallet gains exactly value, nonce(address) == model+1, every other address' nonce unchanged; failure (below minimum, no address) => only fee and sender nonce; non-trivial = history with >= 2 successful burns to one address and >= 1 refused burn; distinct by history")
	rapid.Check(t, func(t *rapid.T) {
		h := s.NewHistory(s.Genesis)
		b := &simzcn.Bridge{H: h, Owner: s.Owner}
		conf, err := simzcn.Config(s, h.Cur.B)
		if err != nil {
			t.Fatalf("VERIF-HARNESS-ERROR %v", err)
		}
		addrs := []string{"0xAAAA", "0xBBBB", "0xcccc0000000000000000000000000000000000cc", encryption.Hash("eth")}
		model := map[string]int64{}
		n := rapid.IntRange(6, 25).Draw(t, "burns")
		refused := 0
		for i := 0; i < n; i++ {
			if rapid.IntRange(0, 5).Draw(t, "newBlock") == 0 {
				h.NextBlock(1, 3)
			}
			if rapid.IntRange(0, 9).Draw(t, "changeMinimum") == 6 {
				// the owner changes the bridge's minimum amounts in the middle of the history (min_burn and min_mint apart)
				f := map[string]string{
					"min_burn": rapid.SampledFrom([]string{"5", "1", "0.5", "20"}).Draw(t, "minBurn"),
					"min_mint": rapid.SampledFrom([]string{"1", "0.1", "7"}).Draw(t, "minMint"),
					"min_stake": "1", // the shipped min_stake 0 fails the contract's own validation of any update
				}
				if o, err := h.Do(b.UpdateGlobalConfig(s.Owner, f)); err != nil {
					t.Fatalf("%s", err.Error())
				} else if !o.Failed && !o.Rejected {
					if conf, err = simzcn.Config(s, h.Cur.B); err != nil {
						t.Fatalf("VERIF-HARNESS-ERROR %v", err)
					}
					st.Class("minimum_changed_mid_history")
				}
			}
			cl := s.Clients[rapid.IntRange(0, 3).Draw(t, "client")]
			bal := sim.ViewOf(h.Cur.B).Balance(cl.ID)
			value := currency.Coin(rapid.SampledFrom([]uint64{0, conf.MinBurn - 1, conf.MinBurn, conf.MinBurn + 1, 123456789012, bal / 2, bal + 1, conf.MinBurn / 2, 10000000000}).Draw(t, "value"))
			addr := ""
			if rapid.IntRange(0, 6).Draw(t, "noAddress") != 0 {
				addr = addrs[rapid.IntRange(0, len(addrs)-1).Draw(t, "addr")]
			}
			b.Fee = currency.Coin(rapid.SampledFrom([]uint64{0, 1, 1000}).Draw(t, "fee"))
			before := h.Snap()
			o, err := h.Do(b.Burn(cl, value, addr))
			if err != nil {
				t.Fatalf("%s", err.Error())
			}
			if o.Rejected {
				continue
			}
			after := h.Snap()
			what := fmt.Sprintf("burn of %d by %s to %q (min burn %d, fee %d)", value, h.Label(cl.ID), addr, conf.MinBurn, b.Fee)
			for _, a := range addrs {
				got, err := simzcn.BurnNonce(s, h.Cur.B, a)
				if err != nil {
					t.Fatalf("VERIF-HARNESS-ERROR %v", err)
				}
				want := model[a]
				if !o.Failed && a == addr {
					want++
				}
				if got != want {
					t.Fatalf("%s", viol("C19", "burn-nonce", h, "burn nonce of %s is %d, expected %d after %s (%s)", a, got, want, what, map[bool]string{true: "refused", false: "accepted"}[o.Failed]))
				}
			}
			lost := before.Bal[cl.ID] - after.Bal[cl.ID]
			gained := int64(after.Bal[sim.ZcnSC]) - int64(before.Bal[sim.ZcnSC])
			if o.Failed {
				refused++
				if lost != uint64(b.Fee) || gained != 0 {
					t.Fatalf("%s", viol("C19", "refused-burn-moved-tokens", h, "refused %s: burner lost %d, bridge gained %d", what, lost, gained))
				}
				if addr != "" && uint64(value) >= conf.MinBurn && uint64(value)+uint64(b.Fee) <= before.Bal[cl.ID] {
					t.Fatalf("%s", viol("C19", "valid-burn-refused", h, "%s was refused: %s", what, o.Output))
				}
				continue
			}
			if addr == "" || uint64(value) < conf.MinBurn {
				t.Fatalf("%s", viol("C19", "invalid-burn-accepted", h, "%s was accepted", what))
			}
			if lost != uint64(value)+uint64(b.Fee) || gained != int64(value) {
				t.Fatalf("%s", viol("C19", "burn-amounts", h, "%s: burner lost %d (value+fee %d), bridge wallet gained %d", what, lost, uint64(value)+uint64(b.Fee), gained))
			}
			model[addr]++
		}
		st.Case()
		two := false
		for _, c := range model {
			if c >= 2 {
				two = true
			}
		}
		nt := two && refused >= 1
		if nt {
			st.NonTrivial(fmt.Sprint(h.Render(0)))
		}
		if st.WantSample(nt) {
			st.Sample(nt, h.Render(20))
		}
	})
}
