// Package wrapgen teaches the reflective generator about versioned entities
// (core/util/entitywrapper): a wrapper value gets an entity of one of its
// registered versions, filled reflectively.
package wrapgen

import (
	"reflect"
	"sort"

	"0chain.net/core/util/entitywrapper"
	"pgregory.net/rapid"
	"verifharness/checks/valgen"
)

type wrapperI interface {
	TypeName() string
	SetEntity(entitywrapper.EntityI)
	Entity() entitywrapper.EntityI
}

// Versions lists the registered versions of a wrapper type name, sorted.
func Versions(typeName string) []string {
	fs, ok := entitywrapper.GetEntityVersionFuncs(typeName)
	if !ok {
		return nil
	}
	out := make([]string, 0, len(fs))
	for k := range fs {
		out = append(out, k)
	}
	sort.Strings(out)
	return out
}

// New returns a fresh entity of the given registered version.
func New(typeName, version string) entitywrapper.EntityI {
	fs, ok := entitywrapper.GetEntityVersionFuncs(typeName)
	if !ok || fs[version] == nil {
		return nil
	}
	return fs[version]()
}

// IsWrapper reports whether *tp is a registered versioned wrapper.
func IsWrapper(v reflect.Value) (wrapperI, bool) {
	if v.Kind() != reflect.Struct || !v.CanAddr() {
		return nil, false
	}
	a := v.Addr()
	if !a.CanInterface() {
		return nil, false
	}
	w, ok := a.Interface().(wrapperI)
	if !ok {
		return nil, false
	}
	if len(Versions(w.TypeName())) == 0 {
		return nil, false
	}
	return w, true
}

// Hook is a valgen.StructHook: every wrapper always carries an entity (a wrapper without one cannot be encoded, and no
// code path of the repository stores one), of a drawn registered version.
func Hook(t *rapid.T, g *valgen.Gen, v reflect.Value, depth int) bool {
	w, ok := IsWrapper(v)
	if !ok {
		return false
	}
	vs := Versions(w.TypeName())
	ver := rapid.SampledFrom(vs).Draw(t, "entityVersion")
	e := New(w.TypeName(), ver)
	g.FillAt(t, reflect.ValueOf(e).Elem(), depth+1, false)
	e.InitVersion()
	w.SetEntity(e)
	return true
}
