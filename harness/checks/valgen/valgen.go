// Package valgen holds the reflective value machinery shared by the C07 and C08
// checks: a rapid-driven generator that fills any Go value (incl. unexported
// fields), a deterministic deep in-place scrambler (for aliasing oracles) and a
// structural comparison that identifies nil and empty containers.
//
// It imports only rapid and the standard library, so in-package overlay tests of
// any 0chain package can use it.
package valgen

import (
	"fmt"
	"math"
	"reflect"
	"sort"
	"strings"
	"time"
	"unsafe"

	"pgregory.net/rapid"
)

// Hook fills v (settable) itself and reports true, or reports false to let the
// generic generator proceed.
type Hook func(t *rapid.T, g *Gen, v reflect.Value, depth int) bool

// Gen is a reflective generator.
type Gen struct {
	MaxLen   int // containers hold 0..MaxLen elements (default 3)
	MaxDepth int // pointers below that depth are nil, containers empty (default 7)
	// Hooks by exact type (struct, pointer, named scalar ...).
	Hooks map[reflect.Type]Hook
	// Skip leaves a struct field at its zero value.
	Skip func(owner reflect.Type, f reflect.StructField) bool
	// NonNil forces a pointer / map / slice field to be non-nil.
	NonNil func(owner reflect.Type, f reflect.StructField) bool
	// Extreme raises the share of boundary numbers (max / min).
	Extreme bool
	// StructHook is tried for every struct value before the generic field walk.
	StructHook Hook
}

var (
	timeType     = reflect.TypeOf(time.Time{})
	durationType = reflect.TypeOf(time.Duration(0))
)

// Opaque reports types that are never generated, scrambled or compared: locks,
// atomics, channels, functions.
func Opaque(t reflect.Type) bool {
	switch t.Kind() {
	case reflect.Chan, reflect.Func, reflect.UnsafePointer:
		return true
	}
	pp := t.PkgPath()
	return pp == "sync" || pp == "sync/atomic" || pp == "internal/sync"
}

// Access returns an addressable, settable view of a (possibly unexported) struct field.
func Access(f reflect.Value) reflect.Value {
	if f.CanSet() {
		return f
	}
	if !f.CanAddr() {
		return f
	}
	return reflect.NewAt(f.Type(), unsafe.Pointer(f.UnsafeAddr())).Elem()
}

func (g *Gen) maxLen() int {
	if g.MaxLen <= 0 {
		return 3
	}
	return g.MaxLen
}

func (g *Gen) maxDepth() int {
	if g.MaxDepth <= 0 {
		return 7
	}
	return g.MaxDepth
}

// Fill draws a value for v (which must be settable).
func (g *Gen) Fill(t *rapid.T, v reflect.Value) { g.fill(t, v, 0, false) }

// FillAt is Fill for hooks that recurse (depth as passed to the hook; nonNil forces a non-nil pointer / container).
func (g *Gen) FillAt(t *rapid.T, v reflect.Value, depth int, nonNil bool) {
	g.fill(t, v, depth, nonNil)
}

var shortAlphabet = []rune("abcdefghijklmnopqrstuvwxyz0123456789_-:/.")

// String draws a string of one of several shapes.
func (g *Gen) String(t *rapid.T) string {
	switch rapid.IntRange(0, 9).Draw(t, "strShape") {
	case 0:
		return ""
	case 1, 2, 3, 4:
		return rapid.StringOfN(rapid.RuneFrom(shortAlphabet), 1, 12, -1).Draw(t, "str")
	case 5, 6:
		// id-like: 64 hex characters
		b := rapid.SliceOfN(rapid.Byte(), 32, 32).Draw(t, "hex")
		return fmt.Sprintf("%x", b)
	case 7:
		return rapid.StringN(0, 8, -1).Draw(t, "ustr") // arbitrary unicode incl. control characters
	case 8:
		n := rapid.IntRange(32, 300).Draw(t, "longLen")
		return strings.Repeat(rapid.StringOfN(rapid.RuneFrom(shortAlphabet), 1, 4, -1).Draw(t, "unit"), n)[:n]
	default:
		return rapid.SampledFrom([]string{"0", "v1", "v2", "null", " ", "\x00", "ÿ", "a b", "{}"}).Draw(t, "oddStr")
	}
}

func (g *Gen) int64(t *rapid.T, bits int) int64 {
	max := int64(math.MaxInt64)
	min := int64(math.MinInt64)
	if bits < 64 {
		max = int64(1)<<(bits-1) - 1
		min = -(int64(1) << (bits - 1))
	}
	hi := 9
	if g.Extreme {
		hi = 5
	}
	switch rapid.IntRange(0, hi).Draw(t, "intShape") {
	case 0:
		return 0
	case 1:
		return max
	case 2:
		return min
	case 3:
		return rapid.Int64Range(min, max).Draw(t, "int")
	case 4:
		return -1
	default:
		lim := int64(100000)
		if lim > max {
			lim = max
		}
		return rapid.Int64Range(0, lim).Draw(t, "smallInt")
	}
}

func (g *Gen) uint64(t *rapid.T, bits int) uint64 {
	max := uint64(math.MaxUint64)
	if bits < 64 {
		max = uint64(1)<<bits - 1
	}
	hi := 9
	if g.Extreme {
		hi = 5
	}
	switch rapid.IntRange(0, hi).Draw(t, "uintShape") {
	case 0:
		return 0
	case 1:
		return max
	case 2:
		return rapid.Uint64Range(0, max).Draw(t, "uint")
	case 3:
		if max > 1<<53 {
			return 1<<53 + 1
		}
		return max / 2
	default:
		lim := uint64(100000)
		if lim > max {
			lim = max
		}
		return rapid.Uint64Range(0, lim).Draw(t, "smallUint")
	}
}

func (g *Gen) float64(t *rapid.T, bits int) float64 {
	var f float64
	switch rapid.IntRange(0, 7).Draw(t, "floatShape") {
	case 0:
		f = 0
	case 1:
		f = rapid.SampledFrom([]float64{1, 0.5, 0.1, 0.25, -1.5, 100, 1e-9}).Draw(t, "float")
	case 2:
		f = math.MaxFloat64
		if bits == 32 {
			f = math.MaxFloat32
		}
	case 3:
		f = math.SmallestNonzeroFloat64
		if bits == 32 {
			f = math.SmallestNonzeroFloat32
		}
	case 4:
		f = math.Copysign(0, -1)
	default:
		f = rapid.Float64Range(-1e12, 1e12).Draw(t, "floatR")
	}
	if bits == 32 {
		f = float64(float32(f))
	}
	return f
}

// length draws a container length: 0 is frequent, MaxLen reachable.
func (g *Gen) length(t *rapid.T, depth int) int {
	if depth >= g.maxDepth() {
		return 0
	}
	n := rapid.IntRange(-1, g.maxLen()).Draw(t, "len")
	if n < 0 {
		return 0
	}
	return n
}

func (g *Gen) fill(t *rapid.T, v reflect.Value, depth int, nonNil bool) {
	tp := v.Type()
	if Opaque(tp) {
		return
	}
	if h, ok := g.Hooks[tp]; ok && h(t, g, v, depth) {
		return
	}
	switch tp {
	case timeType:
		// msgp keeps seconds and nanoseconds; zero time and plain instants
		if rapid.IntRange(0, 3).Draw(t, "timeZero") == 0 {
			v.Set(reflect.ValueOf(time.Time{}))
		} else {
			sec := rapid.Int64Range(0, 4102444800).Draw(t, "timeSec")
			ns := rapid.Int64Range(0, 999999999).Draw(t, "timeNs")
			v.Set(reflect.ValueOf(time.Unix(sec, ns).UTC()))
		}
		return
	}
	switch tp.Kind() {
	case reflect.Bool:
		v.SetBool(rapid.Bool().Draw(t, "bool"))
	case reflect.Int, reflect.Int8, reflect.Int16, reflect.Int32, reflect.Int64:
		v.SetInt(g.int64(t, tp.Bits()))
	case reflect.Uint, reflect.Uint8, reflect.Uint16, reflect.Uint32, reflect.Uint64, reflect.Uintptr:
		v.SetUint(g.uint64(t, tp.Bits()))
	case reflect.Float32, reflect.Float64:
		v.SetFloat(g.float64(t, tp.Bits()))
	case reflect.Complex64, reflect.Complex128:
		v.SetComplex(complex(g.float64(t, 64), g.float64(t, 64)))
	case reflect.String:
		v.SetString(g.String(t))
	case reflect.Slice:
		if !nonNil && rapid.IntRange(0, 5).Draw(t, "nilSlice") == 0 {
			v.Set(reflect.Zero(tp))
			return
		}
		if tp.Elem().Kind() == reflect.Uint8 {
			n := 0
			if depth < g.maxDepth() {
				n = rapid.IntRange(0, 24).Draw(t, "bytesLen")
			}
			b := rapid.SliceOfN(rapid.Byte(), n, n).Draw(t, "bytes")
			nv := reflect.MakeSlice(tp, n, n)
			for i := range b {
				nv.Index(i).SetUint(uint64(b[i]))
			}
			v.Set(nv)
			return
		}
		n := g.length(t, depth)
		nv := reflect.MakeSlice(tp, n, n)
		for i := 0; i < n; i++ {
			g.fill(t, nv.Index(i), depth+1, true)
		}
		v.Set(nv)
	case reflect.Array:
		for i := 0; i < v.Len(); i++ {
			g.fill(t, v.Index(i), depth+1, false)
		}
	case reflect.Map:
		if !nonNil && rapid.IntRange(0, 5).Draw(t, "nilMap") == 0 {
			v.Set(reflect.Zero(tp))
			return
		}
		n := g.length(t, depth)
		nv := reflect.MakeMapWithSize(tp, n)
		for i := 0; i < n; i++ {
			k := reflect.New(tp.Key()).Elem()
			g.fill(t, k, depth+1, true)
			e := reflect.New(tp.Elem()).Elem()
			g.fill(t, e, depth+1, true)
			nv.SetMapIndex(k, e)
		}
		v.Set(nv)
	case reflect.Ptr:
		if Opaque(tp.Elem()) {
			return
		}
		if depth >= g.maxDepth() && !nonNil {
			v.Set(reflect.Zero(tp))
			return
		}
		if !nonNil && rapid.IntRange(0, 3).Draw(t, "nilPtr") == 0 {
			v.Set(reflect.Zero(tp))
			return
		}
		nv := reflect.New(tp.Elem())
		g.fill(t, nv.Elem(), depth+1, false)
		v.Set(nv)
	case reflect.Struct:
		if g.StructHook != nil && g.StructHook(t, g, v, depth) {
			return
		}
		for i := 0; i < tp.NumField(); i++ {
			sf := tp.Field(i)
			if Opaque(sf.Type) {
				continue
			}
			if g.Skip != nil && g.Skip(tp, sf) {
				continue
			}
			fv := Access(v.Field(i))
			if !fv.CanSet() {
				continue
			}
			nn := sf.Anonymous && sf.Type.Kind() == reflect.Ptr // embedded pointers are dereferenced by promoted accesses
			if g.NonNil != nil && g.NonNil(tp, sf) {
				nn = true
			}
			g.fill(t, fv, depth+1, nn)
		}
	case reflect.Interface:
		// left nil unless a hook fills it
	}
}

// ---------------------------------------------------------------------------
// Scramble

// Scramble changes, in place, every leaf reachable from v (through pointers,
// slice elements, map values, interface contents and unexported fields) to a
// different value, adds one entry to every map and keeps every container and
// pointer identity, so that anything sharing memory with v observes a change.
// v must be addressable (pass reflect.ValueOf(ptr).Elem()).
func Scramble(v reflect.Value) {
	scramble(v, map[uintptr]bool{}, 0)
}

func scramble(v reflect.Value, seen map[uintptr]bool, depth int) {
	if depth > 40 {
		return
	}
	tp := v.Type()
	if Opaque(tp) {
		return
	}
	if tp == timeType {
		if v.CanSet() {
			tm := v.Interface().(time.Time)
			v.Set(reflect.ValueOf(tm.Add(1234567 * time.Nanosecond)))
		}
		return
	}
	switch tp.Kind() {
	case reflect.Bool:
		v.SetBool(!v.Bool())
	case reflect.Int, reflect.Int8, reflect.Int16, reflect.Int32, reflect.Int64:
		x := v.Int()
		v.SetInt(x + 1)
		if v.Int() == x { // cannot happen for ints, kept for symmetry
			v.SetInt(x - 1)
		}
	case reflect.Uint, reflect.Uint8, reflect.Uint16, reflect.Uint32, reflect.Uint64, reflect.Uintptr:
		v.SetUint(v.Uint() + 1)
	case reflect.Float32, reflect.Float64:
		x := v.Float()
		y := x + 1
		if y == x || math.IsNaN(y) || math.IsInf(y, 0) {
			y = 7
			if x == 7 {
				y = 8
			}
		}
		v.SetFloat(y)
	case reflect.Complex64, reflect.Complex128:
		v.SetComplex(v.Complex() + complex(1, 1))
	case reflect.String:
		v.SetString(v.String() + "~")
	case reflect.Slice:
		if v.IsNil() {
			return
		}
		if v.Len() > 0 {
			p := v.Pointer()
			if seen[p] {
				return
			}
			seen[p] = true
		}
		for i := 0; i < v.Len(); i++ {
			scramble(v.Index(i), seen, depth+1)
		}
	case reflect.Array:
		for i := 0; i < v.Len(); i++ {
			scramble(v.Index(i), seen, depth+1)
		}
	case reflect.Map:
		if v.IsNil() {
			return
		}
		p := v.Pointer()
		if seen[p] {
			return
		}
		seen[p] = true
		keys := v.MapKeys()
		for _, k := range keys {
			e := v.MapIndex(k)
			switch e.Kind() {
			case reflect.Ptr, reflect.Map, reflect.Slice, reflect.Interface:
				// shared referent: change it in place
				tmp := reflect.New(e.Type()).Elem()
				tmp.Set(e)
				scramble(tmp, seen, depth+1)
				if e.Kind() == reflect.Slice || e.Kind() == reflect.Interface {
					v.SetMapIndex(k, tmp)
				}
			default:
				tmp := reflect.New(e.Type()).Elem()
				tmp.Set(e)
				scramble(tmp, seen, depth+1)
				v.SetMapIndex(k, tmp)
			}
		}
		// one more entry
		nk := reflect.New(tp.Key()).Elem()
		scrambleFreshKey(nk)
		if !v.MapIndex(nk).IsValid() {
			v.SetMapIndex(nk, reflect.Zero(tp.Elem()))
		}
	case reflect.Ptr:
		if v.IsNil() {
			return
		}
		if Opaque(tp.Elem()) {
			return
		}
		p := v.Pointer()
		if seen[p] {
			return
		}
		seen[p] = true
		scramble(v.Elem(), seen, depth+1)
	case reflect.Interface:
		if v.IsNil() {
			return
		}
		e := v.Elem()
		if e.Kind() == reflect.Ptr {
			scramble(e, seen, depth+1)
		}
	case reflect.Struct:
		for i := 0; i < tp.NumField(); i++ {
			if Opaque(tp.Field(i).Type) {
				continue
			}
			fv := Access(v.Field(i))
			if !fv.CanSet() {
				continue
			}
			scramble(fv, seen, depth+1)
		}
	}
}

func scrambleFreshKey(k reflect.Value) {
	switch k.Kind() {
	case reflect.String:
		k.SetString("~scrambled~")
	case reflect.Int, reflect.Int8, reflect.Int16, reflect.Int32, reflect.Int64:
		k.SetInt(113)
	case reflect.Uint, reflect.Uint8, reflect.Uint16, reflect.Uint32, reflect.Uint64:
		k.SetUint(113)
	}
}

// ---------------------------------------------------------------------------
// structural comparison

// Cmp configures Equiv.
type Cmp struct {
	// Ignore skips a struct field (transient fields the codec declares with msg:"-", documented normalisations).
	Ignore func(owner reflect.Type, f reflect.StructField) bool
	// Custom compares values of a given type itself: handled=false falls back to the generic rule.
	Custom func(a, b reflect.Value) (equal, handled bool)
}

// Equiv compares two values structurally: nil and empty slices / maps are the
// same, pointers are compared by their referents, unexported fields count,
// locks / channels / functions do not. It returns the path of the first
// difference.
func (c *Cmp) Equiv(a, b interface{}) (bool, string) {
	d := c.equiv(reflect.ValueOf(a), reflect.ValueOf(b), "", map[[2]uintptr]bool{}, 0)
	return d == "", d
}

// EquivValues is Equiv on reflect values.
func (c *Cmp) EquivValues(a, b reflect.Value) (bool, string) {
	d := c.equiv(a, b, "", map[[2]uintptr]bool{}, 0)
	return d == "", d
}

func short(v reflect.Value) string {
	defer func() { _ = recover() }()
	if !v.IsValid() {
		return "<invalid>"
	}
	s := ""
	if v.CanInterface() {
		s = fmt.Sprintf("%#v", v.Interface())
	} else {
		s = fmt.Sprintf("%v", v)
	}
	if len(s) > 120 {
		s = s[:120] + "..."
	}
	return s
}

func (c *Cmp) equiv(a, b reflect.Value, path string, seen map[[2]uintptr]bool, depth int) string {
	if !a.IsValid() || !b.IsValid() {
		if a.IsValid() == b.IsValid() {
			return ""
		}
		return path + ": one side is absent"
	}
	if a.Type() != b.Type() {
		return fmt.Sprintf("%s: types %v vs %v", path, a.Type(), b.Type())
	}
	tp := a.Type()
	if Opaque(tp) {
		return ""
	}
	if depth > 60 {
		return ""
	}
	if c != nil && c.Custom != nil {
		if eq, handled := c.Custom(a, b); handled {
			if eq {
				return ""
			}
			return fmt.Sprintf("%s: %s vs %s", path, short(a), short(b))
		}
	}
	if tp == timeType {
		ta := readable(a).Interface().(time.Time)
		tb := readable(b).Interface().(time.Time)
		if ta.Equal(tb) {
			return ""
		}
		return fmt.Sprintf("%s: %v vs %v", path, ta, tb)
	}
	switch tp.Kind() {
	case reflect.Bool:
		if a.Bool() != b.Bool() {
			return fmt.Sprintf("%s: %v vs %v", path, a.Bool(), b.Bool())
		}
	case reflect.Int, reflect.Int8, reflect.Int16, reflect.Int32, reflect.Int64:
		if a.Int() != b.Int() {
			return fmt.Sprintf("%s: %d vs %d", path, a.Int(), b.Int())
		}
	case reflect.Uint, reflect.Uint8, reflect.Uint16, reflect.Uint32, reflect.Uint64, reflect.Uintptr:
		if a.Uint() != b.Uint() {
			return fmt.Sprintf("%s: %d vs %d", path, a.Uint(), b.Uint())
		}
	case reflect.Float32, reflect.Float64:
		if math.Float64bits(a.Float()) != math.Float64bits(b.Float()) {
			return fmt.Sprintf("%s: %v vs %v", path, a.Float(), b.Float())
		}
	case reflect.Complex64, reflect.Complex128:
		if a.Complex() != b.Complex() {
			return fmt.Sprintf("%s: %v vs %v", path, a.Complex(), b.Complex())
		}
	case reflect.String:
		if a.String() != b.String() {
			return fmt.Sprintf("%s: %q vs %q", path, clip(a.String()), clip(b.String()))
		}
	case reflect.Slice:
		if a.Len() != b.Len() {
			return fmt.Sprintf("%s: slice length %d vs %d", path, a.Len(), b.Len())
		}
		for i := 0; i < a.Len(); i++ {
			if d := c.equiv(a.Index(i), b.Index(i), fmt.Sprintf("%s[%d]", path, i), seen, depth+1); d != "" {
				return d
			}
		}
	case reflect.Array:
		for i := 0; i < a.Len(); i++ {
			if d := c.equiv(a.Index(i), b.Index(i), fmt.Sprintf("%s[%d]", path, i), seen, depth+1); d != "" {
				return d
			}
		}
	case reflect.Map:
		if a.Len() != b.Len() {
			return fmt.Sprintf("%s: map size %d vs %d", path, a.Len(), b.Len())
		}
		keys := a.MapKeys()
		sort.Slice(keys, func(i, j int) bool { return fmt.Sprint(keys[i]) < fmt.Sprint(keys[j]) })
		for _, k := range keys {
			bv := b.MapIndex(k)
			if !bv.IsValid() {
				return fmt.Sprintf("%s: key %v missing on the second side", path, k)
			}
			if d := c.equiv(a.MapIndex(k), bv, fmt.Sprintf("%s[%v]", path, k), seen, depth+1); d != "" {
				return d
			}
		}
	case reflect.Ptr:
		if a.IsNil() || b.IsNil() {
			if a.IsNil() != b.IsNil() {
				return fmt.Sprintf("%s: nil pointer vs non-nil (%s | %s)", path, short(a), short(b))
			}
			return ""
		}
		key := [2]uintptr{a.Pointer(), b.Pointer()}
		if seen[key] {
			return ""
		}
		seen[key] = true
		return c.equiv(a.Elem(), b.Elem(), path, seen, depth+1)
	case reflect.Interface:
		if a.IsNil() || b.IsNil() {
			if a.IsNil() != b.IsNil() {
				return fmt.Sprintf("%s: nil interface vs non-nil", path)
			}
			return ""
		}
		return c.equiv(a.Elem(), b.Elem(), path, seen, depth+1)
	case reflect.Struct:
		for i := 0; i < tp.NumField(); i++ {
			sf := tp.Field(i)
			if Opaque(sf.Type) {
				continue
			}
			if c != nil && c.Ignore != nil && c.Ignore(tp, sf) {
				continue
			}
			if d := c.equiv(a.Field(i), b.Field(i), path+"."+sf.Name, seen, depth+1); d != "" {
				return d
			}
		}
	}
	return ""
}

// readable returns a value whose Interface() may be called even if it was
// reached through an unexported field.
func readable(v reflect.Value) reflect.Value {
	if v.CanInterface() {
		return v
	}
	if v.CanAddr() {
		return reflect.NewAt(v.Type(), unsafe.Pointer(v.UnsafeAddr())).Elem()
	}
	cp := reflect.New(v.Type()).Elem()
	// copy field-wise through unsafe is not possible without an address; fall back to the zero value for display
	return cp
}

func clip(s string) string {
	if len(s) > 60 {
		return s[:60] + "..."
	}
	return s
}

// MsgSkipped reports whether a struct field is excluded from the msgp encoding
// by its tag (msg:"-").
func MsgSkipped(f reflect.StructField) bool {
	tag := f.Tag.Get("msg")
	return tag == "-" || strings.HasPrefix(tag, "-,")
}

// NonZeroLeaves counts non-zero scalar leaves and reports whether any container
// reachable from v is non-empty (used for the non-triviality rules).
func NonZeroLeaves(v reflect.Value) (leaves int, container bool) {
	var walk func(v reflect.Value, depth int)
	seen := map[uintptr]bool{}
	walk = func(v reflect.Value, depth int) {
		if !v.IsValid() || depth > 40 || Opaque(v.Type()) {
			return
		}
		switch v.Kind() {
		case reflect.Bool, reflect.Int, reflect.Int8, reflect.Int16, reflect.Int32, reflect.Int64, reflect.Uint, reflect.Uint8,
			reflect.Uint16, reflect.Uint32, reflect.Uint64, reflect.Uintptr, reflect.Float32, reflect.Float64, reflect.String,
			reflect.Complex64, reflect.Complex128:
			if !v.IsZero() {
				leaves++
			}
		case reflect.Slice, reflect.Array:
			if v.Kind() == reflect.Slice && v.Len() > 0 {
				container = true
			}
			if v.Kind() == reflect.Slice && v.Type().Elem().Kind() == reflect.Uint8 {
				if v.Len() > 0 {
					leaves++
				}
				return
			}
			for i := 0; i < v.Len(); i++ {
				walk(v.Index(i), depth+1)
			}
		case reflect.Map:
			if v.Len() > 0 {
				container = true
			}
			for _, k := range v.MapKeys() {
				walk(v.MapIndex(k), depth+1)
			}
		case reflect.Ptr:
			if v.IsNil() || seen[v.Pointer()] {
				return
			}
			seen[v.Pointer()] = true
			walk(v.Elem(), depth+1)
		case reflect.Interface:
			if !v.IsNil() {
				walk(v.Elem(), depth+1)
			}
		case reflect.Struct:
			if v.Type() == timeType {
				if !v.IsZero() {
					leaves++
				}
				return
			}
			for i := 0; i < v.NumField(); i++ {
				walk(v.Field(i), depth+1)
			}
		}
	}
	walk(v, 0)
	return
}

var _ = durationType

// ---------------------------------------------------------------------------
// deep copy with rebuilt maps

// CopyReordered returns a deep copy of v in which every map is rebuilt by inserting its keys in ascending (desc=false)
// or descending (desc=true) order of their printed form, so that two copies hold equal content in maps that were
// filled in different insertion orders. Locks, channels and functions are left zero. v may be any value; pass
// reflect.ValueOf(ptr) to copy what a pointer refers to (the result is then a new pointer).
func CopyReordered(v reflect.Value, desc bool) reflect.Value {
	return copyRe(v, desc, map[uintptr]reflect.Value{}, 0)
}

func copyRe(v reflect.Value, desc bool, seen map[uintptr]reflect.Value, depth int) reflect.Value {
	tp := v.Type()
	out := reflect.New(tp).Elem()
	if Opaque(tp) || depth > 60 {
		return out
	}
	switch tp.Kind() {
	case reflect.Ptr:
		if v.IsNil() || Opaque(tp.Elem()) {
			return out
		}
		if prev, ok := seen[v.Pointer()]; ok {
			return prev
		}
		np := reflect.New(tp.Elem())
		seen[v.Pointer()] = np
		copyInto(np.Elem(), v.Elem(), desc, seen, depth+1)
		return np
	default:
		copyInto(out, v, desc, seen, depth)
		return out
	}
}

func copyInto(dst, src reflect.Value, desc bool, seen map[uintptr]reflect.Value, depth int) {
	tp := src.Type()
	if Opaque(tp) {
		return
	}
	if tp == timeType {
		dst.Set(readable(src))
		return
	}
	switch tp.Kind() {
	case reflect.Struct:
		for i := 0; i < tp.NumField(); i++ {
			if Opaque(tp.Field(i).Type) {
				continue
			}
			df := Access(dst.Field(i))
			if !df.CanSet() {
				continue
			}
			copyInto(df, src.Field(i), desc, seen, depth+1)
		}
	case reflect.Slice:
		if src.IsNil() {
			return
		}
		ns := reflect.MakeSlice(tp, src.Len(), src.Len())
		for i := 0; i < src.Len(); i++ {
			copyInto(ns.Index(i), src.Index(i), desc, seen, depth+1)
		}
		dst.Set(ns)
	case reflect.Array:
		for i := 0; i < src.Len(); i++ {
			copyInto(dst.Index(i), src.Index(i), desc, seen, depth+1)
		}
	case reflect.Map:
		if src.IsNil() {
			return
		}
		keys := src.MapKeys()
		sort.Slice(keys, func(i, j int) bool {
			a, b := fmt.Sprint(keys[i]), fmt.Sprint(keys[j])
			if desc {
				return a > b
			}
			return a < b
		})
		nm := reflect.MakeMapWithSize(tp, len(keys))
		for _, k := range keys {
			nk := reflect.New(tp.Key()).Elem()
			copyInto(nk, k, desc, seen, depth+1)
			ne := reflect.New(tp.Elem()).Elem()
			copyInto(ne, src.MapIndex(k), desc, seen, depth+1)
			nm.SetMapIndex(nk, ne)
		}
		dst.Set(nm)
	case reflect.Ptr:
		if src.IsNil() {
			return
		}
		dst.Set(copyRe(src, desc, seen, depth+1))
	case reflect.Interface:
		if src.IsNil() {
			return
		}
		e := src.Elem()
		dst.Set(copyRe(e, desc, seen, depth+1))
	case reflect.Bool:
		dst.SetBool(src.Bool())
	case reflect.Int, reflect.Int8, reflect.Int16, reflect.Int32, reflect.Int64:
		dst.SetInt(src.Int())
	case reflect.Uint, reflect.Uint8, reflect.Uint16, reflect.Uint32, reflect.Uint64, reflect.Uintptr:
		dst.SetUint(src.Uint())
	case reflect.Float32, reflect.Float64:
		dst.SetFloat(src.Float())
	case reflect.Complex64, reflect.Complex128:
		dst.SetComplex(src.Complex())
	case reflect.String:
		dst.SetString(src.String())
	}
}
