package vcchk

// DKG material for check C38, built with the same primitives the node uses (herumi bls through
// 0chain.net/chaincore/threshold/bls): a miner's polynomial, its public coefficients (the "MPK" a miner
// contributes), the share it derives for another miner, and the signed acknowledgement of the receiver.
// Coefficients are derived (no CSPRNG) so that a replay builds the same transactions.

import (
	"crypto/sha256"
	"encoding/json"
	"fmt"

	zbls "0chain.net/chaincore/threshold/bls"
	"0chain.net/core/encryption"
	"github.com/herumi/bls-go-binary/bls"
	"verifharness/vkit"
)

type poly struct {
	owner string
	msk   []bls.SecretKey
	mpk   []string
}

// newPoly derives the polynomial (t coefficients) of a miner for one DKG attempt.
func newPoly(owner string, attempt, t int) *poly {
	p := &poly{owner: owner}
	for k := 0; k < t; k++ {
		d := sha256.Sum256([]byte(fmt.Sprintf("verif|%d|vcpoly|%s|%d|%d", vkit.Seed(), owner, attempt, k)))
		var sk bls.SecretKey
		if err := sk.SetLittleEndianMod(d[:]); err != nil {
			panic(err)
		}
		p.msk = append(p.msk, sk)
	}
	if t > 0 {
		for _, pk := range bls.GetMasterPublicKey(p.msk) {
			p.mpk = append(p.mpk, pk.GetHexString())
		}
	}
	return p
}

// share is the secret share of the polynomial's owner for the miner `to` (hex).
func (p *poly) share(to string) string {
	id := zbls.ComputeIDdkg(to)
	var s bls.SecretKey
	if err := s.Set(p.msk, &id); err != nil {
		panic(err)
	}
	return s.GetHexString()
}

// mpkInput is the contributeMpk payload (block.MPK has no json tags: fields "ID" and "Mpk").
func mpkInput(id *string, coeffs []string) string {
	m := map[string]interface{}{"Mpk": coeffs}
	if coeffs == nil {
		m["Mpk"] = []string{}
	}
	if id != nil {
		m["ID"] = *id
	}
	b, _ := json.Marshal(m)
	return string(b)
}

// sosEntry is bls.DKGKeyShare as a miner publishes it.
type sosEntry struct {
	ID      string `json:"id"`
	Message string `json:"message"`
	Share   string `json:"share"`
	Sign    string `json:"sign"`
}

// signedAck is what the receiver of a share returns to its sender: the hash of the share, signed with the receiver's node key.
func signedAck(receiver *vnode, shareHex string) *sosEntry {
	msg := encryption.Hash(shareHex)
	sig, err := receiver.Scheme.Sign(msg)
	if err != nil {
		panic(err)
	}
	return &sosEntry{Message: msg, Sign: sig}
}

func sosInput(id *string, entries map[string]*sosEntry) string {
	m := map[string]interface{}{"share_or_sign": entries}
	if id != nil {
		m["id"] = *id
	}
	b, _ := json.Marshal(m)
	return string(b)
}
