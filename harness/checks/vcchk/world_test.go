package vcchk

// The view-change world of check C38: a chain booted with view_change enabled and a genesis magic block of
// 7 miners and 4 sharders whose keys the harness derives (vkeys), so that it can sign DKG share acknowledgements
// as any miner. Nothing is registered in the genesis state: every case registers its own subset through real
// add_miner / add_sharder transactions.

import (
	"encoding/json"
	"fmt"
	"os"
	"path/filepath"
	"sort"
	"sync"
	"testing"

	"0chain.net/core/encryption"
	"verifharness/sim"
	"verifharness/simminer"
	"verifharness/vkeys"
	"verifharness/vkit"
)

const (
	nMBMiners   = 7
	nMBSharders = 4
)

// vnode is a genesis magic-block node the harness owns the keys of.
type vnode struct {
	*simminer.Node
	Scheme *encryption.BLS0ChainScheme
	Idx    int
}

type world struct {
	S        *sim.Sim
	Miners   []*vnode // index = key index
	Sharders []*vnode
	byID     map[string]*vnode
}

var (
	bootOnce sync.Once
	theWorld *world
	bootErr  error
)

func mkNode(tp simminer.Provider, i int) *vnode {
	role, label, dl, base := "vcminer", "miner", "vcmdelegate", 7000
	if tp == simminer.Sharder {
		role, label, dl, base = "vcsharder", "sharder", "vcsdelegate", 7100
	}
	sch := vkeys.BLS(vkit.Seed(), role, i)
	pub := sch.GetPublicKey()
	id := vkeys.ID(pub)
	n := &simminer.Node{
		Type:     tp,
		Wallet:   &sim.Wallet{Name: fmt.Sprintf("%s%d", label, i), ID: id, PublicKey: pub, Scheme: sch},
		Delegate: sim.NewWallet(dl, i),
		N2NHost:  fmt.Sprintf("198.18.%d.%d", int(tp), 10+i),
		Host:     fmt.Sprintf("%s%d.verif.local", label, i),
		Port:     base + i,
	}
	return &vnode{Node: n, Scheme: sch, Idx: i}
}

func mbNodeJSON(v *vnode, setIndex int) map[string]interface{} {
	return map[string]interface{}{
		"id": v.ID(), "version": "", "creation_date": 1623407764, "public_key": v.Wallet.PublicKey,
		"n2n_host": v.N2NHost, "host": v.Host, "port": v.Port, "path": "", "type": int(v.Type) - 1,
		"description": v.Wallet.Name, "set_index": setIndex, "status": 0, "in_prev_mb": false,
		"info": map[string]interface{}{"build_tag": "", "state_missing_nodes": 0, "miners_median_network_time": 0, "avg_block_txns": 0},
	}
}

func bootWorld() (*world, error) {
	w := &world{byID: map[string]*vnode{}}
	for i := 0; i < nMBMiners; i++ {
		w.Miners = append(w.Miners, mkNode(simminer.Miner, i))
	}
	for i := 0; i < nMBSharders; i++ {
		w.Sharders = append(w.Sharders, mkNode(simminer.Sharder, i))
	}
	// the DKG party id is derived from the first 31 hex digits of the node id: they must differ
	seen := map[string]bool{}
	for _, v := range append(append([]*vnode{}, w.Miners...), w.Sharders...) {
		if seen[v.ID()[:31]] {
			return nil, fmt.Errorf("derived node ids collide in their DKG party id")
		}
		seen[v.ID()[:31]] = true
		w.byID[v.ID()] = v
	}
	// configuration directory: the shipped files plus our magic block under the name the simulator reads
	dir, err := os.MkdirTemp("", "verif-vc-config-")
	if err != nil {
		return nil, err
	}
	for _, f := range []string{"0chain.yaml", "sc.yaml"} {
		b, err := os.ReadFile(filepath.Join(sim.RepoConfigDir, f))
		if err != nil {
			return nil, err
		}
		if err := os.WriteFile(filepath.Join(dir, f), b, 0o644); err != nil {
			return nil, err
		}
	}
	miners, sharders := map[string]interface{}{}, map[string]interface{}{}
	for i, v := range w.Miners {
		miners[v.ID()] = mbNodeJSON(v, i)
	}
	for i, v := range w.Sharders {
		sharders[v.ID()] = mbNodeJSON(v, i)
	}
	mb := map[string]interface{}{
		"hash": "", "previous_hash": "", "magic_block_number": 1, "starting_round": 0,
		"miners":         map[string]interface{}{"type": 0, "nodes": miners},
		"sharders":       map[string]interface{}{"type": 1, "nodes": sharders},
		"share_or_signs": map[string]interface{}{"shares": map[string]interface{}{}},
		"mpks":           map[string]interface{}{"Mpks": map[string]interface{}{}},
		"t":              5, "k": 6, "n": 7,
	}
	mbBytes, _ := json.Marshal(mb)
	if err := os.WriteFile(filepath.Join(dir, "b0magicBlock_4_miners_2_sharders.json"), mbBytes, 0o644); err != nil {
		return nil, err
	}
	sim.RepoConfigDir = dir
	s, err := sim.Boot(sim.Options{ViewChange: true})
	if err != nil {
		return nil, err
	}
	if len(s.Miners) != nMBMiners || len(s.Sharders) != nMBSharders {
		return nil, fmt.Errorf("booted magic block has %d miners and %d sharders", len(s.Miners), len(s.Sharders))
	}
	for _, id := range append(append([]string{}, s.Miners...), s.Sharders...) {
		if w.byID[id] == nil {
			return nil, fmt.Errorf("magic block node %s is not one of ours", id)
		}
	}
	w.S = s
	return w, nil
}

func theVCWorld(t *testing.T) *world {
	bootOnce.Do(func() { theWorld, bootErr = bootWorld() })
	if bootErr != nil {
		t.Fatalf("VERIF-HARNESS-ERROR boot: %v", bootErr)
	}
	return theWorld
}

func sortedKeys(m map[string]bool) []string {
	out := make([]string, 0, len(m))
	for k, v := range m {
		if v {
			out = append(out, k)
		}
	}
	sort.Strings(out)
	return out
}
