package vcchk

// C38: the miner contract's view-change phase machine follows its schedule.
//
// Generated: miner-contract settings, phase lengths, which magic-block nodes are registered, stakes, and a history
// of 50..300 blocks, each closed by the generator's payFees, with contributeMpk / sharder_keep / shareSignsOrShares /
// wait / add_miner / add_sharder / foreign payFees transactions in valid, wrong-phase, duplicate, wrong-size,
// invalid-content and non-member variants in between.
//
// Oracle: a model of the phase node and of the DKG bookkeeping that is driven by the *observed* acceptances only
// (it never executes contract code): see model.due / model.condition below.

import (
	"context"
	"encoding/json"
	"fmt"
	"math"
	"os"
	"strconv"
	"strings"
	"sync"
	"testing"
	"time"

	"0chain.net/chaincore/block"
	"0chain.net/chaincore/chain"
	"0chain.net/chaincore/node"
	"0chain.net/chaincore/smartcontract"
	"0chain.net/chaincore/transaction"
	"0chain.net/smartcontract/minersc"
	"github.com/0chain/common/core/currency"
	"github.com/0chain/common/core/statecache"
	"pgregory.net/rapid"
	"verifharness/sim"
	"verifharness/simminer"
	"verifharness/vkit"
)

func TestMain(m *testing.M) { vkit.Main(m) }

const (
	phStart = iota
	phContribute
	phShare
	phPublish
	phWait
)

var phName = []string{"start", "contribute", "share", "publish", "wait"}

func phIndex(name string) int {
	for i, n := range phName {
		if n == name {
			return i
		}
	}
	return -1
}

// finding keys of defects this check can reproduce; each is excluded from generation once it was reproduced
// as a listed known finding (vkit.Known) in this process, so that the search goes on behind it.
const (
	kMpkForeignID      = "mpk-recorded-under-foreign-id"
	kSharesNonMember   = "shares-accepted-from-non-participant"
	kSharesNullEntries = "shares-null-entries-accepted"
	kSharesForeignID   = "shares-validated-against-claimed-id"
	kSharesPanic       = "shares-unknown-id-panics"
	kMBLosesMembers    = "view-change-magic-block-loses-members"
)

var (
	reproMu sync.Mutex
	repro   = map[string]bool{}
)

func reproduced(key string) bool {
	reproMu.Lock()
	defer reproMu.Unlock()
	return repro[key]
}

// assumedKnown lets a developer run the check "behind" findings that are not (yet) listed in known_findings.json:
// VERIF_C38_ASSUME_KNOWN=key1,key2. It is reported in the evidence when used.
func assumedKnown(key string) bool {
	for _, k := range strings.Split(os.Getenv("VERIF_C38_ASSUME_KNOWN"), ",") {
		if k == key || k == "all" {
			return true
		}
	}
	return false
}

type settings struct {
	MaxN, MinN, MaxS, MinS int
	TPct, KPct, XPct       string
}

// model of the phase node and of the DKG bookkeeping, fed with observed acceptances only.
type model struct {
	phase    int
	start    int64
	restarts int64
	rounds   [5]int64

	dkg     map[string]bool // participating miners of the running key generation
	T, K, N int
	mpk     map[string]bool  // miners whose public key contribution was accepted
	garbage map[string]bool  // ... but was not a list of public keys (the contract does not look inside)
	polys   map[string]*poly // the polynomial behind each accepted contribution
	keep    map[string]bool  // sharders whose keep request was accepted
	shares  map[string]bool  // miners whose shares were accepted
	waited  map[string]bool

	prevM, prevS map[string]bool // members of the magic block in force
	pendingMB    *block.MagicBlock
	attempt      int // number of key generations started so far (derives polynomials)
}

func (m *model) resetDKG() {
	m.dkg, m.mpk, m.garbage, m.polys = map[string]bool{}, map[string]bool{}, map[string]bool{}, map[string]*poly{}
	m.keep, m.shares, m.waited = map[string]bool{}, map[string]bool{}, map[string]bool{}
	m.T, m.K, m.N = 0, 0, 0
}

func inter(a, b map[string]bool) int {
	n := 0
	for k, v := range a {
		if v && b[k] {
			n++
		}
	}
	return n
}

func count(a map[string]bool) int { return inter(a, a) }

func setOf(ids []string) map[string]bool {
	m := map[string]bool{}
	for _, id := range ids {
		m[id] = true
	}
	return m
}

func sameSet(a map[string]bool, ids []string) bool {
	return count(a) == len(setOf(ids)) && inter(a, setOf(ids)) == count(a)
}

// run is one generated case.
type run struct {
	t  *rapid.T
	st *vkit.Stats
	w  *world
	s  *sim.Sim
	h  *sim.History
	m  *model
	cf settings

	trace     []string // transitions, for the fingerprint and samples
	cycles    int
	restartsN int
	activated int
	aborted   bool // a known finding was reproduced: the model cannot follow any further
	classes   map[string]int
}

func (r *run) class(name string) { r.classes[name]++ }

func (r *run) harness(format string, a ...interface{}) {
	r.t.Fatalf("VERIF-HARNESS-ERROR %s :: last steps %v", fmt.Sprintf(format, a...), r.h.Render(6))
}

func (r *run) violation(key, format string, a ...interface{}) {
	r.t.Fatalf("%s", vkit.Violation("C38", key, "%s :: settings %+v rounds %v :: transitions %v :: last steps %v",
		fmt.Sprintf(format, a...), r.cf, r.m.rounds, tail(r.trace, 12), r.h.Render(10)))
}

func minInt(a, b int) int {
	if a < b {
		return a
	}
	return b
}

func tail(a []string, n int) []string {
	if len(a) > n {
		return a[len(a)-n:]
	}
	return a
}

// finding reports a reproduced defect: a listed known finding is counted and its class is excluded from now on
// (the case ends, the model cannot follow the contract behind the defect); anything else is a violation.
func (r *run) finding(key, format string, a ...interface{}) {
	if r.st.Known(key) || assumedKnown(key) {
		if assumedKnown(key) {
			r.st.Assume("developer run: findings assumed known through VERIF_C38_ASSUME_KNOWN=" + os.Getenv("VERIF_C38_ASSUME_KNOWN"))
		}
		reproMu.Lock()
		repro[key] = true
		reproMu.Unlock()
		r.class("known/" + key)
		r.aborted = true
		return
	}
	r.violation(key, format, a...)
}

func (r *run) phaseNode() (*simminer.Phase, int) {
	p, err := simminer.PhaseOf(r.h.Cur.B)
	if err != nil {
		r.harness("phase node: %v", err)
	}
	return p, phIndex(p.Phase)
}

func (r *run) vc() *minersc.VerifVCState {
	v, err := minersc.VerifVC(sim.ViewOf(r.h.Cur.B), r.h.Cur.B)
	if err != nil {
		r.harness("vc state: %v", err)
	}
	return v
}

func (r *run) registered() (miners, sharders map[string]bool) {
	ms, err := minersc.VerifNodeIDs(sim.ViewOf(r.h.Cur.B), r.h.Cur.B, minersc.AllMinersKey)
	if err != nil {
		r.harness("all miners: %v", err)
	}
	ss, err := minersc.VerifNodeIDs(sim.ViewOf(r.h.Cur.B), r.h.Cur.B, minersc.AllShardersKey)
	if err != nil {
		r.harness("all sharders: %v", err)
	}
	return setOf(ms), setOf(ss)
}

// do executes a transaction and checks that nothing but the generator's payFees moves the phase node.
func (r *run) do(txn *transaction.Transaction, what string) bool {
	o, err := r.h.Do(txn)
	if err != nil {
		r.t.Fatalf("%s", err.Error())
	}
	ok := !o.Rejected && !o.Failed
	if os.Getenv("VERIF_C38_DEBUG") != "" && r.cf.MaxN != 0 {
		if g, _ := simminer.GlobalOf(r.h.Cur.B); g != nil && g.MaxN != r.cf.MaxN {
			r.harness("DEBUG after %s: max_n in the trie is %d, the case set %d", what, g.MaxN, r.cf.MaxN)
		}
	}
	p, ph := r.phaseNode()
	if p.Stored && (ph != r.m.phase || p.StartRound != r.m.start || p.Restarts != r.m.restarts) {
		r.violation("phase-changed-outside-payfees", "%s (accepted=%v) changed the phase node to %s start=%d restarts=%d; before: %s start=%d restarts=%d",
			what, ok, p.Phase, p.StartRound, p.Restarts, phName[r.m.phase], r.m.start, r.m.restarts)
	}
	return ok
}

func (r *run) call(from *sim.Wallet, fn string, input interface{}) *transaction.Transaction {
	return r.h.Call(from, sim.MinerSC, fn, input, 0, 0)
}

// ---------------------------------------------------------------------------------------------
// the schedule

// condition evaluates, from what was observed, the documented condition for leaving the current phase.
func (r *run) condition() (bool, string) {
	m := r.m
	g, err := simminer.GlobalOf(r.h.Cur.B)
	if err != nil {
		r.harness("global node: %v", err)
	}
	switch m.phase {
	case phStart:
		regM, regS := r.registered()
		switch {
		case count(regS) < g.MinS:
			return false, "registered sharders < min_s"
		case inter(regS, m.prevS) == 0:
			return false, "no registered sharder of the previous set"
		case inter(regM, m.prevM) == 0:
			return false, "no registered miner of the previous set"
		case count(regM) < g.MinN:
			return false, "registered miners < min_n"
		}
		return true, ""
	case phContribute, phShare:
		switch {
		case count(m.keep) < g.MinS:
			return false, "kept sharders < min_s"
		case inter(m.keep, m.prevS) == 0:
			return false, "no kept sharder of the previous set"
		case count(m.mpk) == 0:
			return false, "no public keys"
		case inter(m.mpk, m.prevM) == 0:
			return false, "no public key of a miner of the previous set"
		case count(m.mpk) < m.K:
			return false, "public keys < K"
		case m.phase == phContribute && inter(m.mpk, m.dkg) < g.MinN:
			return false, "contributing miners < min_n"
		}
		return true, ""
	case phPublish:
		part := map[string]bool{}
		for id := range m.shares {
			if m.shares[id] && m.dkg[id] {
				part[id] = true
			}
		}
		switch {
		case count(m.shares) == 0:
			return false, "no shares"
		case inter(m.shares, m.prevM) == 0:
			return false, "no shares of a miner of the previous set"
		case count(m.shares) < m.K:
			return false, "shares < K"
		case count(part) < g.MinN:
			return false, "miners with shares < min_n"
		case count(part) < m.K:
			return false, "participating miners with shares < K"
		case inter(part, m.prevM) == 0:
			return false, "no participating miner of the previous set"
		case count(m.keep) < g.MinS:
			return false, "kept sharders < min_s"
		}
		return true, ""
	}
	return true, "" // wait
}

// closeBlock executes the generator's payFees, compares the phase node with the model's schedule and opens the next block.
func (r *run) closeBlock() {
	m := r.m
	round := r.h.Cur.B.Round
	due := round-m.start >= m.rounds[m.phase]
	expPhase, expStart, expRestarts := m.phase, m.start, m.restarts
	cond, why := true, ""
	if due {
		cond, why = r.condition()
		if cond {
			expPhase, expStart = (m.phase+1)%5, round
			if m.phase == phWait {
				expRestarts = 0
			}
		} else {
			expPhase, expStart, expRestarts = phStart, round, m.restarts+1
		}
	}
	regM, _ := r.registered()
	if os.Getenv("VERIF_C38_DEBUG") != "" {
		if g, _ := simminer.GlobalOf(r.h.Cur.B); g != nil && g.MaxN != r.cf.MaxN {
			r.harness("DEBUG before payFees of round %d: max_n in the trie is %d, the case set %d", round, g.MaxN, r.cf.MaxN)
		}
	}
	o, err := r.h.Do(simminer.PayFees(r.h))
	if os.Getenv("VERIF_C38_DEBUG") != "" {
		if g, _ := simminer.GlobalOf(r.h.Cur.B); g != nil && g.MaxN != r.cf.MaxN {
			r.harness("DEBUG after payFees of round %d: max_n in the trie is %d, the case set %d", round, g.MaxN, r.cf.MaxN)
		}
	}
	if err != nil {
		r.t.Fatalf("%s", err.Error())
	}
	if o.Rejected || o.Failed {
		r.violation("payfees-refused", "the generator's payFees for round %d was refused: %v %s", round, o.Err, o.Output)
	}
	p, ph := r.phaseNode()
	if !p.Stored {
		r.violation("phase-node-not-stored", "no phase node after payFees of round %d", round)
	}
	if ph != expPhase || p.StartRound != expStart || p.Restarts != expRestarts {
		key := "transition/" + phName[m.phase] + "/"
		switch {
		case !due:
			key += "moved-before-its-rounds"
		case ph == m.phase && p.StartRound == m.start:
			key += "not-moved-when-due"
		case cond && ph == phStart && m.phase != phWait:
			key += "restarted-though-condition-holds"
		case !cond && ph == (m.phase+1)%5:
			key += "advanced-though-condition-fails"
		default:
			key += "wrong-successor"
		}
		r.violation(key, "round %d: phase %s since round %d (configured rounds %d), condition holds=%v (%s): expected %s start=%d restarts=%d, the contract stored %s start=%d restarts=%d; model: dkg=%d T=%d K=%d mpk=%d keep=%d shares=%d",
			round, phName[m.phase], m.start, m.rounds[m.phase], cond, why, phName[expPhase], expStart, expRestarts, p.Phase, p.StartRound, p.Restarts,
			count(m.dkg), m.T, m.K, count(m.mpk), count(m.keep), count(m.shares))
	}
	if due {
		from := m.phase
		m.phase, m.start, m.restarts = expPhase, expStart, expRestarts
		v := r.vc()
		if !cond {
			r.restartsN++
			r.class("restart/" + phName[from] + "/" + why)
			r.trace = append(r.trace, fmt.Sprintf("r%d %s-restart(%s)", round, phName[from], why))
			m.resetDKG()
			if len(v.DKGMiners) != 0 || len(v.MPKs) != 0 || len(v.Shares) != 0 || len(v.Keep) != 0 {
				r.violation("restart-keeps-dkg-data", "after the restart in round %d the contract still holds dkg miners %d, public keys %d, shares %d, kept sharders %d", round, len(v.DKGMiners), len(v.MPKs), len(v.Shares), len(v.Keep))
			}
		} else {
			r.class("advance/" + phName[from])
			r.trace = append(r.trace, fmt.Sprintf("r%d %s>%s", round, phName[from], phName[expPhase]))
			switch from {
			case phStart:
				m.resetDKG()
				m.attempt++
				m.dkg = setOf(v.DKGMiners)
				m.T, m.K, m.N = v.T, v.K, v.N
				if !sameSet(regM, v.DKGMiners) {
					r.violation("dkg-list-differs-from-registered", "round %d: the DKG list has %d miners, %d miners are registered", round, len(v.DKGMiners), count(regM))
				}
				if m.T < 1 || m.K < 1 || m.T > m.N || m.K > m.N || m.N > r.cf.MaxN {
					g, _ := simminer.GlobalOf(r.h.Cur.B)
					r.violation("dkg-parameters", "round %d: T=%d K=%d N=%d with max_n=%d (global node in the trie: max_n=%d min_n=%d t=%v k=%v)", round, m.T, m.K, m.N, r.cf.MaxN, g.MaxN, g.MinN, g.TPercent, g.KPercent)
				}
			case phContribute:
				for id := range m.dkg {
					if !m.mpk[id] {
						delete(m.dkg, id)
					}
				}
				if !sameSet(m.dkg, v.DKGMiners) {
					r.violation("dkg-list-after-contribute", "round %d: the DKG list is %d miners, %d participating miners contributed a public key", round, len(v.DKGMiners), count(m.dkg))
				}
			case phPublish:
				r.checkMagicBlock(v, round)
				// the contract hands the collected keys, shares and kept sharders over to the magic block and clears them
				m.mpk, m.shares, m.keep = map[string]bool{}, map[string]bool{}, map[string]bool{}
			case phWait:
				r.cycles++
				r.class("cycle_completed")
				m.resetDKG()
			}
		}
	}
	// a magic block set on this block takes force when the block is finalized
	closing := r.h.Cur.B
	var activated *block.MagicBlock
	if closing.MagicBlock != nil {
		activated = closing.MagicBlock
	}
	if m.pendingMB != nil && round >= m.pendingMB.StartingRound {
		if activated != nil {
			if activated.Hash != m.pendingMB.Hash {
				r.violation("activated-other-magic-block", "round %d: the block carries magic block %s, the contract produced %s", round, activated.Hash, m.pendingMB.Hash)
			}
			r.class("vc_activated")
			r.activated++
		} else {
			r.class("vc_cancelled")
		}
		m.pendingMB = nil
	} else if activated != nil {
		r.violation("unexpected-magic-block", "round %d: the block carries a magic block (starting round %d) although no view change was pending", round, activated.StartingRound)
	}
	if activated != nil && activated.Miners.Size() == 0 && len(activated.Miners.CopyNodes()) > 0 {
		// the magic block the contract put on the block was decoded from the state trie: its pools have members (Nodes) but
		// an empty node map, so HasNode / Size / Keys / the JSON form see no member at all
		r.finding(kMBLosesMembers, "round %d: the magic block the contract set on the view-change block (and keeps as previous magic block) has %d miners and %d sharders in its pools' node lists but Miners.Size()=%d, Sharders.Size()=%d and HasNode is false for every member (node.Pool.UnmarshalMsg does not restore NodesMap/Type): Chain.UpdateMagicBlock refuses it (\"there are no miners in the magic block\") and every later key generation restarts at Start because no registered miner or sharder 'is' in the previous set",
			round, len(activated.Miners.CopyNodes()), len(activated.Sharders.CopyNodes()), activated.Miners.Size(), activated.Sharders.Size())
		if r.aborted {
			return
		}
	}
	// next generator: a registered miner of the magic block in force when there is one
	r.nextBlock(activated)
}

func (r *run) nextBlock(activated *block.MagicBlock) {
	m := r.m
	if activated != nil {
		m.prevM, m.prevS = setOf(poolIDs(activated.Miners)), setOf(poolIDs(activated.Sharders))
	}
	cands := sortedKeys(m.prevM)
	gen := cands[rapid.IntRange(0, len(cands)-1).Draw(r.t, "generator")]
	for i, id := range r.s.Miners {
		if id == gen {
			r.h.MinerIdx = i
		}
	}
	closed := r.h.NextBlock(1, 2)
	if activated != nil {
		// what finalization does with a block that carries a magic block (nobody runs the node status monitor here
		// that would read the notifications UpdateMagicBlock posts: drain them)
		drainUpdateNodes()
		if err := r.s.Chain.UpdateMagicBlock(closed.MagicBlock); err != nil {
			r.harness("UpdateMagicBlock: %v", err)
		}
		r.s.Chain.SetLatestFinalizedMagicBlock(closed)
		if lf := r.s.Chain.GetLatestFinalizedMagicBlock(context.Background()); lf == nil || lf.MagicBlock == nil || lf.MagicBlock.Hash != activated.Hash {
			r.harness("the chain did not take the new magic block as latest finalized")
		}
		if cur := r.s.Chain.GetCurrentMagicBlock(); cur.Hash != activated.Hash {
			r.harness("the chain's current magic block is not the new one")
		}
	}
}

func drainUpdateNodes() {
	for {
		select {
		case <-chain.UpdateNodes:
		default:
			return
		}
	}
}

// poolIDs lists the members of a node pool. A pool decoded from the state trie (msgp) carries its members only in
// Nodes (Pool.UnmarshalMsg does not restore NodesMap), a pool built in memory or decoded from JSON in both.
func poolIDs(p *node.Pool) []string {
	set := map[string]bool{}
	if p != nil {
		for _, n := range p.CopyNodes() {
			set[n.GetKey()] = true
		}
		for _, k := range p.Keys() {
			set[k] = true
		}
	}
	return sortedKeys(set)
}

// checkMagicBlock: the magic block produced at the end of the publish phase.
func (r *run) checkMagicBlock(v *minersc.VerifVCState, round int64) {
	m := r.m
	mb := v.MagicBlock
	if mb == nil || mb.StartingRound != round+m.rounds[phWait] {
		r.violation("no-magic-block-produced", "round %d: publish -> wait but the contract holds no magic block starting at round %d", round, round+m.rounds[phWait])
	}
	miners, sharders := poolIDs(mb.Miners), poolIDs(mb.Sharders)
	nm := len(miners)
	if nm < mb.K || nm > r.cf.MaxN || mb.K != m.K || mb.N != m.N || mb.T != m.T {
		r.violation("magic-block-size", "round %d: produced magic block has %d miners, T=%d K=%d N=%d, max_n=%d (key generation ran with T=%d K=%d N=%d)", round, nm, mb.T, mb.K, mb.N, r.cf.MaxN, m.T, m.K, m.N)
	}
	if nm > mb.N {
		// N (and with it T and K) is derived from the size of the magic block in force, the set is cut to max_n: a block can
		// carry more miners than its own N. The property does not speak about N; counted, not judged.
		r.class("observation/mb_more_miners_than_its_N")
	}
	if len(sharders) > r.cf.MaxS {
		r.class("observation/mb_more_sharders_than_max_s")
	}
	if inter(setOf(miners), m.prevM) == 0 {
		r.violation("magic-block-without-previous-miner", "round %d: none of the %d miners of the produced magic block is in the previous one", round, nm)
	}
	if inter(setOf(sharders), m.prevS) == 0 {
		r.violation("magic-block-without-previous-sharder", "round %d: none of the %d sharders of the produced magic block is in the previous one", round, len(sharders))
	}
	for _, id := range miners {
		if !m.dkg[id] || !m.mpk[id] || !m.shares[id] {
			r.violation("magic-block-miner-did-not-take-part", "round %d: miner %s is in the produced magic block: participating=%v public key accepted=%v shares accepted=%v", round, r.h.Label(id), m.dkg[id], m.mpk[id], m.shares[id])
		}
	}
	for _, id := range sharders {
		if !m.keep[id] {
			r.violation("magic-block-sharder-not-kept", "round %d: sharder %s is in the produced magic block without an accepted keep request", round, r.h.Label(id))
		}
	}
	// (the contract keeps the DKG list as it was after the contribute phase: miners that did not make it into the block
	// still count when it looks for K wait confirmations)
	r.class(fmt.Sprintf("mb/miners=%d/K=%d/N=%d", nm, mb.K, mb.N))
	if nm < count(m.shares) {
		r.class("mb_reduced_to_max_n")
	}
	if count(m.prevM) > inter(setOf(miners), m.prevM) {
		r.class("mb_drops_previous_miner")
	}
	m.pendingMB = mb
}

// ---------------------------------------------------------------------------------------------
// transactions

func (r *run) minerSenders() []*sim.Wallet {
	var out []*sim.Wallet
	for _, v := range r.w.Miners {
		out = append(out, v.Wallet)
	}
	return append(out, r.s.Clients[0], r.s.Clients[1])
}

func (r *run) pick(label string, ids []string) string {
	return ids[rapid.IntRange(0, len(ids)-1).Draw(r.t, label)]
}

// missing lists the participating miners that still have to do the phase's job.
func (r *run) missing(done map[string]bool) []string {
	var out []string
	for _, id := range sortedKeys(r.m.dkg) {
		if !done[id] {
			out = append(out, id)
		}
	}
	return out
}

var mpkVariants = []string{"valid", "valid", "valid", "size-1", "size+1", "empty", "malformed", "garbage", "foreign-member", "foreign-stranger"}

func (r *run) contributeMpk(senderID, variant string) {
	m := r.m
	var from *sim.Wallet
	if v := r.w.byID[senderID]; v != nil {
		from = v.Wallet
	} else {
		from = r.s.Clients[0]
	}
	t := m.T
	if t == 0 {
		t = 2
	}
	p := newPoly(from.ID, m.attempt*1000+r.h.Applied, t)
	coeffs := p.mpk
	var idField *string
	self := from.ID
	switch variant {
	case "valid":
		if rapid.Bool().Draw(r.t, "withID") {
			idField = &self
		}
	case "size-1":
		coeffs = coeffs[:len(coeffs)-1]
	case "size+1":
		coeffs = append(append([]string{}, coeffs...), coeffs[0])
	case "empty":
		coeffs = nil
	case "garbage":
		coeffs = make([]string, len(p.mpk))
		for i := range coeffs {
			coeffs[i] = fmt.Sprintf("not-a-key-%d", i)
		}
	case "foreign-member", "foreign-stranger":
		if reproduced(kMpkForeignID) {
			variant = "valid"
			break
		}
		var other string
		if variant == "foreign-member" {
			others := r.missing(map[string]bool{from.ID: true})
			if len(others) == 0 {
				variant = "valid"
				break
			}
			other = r.pick("foreignID", others)
		} else {
			other = r.s.Clients[2].ID
		}
		idField = &other
	}
	input := mpkInput(idField, coeffs)
	if variant == "malformed" {
		input = `{"Mpk": "` + strings.Repeat("x", 5) + `"}` // valid JSON of the wrong shape
	}
	inPhase, member, first := m.phase == phContribute, m.dkg[from.ID], !m.mpk[from.ID]
	sizeOK := len(coeffs) == m.T && variant != "malformed"
	expect := inPhase && member && first && sizeOK
	before := r.vc()
	ok := r.do(r.call(from, "contributeMpk", input), "contributeMpk")
	r.class(fmt.Sprintf("mpk/%s/phase=%v/member=%v/first=%v/accepted=%v", variant, inPhase, member, first, ok))
	foreign := idField != nil && *idField != from.ID
	// (a contribution that names another miner: refused when that miner already has a key, else recorded somewhere - checked below)
	if ok != expect && !foreign {
		key := "mpk-"
		switch {
		case ok && !inPhase:
			key += "accepted-out-of-phase"
		case ok && !member:
			key += "accepted-from-non-participant"
		case ok && !first:
			key += "accepted-twice"
		case ok:
			key += "accepted-with-wrong-size"
		default:
			key += "valid-refused"
		}
		r.violation(key, "contributeMpk (%s, %d coefficients, T=%d) from %s in phase %s: participating=%v first=%v -> accepted=%v", variant, len(coeffs), m.T, r.h.Label(from.ID), phName[m.phase], member, first, ok)
	}
	after := r.vc()
	if !ok {
		if len(after.MPKs) != len(before.MPKs) {
			r.violation("mpk-refused-but-stored", "a refused contributeMpk changed the stored public keys from %d to %d", len(before.MPKs), len(after.MPKs))
		}
		return
	}
	// an accepted contribution is the sender's
	want := map[string]bool{from.ID: true}
	for id := range before.MPKs {
		want[id] = true
	}
	var ids []string
	for id := range after.MPKs {
		ids = append(ids, id)
	}
	if !sameSet(want, ids) {
		var added []string
		for _, id := range ids {
			if _, was := before.MPKs[id]; !was {
				added = append(added, r.h.Label(id))
			}
		}
		r.finding(kMpkForeignID, "contributeMpk from %s carrying ID=%s was accepted and recorded under %v (not under its sender): one participating miner can contribute for others and more than once", r.h.Label(from.ID), r.h.Label(*idField), added)
		return
	}
	if !expect {
		r.violation("mpk-accepted-unexpectedly", "contributeMpk (%s) from %s in phase %s: participating=%v first=%v size ok=%v -> accepted", variant, r.h.Label(from.ID), phName[m.phase], member, first, sizeOK)
	}
	m.mpk[from.ID] = true
	m.polys[from.ID] = p
	if variant == "garbage" {
		m.garbage[from.ID] = true
		r.class("observation/mpk_with_garbage_coefficients_accepted")
	}
}

func (r *run) nodeInput(v *vnode) map[string]interface{} {
	nd, ms, sc := 10, currency.Coin(1e10), 0.1
	return map[string]interface{}{
		"simple_miner": map[string]interface{}{"id": v.ID(), "provider_type": int(v.Type), "n2n_host": v.N2NHost, "host": v.Host, "port": v.Port, "public_key": v.Wallet.PublicKey, "short_name": v.Wallet.Name},
		"stake_pool":   map[string]interface{}{"settings": map[string]interface{}{"delegate_wallet": v.Delegate.ID, "num_delegates": nd, "min_stake": ms, "service_charge": sc}},
	}
}

func (r *run) sharderKeep(idx int, variant string) {
	m := r.m
	_, regS := r.registered()
	var from *sim.Wallet
	var input interface{}
	var id string
	switch variant {
	case "unknown":
		c := r.s.Clients[3]
		from, id = c, c.ID
		input = map[string]interface{}{"simple_miner": map[string]interface{}{"id": c.ID, "public_key": c.PublicKey, "n2n_host": "198.18.9.9", "host": "x.verif.local", "port": 7999}}
	case "malformed":
		v := r.w.Sharders[idx]
		from, id, input = v.Wallet, v.ID(), `{"simple_miner": [1,2]}`
	default:
		v := r.w.Sharders[idx]
		from, id, input = v.Wallet, v.ID(), r.nodeInput(v)
	}
	inPhase := m.phase == phContribute
	known := regS[id] && variant == "valid"
	ok := r.do(r.call(from, "sharder_keep", input), "sharder_keep")
	r.class(fmt.Sprintf("keep/%s/phase=%v/registered=%v/accepted=%v", variant, inPhase, regS[id], ok))
	switch {
	case ok && !inPhase:
		r.violation("keep-accepted-out-of-phase", "sharder_keep for %s accepted in phase %s", r.h.Label(id), phName[m.phase])
	case ok && !known:
		r.violation("keep-accepted-for-unknown-sharder", "sharder_keep (%s) for %s accepted, registered=%v", variant, r.h.Label(id), regS[id])
	case !ok && inPhase && known:
		r.violation("keep-valid-refused", "sharder_keep for the registered sharder %s refused in the contribute phase", r.h.Label(id))
	}
	if ok {
		m.keep[id] = true
	}
	if v := r.vc(); !sameSet(m.keep, v.Keep) {
		r.violation("keep-list-differs", "after sharder_keep (%s, accepted=%v) the contract's keep list has %d sharders, %d requests were accepted", variant, ok, len(v.Keep), count(m.keep))
	}
}

var shareVariants = []string{"valid", "valid", "valid", "valid-revealed", "valid-minimal", "short", "bad-sign", "bad-share", "sign-by-outsider", "malformed", "null-entries", "foreign-id", "unknown-id"}

func (r *run) publishShares(senderID, variant string) {
	m := r.m
	var from *sim.Wallet
	if v := r.w.byID[senderID]; v != nil {
		from = v.Wallet
	} else {
		from = r.s.Clients[0]
	}
	if reproduced(kSharesNullEntries) && variant == "null-entries" || reproduced(kSharesForeignID) && variant == "foreign-id" {
		variant = "valid"
	}
	member := m.dkg[from.ID]
	if !member && reproduced(kSharesNonMember) && strings.HasPrefix(variant, "valid") {
		variant = "bad-sign"
	}
	// the sender's polynomial: the one behind its accepted contribution, or a fresh one
	p := m.polys[from.ID]
	ownPoly := p != nil && !m.garbage[from.ID]
	if !ownPoly {
		t := m.T
		if t == 0 {
			t = 2
		}
		p = newPoly(from.ID, 900000+r.h.Applied, t)
		if variant == "valid-revealed" {
			variant = "valid" // nothing a revealed share could be checked against
		}
	}
	var others []string
	for _, id := range sortedKeys(m.dkg) {
		if id != from.ID {
			others = append(others, id)
		}
	}
	need := m.K - 1
	if need < 0 {
		need = 0
	}
	entries := map[string]*sosEntry{}
	add := func(ids []string) {
		for _, id := range ids {
			entries[id] = signedAck(r.w.byID[id], p.share(id))
		}
	}
	self := from.ID
	idField := &self
	valid, probeFirst := true, false
	switch variant {
	case "valid":
		add(others)
	case "valid-revealed":
		add(others)
		for i, id := range others {
			if i%2 == 0 {
				entries[id] = &sosEntry{Share: p.share(id)}
			}
		}
	case "valid-minimal":
		if need > len(others) {
			need = len(others)
		}
		add(others[:need])
	case "short":
		if need == 0 || len(others) == 0 {
			add(others)
			variant = "valid"
		} else {
			add(others[:need-1])
		}
	case "bad-sign":
		add(others)
		if len(others) == 0 {
			variant = "valid"
			break
		}
		id := r.pick("badEntry", others)
		// a well-formed signature over the same message by another key
		signer := r.w.Sharders[0]
		entries[id] = signedAck(signer, p.share(id))
		valid = false
	case "bad-share":
		add(others)
		if len(others) == 0 {
			variant = "valid"
			break
		}
		id := r.pick("badEntry", others)
		q := newPoly(from.ID, 800000+r.h.Applied, len(p.msk))
		entries[id] = &sosEntry{Share: q.share(id)}
		valid = false
	case "sign-by-outsider":
		add(others)
		out := r.w.Sharders[1]
		entries[out.ID()] = signedAck(out, p.share(out.ID()))
		valid = false
	case "null-entries":
		for _, id := range others {
			entries[id] = nil
		}
		for i := len(entries); i < need; i++ {
			entries[fmt.Sprintf("%064x", i)] = nil
		}
		valid = len(entries) == 0 && need == 0
	case "foreign-id":
		// shares of another contributor's polynomial, published under the sender's transaction with the other's id
		var donors []string
		for _, id := range others {
			if m.polys[id] != nil && !m.garbage[id] {
				donors = append(donors, id)
			}
		}
		if len(donors) == 0 || len(others) < 2 {
			add(others)
			variant = "valid"
			break
		}
		donor := r.pick("donor", donors)
		for _, id := range others {
			entries[id] = &sosEntry{Share: m.polys[donor].share(id)}
		}
		idField = &donor
		valid = false
	case "unknown-id":
		if len(others) == 0 {
			variant = "valid"
			break
		}
		for _, id := range others {
			entries[id] = &sosEntry{Share: p.share(id)}
		}
		// revealed shares of the sender's own polynomial, but the input does not say whose they are (the transaction does)
		idField = nil
		valid, probeFirst = ownPoly, true
	}
	if !member && reproduced(kSharesNonMember) && variant == "valid" && valid {
		// (a variant that fell back to "valid" above) keep the reproduced class excluded: spoil one entry
		for id := range entries {
			entries[id] = signedAck(r.w.Sharders[0], p.share(id))
			valid = false
			break
		}
		if valid {
			return
		}
	}
	input := sosInput(idField, entries)
	if variant == "malformed" {
		input, valid = `{"share_or_sign": 7}`, false
	}
	nonNull := 0
	for _, e := range entries {
		if e != nil {
			nonNull++
		}
	}
	inPhase, first := m.phase == phPublish, !m.shares[from.ID]
	sizeOK := nonNull >= need
	expect := inPhase && member && first && sizeOK && valid
	// a revealed share is checked against the stored public key of the miner the input names; when there is none the
	// contract dereferences nil. Contract calls run without a recover, so such a call is tried on a scratch copy first.
	revealed := false
	for _, e := range entries {
		if e != nil && e.Sign == "" {
			revealed = true
		}
	}
	if revealed && variant != "malformed" && (idField == nil || !m.mpk[*idField]) {
		probeFirst = true
	}
	if probeFirst && reproduced(kSharesPanic) {
		r.class("shares/" + variant + "/not-sent-would-panic")
		return
	}
	if probeFirst {
		if msg, panicked := r.probe(r.call(from, "shareSignsOrShares", input)); panicked {
			r.class("shares/" + variant + "/panics")
			r.finding(kSharesPanic, "shareSignsOrShares from %s without an id (or with the id of a miner that contributed no public key) and a revealed share panics inside the contract call (%s): the goroutine that executes contracts has no recover, a node that executes this transaction dies", r.h.Label(from.ID), msg)
			return
		}
	}
	before := r.vc()
	ok := r.do(r.call(from, "shareSignsOrShares", input), "shareSignsOrShares")
	r.class(fmt.Sprintf("shares/%s/phase=%v/member=%v/first=%v/accepted=%v", variant, inPhase, member, first, ok))
	if ok != expect {
		switch {
		case ok && inPhase && first && sizeOK && valid && !member:
			r.finding(kSharesNonMember, "shareSignsOrShares from %s, which is not in the DKG miners list (participating=false), was accepted in the publish phase with %d entries", r.h.Label(from.ID), nonNull)
			return
		case ok && inPhase && first && variant == "null-entries":
			r.finding(kSharesNullEntries, "shareSignsOrShares from %s (participating=%v) with %d null entries and no share or signature at all was accepted (K-1=%d)", r.h.Label(from.ID), member, len(entries), need)
			return
		case ok && inPhase && first && variant == "foreign-id":
			r.finding(kSharesForeignID, "shareSignsOrShares from %s carrying id=%s and shares of that miner's polynomial was accepted and recorded for the sender: the revealed shares are validated against the public key of the id the input claims", r.h.Label(from.ID), r.h.Label(*idField))
			return
		}
		key := "shares-"
		switch {
		case ok && !inPhase:
			key += "accepted-out-of-phase"
		case ok && !first:
			key += "accepted-twice"
		case ok && !member:
			key += "accepted-from-non-participant"
		case ok && !sizeOK:
			key += "accepted-with-too-few-entries"
		case ok:
			key += "accepted-with-invalid-content"
		default:
			key += "valid-refused"
		}
		r.violation(key, "shareSignsOrShares (%s, %d entries, K-1=%d) from %s in phase %s: participating=%v first=%v valid=%v -> accepted=%v", variant, nonNull, need, r.h.Label(from.ID), phName[m.phase], member, first, valid, ok)
	}
	after := r.vc()
	if !ok {
		if len(after.Shares) != len(before.Shares) {
			r.violation("shares-refused-but-stored", "a refused shareSignsOrShares changed the stored shares from %d to %d", len(before.Shares), len(after.Shares))
		}
		return
	}
	m.shares[from.ID] = true
	var ids []string
	for id := range after.Shares {
		ids = append(ids, id)
	}
	if !sameSet(m.shares, ids) {
		r.violation("shares-recorded-differ", "after the accepted shares of %s the contract holds shares of %d miners, %d were accepted", r.h.Label(from.ID), len(ids), count(m.shares))
	}
}

// probe runs a contract call on a scratch copy of the block's state inside a goroutine that recovers.
func (r *run) probe(txn *transaction.Transaction) (string, bool) {
	t := sim.CloneTxn(txn)
	f := r.h.Cur.Fork()
	bc := statecache.NewBlockCache(statecache.NewStateCache(), statecache.Block{Round: f.B.Round, Hash: f.B.Hash + "-probe", PrevHash: f.B.PrevHash})
	cs := chain.CreateTxnMPT(f.B.ClientState, statecache.NewTransactionCache(bc))
	sctx := r.s.Chain.NewStateContext(f.B, cs, t, nil)
	type res struct {
		msg      string
		panicked bool
	}
	ch := make(chan res, 1)
	go func() {
		defer func() {
			if x := recover(); x != nil {
				ch <- res{fmt.Sprint(x), true}
			}
		}()
		_, err := smartcontract.ExecuteSmartContract(t, sctx)
		ch <- res{fmt.Sprint(err), false}
	}()
	select {
	case x := <-ch:
		return x.msg, x.panicked
	case <-time.After(2 * time.Minute):
		r.t.Fatalf("VERIF-HANG contract call did not return within 2 minutes")
		return "", false
	}
}

func (r *run) wait(senderID string) {
	m := r.m
	var from *sim.Wallet
	if v := r.w.byID[senderID]; v != nil {
		from = v.Wallet
	} else {
		from = r.s.Clients[0]
	}
	inPhase, first, member := m.phase == phWait, !m.waited[from.ID], m.dkg[from.ID]
	if reproduced(kMBLosesMembers) && inPhase && first && member && inter(m.waited, m.dkg) >= m.K-1 {
		// the defect behind kMBLosesMembers shows whenever a view change takes force: once it was reproduced, at most K-1
		// miners confirm, the contract calls the view change off and the history goes on with the previous set
		r.class("wait/withheld")
		return
	}
	ok := r.do(r.call(from, "wait", nil), "wait")
	r.class(fmt.Sprintf("wait/phase=%v/member=%v/first=%v/accepted=%v", inPhase, member, first, ok))
	switch {
	case ok && !inPhase:
		r.violation("wait-accepted-out-of-phase", "wait from %s accepted in phase %s", r.h.Label(from.ID), phName[m.phase])
	case ok && !first:
		r.violation("wait-accepted-twice", "second wait from %s accepted", r.h.Label(from.ID))
	case !ok && inPhase && first && member:
		r.violation("wait-valid-refused", "first wait of the participating miner %s refused in the wait phase", r.h.Label(from.ID))
	}
	if ok {
		m.waited[from.ID] = true
	}
}

func (r *run) register(v *vnode) {
	regM, regS := r.registered()
	was := regM[v.ID()] || regS[v.ID()]
	ok := r.do(simminer.AddNode(r.h, v.Node, 0.1, 10, 1e10, 0), "add_node")
	r.class(fmt.Sprintf("register/%s/already=%v/accepted=%v", v.Type, was, ok))
}

func (r *run) foreignPayFees() {
	// payFees from somebody who is not the block's generator: refused, and (checked in do) the phase node stays
	var from *sim.Wallet
	for _, v := range r.w.Miners {
		if v.ID() != r.h.Cur.B.MinerID {
			from = v.Wallet
			break
		}
	}
	if rapid.Bool().Draw(r.t, "strangerPays") {
		from = r.s.Clients[1]
	}
	ok := r.do(r.call(from, "payFees", map[string]int64{"round": r.h.Cur.B.Round}), "foreign payFees")
	r.class(fmt.Sprintf("foreign_payfees/accepted=%v", ok))
	if ok {
		r.violation("foreign-payfees-accepted", "payFees from %s (not the generator) accepted", r.h.Label(from.ID))
	}
}

// step draws and executes one transaction.
func (r *run) step(diligence int) {
	m := r.m
	all := append(append([]string{}, r.s.Miners...), r.s.Clients[0].ID)
	if rapid.IntRange(1, 100).Draw(r.t, "useful") <= diligence {
		// what the phase needs, from somebody who still has to do it
		switch m.phase {
		case phContribute:
			needKeep := false
			_, regS := r.registered()
			var cand []int
			for i, v := range r.w.Sharders {
				if regS[v.ID()] && !m.keep[v.ID()] {
					cand = append(cand, i)
				}
			}
			needKeep = len(cand) > 0 && (count(m.keep) < r.cf.MinS || rapid.IntRange(0, 3).Draw(r.t, "moreKeep") == 0)
			if needKeep {
				r.sharderKeep(cand[rapid.IntRange(0, len(cand)-1).Draw(r.t, "keepWho")], "valid")
				return
			}
			if todo := r.missing(m.mpk); len(todo) > 0 {
				// now and then a miner that still has to contribute gets it wrong first
				how := "valid"
				if rapid.IntRange(0, 4).Draw(r.t, "mpkSlip") == 0 {
					how = rapid.SampledFrom(mpkVariants).Draw(r.t, "mpkHow")
				}
				r.contributeMpk(r.pick("mpkWho", todo), how)
				return
			}
		case phPublish:
			if todo := r.missing(m.shares); len(todo) > 0 {
				how := rapid.SampledFrom([]string{"valid", "valid", "valid-revealed", "valid-minimal"}).Draw(r.t, "sharesHow")
				if rapid.IntRange(0, 3).Draw(r.t, "sharesSlip") == 0 {
					how = rapid.SampledFrom(shareVariants).Draw(r.t, "sharesHow")
				}
				r.publishShares(r.pick("sharesWho", todo), how)
				return
			}
		case phWait:
			if todo := r.missing(m.waited); len(todo) > 0 {
				r.wait(r.pick("waitWho", todo))
				return
			}
		}
		if rapid.IntRange(0, 2).Draw(r.t, "idle") > 0 {
			return
		}
	}
	// anything, with a preference for the kind of transaction that belongs to the current phase (so that the invalid
	// variants are seen in phase too) and for senders that take part
	kinds := []string{"mpk", "keep", "shares", "wait", "register", "register", "payfees"}
	switch m.phase {
	case phContribute:
		kinds = []string{"mpk", "mpk", "mpk", "mpk", "keep", "keep", "shares", "wait", "register", "payfees"}
	case phPublish:
		kinds = []string{"shares", "shares", "shares", "shares", "shares", "mpk", "keep", "wait", "register", "payfees"}
	case phWait:
		kinds = []string{"wait", "wait", "wait", "mpk", "shares", "keep", "register", "payfees"}
	}
	from := all
	if members := sortedKeys(m.dkg); len(members) > 0 && rapid.IntRange(0, 9).Draw(r.t, "fromMember") < 7 {
		from = members
	}
	// out of its phase a well-formed transaction is the informative one (a malformed one is refused twice over)
	outOfPhaseValid := rapid.IntRange(0, 9).Draw(r.t, "plain") < 6
	switch rapid.SampledFrom(kinds).Draw(r.t, "kind") {
	case "mpk":
		how := rapid.SampledFrom(mpkVariants).Draw(r.t, "mpkHow")
		if m.phase != phContribute && outOfPhaseValid {
			how = "valid"
		}
		r.contributeMpk(r.pick("mpkFrom", from), how)
	case "keep":
		r.sharderKeep(rapid.IntRange(0, nMBSharders-1).Draw(r.t, "keepWho"), rapid.SampledFrom([]string{"valid", "valid", "valid", "unknown", "malformed"}).Draw(r.t, "keepHow"))
	case "shares":
		how := rapid.SampledFrom(shareVariants).Draw(r.t, "sharesHow")
		if m.phase != phPublish && outOfPhaseValid {
			how = "valid"
		}
		r.publishShares(r.pick("sharesFrom", from), how)
	case "wait":
		r.wait(r.pick("waitFrom", from))
	case "register":
		if rapid.Bool().Draw(r.t, "regMiner") {
			r.register(r.w.Miners[rapid.IntRange(0, nMBMiners-1).Draw(r.t, "regWho")])
		} else {
			r.register(r.w.Sharders[rapid.IntRange(0, nMBSharders-1).Draw(r.t, "regWho")])
		}
	case "payfees":
		r.foreignPayFees()
	}
}

// todo is the number of transactions the running phase still needs from the participating nodes.
func (r *run) todo() int {
	m := r.m
	switch m.phase {
	case phContribute:
		n := len(r.missing(m.mpk))
		if k := r.cf.MinS - count(m.keep); k > 0 {
			n += k
		}
		return n
	case phPublish:
		return len(r.missing(m.shares))
	case phWait:
		return len(r.missing(m.waited))
	}
	return 0
}

// ---------------------------------------------------------------------------------------------

func TestC38_ViewChangePhases(t *testing.T) {
	w := theVCWorld(t)
	s := w.S
	st := vkit.For("C38").SetRule("view_change enabled; genesis magic block of 7 miners and 4 sharders with harness-owned keys; per case: phase lengths 1..5 rounds each, miner-contract settings (max_n 3..7, min_n 2..4, max_s 2..4, min_s 1..2, t/k/x percent) through the owner's update_settings, 4..7 miners and 2..4 sharders registered with add_miner/add_sharder (the rest may register later), optional stakes, a per-case diligence (how often a transaction is the one the phase needs) and 50..300 blocks each closed by the generator's payFees; in between contributeMpk (valid, size-1, size+1, empty, malformed, garbage coefficients, foreign ID), sharder_keep (valid, unknown sharder, malformed), shareSignsOrShares (signed acknowledgements, revealed shares, minimal K-1, short, wrong signer, wrong polynomial, outsider signature, malformed, null entries, foreign id, missing id), wait, registrations and payFees by non-generators, from participating miners, registered non-participants, unregistered magic-block miners and plain clients, in and out of phase, repeated; real DKG polynomials and shares (herumi bls) with derived coefficients; a block that carries a new magic block is installed in the chain the way finalization does, so later cycles run against the new previous set. Oracle: model of the phase node fed with observed acceptances (phase moves only in the generator's payFees and only when round - start >= configured rounds; successor = next phase when the documented condition holds on the observed counts, else Start with restarts+1; restart wipes the DKG data), acceptance of contributeMpk / shareSignsOrShares iff in phase, participating, first, expected size and (shares) valid content, accepted data recorded under the sender, produced magic block K <= miners <= N, members took part, >= 1 miner and sharder of the previous set. Non-trivial: the history completes >= 1 full cycle (a magic block was produced and Wait returned to Start) or contains >= 1 restart; distinct by (settings, phase lengths, transition trace)")
	st.Assume("settings are changed only before the first key generation starts; x_percent > 0 (with 0 the contract's own 'must not happen' panic in reduceShardersList is reachable); every round has exactly one block and its generator's payFees succeeds")
	st.Assume("contributeMpk does not look inside the coefficients: a contribution of T strings that are not public keys is accepted by the contract; the oracle (like the task's) demands valid content for shares only and counts such contributions as an observation class")
	rapid.Check(t, func(t *rapid.T) {
		if err := s.Chain.VerifResetMagicBlocks(s.Genesis); err != nil {
			t.Fatalf("VERIF-HARNESS-ERROR reset: %v", err)
		}
		// Every case starts with an empty state cache (a node that was just started). The chain's state cache is keyed by block
		// hash and skips the commit of a hash it has seen; cases (and rapid's shrink attempts) that share their first blocks
		// would otherwise read each other's entries - observed: a payFees that loaded the shipped global node from an entry of
		// an earlier attempt and saved it over the case's settings.
		s.Chain.SetupStateCache()
		r := &run{t: t, st: st, w: w, s: s, classes: map[string]int{}}
		m := &model{prevM: setOf(s.Miners), prevS: setOf(s.Sharders)}
		m.resetDKG()
		r.m = m
		for ph := range m.rounds {
			m.rounds[ph] = int64(rapid.IntRange(1, 5).Draw(t, "rounds_"+phName[ph]))
		}
		minersc.PhaseRounds[minersc.Start] = m.rounds[phStart]
		minersc.PhaseRounds[minersc.Contribute] = m.rounds[phContribute]
		minersc.PhaseRounds[minersc.Share] = m.rounds[phShare]
		minersc.PhaseRounds[minersc.Publish] = m.rounds[phPublish]
		minersc.PhaseRounds[minersc.Wait] = m.rounds[phWait]

		r.h = s.NewHistory(s.Genesis)
		for _, v := range append(append([]*vnode{}, w.Miners...), w.Sharders...) {
			r.h.Know(v.Delegate.ID, v.Delegate.Name)
		}
		// The phase lengths are node configuration, not chain state: a first transaction that names them puts them into the
		// history (and keeps the block hashes of cases that differ only in them apart).
		if o, err := r.h.Do(r.h.Tx(s.Owner, s.Clients[7].ID, 1, 0, transaction.TxnTypeSend, fmt.Sprintf("verif C38 phase rounds %v", m.rounds))); err != nil || o.Rejected || o.Failed {
			t.Fatalf("VERIF-HARNESS-ERROR marker transaction: %+v %v", o, err)
		}
		r.cf = settings{
			MaxN: rapid.IntRange(3, 7).Draw(t, "max_n"), MinN: rapid.IntRange(2, 4).Draw(t, "min_n"),
			MaxS: rapid.IntRange(2, 4).Draw(t, "max_s"), MinS: rapid.IntRange(1, 2).Draw(t, "min_s"),
			TPct: rapid.SampledFrom([]string{"0.66", "0.5", "0.34", "1"}).Draw(t, "t_percent"),
			KPct: rapid.SampledFrom([]string{"0.75", "0.5", "0.6", "1"}).Draw(t, "k_percent"),
			XPct: rapid.SampledFrom([]string{"0.7", "0.3", "1", "0.01"}).Draw(t, "x_percent"),
		}
		if r.cf.MinN > r.cf.MaxN {
			r.cf.MinN = r.cf.MaxN
		}
		fields := map[string]string{"max_n": fmt.Sprint(r.cf.MaxN), "min_n": fmt.Sprint(r.cf.MinN), "max_s": fmt.Sprint(r.cf.MaxS), "min_s": fmt.Sprint(r.cf.MinS),
			"t_percent": r.cf.TPct, "k_percent": r.cf.KPct, "x_percent": r.cf.XPct}
		if o, err := r.h.Do(r.call(s.Owner, "update_settings", map[string]interface{}{"fields": fields})); err != nil || o.Rejected || o.Failed {
			t.Fatalf("VERIF-HARNESS-ERROR settings %v: %+v %v", fields, o, err)
		}
		// registrations
		nm, ns := rapid.IntRange(4, nMBMiners).Draw(t, "registeredMiners"), rapid.IntRange(2, nMBSharders).Draw(t, "registeredSharders")
		// (generator bias only) the contract derives N from the size of the magic block in force and K from N: with fewer
		// registered miners than K no key generation can ever get past the contribute phase; keep that to a minority of cases
		if kp, _ := strconv.ParseFloat(r.cf.KPct, 64); int(math.Ceil(kp*float64(minInt(r.cf.MaxN, nMBMiners)))) > nm && rapid.IntRange(0, 3).Draw(t, "feasible") > 0 {
			nm = nMBMiners
		}
		mperm := rapid.Permutation([]int{0, 1, 2, 3, 4, 5, 6}).Draw(t, "minerOrder")
		sperm := rapid.Permutation([]int{0, 1, 2, 3}).Draw(t, "sharderOrder")
		for _, i := range mperm[:nm] {
			if o, err := r.h.Do(simminer.AddNode(r.h, w.Miners[i].Node, 0.1, 10, 1e10, 0)); err != nil || o.Rejected || o.Failed {
				t.Fatalf("VERIF-HARNESS-ERROR add_miner: %+v %v", o, err)
			}
		}
		for _, i := range sperm[:ns] {
			if o, err := r.h.Do(simminer.AddNode(r.h, w.Sharders[i].Node, 0.1, 10, 1e10, 0)); err != nil || o.Rejected || o.Failed {
				t.Fatalf("VERIF-HARNESS-ERROR add_sharder: %+v %v", o, err)
			}
		}
		// stakes decide who stays when the DKG set is cut down to max_n
		for k := rapid.IntRange(0, 4).Draw(t, "stakes"); k > 0; k-- {
			v := w.Miners[mperm[rapid.IntRange(0, nm-1).Draw(t, "stakeOn")]]
			amt := currency.Coin(rapid.SampledFrom([]uint64{1e10, 3e10, 5e10}).Draw(t, "stake"))
			if _, err := r.h.Do(simminer.Stake(r.h, s.Clients[4+k%3], simminer.Miner, v.ID(), amt, 0)); err != nil {
				t.Fatalf("%s", err.Error())
			}
		}
		// first payFees stores the phase node
		if o, err := r.h.Do(simminer.PayFees(r.h)); err != nil || o.Rejected || o.Failed {
			t.Fatalf("VERIF-HARNESS-ERROR first payFees: %+v %v", o, err)
		}
		p, ph := r.phaseNode()
		if !p.Stored || ph != phStart || p.Restarts != 0 || p.StartRound != r.h.Cur.B.Round {
			r.violation("initial-phase-node", "after the first payFees (round %d) the phase node is %+v", r.h.Cur.B.Round, *p)
		}
		m.phase, m.start, m.restarts = phStart, p.StartRound, 0
		r.nextBlock(nil)

		diligence := rapid.SampledFrom([]int{95, 95, 85, 70, 40}).Draw(t, "diligence")
		maxTx := rapid.IntRange(2, 5).Draw(t, "maxTxPerBlock")
		blocks := rapid.IntRange(50, vkit.Scale(300, 300)).Draw(t, "blocks")
		for b := 0; b < blocks && !r.aborted; b++ {
			n := rapid.IntRange(0, maxTx).Draw(t, "txns")
			if left := m.start + m.rounds[m.phase] - r.h.Cur.B.Round + 1; left > 0 && rapid.IntRange(1, 100).Draw(t, "keepUp") <= diligence {
				// diligent nodes get their work done within the phase
				if need := (int64(r.todo()) + left - 1) / left; int64(n) < need {
					n = int(need)
				}
			}
			for ; n > 0 && !r.aborted; n-- {
				r.step(diligence)
			}
			if !r.aborted {
				r.closeBlock()
			}
		}
		st.Case()
		for k, n := range r.classes {
			st.ClassN(k, n)
		}
		nontrivial := r.cycles > 0 || r.restartsN > 0
		switch {
		case r.cycles > 0 && r.restartsN > 0:
			st.Class("case/cycle_and_restart")
		case r.cycles > 0:
			st.Class("case/cycle_only")
		case r.restartsN > 0:
			st.Class("case/restart_only")
		default:
			st.Class("case/neither")
		}
		if r.cycles > 1 {
			st.Class("case/several_cycles")
		}
		if r.activated > 1 {
			st.Class("case/several_view_changes")
		}
		if nontrivial {
			st.NonTrivial(fmt.Sprintf("%+v", r.cf), fmt.Sprint(m.rounds), strings.Join(r.trace, ";"))
		}
		if st.WantSample(nontrivial) {
			b, _ := json.Marshal(r.cf)
			st.Sample(nontrivial, map[string]interface{}{"settings": string(b), "phase_rounds": m.rounds, "blocks": blocks, "diligence": diligence,
				"cycles": r.cycles, "restarts": r.restartsN, "view_changes": r.activated, "transitions": tail(r.trace, 40), "last_steps": r.h.Render(12)})
		}
	})
}
