package minerchk

import (
	"fmt"
	"strings"
	"sync"
	"testing"

	"0chain.net/chaincore/block"
	"0chain.net/chaincore/transaction"
	"github.com/0chain/common/core/currency"
	"pgregory.net/rapid"
	"verifharness/sim"
	"verifharness/simminer"
	"verifharness/vkit"
)

func TestMain(m *testing.M) { vkit.Main(m) }

var (
	baseOnce sync.Once
	theSim   *sim.Sim
	baseBlk  *block.Block
	baseErr  error
)

// base boots the chain and registers all magic-block nodes once per process; every case forks from that block.
func base(t *testing.T) (*sim.Sim, *block.Block) {
	baseOnce.Do(func() {
		s, err := sim.Boot(sim.Options{EventDb: true})
		if err != nil {
			baseErr = err
			return
		}
		h := s.NewHistory(s.Genesis)
		if _, err := simminer.Setup(h); err != nil {
			baseErr = err
			return
		}
		theSim, baseBlk = s, h.NextBlock(1, 2)
	})
	if baseErr != nil {
		t.Fatalf("VERIF-HARNESS-ERROR base: %v", baseErr)
	}
	return theSim, baseBlk
}

func world(h *sim.History) *simminer.World {
	// the nodes are registered in the base block; rebuild the handle without executing anything
	w, err := simminer.Attach(h)
	if err != nil {
		panic(err)
	}
	return w
}

func viol(prop, key string, h *sim.History, format string, a ...interface{}) string {
	return vkit.Violation(prop, key, "%s :: last steps %v", fmt.Sprintf(format, a...), h.Render(8))
}

type nodeAcc struct {
	accrued map[string]uint64 // node id -> service charge reward + delegate pool rewards
	views   map[string]*simminer.NodeView
}

func accrued(t *rapid.T, h *sim.History) (miners, sharders nodeAcc) {
	read := func(f func(*block.Block) ([]*simminer.NodeView, error)) nodeAcc {
		vs, err := f(h.Cur.B)
		if err != nil {
			t.Fatalf("VERIF-HARNESS-ERROR views: %v", err)
		}
		a := nodeAcc{accrued: map[string]uint64{}, views: map[string]*simminer.NodeView{}}
		for _, v := range vs {
			a.accrued[v.ID] = uint64(v.Accrued())
			a.views[v.ID] = v
		}
		return a
	}
	return read(simminer.MinersOf), read(simminer.ShardersOf)
}

func eligible(v *simminer.NodeView, n int) bool {
	if v == nil || v.Killed || v.PoolDead || len(v.Pools) == 0 || v.Staked() < v.MinStake || v.Staked() == 0 {
		return false
	}
	// all delegates are rewarded (a proper random subset may hold no stake: the C10 finding)
	return n >= len(v.Pools)
}

// C22: the fee-and-reward payment is accepted only from the block's generator and for the block's round, and credits
// the miner side and the sharder side with amounts that add up exactly to the block's fees plus the block reward.
func TestC22_FeesAndRewardsSplit(t *testing.T) {
	s, bb := base(t)
	st := vkit.For("C22").SetRule("histories on a chain whose 4 miners and 2 sharders are registered: generated reward settings through the owner's update_settings (share_ratio, reward_rate, block_reward, num_sharders_rewarded 1..2, delegates rewarded), 0..3 stakers per node with generated stakes, optional kill of a node, then 2..6 blocks each with 0..6 fee-paying transactions (fees 0, 1, odd and large) closed by payFees attempts from the generator / another miner / a stranger / with a wrong round; oracle: acceptance iff sender == generator and round == block round; an accepted payment moves no account balance; reward increments of all miner nodes + all sharder nodes <= fees + block reward*rate, with equality when every node that can be chosen is eligible (staked >= min stake, alive, all its delegates rewarded); non-trivial = accepted payment in the eligible class with fees not divisible by the number of rewarded sharders; distinct by (settings, stakes, fees)")
	rapid.Check(t, func(t *rapid.T) {
		h := s.NewHistory(bb)
		w := world(h)
		owner := s.Owner
		// settings
		fields := map[string]string{
			"share_ratio":                    rapid.SampledFrom([]string{"0", "0.16", "0.5", "0.333", "1"}).Draw(t, "share_ratio"),
			"reward_rate":                    rapid.SampledFrom([]string{"1", "0.5", "0.123", "0"}).Draw(t, "reward_rate"),
			"block_reward":                   rapid.SampledFrom([]string{"0.068", "0", "0.0000000007", "1.5"}).Draw(t, "block_reward"),
			"num_sharders_rewarded":          rapid.SampledFrom([]string{"1", "2", "5", "0"}).Draw(t, "num_sharders_rewarded"),
			"num_miner_delegates_rewarded":   rapid.SampledFrom([]string{"10", "3", "1"}).Draw(t, "nmdr"),
			"num_sharder_delegates_rewarded": rapid.SampledFrom([]string{"5", "2", "1"}).Draw(t, "nsdr"),
		}
		if o, err := h.Do(h.Call(owner, sim.MinerSC, "update_settings", map[string]interface{}{"fields": fields}, 0, 0)); err != nil || o.Rejected || o.Failed {
			if err == nil && o.Failed && fields["num_sharders_rewarded"] == "0" {
				// no sharder to divide the sharders' part among: the contract refuses the configuration and the
				// shipped settings stay in force (an accepted 0 makes the next payFees divide by zero)
				st.Class("settings/zero-rewarded-sharders-refused")
			} else {
				t.Fatalf("VERIF-HARNESS-ERROR settings %v: %+v %v", fields, o, err)
			}
		}
		// stakes
		nodes := append(append([]*simminer.Node{}, w.Miners...), w.Sharders...)
		for _, n := range nodes {
			k := rapid.IntRange(0, 3).Draw(t, "stakers")
			for i := 0; i < k; i++ {
				c := s.Clients[rapid.IntRange(0, len(s.Clients)-1).Draw(t, "staker")]
				amt := currency.Coin(rapid.SampledFrom([]uint64{1e10, 1e10 + 1, 3e10, 77777777777, 5e12}).Draw(t, "stake"))
				if _, err := h.Do(simminer.Stake(h, c, n.Type, n.ID(), amt, 0)); err != nil {
					t.Fatalf("%s", err.Error())
				}
			}
		}
		if rapid.IntRange(0, 4).Draw(t, "kill") == 0 {
			n := nodes[rapid.IntRange(0, len(nodes)-1).Draw(t, "killWhich")]
			if _, err := h.Do(simminer.Kill(h, owner, n.Type, n.ID(), 0)); err != nil {
				t.Fatalf("%s", err.Error())
			}
		}
		h.NextBlock(1, 2)
		nblocks := rapid.IntRange(2, 6).Draw(t, "blocks")
		nontrivial := false
		for bi := 0; bi < nblocks; bi++ {
			ntx := rapid.IntRange(0, 6).Draw(t, "txns")
			for i := 0; i < ntx; i++ {
				c := s.Clients[rapid.IntRange(0, len(s.Clients)-1).Draw(t, "from")]
				to := s.Clients[(rapid.IntRange(0, len(s.Clients)-2).Draw(t, "to")+1)%len(s.Clients)]
				fee := currency.Coin(rapid.SampledFrom([]uint64{0, 1, 3, 7, 1000003, 1e10}).Draw(t, "fee"))
				if to.ID == c.ID {
					continue
				}
				if _, err := h.Do(h.Tx(c, to.ID, 5, fee, transaction.TxnTypeSend, "")); err != nil {
					t.Fatalf("%s", err.Error())
				}
			}
			// invalid attempts first (they must not pay anything), then the generator's
			for _, kind := range []string{"other-miner", "stranger", "wrong-round", "generator"} {
				if kind != "generator" && rapid.IntRange(0, 2).Draw(t, "try-"+kind) != 0 {
					continue
				}
				var fees uint64
				for _, x := range h.Cur.B.Txns {
					fees += uint64(x.Fee)
				}
				g, err := simminer.GlobalOf(h.Cur.B)
				if err != nil {
					t.Fatalf("VERIF-HARNESS-ERROR %v", err)
				}
				mBefore, sBefore := accrued(t, h)
				txn := simminer.PayFees(h)
				switch kind {
				case "other-miner":
					other := w.Miners[0]
					if other.ID() == h.Cur.B.MinerID {
						other = w.Miners[1]
					}
					txn = h.Call(other.Wallet, sim.MinerSC, "payFees", map[string]int64{"round": h.Cur.B.Round}, 0, 0)
				case "stranger":
					txn = h.Call(s.Clients[0], sim.MinerSC, "payFees", map[string]int64{"round": h.Cur.B.Round}, 0, 0)
				case "wrong-round":
					w0 := &sim.Wallet{ID: h.Cur.B.MinerID, PublicKey: s.MB.Miners.GetNode(h.Cur.B.MinerID).PublicKey}
					txn = h.Call(w0, sim.MinerSC, "payFees", map[string]int64{"round": h.Cur.B.Round + int64(rapid.SampledFrom([]int{-1, 1, 100}).Draw(t, "dr"))}, 0, 0)
				}
				snapBefore := h.Snap()
				o, err := h.Do(txn)
				if err != nil {
					t.Fatalf("%s", err.Error())
				}
				if o.Rejected {
					t.Fatalf("VERIF-HARNESS-ERROR payFees rejected: %v", o.Err)
				}
				mAfter, sAfter := accrued(t, h)
				var dM, dS uint64
				for id, a := range mAfter.accrued {
					if a < mBefore.accrued[id] {
						t.Fatalf("%s", viol("C22", "reward-decreased", h, "accrued reward of miner %s decreased in payFees", h.Label(id)))
					}
					dM += a - mBefore.accrued[id]
				}
				for id, a := range sAfter.accrued {
					if a < sBefore.accrued[id] {
						t.Fatalf("%s", viol("C22", "reward-decreased", h, "accrued reward of sharder %s decreased in payFees", h.Label(id)))
					}
					dS += a - sBefore.accrued[id]
				}
				if kind != "generator" {
					if !o.Failed {
						t.Fatalf("%s", viol("C22", "foreign-payment-accepted", h, "payFees from %s was accepted", kind))
					}
					if dM+dS != 0 {
						t.Fatalf("%s", viol("C22", "rejected-payment-paid", h, "a refused payFees (%s) credited %d", kind, dM+dS))
					}
					st.Class("refused/" + kind)
					continue
				}
				if o.Failed {
					t.Fatalf("%s", viol("C22", "generator-payment-refused", h, "payFees of the block's generator for the block's round failed: %s", o.Output))
				}
				snapAfter := h.Snap()
				for id, b := range snapAfter.Bal {
					if b != snapBefore.Bal[id] {
						t.Fatalf("%s", viol("C22", "payment-moved-tokens", h, "payFees changed the balance of %s", h.Label(id)))
					}
				}
				// expected total
				// (the amount of the reward itself is computed with the contract's own currency arithmetic)
				rw, rerr := currency.MultFloat64(g.BlockReward, g.RewardRate)
				if rerr != nil {
					t.Fatalf("VERIF-HARNESS-ERROR %v", rerr)
				}
				rewardU := uint64(rw)
				total := fees + rewardU
				if dM+dS > total {
					t.Fatalf("%s", viol("C22", "paid-more-than-fees-plus-reward", h, "miners got %d, sharders %d, together %d > fees %d + reward %d", dM, dS, dM+dS, fees, rewardU))
				}
				// eligibility of everyone who can be chosen
				clean := true
				for _, v := range mBefore.views {
					if v.ID == h.Cur.B.MinerID || mBefore.views[h.Cur.B.MinerID] == nil || mBefore.views[h.Cur.B.MinerID].Killed {
						if !eligible(v, g.NumMinerDelegatesRewarded) {
							clean = false
						}
					}
				}
				for _, v := range sBefore.views {
					if !eligible(v, g.NumSharderDelegatesRewarded) {
						clean = false
					}
				}
				rewarded := g.NumShardersRewarded
				if rewarded > len(sBefore.views) {
					rewarded = len(sBefore.views)
				}
				if clean {
					st.Class("all_eligible")
					if dM+dS != total {
						t.Fatalf("%s", viol("C22", "split-not-exact", h, "every node is eligible, fees %d + reward %d = %d, but miners were credited %d and sharders %d (sum %d, difference %d); settings %v", fees, rewardU, total, dM, dS, dM+dS, int64(total)-int64(dM+dS), fields))
					}
					if rewarded > 0 && fees%uint64(rewarded) != 0 {
						nontrivial = true
					}
				} else {
					st.Class("some_node_ineligible")
				}
				st.Class("accepted")
			}
			h.NextBlock(int64(rapid.IntRange(1, 2).Draw(t, "rounds")), 2)
		}
		st.Case()
		if nontrivial {
			st.NonTrivial(fmt.Sprint(fields), strings.Join(h.Render(0), ";"))
		}
		if st.WantSample(nontrivial) {
			st.Sample(nontrivial, map[string]interface{}{"settings": fields, "history": h.Render(30)})
		}
	})
}
