package minerchk

import (
	"fmt"
	"reflect"
	"testing"

	"0chain.net/chaincore/transaction"
	"github.com/0chain/common/core/currency"
	"pgregory.net/rapid"
	"verifharness/sim"
	"verifharness/simminer"
	"verifharness/vkit"
)

// nodesOf reads all registered miners and sharders of the current block.
func nodesOf(t *rapid.T, h *sim.History) map[string]*simminer.NodeView {
	out := map[string]*simminer.NodeView{}
	ms, err := simminer.MinersOf(h.Cur.B)
	if err != nil {
		t.Fatalf("VERIF-HARNESS-ERROR miners view: %v", err)
	}
	ss, err := simminer.ShardersOf(h.Cur.B)
	if err != nil {
		t.Fatalf("VERIF-HARNESS-ERROR sharders view: %v", err)
	}
	for _, v := range append(ms, ss...) {
		out[v.ID] = v
	}
	return out
}

func poolsExcept(v *simminer.NodeView, except string) map[string]simminer.Pool {
	m := map[string]simminer.Pool{}
	for _, p := range v.Pools {
		if p.ID != except {
			q := p
			q.RoundCreated, q.StakedAt = 0, 0
			m[p.ID] = q
		}
	}
	return m
}

// C11 / C23 (miner contract part): the stake pools of miners and sharders through addToDelegatePool,
// deleteFromDelegatePool, collect_reward, fee payments (which accrue rewards), node settings updates and kills.
//
// One generated history serves both properties; every oracle is judged on the node views before and after the
// transaction and on the balances of all known accounts.
func minerPoolHistory(t *testing.T, prop string) {
	s, bb := base(t)
	st := vkit.For(prop)
	rapid.Check(t, func(t *rapid.T) {
		h := s.NewHistory(bb)
		w := world(h)
		nodes := append(append([]*simminer.Node{}, w.Miners...), w.Sharders...)
		dead := map[string]bool{}
		rewardedPools := map[string]bool{}
		chains, killsThenRewards := 0, 0
		steps := rapid.IntRange(10, vkit.Scale(40, 80)).Draw(t, "steps")
		// a wallet that holds just enough for a stake but not for the fee on top of it: its top-up passes the contract
		// and is then dropped by the chain at the fee transfer
		tight := sim.NewWallet("tight", 0)
		h.Know(tight.ID, tight.Name)
		var queue []string
		var scriptNode *simminer.Node
		for i := 0; i < steps; i++ {
			op := rapid.SampledFrom([]string{"stake", "stake", "stake", "unstake", "unstake", "collect", "block", "block", "block", "settings", "kill", "unstakeRewarded", "tightScript"}).Draw(t, "op")
			n := nodes[rapid.IntRange(0, len(nodes)-1).Draw(t, "node")]
			if len(queue) > 0 {
				op, queue, n = queue[0], queue[1:], scriptNode
			}
			before := nodesOf(t, h)
			var txn *transaction.Transaction
			switch op {
			case "tightScript":
				scriptNode, queue = n, []string{"tightFund", "tightStake", "tightTopUp", "tightUnstake"}
				continue
			case "tightFund":
				need := uint64(3e10)
				if have := sim.ViewOf(h.Cur.B).Balance(tight.ID); have < need {
					txn = h.Tx(s.Clients[0], tight.ID, currency.Coin(need-have), 0, transaction.TxnTypeSend, "")
				} else {
					continue
				}
			case "tightStake":
				txn = simminer.Stake(h, tight, n.Type, n.ID(), 1e10, 0)
				op = "stake"
			case "tightTopUp":
				// the whole balance as value, plus a fee nothing is left for
				txn = simminer.Stake(h, tight, n.Type, n.ID(), currency.Coin(sim.ViewOf(h.Cur.B).Balance(tight.ID)), 1)
				op = "stake"
			case "tightUnstake":
				txn = simminer.Unstake(h, tight, n.Type, n.ID(), 0)
				op = "unstake"
			case "block":
				// some fee-paying transactions, then the generator's payFees: rewards accrue
				for k := rapid.IntRange(0, 3).Draw(t, "feeTxns"); k > 0; k-- {
					c := s.Clients[rapid.IntRange(0, 3).Draw(t, "payer")]
					if _, err := h.Do(h.Tx(c, s.Clients[4].ID, 5, currency.Coin(rapid.SampledFrom([]uint64{1, 1000, 1e9}).Draw(t, "fee")), transaction.TxnTypeSend, "")); err != nil {
						t.Fatalf("%s", err.Error())
					}
				}
				snapB := h.Snap()
				nb := nodesOf(t, h)
				if _, err := simminer.CloseBlock(h, 1, 2); err != nil {
					t.Fatalf("VERIF-HARNESS-ERROR close block: %v", err)
				}
				_ = snapB
				na := nodesOf(t, h)
				for id, a := range na {
					b := nb[id]
					if b == nil {
						continue
					}
					if dead[id] && a.Accrued() > b.Accrued() {
						t.Fatalf("%s", viol("C23", "dead-provider-rewarded", h, "node %s was killed earlier, its unpaid rewards grew from %d to %d in a fee payment", h.Label(id), b.Accrued(), a.Accrued()))
					}
					for _, p := range a.Pools {
						if q := b.Pool(p.ID); q != nil && p.Reward > q.Reward {
							rewardedPools[id+"|"+p.ID] = true
						}
					}
				}
				if len(dead) > 0 {
					killsThenRewards++
				}
				continue
			case "stake":
				c := s.Clients[rapid.IntRange(0, 3).Draw(t, "staker")]
				amt := currency.Coin(rapid.SampledFrom([]uint64{1e10, 3e10, 1e10 + 1, 5e12, 1, 2e15}).Draw(t, "stake"))
				txn = simminer.Stake(h, c, n.Type, n.ID(), amt, 0)
			case "unstake":
				c := s.Clients[rapid.IntRange(0, 3).Draw(t, "staker")]
				if rapid.IntRange(0, 4).Draw(t, "byDelegate") == 3 {
					c = n.Delegate
				}
				txn = simminer.Unstake(h, c, n.Type, n.ID(), 0)
			case "unstakeRewarded", "collect":
				// aim at a pool that has accrued a reward
				var cands [][2]string
				for id, v := range before {
					for _, p := range v.Pools {
						if p.Reward > 0 {
							cands = append(cands, [2]string{id, p.ID})
						}
					}
				}
				if len(cands) == 0 {
					continue
				}
				sortPairs(cands)
				pick := cands[rapid.IntRange(0, len(cands)-1).Draw(t, "rewardedPool")]
				n = w.Node(pick[0])
				var from *sim.Wallet
				for _, c := range s.Clients {
					if c.ID == pick[1] {
						from = c
					}
				}
				if from == nil || n == nil {
					continue
				}
				if op == "collect" {
					txn = simminer.CollectReward(h, from, n.Type, n.ID(), 0)
				} else {
					txn = simminer.Unstake(h, from, n.Type, n.ID(), 0)
				}
			case "settings":
				nd := rapid.SampledFrom([]int{1, 2, 10, 3}).Draw(t, "numDelegates")
				txn = simminer.UpdateSettings(h, n.Delegate, n.Type, n.ID(), nil, &nd, 0)
			case "kill":
				from := s.Owner
				switch rapid.IntRange(0, 3).Draw(t, "killer") {
				case 1:
					from = n.Delegate
				case 2:
					from = s.Clients[5]
				}
				txn = simminer.Kill(h, from, n.Type, n.ID(), 0)
			}
			snapBefore := h.Snap()
			o, err := h.Do(txn)
			if err != nil {
				t.Fatalf("%s", err.Error())
			}
			if o.Rejected {
				// a transaction the chain drops leaves no trace, whatever its contract call did before
				if a2, s2 := nodesOf(t, h), h.Snap(); !reflect.DeepEqual(before, a2) || !reflect.DeepEqual(snapBefore.Bal, s2.Bal) {
					t.Fatalf("%s", viol(prop, "dropped-transaction-changed-something", h, "%s on %s was dropped by the chain (%s) and changed nodes or balances", txn.FunctionName, h.Label(n.ID()), fmt.Sprint(o.Err)))
				}
				st.Class(op + "/dropped")
				continue
			}
			after := nodesOf(t, h)
			snapAfter := h.Snap()
			nb, na := before[n.ID()], after[n.ID()]
			if nb == nil || na == nil {
				t.Fatalf("VERIF-HARNESS-ERROR node %s vanished", n.ID())
			}
			sender := txn.ClientID
			paid := int64(snapAfter.Bal[sender]) - int64(snapBefore.Bal[sender])
			scDelta := int64(snapAfter.Bal[sim.MinerSC]) - int64(snapBefore.Bal[sim.MinerSC])
			st.Class(op + "/" + map[bool]string{true: "refused", false: "ok"}[o.Failed])
			// no other node's pools, reward or flags change in any of these transactions
			for id, b := range before {
				if id == n.ID() {
					continue
				}
				a := after[id]
				if a == nil || !reflect.DeepEqual(b.Pools, a.Pools) || b.Reward != a.Reward || b.Killed != a.Killed || b.PoolDead != a.PoolDead {
					t.Fatalf("%s", viol(prop, "other-provider-changed", h, "%s on node %s changed node %s: %v -> %v", txn.FunctionName, h.Label(n.ID()), h.Label(id), b, a))
				}
			}
			mine, mineAfter := nb.Pool(sender), na.Pool(sender)
			if o.Failed {
				if !reflect.DeepEqual(nb.Pools, na.Pools) || nb.Reward != na.Reward || nb.Killed != na.Killed || nb.PoolDead != na.PoolDead || paid != -int64(txn.Fee) || scDelta != int64(txn.Fee) {
					// (a refused call pays its fee, which goes to the miner contract's wallet, and nothing else)
					t.Fatalf("%s", viol(prop, "refused-call-changed-something", h, "refused %s on %s: node %v -> %v, sender %+d, contract wallet %+d", txn.FunctionName, h.Label(n.ID()), nb, na, paid, scDelta))
				}
				continue
			}
			switch op {
			case "stake":
				v := int64(txn.Value)
				g, _ := simminer.GlobalOf(h.Cur.B)
				if paid != -v || scDelta != v {
					t.Fatalf("%s", viol("C11", "lock-moved-wrong-amount", h, "addToDelegatePool of %d: staker %+d, contract wallet %+d", v, paid, scDelta))
				}
				var had currency.Coin
				var hadRew currency.Coin
				if mine != nil {
					had, hadRew = mine.Balance, mine.Reward
				}
				if mineAfter == nil || int64(mineAfter.Balance)-int64(had) != v || mineAfter.DelegateID != sender || mineAfter.Reward != hadRew {
					t.Fatalf("%s", viol("C11", "lock-not-in-own-pool", h, "addToDelegatePool of %d by %s on %s: own pool %v -> %v", v, h.Label(sender), h.Label(n.ID()), mine, mineAfter))
				}
				if !reflect.DeepEqual(poolsExcept(nb, sender), poolsExcept(na, sender)) {
					t.Fatalf("%s", viol("C11", "lock-changed-other-pool", h, "addToDelegatePool by %s on %s changed another delegate pool", h.Label(sender), h.Label(n.ID())))
				}
				if g != nil && (currency.Coin(v) < g.MinStake || mineAfter.Balance > g.MaxStake) {
					t.Fatalf("%s", viol("C11", "lock-outside-stake-bounds", h, "stake of %d accepted, pool now %d, bounds [%d, %d]", v, mineAfter.Balance, g.MinStake, g.MaxStake))
				}
				if mine == nil && len(nb.Pools) >= nb.NumDelegates {
					t.Fatalf("%s", viol("C11", "lock-above-max-delegates", h, "delegate pool number %d created on %s, its num_delegates is %d", len(na.Pools), h.Label(n.ID()), nb.NumDelegates))
				}
			case "unstake", "unstakeRewarded":
				if mine == nil {
					t.Fatalf("%s", viol("C11", "unlock-without-own-pool", h, "deleteFromDelegatePool by %s on %s succeeded although the sender has no pool there", h.Label(sender), h.Label(n.ID())))
				}
				want := int64(mine.Balance + mine.Reward)
				if sender == nb.DelegateWallet {
					want += int64(nb.Reward)
				}
				if paid != want || scDelta != -want {
					t.Fatalf("%s", viol("C11", "unlock-paid-wrong-amount", h, "deleteFromDelegatePool by %s on %s: pool balance %d + reward %d (service charge %d if delegate wallet=%v) but sender %+d, contract wallet %+d", h.Label(sender), h.Label(n.ID()), mine.Balance, mine.Reward, nb.Reward, sender == nb.DelegateWallet, paid, scDelta))
				}
				if mineAfter != nil {
					t.Fatalf("%s", viol("C11", "unlock-left-pool", h, "after deleteFromDelegatePool the pool is still listed: %v", mineAfter))
				}
				if !reflect.DeepEqual(poolsExcept(nb, sender), poolsExcept(na, sender)) {
					t.Fatalf("%s", viol("C11", "unlock-changed-other-pool", h, "deleteFromDelegatePool by %s on %s changed another delegate pool", h.Label(sender), h.Label(n.ID())))
				}
				if mine.Reward > 0 || rewardedPools[n.ID()+"|"+sender] {
					chains++
				}
				delete(rewardedPools, n.ID()+"|"+sender)
			case "collect":
				var want int64
				if mine != nil {
					want = int64(mine.Reward)
				}
				if sender == nb.DelegateWallet {
					want += int64(nb.Reward)
				}
				if paid != want || scDelta != -want {
					t.Fatalf("%s", viol("C11", "collect-paid-wrong-amount", h, "collect_reward by %s on %s: accrued %d but sender %+d, contract wallet %+d", h.Label(sender), h.Label(n.ID()), want, paid, scDelta))
				}
				if mine != nil && (mineAfter == nil || mineAfter.Balance != mine.Balance || mineAfter.Reward != 0) {
					t.Fatalf("%s", viol("C11", "collect-changed-stake", h, "collect_reward changed the pool %v -> %v", mine, mineAfter))
				}
			case "kill":
				if sender != s.Owner.ID {
					t.Fatalf("%s", viol("C23", "unauthorised-kill-accepted", h, "%s of %s sent by %s was accepted", txn.FunctionName, h.Label(n.ID()), h.Label(sender)))
				}
				if !na.Killed || !na.PoolDead {
					t.Fatalf("%s", viol("C23", "own-stake-pool-not-marked-dead", h, "%s of %s succeeded: killed=%v, stake pool dead=%v", txn.FunctionName, h.Label(n.ID()), na.Killed, na.PoolDead))
				}
				// the miner contract does not slash: every delegate keeps its balance
				if !reflect.DeepEqual(nb.Pools, na.Pools) {
					t.Fatalf("%s", viol("C23", "kill-changed-delegate-pools", h, "%s of %s changed its delegate pools %v -> %v", txn.FunctionName, h.Label(n.ID()), nb.Pools, na.Pools))
				}
				dead[n.ID()] = true
			}
		}
		st.Case()
		nt := false
		if prop == "C11" {
			nt = chains >= 1
		} else {
			nt = len(dead) >= 1 && killsThenRewards >= 1
		}
		if nt {
			st.NonTrivial(prop+"-miner", fmt.Sprint(h.Render(0)))
		}
	})
}

func sortPairs(a [][2]string) {
	for i := 1; i < len(a); i++ {
		for j := i; j > 0 && (a[j][0] < a[j-1][0] || a[j][0] == a[j-1][0] && a[j][1] < a[j-1][1]); j-- {
			a[j], a[j-1] = a[j-1], a[j]
		}
	}
}

func TestC11_MinerSharderPools(t *testing.T) { minerPoolHistory(t, "C11") }

func TestC23_KillMinerSharder(t *testing.T) { minerPoolHistory(t, "C23") }
