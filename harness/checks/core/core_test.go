package core

import (
	"encoding/hex"
	"fmt"
	"os"
	"strings"
	"testing"

	"0chain.net/chaincore/transaction"
	"0chain.net/core/config"
	"pgregory.net/rapid"
	"verifharness/gen"
	"verifharness/sim"
	"verifharness/vkit"
)

func TestMain(m *testing.M) { vkit.Main(m) }

func boot(t *testing.T) *sim.Sim {
	s, err := sim.Boot(sim.Options{EventDb: true})
	if err != nil {
		t.Fatalf("VERIF-HARNESS-ERROR boot: %v", err)
	}
	// sanity gate: the ledger of the base state must equal the supply, otherwise the harness is broken
	if sum, _, err := fullScan(sim.ViewOf(s.Genesis), nil); err != nil || sum != uint64(config.MaxTokenSupply) {
		t.Fatalf("VERIF-HARNESS-ERROR base ledger %d != supply (err %v)", sum, err)
	}
	return s
}

// fullScan sums every account leaf of the state. A leaf is an account when it has the account layout (56 bytes) and its
// transaction hash is one the history issued (or the genesis zero hash); known ids are accepted as well.
func fullScan(v *sim.View, h *sim.History) (sum uint64, unattributed int, err error) {
	leaves, err := v.Leaves()
	if err != nil {
		return 0, 0, err
	}
	issued := map[string]bool{strings.Repeat("0", 64): true}
	if h != nil {
		for _, hs := range h.TxnHashes {
			issued[hs] = true
		}
	}
	for path, val := range leaves {
		st, ok := sim.IsAccountLeaf(val)
		if !ok {
			continue
		}
		known := false
		if h != nil {
			_, known = h.Known[path]
		}
		if !known && !issued[hex.EncodeToString(st.TxnHashBytes)] {
			continue // a contract node that happens to be 56 bytes long
		}
		if !known {
			unattributed++
		}
		sum += uint64(st.Balance)
	}
	return sum, unattributed, nil
}

type runStats struct {
	transfers, failed, rejected, applied int
	nonSenderDecrease                    int
	replayRejected, skipRejected         int
	appliedPerSender                     map[string]int
	boundary                             int
}

// run generates and executes one history with the given monitors; the monitors report violations through the error.
func run(t *rapid.T, s *sim.Sim, prop string, monitors ...sim.Monitor) (*sim.History, *gen.Env) {
	h := s.NewHistory(s.Genesis)
	h.Monitors = monitors
	e := gen.NewEnv(h)
	steps := rapid.IntRange(8, vkit.Scale(45, 90)).Draw(t, "steps")
	for i := 0; i < steps; i++ {
		if rapid.IntRange(0, 7).Draw(t, "blockBoundary") == 0 {
			h.NextBlock(int64(rapid.IntRange(1, 3).Draw(t, "rounds")), int64(rapid.SampledFrom([]int{1, 2, 30, 4000, 90000}).Draw(t, "seconds")))
			continue
		}
		txn := e.Basic(t)
		if _, err := h.Do(txn); err != nil {
			dump(prop, h)
			t.Fatalf("%s", err.Error())
		}
	}
	return h, e
}

// puppetMonitor: an applied call of the harness' puppet contract moved exactly the transfers it queued, all of them, or
// (failed call) only the fee.
func puppetMonitor(prop string) sim.Monitor {
	var h0 *sim.History
	m := sim.PuppetMonitor(func(key, format string, a ...interface{}) error { return viol(prop, key, h0, format, a...) })
	return func(h *sim.History, txn *transaction.Transaction, o sim.Outcome, before, after *sim.Snapshot) error {
		h0 = h
		if txn.ToClientID == sim.PuppetSC && !o.Rejected {
			vkit.For(prop).Class("puppet-call/" + map[bool]string{true: "failed", false: "ok"}[o.Failed])
		}
		return m(h, txn, o, before, after)
	}
}

// dump writes the library-free history next to the rapid fail file.
func dump(prop string, h *sim.History) {
	_ = os.MkdirAll("history", 0o755)
	_ = os.WriteFile(fmt.Sprintf("history/%s-last-failing-history.json", prop), h.JSON(), 0o644)
}

func viol(prop, key string, h *sim.History, format string, a ...interface{}) error {
	return fmt.Errorf("%s", vkit.Violation(prop, key, "%s :: last steps %v", fmt.Sprintf(format, a...), h.Render(6)))
}

// ---------------------------------------------------------------------------
// C01 total supply conserved

func supplyMonitor(h *sim.History, txn *transaction.Transaction, o sim.Outcome, before, after *sim.Snapshot) error {
	if o.Rejected && before.Root != after.Root {
		return viol("C01", "rejected-txn-changed-state", h, "a rejected transaction changed the state root")
	}
	if after.SumKnown() != uint64(config.MaxTokenSupply) {
		// an account outside the registry may have been credited: decide by a full scan
		sum, _, err := fullScan(sim.ViewOf(h.Cur.B), h)
		if err != nil {
			return fmt.Errorf("VERIF-HARNESS-ERROR scan: %v", err)
		}
		if sum != uint64(config.MaxTokenSupply) {
			return viol("C01", "supply-changed", h, "sum of all account balances is %d, supply %d (difference %d) after a %s transaction", sum, uint64(config.MaxTokenSupply), int64(sum-uint64(config.MaxTokenSupply)), outcome(o))
		}
	}
	return nil
}

func outcome(o sim.Outcome) string {
	switch {
	case o.Rejected:
		return "rejected"
	case o.Failed:
		return "failed"
	}
	return "successful"
}

func TestC01_SupplyConserved(t *testing.T) {
	s := boot(t)
	st := vkit.For("C01").SetRule("generated histories (8..45 steps, 1..7 blocks) over the real chain: sends/data/invalid types with boundary values (0, 1, balance-fee, balance-fee+1, balance, supply, supply+1, 2^63, 2^64-1) to clients, contracts, fresh and unknown addresses and to self; faucet pour/refill; garbage calls to every contract (unknown function, malformed and wrong-shaped JSON); replays, skipped and past nonces; block boundaries crossing minutes to a day; oracle after EVERY transaction: sum of account balances == MaxTokenSupply (known accounts read uncached, full trie scan at the end and whenever the known sum deviates), rejected transactions leave the root unchanged; non-trivial = history in which tokens moved between >= 2 accounts other than the fee in >= 3 transactions incl. a contract call; distinct by history fingerprint")
	rapid.Check(t, func(t *rapid.T) {
		moved, scMoved := 0, 0
		count := func(h *sim.History, txn *transaction.Transaction, o sim.Outcome, before, after *sim.Snapshot) error {
			if o.Rejected {
				return nil
			}
			ch := 0
			for id, b := range after.Bal {
				if before.Bal[id] != b && id != sim.MinerSC {
					ch++
				}
			}
			if ch >= 2 {
				moved++
				if txn.TransactionType == transaction.TxnTypeSmartContract {
					scMoved++
				}
			}
			return nil
		}
		h, e := run(t, s, "C01", supplyMonitor, count, puppetMonitor("C01"))
		sum, un, err := fullScan(sim.ViewOf(h.Cur.B), h)
		if err != nil {
			t.Fatalf("VERIF-HARNESS-ERROR %v", err)
		}
		if sum != uint64(config.MaxTokenSupply) {
			dump("C01", h)
			t.Fatalf("%s", viol("C01", "supply-changed", h, "full scan at the end: sum %d, supply %d", sum, uint64(config.MaxTokenSupply)).Error())
		}
		st.Case()
		st.ExtraAdd("transactions", int64(len(h.Steps)))
		st.ExtraAdd("unattributed_account_leaves", int64(un))
		for k, v := range e.Classes {
			st.ClassN(k, v)
		}
		st.ClassN("outcome/rejected", h.Rejected)
		st.ClassN("outcome/failed", h.Failed)
		st.ClassN("outcome/ok", h.Applied-h.Failed)
		nt := moved >= 3 && scMoved >= 1
		if nt {
			st.NonTrivial(string(h.JSON()))
		}
		if st.WantSample(nt) {
			st.Sample(nt, h.Render(25))
		}
	})
}

// ---------------------------------------------------------------------------
// C03 strict nonce order, apply once

func TestC03_NonceOrder(t *testing.T) {
	s := boot(t)
	st := vkit.For("C03").SetRule("same generated histories with weight on nonce games (replay of an earlier signed transaction, skipped nonce, past nonce, interleaved senders, across blocks); model = nonce in state before the transaction; oracle: applied (ok or chargeable-failed) => txn nonce == state nonce + 1 and state nonce afterwards == that nonce; rejected => nonce and root unchanged; no (sender, nonce) applied twice; an in-order plain send with sufficient funds to another valid address is always applied; non-trivial = history with >= 1 rejected replay, >= 1 rejected skipped/past nonce and >= 2 applied transactions of one sender; distinct by history fingerprint")
	rapid.Check(t, func(t *rapid.T) {
		appliedOnce := map[string]bool{}
		perSender := map[string]int{}
		badNonceRejected, replayRejected := 0, 0
		seen := map[string]bool{}
		mon := func(h *sim.History, txn *transaction.Transaction, o sim.Outcome, before, after *sim.Snapshot) error {
			from := txn.ClientID
			bn, an := before.Nonce[from], after.Nonce[from]
			if o.Rejected {
				if an != bn || before.Root != after.Root {
					return viol("C03", "rejected-txn-changed-state", h, "a rejected transaction changed the sender's nonce (%d -> %d) or the state", bn, an)
				}
				if txn.Nonce != bn+1 {
					badNonceRejected++
					if seen[txn.Hash] {
						replayRejected++
					}
				} else if _, exists := before.Bal[from]; exists && txn.TransactionType == transaction.TxnTypeSend && txn.ToClientID != from && isLowerHex64(txn.ToClientID) &&
					uint64(txn.Value) <= before.Bal[from] && uint64(txn.Fee) <= before.Bal[from]-uint64(txn.Value) && uint64(txn.Value) <= uint64(config.MaxTokenSupply) {
					return viol("C03", "in-order-send-rejected", h, "a plain send with the next nonce %d and sufficient funds was rejected: %v", txn.Nonce, o.Err)
				}
				seen[txn.Hash] = true
				return nil
			}
			seen[txn.Hash] = true
			if txn.Nonce != bn+1 {
				return viol("C03", "out-of-order-applied", h, "transaction with nonce %d applied while the sender's nonce in state was %d", txn.Nonce, bn)
			}
			if an != bn+1 {
				return viol("C03", "nonce-not-incremented-by-one", h, "applied (%s) transaction moved the sender's nonce %d -> %d", outcome(o), bn, an)
			}
			key := fmt.Sprintf("%s/%d", from, txn.Nonce)
			if appliedOnce[key] {
				return viol("C03", "applied-twice", h, "sender %s nonce %d applied twice", h.Label(from), txn.Nonce)
			}
			appliedOnce[key] = true
			perSender[from]++
			// nobody else's nonce moves
			for id, n := range after.Nonce {
				if id != from && before.Nonce[id] != n {
					return viol("C03", "foreign-nonce-changed", h, "nonce of %s changed %d -> %d by a transaction of %s", h.Label(id), before.Nonce[id], n, h.Label(from))
				}
			}
			return nil
		}
		h, e := run(t, s, "C03", mon)
		st.Case()
		for k, v := range e.Classes {
			st.ClassN(k, v)
		}
		two := false
		for _, n := range perSender {
			if n >= 2 {
				two = true
			}
		}
		nt := replayRejected >= 1 && badNonceRejected > replayRejected && two
		if replayRejected > 0 {
			st.Class("replay_rejected")
		}
		if nt {
			st.NonTrivial(string(h.JSON()))
		}
		if st.WantSample(nt) {
			st.Sample(nt, h.Render(25))
		}
	})
}

// ---------------------------------------------------------------------------
// C04 debits only what the sender authorised; C05 no overdraw / wrap

func debitMonitor(h *sim.History, txn *transaction.Transaction, o sim.Outcome, before, after *sim.Snapshot) error {
	if o.Rejected {
		return nil
	}
	for id, b := range before.Bal {
		a := after.Bal[id]
		if a >= b {
			continue
		}
		dec := b - a
		switch {
		case id == txn.ClientID:
			limit := uint64(txn.Value) + uint64(txn.Fee)
			if limit < uint64(txn.Value) {
				limit = ^uint64(0)
			}
			if dec > limit {
				return viol("C04", "sender-overcharged", h, "sender %s lost %d, more than value %d + fee %d", h.Label(id), dec, uint64(txn.Value), uint64(txn.Fee))
			}
		case txn.TransactionType == transaction.TxnTypeSmartContract && id == txn.ToClientID:
			// the called contract's own wallet
		default:
			return viol("C04", "third-party-debited", h, "account %s lost %d tokens in a transaction sent by %s to %s without its authorisation", h.Label(id), dec, h.Label(txn.ClientID), h.Label(txn.ToClientID))
		}
	}
	return nil
}

func TestC04_DebitsOnlyAuthorised(t *testing.T) {
	s := boot(t)
	st := vkit.For("C04").SetRule("same generated histories; oracle for every applied transaction and every account whose balance decreased: it is the sender and the decrease <= value + fee, or it is the called contract's own wallet (signed transfers / free-storage grants are judged in the contract-specific parts); non-trivial = history in which an account other than the sender decreased (a contract paid out) and a failed call charged only the fee; distinct by history fingerprint")
	rapid.Check(t, func(t *rapid.T) {
		other, failedOnlyFee := 0, 0
		mon := func(h *sim.History, txn *transaction.Transaction, o sim.Outcome, before, after *sim.Snapshot) error {
			if err := debitMonitor(h, txn, o, before, after); err != nil {
				return err
			}
			if o.Rejected {
				return nil
			}
			for id, b := range before.Bal {
				if after.Bal[id] < b && id != txn.ClientID {
					other++
				}
			}
			if o.Failed && before.Bal[txn.ClientID]-after.Bal[txn.ClientID] == uint64(txn.Fee) {
				failedOnlyFee++
			}
			return nil
		}
		h, e := run(t, s, "C04", mon, puppetMonitor("C04"))
		st.Case()
		for k, v := range e.Classes {
			st.ClassN(k, v)
		}
		nt := other >= 1 && failedOnlyFee >= 1
		if nt {
			st.NonTrivial(string(h.JSON()))
		}
		if st.WantSample(nt) {
			st.Sample(nt, h.Render(25))
		}
	})
}

func TestC05_NoOverdrawNoWrap(t *testing.T) {
	s := boot(t)
	st := vkit.For("C05").SetRule("same generated histories with amounts at 0, 1, balance-fee, balance-fee+1, balance, supply, supply+1, 2^63, 2^64-1; oracle after every transaction: every account balance <= supply, the sum stays the supply (so nothing wrapped), a transaction that asks for more than the source holds is rejected as a whole (root unchanged) and an applied send moved exactly value to the recipient and value+fee from the sender; non-trivial = history containing a rejected over-spend within 1 unit of the boundary and an applied send of exactly balance-fee; distinct by history fingerprint")
	rapid.Check(t, func(t *rapid.T) {
		overBy1, exact := 0, 0
		mon := func(h *sim.History, txn *transaction.Transaction, o sim.Outcome, before, after *sim.Snapshot) error {
			for id, b := range after.Bal {
				if b > uint64(config.MaxTokenSupply) {
					return viol("C05", "balance-above-supply", h, "account %s holds %d > supply", h.Label(id), b)
				}
			}
			if after.SumKnown() != before.SumKnown() {
				sum, _, _ := fullScan(sim.ViewOf(h.Cur.B), h)
				if sum != uint64(config.MaxTokenSupply) {
					return viol("C05", "sum-changed", h, "sum of balances moved from %d to %d", before.SumKnown(), sum)
				}
			}
			from, to := txn.ClientID, txn.ToClientID
			need := uint64(txn.Value) + uint64(txn.Fee)
			overflow := need < uint64(txn.Value)
			if txn.TransactionType == transaction.TxnTypeSend && txn.Nonce == before.Nonce[from]+1 {
				if overflow || need > before.Bal[from] {
					if !o.Rejected {
						return viol("C05", "overdraw-applied", h, "send of %d + fee %d applied with balance %d", uint64(txn.Value), uint64(txn.Fee), before.Bal[from])
					}
					if before.Root != after.Root {
						return viol("C05", "failed-transfer-left-traces", h, "an over-spending send was rejected but the state changed")
					}
					if !overflow && need == before.Bal[from]+1 {
						overBy1++
					}
				} else if !o.Rejected && from != to {
					if before.Bal[from]-after.Bal[from] != need {
						return viol("C05", "wrong-debit", h, "sender lost %d, value+fee is %d", before.Bal[from]-after.Bal[from], need)
					}
					got := after.Bal[to] - before.Bal[to]
					want := uint64(txn.Value)
					if to == sim.MinerSC {
						want += uint64(txn.Fee)
					}
					if _, known := after.Bal[to]; known && got != want {
						return viol("C05", "wrong-credit", h, "recipient %s gained %d, expected %d", h.Label(to), got, want)
					}
					if need == before.Bal[from] && txn.Value > 0 {
						exact++
					}
				}
			}
			return nil
		}
		h, e := run(t, s, "C05", mon, puppetMonitor("C05"))
		st.Case()
		for k, v := range e.Classes {
			st.ClassN(k, v)
		}
		nt := overBy1 >= 1 && exact >= 1
		if overBy1 > 0 {
			st.Class("overspend_by_one_rejected")
		}
		if exact > 0 {
			st.Class("spent_exactly_everything")
		}
		if nt {
			st.NonTrivial(string(h.JSON()))
		}
		if st.WantSample(nt) {
			st.Sample(nt, h.Render(25))
		}
	})
}

// isLowerHex64: the canonical spelling of an account id.
func isLowerHex64(s string) bool {
	if len(s) != 64 {
		return false
	}
	for i := 0; i < len(s); i++ {
		c := s[i]
		if !(c >= '0' && c <= '9' || c >= 'a' && c <= 'f') {
			return false
		}
	}
	return true
}
