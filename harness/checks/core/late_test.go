package core

import (
	"fmt"

	"0chain.net/chaincore/state"
	"0chain.net/chaincore/transaction"
	"0chain.net/core/encryption"
	"0chain.net/smartcontract/multisigsc"
	"github.com/0chain/common/core/currency"
	"pgregory.net/rapid"
	"verifharness/gen"
	"verifharness/sim"
	"verifharness/simzcn"
)

// Late failures: contract calls that write state (or queue transfers) and only then hit an error, so that the
// rollback of a chargeable failure has something to undo. They are registered as gen.Extra generators and therefore
// feed every core check that draws from gen.FailingCall (C02, C06 and the ledger checks).
//
//   - storagesc add_validator stores the validator node and the validator partition before its stake pool
//     settings are validated;
//   - zcnsc add-authorizer (sent by the contract owner) stores the authorizer node before the stake pool settings
//     are validated;
//   - multisigsc vote creates the proposal and links it into the expiration queue before it finds out that the
//     wallet is not registered, that the sender is no signer of it, or that the vote signature is wrong.
//
// Valid variants are mixed in (they succeed), so the families are biased to late failures, not made of them.

func init() {
	gen.Extra = append(gen.Extra, lateValidator, lateAuthorizer, lateVoteUnregistered, lateVoteRegistered)
}

func anyWallet(t *rapid.T, e *gen.Env, label string) *sim.Wallet {
	ws := e.Wallets()
	return ws[rapid.IntRange(0, len(ws)-1).Draw(t, label)]
}

func lateFee(t *rapid.T) currency.Coin {
	return currency.Coin(rapid.SampledFrom([]uint64{0, 1, 1e6, 1e10}).Draw(t, "lateFee"))
}

func lateValidator(t *rapid.T, e *gen.Env) *transaction.Transaction {
	from := anyWallet(t, e, "from")
	delegate := anyWallet(t, e, "delegate")
	settings := map[string]interface{}{
		"delegate_wallet": delegate.ID,
		"num_delegates":   rapid.SampledFrom([]int{-1, 0, 1, 5, 1000000}).Draw(t, "numDelegates"),
		"service_charge":  rapid.SampledFrom([]float64{-0.5, 0, 0.1, 0.9, 2}).Draw(t, "serviceCharge"),
	}
	input := map[string]interface{}{
		"url":                 fmt.Sprintf("https://validator%d.verif.test", rapid.IntRange(0, 3).Draw(t, "url")),
		"stake_pool_settings": settings,
	}
	e.Note("late/add_validator")
	return e.H.Call(from, sim.StorageSC, "add_validator", input, 0, lateFee(t))
}

func lateAuthorizer(t *rapid.T, e *gen.Env) *transaction.Transaction {
	from := e.H.S.Owner
	if rapid.IntRange(0, 5).Draw(t, "stranger") == 0 {
		from = anyWallet(t, e, "from")
	}
	a := simzcn.NewAuthorizer(rapid.IntRange(0, 3).Draw(t, "authorizer"))
	p := simzcn.AddAuthorizerPayload(a,
		rapid.SampledFrom([]float64{-0.5, 0, 0.1, 2}).Draw(t, "serviceCharge"),
		rapid.SampledFrom([]int{-1, 0, 5, 1000000}).Draw(t, "numDelegates"))
	e.Note("late/add-authorizer")
	txn := e.H.Call(from, sim.ZcnSC, "add-authorizer", p, 0, lateFee(t))
	return txn
}

// lateVoteUnregistered votes for a transfer out of an account that never registered a multi-sig wallet.
func lateVoteUnregistered(t *rapid.T, e *gen.Env) *transaction.Transaction {
	from := anyWallet(t, e, "from")
	owner := anyWallet(t, e, "walletOwner")
	v := &multisigsc.Vote{
		ProposalID: fmt.Sprintf("p%d", rapid.IntRange(0, 3).Draw(t, "proposal")),
		Transfer:   state.Transfer{ClientID: owner.ID, ToClientID: anyWallet(t, e, "to").ID, Amount: currency.Coin(rapid.Uint64Range(1, 1e12).Draw(t, "amount"))},
		Signature:  encryption.Hash("not a signature"),
	}
	e.Note("late/vote-unregistered")
	return e.H.Call(from, sim.MultisigSC, multisigsc.VoteFuncName, v, 0, lateFee(t))
}

// lateVoteRegistered registers a 2-of-3 wallet for one of the funded clients (first call of a history) and then
// votes on it: by a stranger, by a signer with a signature over another transfer, and genuinely.
func lateVoteRegistered(t *rapid.T, e *gen.Env) *transaction.Transaction {
	h := e.H
	m, _ := e.X["multisig"].(*simzcn.MultiSig)
	if m == nil {
		owner := h.S.Clients[rapid.IntRange(0, len(h.S.Clients)-1).Draw(t, "walletOwner")]
		var err error
		if m, err = simzcn.NewMultiSig(owner, 2, 3); err != nil {
			t.Fatalf("VERIF-HARNESS-ERROR multisig: %v", err)
		}
		m.Know(h)
		e.X["multisig"] = m
		e.Note("late/multisig-register")
		return m.Register(h)
	}
	// signer wallets start without tokens: fee 0 lets their votes through the balance check
	proposal := fmt.Sprintf("q%d", rapid.IntRange(0, 3).Draw(t, "proposal"))
	to := anyWallet(t, e, "to").ID
	amount := currency.Coin(rapid.Uint64Range(1, 1e12).Draw(t, "amount"))
	signer := rapid.IntRange(0, 2).Draw(t, "signer")
	switch rapid.IntRange(0, 3).Draw(t, "voteKind") {
	case 0:
		e.Note("late/vote-stranger")
		m.Fee = lateFee(t)
		return m.VoteRaw(h, anyWallet(t, e, "from"), m.NewVote(proposal, to, amount, signer, true))
	case 1:
		e.Note("late/vote-bad-signature")
		m.Fee = 0
		return m.Vote(h, proposal, to, amount, signer, false)
	default:
		e.Note("late/vote-genuine")
		m.Fee = 0
		return m.Vote(h, proposal, to, amount, signer, true)
	}
}
