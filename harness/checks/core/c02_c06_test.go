package core

import (
	"encoding/json"
	"fmt"
	"reflect"
	"runtime"
	"testing"

	"0chain.net/chaincore/transaction"
	"0chain.net/smartcontract/dbs/event"
	"pgregory.net/rapid"
	"verifharness/gen"
	"verifharness/sim"
	"verifharness/simminer"
	"verifharness/vkit"
)

// ---------------------------------------------------------------------------
// C02 a failing contract call only pays its fee and consumes its nonce.
//
// Differential oracle: the state after a chargeable failure must have the same
// root as the state obtained by applying, to a fork of the pre-state, a plain
// data transaction with the same sender, fee, nonce, hash and time - i.e. fee
// payment and nonce increment and nothing else.

func checkFailedCall(h *sim.History, txn *transaction.Transaction, twinRoot string, twinOK bool, events []event.Event, o sim.Outcome) error {
	if !twinOK {
		return viol("C02", "failed-call-but-twin-rejected", h, "the call was applied as a chargeable failure although a plain transaction with the same fee and nonce is rejected on the same state")
	}
	if got := h.Cur.Root(); got != twinRoot {
		return viol("C02", "failed-call-left-state-changes", h, "state root after the failed call is %s, fee payment + nonce increment alone give %s: the failed call left other writes behind (output %q)", got[:12], twinRoot[:12], o.Output)
	}
	errs := 0
	for _, e := range events {
		switch {
		case e.Type == event.TypeError:
			errs++
			if fmt.Sprint(e.Data) != o.Output {
				return viol("C02", "error-event-differs", h, "error event carries %q, transaction output is %q", fmt.Sprint(e.Data), o.Output)
			}
		case e.Type == event.TypeStats && (e.Tag == event.TagAddOrOverwriteUser || e.Tag == event.TagUniqueAddress):
			if e.Tag == event.TagAddOrOverwriteUser && e.Index != txn.ClientID && e.Index != sim.MinerSC {
				return viol("C02", "failed-call-emitted-events", h, "a failed call emitted a balance event for %s", h.Label(e.Index))
			}
		default:
			return viol("C02", "failed-call-emitted-events", h, "a failed call left a contract event behind (type %v tag %v index %s)", e.Type, e.Tag, e.Index)
		}
	}
	if errs != 1 {
		return viol("C02", "error-event-count", h, "a failed call produced %d error events, expected exactly 1", errs)
	}
	return nil
}

// c02Run carries the shadow of the block under construction: a fork taken when the block had no failed call yet, on which
// every chargeable failure is replaced by its fee-only twin (a plain data transaction with the same sender, fee, nonce,
// hash and time) and every other transaction is executed unchanged. The shadow never runs the code of a failing call, so
// whatever such a call leaves behind - in the trie or in a state cache that later transactions read through - shows up as
// a difference between the two state roots, at the failing transaction or at a later one of the same block.
type c02Run struct {
	h             *sim.History
	shadow        *sim.Block
	failedInBlock int
}

// newBlock must be called right after a block was opened (before its first transaction).
func (r *c02Run) newBlock() { r.shadow, r.failedInBlock = r.h.Cur.ShadowAtOpen(), 0 }

// run executes one transaction with the C02 oracle around it.
func (r *c02Run) run(txn *transaction.Transaction) (o sim.Outcome, wroteBeforeFailing bool, err error) {
	h := r.h
	dry := sim.DryResult{}
	if txn.TransactionType == transaction.TxnTypeSmartContract {
		dry = h.Cur.DryRun(txn)
	}
	n := len(h.Cur.B.Events)
	o, err = h.Do(txn)
	if err != nil {
		return o, false, err
	}
	switch {
	case o.Rejected:
		if so := r.shadow.Exec(sim.CloneTxn(txn)); !so.Rejected && r.failedInBlock > 0 {
			return o, false, viol("C02", "later-transaction-saw-failed-call", h, "a transaction rejected after %d failed call(s) in this block is accepted on a state where those calls only paid their fee", r.failedInBlock)
		}
		return o, false, nil
	case o.Failed:
		twin := sim.CloneTxn(txn)
		twin.TransactionType = transaction.TxnTypeData
		twin.Hash = txn.Hash
		to := r.shadow.Exec(twin)
		r.failedInBlock++
		if to.Rejected {
			return o, false, fmt.Errorf("VERIF-HARNESS-ERROR twin rejected: %v", to.Err)
		}
		if err := checkFailedCall(h, txn, r.shadow.Root(), !to.Rejected, h.Cur.B.Events[n:], o); err != nil {
			return o, false, err
		}
		wroteBeforeFailing = dry.Err != nil && (dry.Writes > 0 || dry.Transfers > 0)
	default:
		so := r.shadow.Exec(sim.CloneTxn(txn))
		if r.failedInBlock == 0 {
			if so.Rejected || so.Failed || r.shadow.Root() != h.Cur.Root() {
				// no failed call involved, so this is not C02's business (C06 compares repeated executions); the shadow of
				// this block is of no use any more
				return o, false, fmt.Errorf("VERIF-HARNESS-ERROR shadow diverged without a failed call: shadow rejected=%v failed=%v root %s vs %s", so.Rejected, so.Failed, r.shadow.Root()[:12], h.Cur.Root()[:12])
			}
			return o, false, nil
		}
		if so.Rejected || so.Failed || r.shadow.Root() != h.Cur.Root() || so.Output != o.Output {
			return o, false, viol("C02", "later-transaction-saw-failed-call", h, "after %d failed call(s) in this block a successful transaction gives state root %s (output %.80q); on a state where the failed calls only paid their fee the same transaction gives %s (rejected=%v failed=%v output %.80q): a failed call left something behind that later transactions read", r.failedInBlock, h.Cur.Root()[:12], o.Output, r.shadow.Root()[:12], so.Rejected, so.Failed, so.Output)
		}
	}
	return o, wroteBeforeFailing, nil
}

func TestC02_FailedCallOnlyPaysFee(t *testing.T) {
	s := boot(t)
	st := vkit.For("C02").SetRule("generated histories biased to contract calls that fail (garbage and perturbed payloads to every contract, semi-valid calls of real functions with well-formed ids and lock-sized values, faucet calls beyond limits and balances, plus the contract-specific late-failure generators), on a chain with none / demeter / demeter+electra hard forks recorded; oracle: a shadow of the block in which every chargeable failure is replaced by a plain data transaction with the same sender, fee, nonce, hash and time and everything else is executed unchanged must have the same state root after every transaction of the block - at the failing call (fee + nonce and nothing else) and at every later transaction (nothing readable was left in a state cache); the failing call returns exactly one error event whose text is the transaction output and no contract events; non-trivial = failing call for which an instrumented dry run on a scratch state shows >= 1 state write or queued transfer before the error (the rollback had something to roll back); distinct by (contract, function, error text)")
	rapid.Check(t, func(t *rapid.T) {
		h := s.NewHistory(s.Genesis)
		h.Monitors = []sim.Monitor{supplyMonitor}
		e := gen.NewEnv(h)
		r := &c02Run{h: h}
		r.newBlock()
		forks := rapid.SampledFrom([]string{"none", "demeter", "demeter+electra", "demeter"}).Draw(t, "forks")
		if forks != "none" {
			if o, _, err := r.run(simminer.AddHardfork(h, s.Owner, "demeter", h.Round, 0)); err != nil || o.Failed || o.Rejected {
				t.Fatalf("VERIF-HARNESS-ERROR add_hardfork: %v %+v", err, o)
			}
		}
		if forks == "demeter+electra" {
			if o, _, err := r.run(simminer.AddHardfork(h, s.Owner, "electra", h.Round, 0)); err != nil || o.Failed || o.Rejected {
				t.Fatalf("VERIF-HARNESS-ERROR add_hardfork: %v %+v", err, o)
			}
		}
		st.Class("forks=" + forks)
		steps := rapid.IntRange(6, vkit.Scale(30, 60)).Draw(t, "steps")
		failed, afterFailed := 0, 0
		for i := 0; i < steps; i++ {
			if rapid.IntRange(0, 14).Draw(t, "blockBoundary") == 7 {
				h.NextBlock(1, int64(rapid.SampledFrom([]int{1, 30, 20000}).Draw(t, "seconds")))
				r.newBlock()
				continue
			}
			txn := e.FailingCall(t)
			before := r.failedInBlock
			o, wrote, err := r.run(txn)
			if err != nil {
				dump("C02", h)
				t.Fatalf("%s", err.Error())
			}
			if !o.Failed && !o.Rejected && before > 0 {
				afterFailed++
				st.Class("successful_call_after_failed_call_in_block")
			}
			if o.Failed {
				failed++
				st.Class("failed_call")
				if wrote {
					st.Class("failed_after_writing")
					st.Class("rolled_back/" + h.Label(txn.ToClientID) + "." + txn.FunctionName)
					st.NonTrivial(txn.ToClientID, txn.FunctionName, o.Output)
				} else {
					// early failures still count for distinctness, separately
					st.Class("failed_early")
				}
			}
		}
		st.Case()
		for k, v := range e.Classes {
			st.ClassN(k, v)
		}
		if st.WantSample(failed > 0) {
			st.Sample(failed > 0, h.Render(20))
		}
	})
}

// ---------------------------------------------------------------------------
// C06 block execution is deterministic

type blockResult struct {
	Root     string
	Changes  int
	Statuses []int
	Outputs  []string
	Events   []string
}

func canon(r sim.Replayed) blockResult {
	br := blockResult{Root: r.Root, Changes: r.Changes, Statuses: r.Statuses, Outputs: r.Outputs}
	for _, e := range r.Events {
		d, _ := json.Marshal(e.Data)
		br.Events = append(br.Events, fmt.Sprintf("%v|%v|%s|%s|%s", e.Type, e.Tag, e.TxHash, e.Index, d))
	}
	return br
}

func TestC06_DeterministicExecution(t *testing.T) {
	s := boot(t)
	K := vkit.Scale(6, 16)
	st := vkit.For("C06").SetRule(fmt.Sprintf("blocks of 5..40 generated transactions (sends, failing and succeeding contract calls, governance calls with several invalid fields at once, calls touching several accounts) are built once and then executed %d more times from the same prior state through Chain.UpdateState with fresh state objects - Go re-randomises every map iteration and the scheduler interleaves the contract goroutine differently each time - alternately with an isolated cold state cache and through the chain's shared warm cache, and under GOMAXPROCS 1 and all cores; oracle: identical (state root, change count, per-transaction status and output, ordered event list as type|tag|txn|index|canonical JSON) in every run and identical to what the generator computed; non-trivial = block with >= 1 chargeable failure and >= 1 call that ranges over a map of >= 2 entries (settings update with >= 2 fields, or a transaction touching >= 3 accounts); distinct by block fingerprint", K))
	rapid.Check(t, func(t *rapid.T) {
		h := s.NewHistory(s.Genesis)
		e := gen.NewEnv(h)
		// a little prior history so that the block does not start from genesis
		for i := 0; i < rapid.IntRange(0, 6).Draw(t, "warmup"); i++ {
			if _, err := h.Do(e.Basic(t)); err != nil {
				t.Fatalf("%s", err.Error())
			}
		}
		h.NextBlock(1, 5)
		n := rapid.IntRange(5, vkit.Scale(25, 40)).Draw(t, "txns")
		failed, multi := 0, 0
		for i := 0; i < n; i++ {
			var txn *transaction.Transaction
			switch rapid.IntRange(0, 4).Draw(t, "family") {
			case 0:
				txn = e.Basic(t)
			case 1:
				txn = e.FailingCall(t)
			case 2:
				txn = e.FanOut(t)
				multi++
			default:
				txn = e.Governance(t)
				multi++
			}
			o, err := h.Do(txn)
			if err != nil {
				t.Fatalf("%s", err.Error())
			}
			if o.Failed {
				failed++
			}
		}
		genEvents := append([]event.Event{}, h.Cur.B.Events...)
		closed := h.NextBlock(1, 5)
		want := blockResult{Root: fmt.Sprintf("%x", []byte(closed.ClientStateHash)), Changes: closed.StateChangesCount}
		for _, x := range closed.Txns {
			want.Statuses = append(want.Statuses, x.Status)
			want.Outputs = append(want.Outputs, x.TransactionOutput)
		}
		for _, e := range genEvents {
			d, _ := json.Marshal(e.Data)
			want.Events = append(want.Events, fmt.Sprintf("%v|%v|%s|%s|%s", e.Type, e.Tag, e.TxHash, e.Index, d))
		}
		procs := runtime.GOMAXPROCS(0)
		defer runtime.GOMAXPROCS(procs)
		for k := 0; k < K; k++ {
			if k%4 == 3 {
				runtime.GOMAXPROCS(1)
			} else {
				runtime.GOMAXPROCS(procs)
			}
			r := s.Replay(closed, k%2 == 1)
			if r.Err != nil {
				dump("C06", h)
				t.Fatalf("%s", viol("C06", "replay-rejected", h, "re-executing the block's own transactions failed: %v (run %d)", r.Err, k).Error())
			}
			got := canon(r)
			if !reflect.DeepEqual(got, want) {
				what, key := diffResult(want, got)
				if !st.Known(key) {
					dump("C06", h)
					t.Fatalf("%s", viol("C06", key, h, "run %d of the same block on the same prior state (cache %s) differs from the generator's result in %s", k, map[bool]string{true: "warm", false: "cold"}[k%2 == 1], what).Error())
				}
			}
		}
		st.Case()
		st.ExtraAdd("block_executions", int64(K+1))
		for k, v := range e.Classes {
			st.ClassN(k, v)
		}
		nt := failed >= 1 && multi >= 1
		if nt {
			st.NonTrivial(string(h.JSON()))
		}
		if st.WantSample(nt) {
			st.Sample(nt, h.Render(20))
		}
	})
}

func diffResult(a, b blockResult) (string, string) {
	switch {
	case a.Root != b.Root:
		return fmt.Sprintf("the state root (%s vs %s)", a.Root[:12], b.Root[:12]), "state-root-differs"
	case a.Changes != b.Changes:
		return fmt.Sprintf("the change count (%d vs %d)", a.Changes, b.Changes), "change-count-differs"
	case !reflect.DeepEqual(a.Statuses, b.Statuses):
		return "transaction statuses", "status-differs"
	case !reflect.DeepEqual(a.Outputs, b.Outputs):
		for i := range a.Outputs {
			if i < len(b.Outputs) && a.Outputs[i] != b.Outputs[i] {
				return fmt.Sprintf("the output of transaction %d (%q vs %q)", i, trunc(a.Outputs[i]), trunc(b.Outputs[i])), "output-differs"
			}
		}
		return "transaction outputs", "output-differs"
	default:
		if len(a.Events) != len(b.Events) {
			return fmt.Sprintf("the number of events (%d vs %d)", len(a.Events), len(b.Events)), "event-list-differs"
		}
		for i := range a.Events {
			if a.Events[i] != b.Events[i] {
				sa, sb := map[string]int{}, map[string]int{}
				for _, x := range a.Events {
					sa[x]++
				}
				for _, x := range b.Events {
					sb[x]++
				}
				if reflect.DeepEqual(sa, sb) {
					return fmt.Sprintf("the order of events (first difference at %d: %s vs %s)", i, trunc(a.Events[i]), trunc(b.Events[i])), "event-order-differs"
				}
				return fmt.Sprintf("event %d (%s vs %s)", i, trunc(a.Events[i]), trunc(b.Events[i])), "event-list-differs"
			}
		}
	}
	return "nothing", "none"
}

func trunc(s string) string {
	if len(s) > 140 {
		return s[:140] + "..."
	}
	return s
}
