//go:build race

package c44kit

// RaceEnabled reports whether the binary was built with the race detector.
const RaceEnabled = true
