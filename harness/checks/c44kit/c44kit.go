// Package c44kit generates and runs concurrent programs (k goroutines x short
// operation lists over one shared object) for the C44 checks. The oracle is the
// Go race detector (the driver runs the test binary with
// GORACE="halt_on_error=1 exitcode=66"), a watchdog, and an optional invariant
// on the quiescent object. It imports only rapid and vkit so that in-package
// overlay tests of any 0chain package can use it.
package c44kit

import (
	"fmt"
	"os"
	"runtime"
	"sort"
	"strings"
	"sync"
	"testing"
	"time"

	"pgregory.net/rapid"
	"verifharness/vkit"
)

// Rule is the generation / non-triviality rule of C44 (all parts report into one statistics collector).
const Rule = "generated concurrent programs: node type (miner / sharder, which selects the admissible operations), 0..4 sequential set-up operations, then 2..4 goroutines x 1..6 operations over one shared object, each program repeated on fresh objects; objects: (a) one round.Round, (b) one published block.Block, (c) miner ValidateTransactions over generated multi-batch blocks with invalid transactions at drawn positions, the current round moving on and 1..3 blocks validated concurrently, (d) one chain.Chain's block / round maps, current round and latest deterministic block, (e) one miner.Round; operations are the exported calls real miner/sharder workers and handlers make, block objects are private to a goroutine until published; oracle: race detector silent (GORACE halt_on_error), every program finishes (watchdog), for (c) the verdict equals the block's validity; non-trivial = a program with two goroutines whose operations touch a common part of the object with at least one writer, for (c) a block with >= 2 batches in which a flag is raised (invalid transaction or round moved on); distinct by (object, set of conflicting operation pairs), for (c) by block shapes"

// Op is one operation of the shared object as a real worker issues it.
type Op struct {
	Name   string
	R, W   []string // parts of the object it reads / writes (for the non-trivial rule and the pair histogram)
	Weight int      // relative draw weight (0 = 1)
	// Role restricts the op to programs of one node type ("miner" / "sharder"; "" = both): an operation only
	// miners issue never runs concurrently with one only sharders issue.
	Role string
	// Fn runs the operation; g identifies the calling goroutine (0..3; Prelude for the sequential set-up
	// steps) so that an op can use objects private to its goroutine (e.g. its own copy of a received block).
	Fn func(g, arg int)
}

// Prelude is the goroutine index passed to operations of the sequential set-up phase.
const Prelude = 4

// KnownPair names two operations whose concurrent use is an open known finding:
// while known_findings.json lists Key as open, the generator never puts A and B
// into different goroutines of one program.
type KnownPair struct {
	Key  string
	A, B string
}

// Object describes the shared object of one part of the check.
type Object struct {
	Name  string
	Ops   []Op
	Known []KnownPair
	// Fresh builds a new shared object before every repetition; the Fn closures refer to it.
	Fresh func()
	// Quiesce checks the object after all goroutines have finished ("" = fine).
	Quiesce func() (key, text string)
	// Roles: node types whose programs are drawn (default miner and sharder).
	Roles []string
	// MaxOps per goroutine (default 6), MaxPrelude sequential set-up operations (default 4).
	MaxOps, MaxPrelude int
	// Reps: repetitions of each drawn program (quick, thorough); default 4 / 12.
	RepsQuick, RepsThorough int
}

const opTimeout = 40 * time.Second

type step struct {
	op  int
	arg int
}

func conflict(a, b *Op) bool {
	hit := func(ws, xs []string) bool {
		for _, w := range ws {
			for _, x := range xs {
				if w == x {
					return true
				}
			}
		}
		return false
	}
	return hit(a.W, b.W) || hit(a.W, b.R) || hit(b.W, a.R)
}

// Run draws programs with rapid and executes them.
func Run(t *testing.T, o Object) {
	if !RaceEnabled {
		t.Fatalf("VERIF-HARNESS-ERROR C44 part %q was built without -race: the race detector is the oracle", o.Name)
	}
	st := vkit.For("C44").SetRule(Rule)
	if o.MaxOps == 0 {
		o.MaxOps = 6
	}
	if o.MaxPrelude == 0 {
		o.MaxPrelude = 4
	}
	if o.RepsQuick == 0 {
		o.RepsQuick = 4
	}
	if o.RepsThorough == 0 {
		o.RepsThorough = 12
	}
	byName := map[string]int{}
	roles := o.Roles
	if len(roles) == 0 {
		roles = []string{"miner", "sharder"}
	}
	weightedFor := map[string][]int{}
	for i, op := range o.Ops {
		for _, role := range roles {
			if op.Role == "" || op.Role == role {
				w := op.Weight
				if w == 0 {
					w = 1
				}
				for k := 0; k < w; k++ {
					weightedFor[role] = append(weightedFor[role], i)
				}
			}
		}
	}
	for i, op := range o.Ops {
		if _, dup := byName[op.Name]; dup {
			t.Fatalf("VERIF-HARNESS-ERROR duplicate op %s", op.Name)
		}
		byName[op.Name] = i
	}
	// known pairs that are open right now
	excluded := map[[2]int]string{}
	for _, kp := range o.Known {
		a, okA := byName[kp.A]
		b, okB := byName[kp.B]
		if !okA || !okB {
			t.Fatalf("VERIF-HARNESS-ERROR known pair %s names unknown ops %s / %s", kp.Key, kp.A, kp.B)
		}
		if st.IsKnown(kp.Key) {
			excluded[[2]int{a, b}] = kp.Key
			excluded[[2]int{b, a}] = kp.Key
		}
	}
	rapid.Check(t, func(t *rapid.T) {
		role := rapid.SampledFrom(roles).Draw(t, "nodeType")
		weighted := weightedFor[role]
		k := rapid.IntRange(2, 4).Draw(t, "goroutines")
		var prelude []step
		for i, n := 0, rapid.IntRange(0, o.MaxPrelude).Draw(t, "prelude"); i < n; i++ {
			prelude = append(prelude, step{op: weighted[rapid.IntRange(0, len(weighted)-1).Draw(t, "preOp")], arg: rapid.IntRange(0, 7).Draw(t, "preArg")})
		}
		progs := make([][]step, k)
		for g := range progs {
			n := rapid.IntRange(1, o.MaxOps).Draw(t, "len")
			for i := 0; i < n; i++ {
				cand := weighted[rapid.IntRange(0, len(weighted)-1).Draw(t, "op")]
				if len(excluded) > 0 {
					// exclusion by construction: an op is re-drawn (deterministically: next admissible one) while it
					// would form an open known pair with an op already placed in another goroutine
					admissible := func(c int) bool {
						for h := range progs {
							if h == g {
								continue
							}
							for _, s := range progs[h] {
								if _, bad := excluded[[2]int{c, s.op}]; bad {
									return false
								}
							}
						}
						return true
					}
					ok := false
					for off := 0; off < len(o.Ops); off++ {
						c := (cand + off) % len(o.Ops)
						if (o.Ops[c].Role == "" || o.Ops[c].Role == role) && admissible(c) {
							if off > 0 {
								st.Class("excluded_known_pair/" + o.Name)
							}
							cand, ok = c, true
							break
						}
					}
					if !ok {
						continue
					}
				}
				progs[g] = append(progs[g], step{op: cand, arg: rapid.IntRange(0, 7).Draw(t, "arg")})
			}
		}
		render := func(ss []step) string {
			var parts []string
			for _, s := range ss {
				parts = append(parts, fmt.Sprintf("%s(%d)", o.Ops[s.op].Name, s.arg))
			}
			return "[" + strings.Join(parts, " ") + "]"
		}
		desc := "node=" + role + " prelude=" + render(prelude)
		for g := range progs {
			desc += fmt.Sprintf(" g%d=%s", g, render(progs[g]))
		}
		// the race detector ends the process at the first report: say what was running
		fmt.Fprintf(os.Stderr, "C44-PROGRAM object=%s %s\n", o.Name, desc)

		reps := vkit.Scale(o.RepsQuick, o.RepsThorough)
		for rep := 0; rep < reps; rep++ {
			o.Fresh()
			for _, s := range prelude {
				o.Ops[s.op].Fn(Prelude, s.arg)
			}
			var wg sync.WaitGroup
			start := make(chan struct{})
			for g := range progs {
				wg.Add(1)
				go func(g int) {
					defer wg.Done()
					<-start
					for _, s := range progs[g] {
						o.Ops[s.op].Fn(g, s.arg)
					}
				}(g)
			}
			finished := make(chan struct{})
			go func() { wg.Wait(); close(finished) }()
			close(start)
			select {
			case <-finished:
			case <-time.After(opTimeout):
				buf := make([]byte, 1<<20)
				buf = buf[:runtime.Stack(buf, true)]
				t.Fatalf("VERIF-HANG %s", vkit.Violation("C44", "hang/"+o.Name, "concurrent program did not finish within %v: %s\n%s", opTimeout, desc, buf))
			}
			if o.Quiesce != nil {
				if key, text := o.Quiesce(); key != "" {
					t.Fatalf("%s", vkit.Violation("C44", key, "%s :: program %s", text, desc))
				}
			}
		}

		// statistics
		st.Case()
		pairs := map[string]bool{}
		for g := range progs {
			for h := g + 1; h < len(progs); h++ {
				for _, a := range progs[g] {
					for _, b := range progs[h] {
						oa, ob := &o.Ops[a.op], &o.Ops[b.op]
						if conflict(oa, ob) {
							x, y := oa.Name, ob.Name
							if x > y {
								x, y = y, x
							}
							pairs[x+"~"+y] = true
						}
					}
				}
			}
		}
		var names []string
		for p := range pairs {
			names = append(names, p)
			st.Class("pair/" + o.Name + "/" + p)
		}
		sort.Strings(names)
		nt := len(names) > 0
		if nt {
			st.NonTrivial(o.Name, strings.Join(names, ","))
		}
		st.Class("programs/" + o.Name + "/" + role)
		if st.WantSample(nt) {
			st.Sample(nt, map[string]interface{}{"object": o.Name, "program": desc, "conflicting_pairs": names, "repetitions": reps})
		}
	})
}
