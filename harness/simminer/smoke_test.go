package simminer

import (
	"fmt"
	"testing"

	"0chain.net/chaincore/transaction"
	"github.com/0chain/common/core/currency"
	"verifharness/sim"
	"verifharness/vkit"
)

func TestMain(m *testing.M) { vkit.Main(m) }

func do(t *testing.T, h *sim.History, what string, txn *transaction.Transaction) sim.Outcome {
	t.Helper()
	o, err := h.Do(txn)
	if err != nil {
		t.Fatalf("%s: monitor: %v", what, err)
	}
	if e := MustOK(o, nil); e != nil {
		t.Fatalf("%s: %v", what, e)
	}
	return o
}

func node(t *testing.T, h *sim.History, tp Provider, id string) *NodeView {
	t.Helper()
	n, err := NodeOf(h.Cur.B, tp, id)
	if err != nil || n == nil {
		t.Fatalf("node %s %s: %v (nil=%v)", tp, id, err, n == nil)
	}
	return n
}

func TestSmoke(t *testing.T) {
	s, err := sim.Boot(sim.Options{})
	if err != nil {
		t.Fatalf("VERIF-HARNESS-ERROR boot: %v", err)
	}
	h := s.NewHistory(s.Genesis)

	g0, err := GlobalOf(h.Cur.B)
	if err != nil {
		t.Fatalf("global: %v", err)
	}
	fmt.Printf("global: %+v\n", *g0)
	if ms, _ := MinersOf(h.Cur.B); len(ms) != 0 {
		t.Fatalf("miners registered before Setup: %d", len(ms))
	}

	w, err := Setup(h)
	if err != nil {
		t.Fatalf("setup: %v", err)
	}
	ms, err := MinersOf(h.Cur.B)
	if err != nil || len(ms) != len(s.Miners) {
		t.Fatalf("miners after setup: %d %v", len(ms), err)
	}
	ss, err := ShardersOf(h.Cur.B)
	if err != nil || len(ss) != len(s.Sharders) {
		t.Fatalf("sharders after setup: %d %v", len(ss), err)
	}
	for _, n := range append(ms, ss...) {
		fmt.Println("registered:", n)
		if n.DelegateWallet != w.Node(n.ID).Delegate.ID || n.MinStake != g0.MinStakePerDelegate {
			t.Fatalf("unexpected settings: %+v", n)
		}
	}
	ph, err := PhaseOf(h.Cur.B)
	if err != nil {
		t.Fatalf("phase: %v", err)
	}
	fmt.Printf("phase: %+v\n", *ph)

	// the first block carries Setup; close it (nobody is staked: nothing can be distributed)
	if o, err := CloseBlock(h, 1, 2); MustOK(o, err) != nil {
		t.Fatalf("close setup block: %v", MustOK(o, err))
	}
	for _, n := range w.Miners {
		if v := node(t, h, Miner, n.ID()); v.Accrued() != 0 {
			t.Fatalf("unstaked miner was rewarded: %v", v)
		}
	}

	// stake: client0 on every miner's generator of the next blocks (miner0), client1 on sharder0 and sharder1
	c0, c1, c2, c3 := s.Clients[0], s.Clients[1], s.Clients[2], s.Clients[3]
	m0 := w.Miners[0]
	const stakeM, stakeS = 100 * ZCN, 50 * ZCN
	balBefore := sim.ViewOf(h.Cur.B).Balance(c0.ID)
	do(t, h, "stake miner0", Stake(h, c0, Miner, m0.ID(), stakeM, 0))
	if got := sim.ViewOf(h.Cur.B).Balance(c0.ID); balBefore-got != uint64(stakeM) {
		t.Fatalf("stake moved %d, want %d", balBefore-got, stakeM)
	}
	for _, sh := range w.Sharders {
		do(t, h, "stake "+sh.Wallet.Name, Stake(h, c1, Sharder, sh.ID(), stakeS, 0))
	}
	if v := node(t, h, Miner, m0.ID()); v.Staked() != stakeM || v.TotalStaked != stakeM || v.Pool(c0.ID) == nil {
		t.Fatalf("miner0 after stake: %v", v)
	}

	// several blocks with fee paying sends; check the distribution of every payFees
	g, _ := GlobalOf(h.Cur.B)
	var paidM, paidS currency.Coin
	for blk := 0; blk < 8; blk++ {
		var fees currency.Coin
		for i := 0; i <= blk%3; i++ {
			fee := currency.Coin(1e7 * (i + 1))
			do(t, h, "send", h.Tx(c2, c3.ID, 12345, fee, transaction.TxnTypeSend, ""))
			fees += fee
		}
		gen := w.Generator(h)
		before := map[string]currency.Coin{}
		for _, n := range append(append([]*Node{}, w.Miners...), w.Sharders...) {
			before[n.ID()] = node(t, h, n.Type, n.ID()).Accrued()
		}
		cur := h.Cur.B
		scBal := sim.ViewOf(cur).Balance(sim.MinerSC)
		o, err := h.Do(PayFees(h))
		if e := MustOK(o, err); e != nil {
			t.Fatalf("payFees block %d: %v", blk, e)
		}
		if sim.ViewOf(cur).Balance(sim.MinerSC) != scBal {
			t.Fatalf("payFees moved tokens")
		}
		var dM, dS currency.Coin
		line := fmt.Sprintf("round %d gen=%s fees=%d:", cur.Round, gen.Wallet.Name, fees)
		for _, n := range append(append([]*Node{}, w.Miners...), w.Sharders...) {
			d := node(t, h, n.Type, n.ID()).Accrued() - before[n.ID()]
			if d != 0 {
				line += fmt.Sprintf(" %s+%d", n.Wallet.Name, d)
			}
			if n.Type == Miner {
				dM += d
			} else {
				dS += d
			}
		}
		fmt.Println(line)
		// expected split: block reward * reward rate and the fees, each split by share_ratio
		reward := currency.Coin(float64(g.BlockReward) * g.RewardRate)
		mPart := currency.Coin(float64(reward)*g.ShareRatio) + currency.Coin(float64(fees)*g.ShareRatio)
		sPart := reward + fees - mPart
		wantM := mPart
		if gen.ID() != m0.ID() {
			wantM = 0 // the generator has no stake: its part is not credited to anybody
		}
		if dM != wantM || dS != sPart {
			t.Fatalf("block %d: miners got %d (want %d), sharders got %d (want %d)", blk, dM, wantM, dS, sPart)
		}
		paidM += dM
		paidS += dS
		h.NextBlock(1, 2)
		if gl, _ := GlobalOf(h.Cur.B); gl.LastRound != cur.Round {
			t.Fatalf("last round %d, want %d", gl.LastRound, cur.Round)
		}
	}
	vm := node(t, h, Miner, m0.ID())
	fmt.Println("after blocks:", vm)
	for _, sh := range w.Sharders {
		fmt.Println("after blocks:", node(t, h, Sharder, sh.ID()))
	}
	if vm.Accrued() != paidM || paidM == 0 || paidS == 0 {
		t.Fatalf("accrued %d, paid to miners %d, to sharders %d", vm.Accrued(), paidM, paidS)
	}
	// service charge goes to the pool reward, the rest to the only delegate pool
	if want := currency.Coin(float64(paidM) * vm.ServiceCharge); vm.Reward+2 < want || vm.Reward > want+2 {
		t.Fatalf("service charge %d, want about %d", vm.Reward, want)
	}

	// the staker collects its delegate pool reward, the delegate wallet the service charge
	poolReward := vm.Pool(c0.ID).Reward
	b0 := sim.ViewOf(h.Cur.B).Balance(c0.ID)
	scBal := sim.ViewOf(h.Cur.B).Balance(sim.MinerSC)
	o := do(t, h, "collect (staker)", CollectReward(h, c0, Miner, m0.ID(), 0))
	fmt.Println("collect_reward output:", o.Output)
	if got := sim.ViewOf(h.Cur.B).Balance(c0.ID) - b0; got != uint64(poolReward) {
		t.Fatalf("staker collected %d, want %d", got, poolReward)
	}
	d0 := sim.ViewOf(h.Cur.B).Balance(m0.Delegate.ID)
	do(t, h, "collect (delegate wallet)", CollectReward(h, m0.Delegate, Miner, m0.ID(), 0))
	if got := sim.ViewOf(h.Cur.B).Balance(m0.Delegate.ID) - d0; got != uint64(vm.Reward) {
		t.Fatalf("delegate wallet collected %d, want %d", got, vm.Reward)
	}
	if got := scBal - sim.ViewOf(h.Cur.B).Balance(sim.MinerSC); got != uint64(paidM) {
		t.Fatalf("contract paid %d, want %d", got, paidM)
	}
	if v := node(t, h, Miner, m0.ID()); v.Accrued() != 0 {
		t.Fatalf("rewards left after collecting: %v", v)
	}

	// settings, health checks, hard fork
	ch, nd := 0.2, 5
	do(t, h, "update_miner_settings", UpdateSettings(h, m0.Delegate, Miner, m0.ID(), &ch, &nd, 0))
	sh0 := w.Sharders[0]
	do(t, h, "update_sharder_settings", UpdateSettings(h, sh0.Delegate, Sharder, sh0.ID(), &ch, nil, 0))
	if v := node(t, h, Miner, m0.ID()); v.ServiceCharge != ch || v.NumDelegates != nd {
		t.Fatalf("settings not updated: %v", v)
	}
	if v := node(t, h, Sharder, sh0.ID()); v.ServiceCharge != ch || v.NumDelegates != 10 {
		t.Fatalf("sharder settings not updated: %v", v)
	}
	do(t, h, "miner_health_check", HealthCheck(h, m0, 0))
	do(t, h, "sharder_health_check", HealthCheck(h, sh0, 0))
	if v := node(t, h, Miner, m0.ID()); v.LastHealthCheck != int64(h.Now) {
		t.Fatalf("health check time %d, want %d", v.LastHealthCheck, h.Now)
	}
	do(t, h, "add_hardfork", AddHardfork(h, s.Owner, "verif_fork", h.Round+1000, 0))
	hf, err := HardForksOf(h.Cur.B, "verif_fork", "demeter")
	fmt.Println("hard forks:", hf, err)
	if hf["verif_fork"] != h.Round+1000 {
		t.Fatalf("hard fork not recorded: %v", hf)
	}
	if o, _ := h.Do(AddHardfork(h, c0, "other", 5, 0)); !o.Failed {
		t.Fatalf("add_hardfork by a client: %+v", o)
	}
	if o, _ := h.Do(Delete(h, s.Owner, Miner, w.Miners[3].ID(), 0)); !o.Failed {
		t.Fatalf("delete_miner expected to be disabled: %+v", o)
	} else {
		fmt.Println("delete_miner:", o.Output)
	}
	if o, err := CloseBlock(h, 1, 2); MustOK(o, err) != nil {
		t.Fatalf("close: %v", MustOK(o, err))
	}

	// unstake returns the stake (and the reward accrued meanwhile)
	vm = node(t, h, Miner, m0.ID())
	b0 = sim.ViewOf(h.Cur.B).Balance(c0.ID)
	o = do(t, h, "unstake", Unstake(h, c0, Miner, m0.ID(), 0))
	fmt.Println("unstake output:", o.Output)
	pending := currency.Coin(0)
	if p := vm.Pool(c0.ID); p != nil {
		pending = p.Reward
	}
	if got := sim.ViewOf(h.Cur.B).Balance(c0.ID) - b0; got != uint64(stakeM+pending) {
		t.Fatalf("unstake returned %d, want %d+%d", got, stakeM, pending)
	}
	if v := node(t, h, Miner, m0.ID()); v.Staked() != 0 || v.TotalStaked != 0 || len(v.Pools) != 0 {
		t.Fatalf("miner0 after unstake: %v", v)
	}

	// kill: only the owner; marks provider and pool dead, a dead pool earns nothing
	m1 := w.Miners[1]
	do(t, h, "stake miner1", Stake(h, c0, Miner, m1.ID(), stakeM, 0))
	if o, _ := h.Do(Kill(h, c0, Miner, m1.ID(), 0)); !o.Failed {
		t.Fatalf("kill_miner by a client: %+v", o)
	}
	do(t, h, "kill_miner", Kill(h, s.Owner, Miner, m1.ID(), 0))
	do(t, h, "kill_sharder", Kill(h, s.Owner, Sharder, w.Sharders[1].ID(), 0))
	v1 := node(t, h, Miner, m1.ID())
	fmt.Println("killed:", v1)
	if !v1.Killed || !v1.PoolDead {
		t.Fatalf("miner1 not dead: %v", v1)
	}
	if v := node(t, h, Sharder, w.Sharders[1].ID()); !v.Killed || !v.PoolDead {
		t.Fatalf("sharder1 not dead: %v", v)
	}
	for i := 0; i < 4; i++ {
		if o, err := CloseBlock(h, 1, 2); MustOK(o, err) != nil {
			t.Fatalf("close after kill: %v", MustOK(o, err))
		}
	}
	if v := node(t, h, Miner, m1.ID()); v.Accrued() != 0 {
		t.Fatalf("killed miner earned: %v", v)
	}
	// a reward round (round % reward_round_frequency == 0) takes the delete-nodes path of payFees
	if o, err := CloseBlock(h, g.RewardRoundFrequency-h.Round%g.RewardRoundFrequency, 600); MustOK(o, err) != nil {
		t.Fatalf("close before reward round: %v", MustOK(o, err))
	}
	if h.Round%g.RewardRoundFrequency != 0 {
		t.Fatalf("round %d is not a reward round", h.Round)
	}
	if o, err := CloseBlock(h, 1, 2); MustOK(o, err) != nil {
		t.Fatalf("close reward round %d: %v", h.Round-1, MustOK(o, err))
	}
	if ms, err := MinersOf(h.Cur.B); err != nil || len(ms) != len(s.Miners) {
		t.Fatalf("miners after reward round: %d %v", len(ms), err)
	}
	fmt.Println("end: applied", h.Applied, "failed", h.Failed, "rejected", h.Rejected)
	for _, l := range h.Render(12) {
		fmt.Println("  ", l)
	}
}

// TestTwoDelegates: a second, independent history on genesis; two stakers share a generator's rewards
// in proportion to their stakes after the service charge.
func TestTwoDelegates(t *testing.T) {
	s, err := sim.Boot(sim.Options{})
	if err != nil {
		t.Fatalf("VERIF-HARNESS-ERROR boot: %v", err)
	}
	h := s.NewHistory(s.Genesis)
	w, err := SetupWith(h, SetupOptions{ServiceCharge: 0.25, NumDelegates: 2})
	if err != nil {
		t.Fatalf("setup: %v", err)
	}
	gen := w.Generator(h)
	c0, c1, c2 := s.Clients[0], s.Clients[1], s.Clients[2]
	do(t, h, "stake c0", Stake(h, c0, Miner, gen.ID(), 30*ZCN, 0))
	do(t, h, "stake c1", Stake(h, c1, Miner, gen.ID(), 10*ZCN, 0))
	if o, _ := h.Do(Stake(h, c2, Miner, gen.ID(), 10*ZCN, 0)); !o.Failed {
		t.Fatalf("third delegate accepted although num_delegates=2: %+v", o)
	}
	if o, _ := h.Do(Stake(h, c2, Sharder, gen.ID(), 10*ZCN, 0)); !o.Failed {
		t.Fatalf("staking a miner as a sharder accepted: %+v", o)
	}
	g, _ := GlobalOf(h.Cur.B)
	if o, err := CloseBlock(h, 1, 2); MustOK(o, err) != nil {
		t.Fatalf("close: %v", MustOK(o, err))
	}
	v := node(t, h, Miner, gen.ID())
	fmt.Println(v)
	total := currency.Coin(float64(g.BlockReward) * g.RewardRate * g.ShareRatio) // no fees in the block
	charge := currency.Coin(float64(total) * 0.25)
	rest := total - charge
	if v.Reward != charge || v.Pool(c0.ID).Reward != rest*3/4 || v.Pool(c1.ID).Reward != rest/4 {
		t.Fatalf("split of %d: charge %d (want %d), c0 %d (want %d), c1 %d (want %d)", total, v.Reward, charge,
			v.Pool(c0.ID).Reward, rest*3/4, v.Pool(c1.ID).Reward, rest/4)
	}
}
