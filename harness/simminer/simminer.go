// Package simminer drives the miner smart contract (0chain.net/smartcontract/minersc)
// through the sim harness: registration of the magic-block nodes, transaction
// builders for every public function of the contract that matters to staking and
// rewards, the generator's payFees transaction, and read-only views of the contract state.
//
// Everything is deterministic: ids and keys come from sim.NewWallet, time from the history.
package simminer

import (
	"fmt"
	"strconv"

	"0chain.net/chaincore/transaction"
	"github.com/0chain/common/core/currency"
	"verifharness/sim"
)

// Provider types as the contract encodes them in requests (spenum.Provider).
type Provider int

const (
	Miner   Provider = 1
	Sharder Provider = 2
)

func (p Provider) String() string {
	switch p {
	case Miner:
		return "miner"
	case Sharder:
		return "sharder"
	}
	return "provider" + strconv.Itoa(int(p))
}

// ZCN is one token in the smallest unit.
const ZCN currency.Coin = 1e10

// Node is a magic-block miner or sharder the harness registered in the contract.
type Node struct {
	Type Provider
	// Wallet carries the node's own id and public key (no private key: Scheme is nil). The node's
	// own transactions (add_*, *_health_check, payFees) are sent from it.
	Wallet *sim.Wallet
	// Delegate is the delegate wallet (owned by the harness): it may update the node's settings
	// and collects the service charge.
	Delegate *sim.Wallet
	N2NHost  string
	Host     string
	Port     int
}

func (n *Node) ID() string { return n.Wallet.ID }

// World is what Setup registered.
type World struct {
	S        *sim.Sim
	Miners   []*Node // same order as s.Miners
	Sharders []*Node // same order as s.Sharders
	byID     map[string]*Node
}

// Node by id (nil when unknown).
func (w *World) Node(id string) *Node { return w.byID[id] }

// Generator is the node that generates the history's current block.
func (w *World) Generator(h *sim.History) *Node { return w.byID[h.Cur.B.MinerID] }

// SetupOptions are the settings every node registers with.
type SetupOptions struct {
	ServiceCharge float64       // <= global max_charge (0.5 as shipped); default 0.1
	NumDelegates  int           // <= global max_delegates (200 as shipped); default 10
	MinStake      currency.Coin // sent in the request; the contract overwrites it with min_stake_per_delegate
	DelegateFunds currency.Coin // sent from the owner to every delegate wallet so that it can pay fees; default 10 ZCN, 0 keeps default
	NoFunding     bool          // do not fund the delegate wallets
}

func (o SetupOptions) withDefaults() SetupOptions {
	if o.ServiceCharge == 0 {
		o.ServiceCharge = 0.1
	}
	if o.NumDelegates == 0 {
		o.NumDelegates = 10
	}
	if o.MinStake == 0 {
		o.MinStake = ZCN
	}
	if o.DelegateFunds == 0 {
		o.DelegateFunds = 10 * ZCN
	}
	return o
}

// Setup registers all magic-block miners and sharders with default settings.
func Setup(h *sim.History) (*World, error) { return SetupWith(h, SetupOptions{}) }

// SetupWith registers all magic-block miners (add_miner) and sharders (add_sharder), each from the
// node's own id, with a delegate wallet "mdelegate<i>" / "sdelegate<i>" the harness owns. The delegate
// wallets are made known to the history (and funded by the owner unless NoFunding).
func SetupWith(h *sim.History, opt SetupOptions) (*World, error) {
	opt = opt.withDefaults()
	s := h.S
	w := &World{S: s, byID: map[string]*Node{}}
	mk := func(tp Provider, i int, id string) (*Node, error) {
		pool, role, label := s.MB.Miners, "mdelegate", "miner"
		if tp == Sharder {
			pool, role, label = s.MB.Sharders, "sdelegate", "sharder"
		}
		mbn := pool.GetNode(id)
		if mbn == nil {
			return nil, fmt.Errorf("simminer: %s %s is not in the magic block", label, id)
		}
		n := &Node{
			Type:     tp,
			Wallet:   &sim.Wallet{Name: fmt.Sprintf("%s%d", label, i), ID: id, PublicKey: mbn.PublicKey},
			Delegate: sim.NewWallet(role, i),
			N2NHost:  mbn.N2NHost,
			Host:     mbn.Host,
			Port:     mbn.Port,
		}
		if n.Delegate.ID == id {
			return nil, fmt.Errorf("simminer: delegate wallet equals node id %s", id)
		}
		h.Know(n.Delegate.ID, n.Delegate.Name)
		w.byID[id] = n
		return n, nil
	}
	for i, id := range s.Miners {
		n, err := mk(Miner, i, id)
		if err != nil {
			return nil, err
		}
		w.Miners = append(w.Miners, n)
	}
	for i, id := range s.Sharders {
		n, err := mk(Sharder, i, id)
		if err != nil {
			return nil, err
		}
		w.Sharders = append(w.Sharders, n)
	}
	for _, n := range append(append([]*Node{}, w.Miners...), w.Sharders...) {
		if !opt.NoFunding {
			if err := MustOK(h.Do(h.Tx(s.Owner, n.Delegate.ID, opt.DelegateFunds, 0, transaction.TxnTypeSend, ""))); err != nil {
				return nil, fmt.Errorf("simminer: funding %s: %v", n.Delegate.Name, err)
			}
		}
		if err := MustOK(h.Do(AddNode(h, n, opt.ServiceCharge, opt.NumDelegates, opt.MinStake, 0))); err != nil {
			return nil, fmt.Errorf("simminer: registering %s: %v", n.Wallet.Name, err)
		}
	}
	return w, nil
}

// MustOK turns the result of h.Do into an error unless the transaction was applied successfully.
func MustOK(o sim.Outcome, err error) error {
	switch {
	case err != nil:
		return err
	case o.Rejected:
		return fmt.Errorf("rejected: %v", o.Err)
	case o.Failed:
		return fmt.Errorf("failed: %s", o.Output)
	}
	return nil
}

// ---------------------------------------------------------------------------
// request payloads (JSON field names are those of the contract's structs)

type providerJSON struct {
	ID           string `json:"id"`
	ProviderType int    `json:"provider_type,omitempty"`
}

type simpleNodeJSON struct {
	providerJSON
	N2NHost   string `json:"n2n_host,omitempty"`
	Host      string `json:"host,omitempty"`
	Port      int    `json:"port,omitempty"`
	PublicKey string `json:"public_key,omitempty"`
	ShortName string `json:"short_name,omitempty"`
}

type settingsJSON struct {
	DelegateWallet string         `json:"delegate_wallet,omitempty"`
	NumDelegates   *int           `json:"num_delegates,omitempty"`
	MinStake       *currency.Coin `json:"min_stake,omitempty"`
	ServiceCharge  *float64       `json:"service_charge,omitempty"`
}

type stakePoolJSON struct {
	Settings settingsJSON `json:"settings"`
}

// minerNodeJSON is minersc.MinerNode / dto.MinerDtoNode as a client sends it.
type minerNodeJSON struct {
	Simple simpleNodeJSON `json:"simple_miner"`
	Pool   stakePoolJSON  `json:"stake_pool"`
}

// stakePoolRequest is stakepool.StakePoolRequest / CollectRewardRequest (same field names).
type stakePoolRequest struct {
	ProviderType int    `json:"provider_type"`
	ProviderID   string `json:"provider_id"`
}

// providerRequest is provider.ProviderRequest.
type providerRequest struct {
	ID string `json:"provider_id"`
}

// ---------------------------------------------------------------------------
// builders (nothing is executed; nonce = state nonce + 1 of the sender, time = h.Now)

// AddNode builds add_miner / add_sharder for a magic-block node, sent from the node's own id.
func AddNode(h *sim.History, n *Node, serviceCharge float64, numDelegates int, minStake, fee currency.Coin) *transaction.Transaction {
	fn := "add_miner"
	if n.Type == Sharder {
		fn = "add_sharder"
	}
	in := minerNodeJSON{
		Simple: simpleNodeJSON{
			providerJSON: providerJSON{ID: n.ID(), ProviderType: int(n.Type)},
			N2NHost:      n.N2NHost, Host: n.Host, Port: n.Port,
			PublicKey: n.Wallet.PublicKey, ShortName: n.Wallet.Name,
		},
		Pool: stakePoolJSON{Settings: settingsJSON{
			DelegateWallet: n.Delegate.ID, NumDelegates: &numDelegates, MinStake: &minStake, ServiceCharge: &serviceCharge,
		}},
	}
	return h.Call(n.Wallet, sim.MinerSC, fn, in, 0, fee)
}

// Stake builds addToDelegatePool: `from` locks `stake` tokens (the transaction value) on the node.
// The delegate pool id is the staking client's id; staking again adds to the same pool.
func Stake(h *sim.History, from *sim.Wallet, tp Provider, nodeID string, stake, fee currency.Coin) *transaction.Transaction {
	return h.Call(from, sim.MinerSC, "addToDelegatePool", stakePoolRequest{int(tp), nodeID}, stake, fee)
}

// Unstake builds deleteFromDelegatePool: pays out the pool's reward and returns the whole stake of `from`.
func Unstake(h *sim.History, from *sim.Wallet, tp Provider, nodeID string, fee currency.Coin) *transaction.Transaction {
	return h.Call(from, sim.MinerSC, "deleteFromDelegatePool", stakePoolRequest{int(tp), nodeID}, 0, fee)
}

// CollectReward builds collect_reward: a staker collects the reward of its delegate pool; the node's
// delegate wallet collects the accrued service charge (plus its own pool's reward when it staked).
func CollectReward(h *sim.History, from *sim.Wallet, tp Provider, nodeID string, fee currency.Coin) *transaction.Transaction {
	return h.Call(from, sim.MinerSC, "collect_reward", stakePoolRequest{int(tp), nodeID}, 0, fee)
}

// UpdateSettings builds update_miner_settings / update_sharder_settings; nil leaves a setting as it is.
// Only the node's delegate wallet is allowed to send it.
func UpdateSettings(h *sim.History, from *sim.Wallet, tp Provider, nodeID string, serviceCharge *float64, numDelegates *int, fee currency.Coin) *transaction.Transaction {
	fn := "update_miner_settings"
	if tp == Sharder {
		fn = "update_sharder_settings"
	}
	in := minerNodeJSON{
		Simple: simpleNodeJSON{providerJSON: providerJSON{ID: nodeID}},
		Pool:   stakePoolJSON{Settings: settingsJSON{NumDelegates: numDelegates, ServiceCharge: serviceCharge}},
	}
	return h.Call(from, sim.MinerSC, fn, in, 0, fee)
}

// HealthCheck builds miner_health_check / sharder_health_check, sent from the node's own id.
func HealthCheck(h *sim.History, n *Node, fee currency.Coin) *transaction.Transaction {
	fn := "miner_health_check"
	if n.Type == Sharder {
		fn = "sharder_health_check"
	}
	return h.Call(n.Wallet, sim.MinerSC, fn, nil, 0, fee)
}

// Kill builds kill_miner / kill_sharder (accepted from the contract owner only).
func Kill(h *sim.History, from *sim.Wallet, tp Provider, nodeID string, fee currency.Coin) *transaction.Transaction {
	fn := "kill_miner"
	if tp == Sharder {
		fn = "kill_sharder"
	}
	return h.Call(from, sim.MinerSC, fn, providerRequest{nodeID}, 0, fee)
}

// Delete builds delete_miner / delete_sharder. NOTE: both are disabled in this version of the
// contract ("delete miner is disabled"): the transaction is applied as failed whoever sends it.
func Delete(h *sim.History, from *sim.Wallet, tp Provider, nodeID string, fee currency.Coin) *transaction.Transaction {
	fn := "delete_miner"
	if tp == Sharder {
		fn = "delete_sharder"
	}
	in := minerNodeJSON{Simple: simpleNodeJSON{providerJSON: providerJSON{ID: nodeID}}}
	return h.Call(from, sim.MinerSC, fn, in, 0, fee)
}

// AddHardfork builds add_hardfork (owner only): records that the named hard fork activates at the round.
func AddHardfork(h *sim.History, from *sim.Wallet, name string, round int64, fee currency.Coin) *transaction.Transaction {
	in := struct {
		Fields map[string]string `json:"fields"`
	}{map[string]string{name: strconv.FormatInt(round, 10)}}
	return h.Call(from, sim.MinerSC, "add_hardfork", in, 0, fee)
}

// PayFees builds the built-in transaction a generator appends to its block: sent from the current
// block's miner id, fee 0, carrying the block's round. It distributes the fees of the transactions
// already in the block plus the block reward.
func PayFees(h *sim.History) *transaction.Transaction {
	id := h.Cur.B.MinerID
	w := &sim.Wallet{Name: h.Label(id), ID: id}
	if n := h.S.MB.Miners.GetNode(id); n != nil {
		w.PublicKey = n.PublicKey
	}
	in := struct {
		Round int64 `json:"round,omitempty"`
	}{h.Cur.B.Round}
	return h.Call(w, sim.MinerSC, "payFees", in, 0, 0)
}

// CloseBlock executes payFees as the last transaction of the current block and then opens the next
// block (h.NextBlock). The outcome is that of payFees; the block is closed whatever the outcome, except
// when a monitor reports an error (then nothing more is done and the error is returned).
func CloseBlock(h *sim.History, rounds, seconds int64) (sim.Outcome, error) {
	o, err := h.Do(PayFees(h))
	if err != nil {
		return o, err
	}
	h.NextBlock(rounds, seconds)
	return o, nil
}

// Attach rebuilds the World handle on a history whose base state already contains the registered nodes
// (no transaction is executed).
func Attach(h *sim.History) (*World, error) {
	s := h.S
	w := &World{S: s, byID: map[string]*Node{}}
	mk := func(tp Provider, i int, id string) (*Node, error) {
		pool, role, label := s.MB.Miners, "mdelegate", "miner"
		if tp == Sharder {
			pool, role, label = s.MB.Sharders, "sdelegate", "sharder"
		}
		mbn := pool.GetNode(id)
		if mbn == nil {
			return nil, fmt.Errorf("simminer: %s %s is not in the magic block", label, id)
		}
		n := &Node{Type: tp, Wallet: &sim.Wallet{Name: fmt.Sprintf("%s%d", label, i), ID: id, PublicKey: mbn.PublicKey},
			Delegate: sim.NewWallet(role, i), N2NHost: mbn.N2NHost, Host: mbn.Host, Port: mbn.Port}
		h.Know(n.Delegate.ID, n.Delegate.Name)
		w.byID[id] = n
		return n, nil
	}
	for i, id := range s.Miners {
		n, err := mk(Miner, i, id)
		if err != nil {
			return nil, err
		}
		w.Miners = append(w.Miners, n)
	}
	for i, id := range s.Sharders {
		n, err := mk(Sharder, i, id)
		if err != nil {
			return nil, err
		}
		w.Sharders = append(w.Sharders, n)
	}
	return w, nil
}
