package simminer

import (
	"fmt"
	"sort"
	"strings"
	"time"

	"0chain.net/chaincore/block"
	"0chain.net/smartcontract/minersc"
	"github.com/0chain/common/core/currency"
	"github.com/0chain/common/core/util"
	"verifharness/sim"
)

// The views read the contract state of a block (open or closed) through an uncached sim.View and the
// contract's own getters (shim verif_export_miner.go in package minersc). They are plain data.

// Global is the contract's global node.
type Global struct {
	ViewChange int64
	LastRound  int64
	OwnerID    string

	MaxN, MinN, MaxS, MinS       int
	MaxDelegates                 int
	TPercent, KPercent, XPercent float64

	MinStake, MaxStake  currency.Coin
	MinStakePerDelegate currency.Coin
	HealthCheckPeriod   time.Duration
	CooldownPeriod      int64

	BlockReward                 currency.Coin
	RewardRate                  float64
	ShareRatio                  float64 // miner's part; sharders get the rest
	MaxCharge                   float64
	Epoch                       int64
	RewardDeclineRate           float64
	RewardRoundFrequency        int64
	NumMinerDelegatesRewarded   int
	NumShardersRewarded         int
	NumSharderDelegatesRewarded int

	HasPrevMagicBlock bool
	Cost              map[string]int
}

// Pool is one delegate pool of a node's stake pool.
type Pool struct {
	ID           string // = id of the staking client
	DelegateID   string
	Balance      currency.Coin
	Reward       currency.Coin // accrued, not yet collected
	Status       string        // active | pending | deleted
	RoundCreated int64
	StakedAt     int64
}

// NodeView is a registered miner or sharder with its stake pool.
type NodeView struct {
	ID             string
	Type           Provider
	PublicKey      string
	N2NHost, Host  string
	Port           int
	DelegateWallet string
	ServiceCharge  float64
	NumDelegates   int
	MinStake       currency.Coin
	TotalStaked    currency.Coin // SimpleNode.TotalStaked as recorded (refreshed on lock/unlock)
	Reward         currency.Coin // stake pool reward: service charge accrued for the delegate wallet
	Pools          []Pool        // sorted by pool id
	Killed         bool          // provider killed flag
	PoolDead       bool          // stake pool killed flag (no more rewards)
	Delete         bool

	LastHealthCheck        int64
	LastSettingUpdateRound int64
}

// Staked is the sum of the delegate pool balances.
func (n *NodeView) Staked() currency.Coin {
	var t currency.Coin
	for _, p := range n.Pools {
		t += p.Balance
	}
	return t
}

// PoolRewards is the sum of the uncollected delegate pool rewards.
func (n *NodeView) PoolRewards() currency.Coin {
	var t currency.Coin
	for _, p := range n.Pools {
		t += p.Reward
	}
	return t
}

// Accrued is everything payFees credited to the node and that nobody collected yet.
func (n *NodeView) Accrued() currency.Coin { return n.Reward + n.PoolRewards() }

// Pool of a staker (nil when there is none).
func (n *NodeView) Pool(clientID string) *Pool {
	for i := range n.Pools {
		if n.Pools[i].ID == clientID {
			return &n.Pools[i]
		}
	}
	return nil
}

func (n *NodeView) String() string {
	var sb strings.Builder
	fmt.Fprintf(&sb, "%s %s staked=%d(total_stake=%d) charge=%.3f delegates<=%d min_stake=%d sc_reward=%d killed=%v dead=%v",
		n.Type, short(n.ID), n.Staked(), n.TotalStaked, n.ServiceCharge, n.NumDelegates, n.MinStake, n.Reward, n.Killed, n.PoolDead)
	for _, p := range n.Pools {
		fmt.Fprintf(&sb, " [pool %s bal=%d reward=%d %s]", short(p.ID), p.Balance, p.Reward, p.Status)
	}
	return sb.String()
}

func short(id string) string {
	if len(id) > 8 {
		return id[:8]
	}
	return id
}

// Phase is the view-change phase node.
type Phase struct {
	Stored       bool // false: never written (view change disabled); the contract then assumes Start at the current round
	Phase        string
	StartRound   int64
	CurrentRound int64
	Restarts     int64
}

// HardForkNames used by the node's code (chaincore/chain/state.WithActivation call sites).
var HardForkNames = []string{"demeter", "electra"}

// ---------------------------------------------------------------------------

// GlobalOf reads the global node of a block's state.
func GlobalOf(b *block.Block) (*Global, error) {
	gn, err := minersc.VerifGlobalNode(sim.ViewOf(b), b)
	if err != nil {
		return nil, err
	}
	g := &Global{
		ViewChange: gn.ViewChange, LastRound: gn.LastRound, OwnerID: gn.OwnerId,
		MaxN: gn.MaxN, MinN: gn.MinN, MaxS: gn.MaxS, MinS: gn.MinS, MaxDelegates: gn.MaxDelegates,
		TPercent: gn.TPercent, KPercent: gn.KPercent, XPercent: gn.XPercent,
		MinStake: gn.MinStake, MaxStake: gn.MaxStake, MinStakePerDelegate: gn.MinStakePerDelegate,
		HealthCheckPeriod: gn.HealthCheckPeriod, CooldownPeriod: gn.CooldownPeriod,
		BlockReward: gn.BlockReward, RewardRate: gn.RewardRate, ShareRatio: gn.ShareRatio, MaxCharge: gn.MaxCharge,
		Epoch: gn.Epoch, RewardDeclineRate: gn.RewardDeclineRate, RewardRoundFrequency: gn.RewardRoundFrequency,
		NumMinerDelegatesRewarded: gn.NumMinerDelegatesRewarded, NumShardersRewarded: gn.NumShardersRewarded,
		NumSharderDelegatesRewarded: gn.NumSharderDelegatesRewarded,
		HasPrevMagicBlock:           gn.PrevMagicBlock != nil,
		Cost:                        map[string]int{},
	}
	for k, v := range gn.Cost {
		g.Cost[k] = v
	}
	return g, nil
}

func nodeView(mn *minersc.MinerNode) *NodeView {
	n := &NodeView{
		ID: mn.ID, Type: Provider(mn.ProviderType), PublicKey: mn.PublicKey,
		N2NHost: mn.N2NHost, Host: mn.Host, Port: mn.Port,
		DelegateWallet: mn.Settings.DelegateWallet, ServiceCharge: mn.Settings.ServiceChargeRatio,
		NumDelegates: mn.Settings.MaxNumDelegates, MinStake: mn.Settings.MinStake,
		TotalStaked: mn.TotalStaked, Reward: mn.StakePool.Reward,
		Killed: mn.SimpleNode.HasBeenKilled, PoolDead: mn.StakePool.HasBeenKilled, Delete: mn.Delete,
		LastHealthCheck: int64(mn.SimpleNode.LastHealthCheck), LastSettingUpdateRound: mn.LastSettingUpdateRound,
	}
	for id, p := range mn.Pools {
		n.Pools = append(n.Pools, Pool{ID: id, DelegateID: p.DelegateID, Balance: p.Balance, Reward: p.Reward,
			Status: p.Status.String(), RoundCreated: p.RoundCreated, StakedAt: int64(p.StakedAt)})
	}
	sort.Slice(n.Pools, func(i, j int) bool { return n.Pools[i].ID < n.Pools[j].ID })
	return n
}

// NodeOf reads a registered miner or sharder; (nil, nil) when it is not registered.
func NodeOf(b *block.Block, tp Provider, id string) (*NodeView, error) {
	var (
		mn  *minersc.MinerNode
		err error
	)
	switch tp {
	case Miner:
		mn, err = minersc.VerifMinerNode(sim.ViewOf(b), b, id)
	case Sharder:
		mn, err = minersc.VerifSharderNode(sim.ViewOf(b), b, id)
	default:
		return nil, fmt.Errorf("simminer: provider type %d", tp)
	}
	if err == util.ErrValueNotPresent {
		return nil, nil
	}
	if err != nil {
		return nil, err
	}
	return nodeView(mn), nil
}

// MinersOf lists all registered miners in the order of the contract's list.
func MinersOf(b *block.Block) ([]*NodeView, error) {
	l, err := minersc.VerifAllMiners(sim.ViewOf(b), b)
	return nodeViews(l, err)
}

// ShardersOf lists all registered sharders in the order of the contract's list.
func ShardersOf(b *block.Block) ([]*NodeView, error) {
	l, err := minersc.VerifAllSharders(sim.ViewOf(b), b)
	return nodeViews(l, err)
}

func nodeViews(l []*minersc.MinerNode, err error) ([]*NodeView, error) {
	if err != nil {
		return nil, err
	}
	out := make([]*NodeView, 0, len(l))
	for _, mn := range l {
		out = append(out, nodeView(mn))
	}
	return out, nil
}

// PendingDeletes are the ids queued for removal at the next reward round (delete lists of the contract).
func PendingDeletes(b *block.Block, tp Provider) ([]string, error) {
	key := minersc.DeleteMinersKey
	if tp == Sharder {
		key = minersc.DeleteShardersKey
	}
	return minersc.VerifNodeIDs(sim.ViewOf(b), b, key)
}

// PhaseOf reads the phase node.
func PhaseOf(b *block.Block) (*Phase, error) {
	pn, stored, err := minersc.VerifPhaseNode(sim.ViewOf(b), b)
	if err != nil {
		return nil, err
	}
	return &Phase{Stored: stored, Phase: pn.Phase.String(), StartRound: pn.StartRound, CurrentRound: pn.CurrentRound, Restarts: pn.Restarts}, nil
}

// HardForkRound is the activation round recorded for a hard fork (ok=false: not recorded).
func HardForkRound(b *block.Block, name string) (round int64, ok bool, err error) {
	return minersc.VerifHardForkRound(sim.ViewOf(b), b, name)
}

// HardForksOf returns the recorded activation rounds of the given names (default: HardForkNames).
func HardForksOf(b *block.Block, names ...string) (map[string]int64, error) {
	if len(names) == 0 {
		names = HardForkNames
	}
	out := map[string]int64{}
	for _, n := range names {
		r, ok, err := HardForkRound(b, n)
		if err != nil {
			return nil, err
		}
		if ok {
			out[n] = r
		}
	}
	return out, nil
}
