// Package vkeys derives every key a check uses from VERIF_SEED, so that ids,
// MPT paths and id-sorted iteration orders are the same in a replay.
package vkeys

import (
	"crypto/ed25519"
	"crypto/sha256"
	"encoding/hex"
	"fmt"
	"strings"
	"sync"

	"0chain.net/core/encryption"
	"github.com/herumi/bls-go-binary/bls"
)

var (
	mu    sync.Mutex
	cache = map[string]*encryption.BLS0ChainScheme{}
)

func digest(seed uint64, role string, i int) [32]byte {
	return sha256.Sum256([]byte(fmt.Sprintf("verif|%d|%s|%d", seed, role, i)))
}

// BLSSecret returns the i-th derived BLS secret key of a role.
func BLSSecret(seed uint64, role string, i int) *bls.SecretKey {
	d := digest(seed, role, i)
	var sk bls.SecretKey
	if err := sk.SetLittleEndianMod(d[:]); err != nil {
		panic(err)
	}
	return &sk
}

// BLS returns the i-th derived BLS0Chain signature scheme of a role (cached).
func BLS(seed uint64, role string, i int) *encryption.BLS0ChainScheme {
	key := fmt.Sprintf("%d|%s|%d", seed, role, i)
	mu.Lock()
	defer mu.Unlock()
	if s, ok := cache[key]; ok {
		return s
	}
	sk := BLSSecret(seed, role, i)
	pub := sk.GetPublicKey().SerializeToHexStr()
	priv := hex.EncodeToString(sk.GetLittleEndian())
	s := encryption.NewBLS0ChainScheme()
	if err := s.ReadKeys(strings.NewReader(pub + "\n" + priv + "\n")); err != nil {
		panic(err)
	}
	cache[key] = s
	return s
}

// ED returns the i-th derived ed25519 scheme of a role.
func ED(seed uint64, role string, i int) *encryption.ED25519Scheme {
	d := digest(seed, "ed|"+role, i)
	priv := ed25519.NewKeyFromSeed(d[:])
	pub := priv.Public().(ed25519.PublicKey)
	s := encryption.NewED25519Scheme()
	if err := s.ReadKeys(strings.NewReader(hex.EncodeToString(pub) + "\n" + hex.EncodeToString(priv) + "\n")); err != nil {
		panic(err)
	}
	return s
}

// ID is the client/node id of a public key (hash of its bytes).
func ID(pubHex string) string {
	b, err := hex.DecodeString(pubHex)
	if err != nil {
		panic(err)
	}
	return encryption.Hash(b)
}
