// Package vstate builds real state contexts (real MPT, real cstate.StateContext)
// for in-package checks of contract-level packages.
package vstate

import (
	"context"
	"fmt"

	"0chain.net/chaincore/block"
	cstate "0chain.net/chaincore/chain/state"
	"0chain.net/chaincore/transaction"
	"0chain.net/core/encryption"
	"github.com/0chain/common/core/statecache"
	"github.com/0chain/common/core/util"
)

// World is a persistent in-memory node DB plus the current root.
type World struct {
	DB    *util.MemoryNodeDB
	Root  util.Key
	Round int64
	seq   int
	LFMB  *block.Block
}

func NewWorld() *World { return &World{DB: util.NewMemoryNodeDB(), Round: 1} }

// Txn opens a transaction-level trie on top of the current root and a state
// context over it. Commit with World.Commit, or just drop it.
type Txn struct {
	W     *World
	MPT   *util.MerklePatriciaTrie
	Ctx   *cstate.StateContext
	Block *block.Block
	T     *transaction.Transaction
}

func (w *World) Begin() *Txn {
	w.seq++
	db := util.NewLevelNodeDB(util.NewMemoryNodeDB(), w.DB, false)
	mpt := util.NewMerklePatriciaTrie(db, util.Sequence(w.Round), w.Root, statecache.NewEmpty())
	b := &block.Block{}
	b.Round = w.Round
	b.Hash = encryption.Hash(fmt.Sprintf("blk-%d-%d", w.Round, w.seq))
	t := &transaction.Transaction{}
	t.Hash = encryption.Hash(fmt.Sprintf("txn-%d", w.seq))
	t.ClientID = encryption.Hash("verif-client")
	t.ToClientID = encryption.Hash("verif-contract")
	ctx := cstate.NewStateContext(b, mpt, t,
		func(int64) *block.MagicBlock { return nil },
		func() *block.Block { return w.LFMB },
		func() *block.MagicBlock { return nil },
		func() encryption.SignatureScheme { return nil },
		func() *block.Block { return nil },
		nil)
	return &Txn{W: w, MPT: mpt, Ctx: ctx, Block: b, T: t}
}

// Commit persists the transaction's changes into the world.
func (x *Txn) Commit() error {
	if err := x.MPT.SaveChanges(context.Background(), x.W.DB, false); err != nil {
		return err
	}
	x.W.Root = x.MPT.GetRoot()
	return nil
}

// RecordHardFork stores a hard-fork activation round directly in the world.
func (w *World) RecordHardFork(name string, round int64) error {
	x := w.Begin()
	hf := cstate.NewHardFork(name, round)
	if _, err := x.Ctx.InsertTrieNode(hf.GetKey(), hf); err != nil {
		return err
	}
	return x.Commit()
}
